(** The byte-by-byte loops of vt.go (the scroll branch of lf, and the fill loop of AttachTo) and the
    one-pass summaries used by the model (Tty/Vt.v [copy_down], [blank_range], [blank_cells]) are
    the same function, including WHEN they panic.  Loops are written with fuel; the theorems
    supply exactly the number of iterations the Go loop makes. *)
From Coq Require Import NArith ZArith List Bool Lia.
From Coq Require Import ZifyBool ZifyN ZifyNat.
From FF Require Import Lib.Word Tty.Vt Tty.VtSpec Tty.ListFacts Tty.VtProofs.
Import ListNotations.
Local Open Scope N_scope.
Ltac Zify.zify_post_hook ::= Z.div_mod_to_equations.

(** [for offset := o; offset < e; offset++ { data[offset] = data[offset+stride] }] *)
Fixpoint copy_loop (fuel : nat) (d : list N) (o e stride : N) : option (list N) :=
  match fuel with
  | O => Some d
  | S fuel =>
      if o <? e then
        match getN d (o + stride) with
        | None => None                                   (* index out of range: run-time panic *)
        | Some x =>
            match setN d o x with
            | None => None
            | Some d' => copy_loop fuel d' (o + 1) e stride
            end
        end
      else Some d
  end.

(** [for offset := o; offset < lim; offset += 3 { data[offset+0], data[offset+1], data[offset+2] = ' ', fg, bg }] *)
Fixpoint blank_loop (fuel : nat) (d : list N) (o lim fg bg : N) : option (list N) :=
  match fuel with
  | O => Some d
  | S fuel =>
      if o <? lim then
        match setN d o 32 with
        | None => None
        | Some d1 =>
            match setN d1 (o + 1) fg with
            | None => None
            | Some d2 =>
                match setN d2 (o + 2) bg with
                | None => None
                | Some d3 => blank_loop fuel d3 (o + 3) lim fg bg
                end
            end
        end
      else Some d
  end.

Lemma list_ext_nthN (a b : list N) : length a = length b -> (forall i, nthN a i = nthN b i) -> a = b.
Proof.
  intros L H. apply nth_ext with (d := 0) (d' := 0); [exact L|].
  intros n _. specialize (H (N.of_nat n)). unfold nthN in H. now rewrite Nat2N.id in H.
Qed.

(** ---- the copy loop ---- *)
Lemma copy_loop_ok fuel : forall d o e stride,
  o <= e -> e + stride <= N.of_nat (length d) -> (N.to_nat (e - o) <= fuel)%nat ->
  exists d', copy_loop fuel d o e stride = Some d' /\ length d' = length d /\
    forall i, nthN d' i = if (o <=? i) && (i <? e) then nthN d (i + stride) else nthN d i.
Proof.
  induction fuel as [|fuel IH]; intros d o e stride Hoe HL HF; cbn [copy_loop].
  - exists d. split; [reflexivity|]. split; [reflexivity|]. intros i.
    destruct (N.leb_spec o i); destruct (N.ltb_spec i e); cbn [andb]; try reflexivity; lia.
  - destruct (N.ltb_spec o e) as [A|A].
    + rewrite getN_some by lia.
      destruct (setN_spec d o (nthN d (o + stride)) ltac:(lia)) as (d1 & E1 & L1 & P1). rewrite E1.
      destruct (IH d1 (o + 1) e stride ltac:(lia) ltac:(lia) ltac:(lia)) as (d' & E' & L' & P').
      exists d'. split; [exact E'|]. split; [lia|]. intros i. rewrite P', !P1.
      destruct (N.leb_spec (o + 1) i); destruct (N.leb_spec o i); destruct (N.ltb_spec i e); cbn [andb];
        destruct (N.eqb_spec (i + stride) o); destruct (N.eqb_spec i o); try reflexivity; try lia;
        (subst i; reflexivity).
    + exists d. split; [reflexivity|]. split; [reflexivity|]. intros i.
      destruct (N.leb_spec o i); destruct (N.ltb_spec i e); cbn [andb]; try reflexivity; lia.
Qed.

Lemma copy_loop_panics fuel : forall d o e stride,
  o < e -> N.of_nat (length d) < e + stride -> (N.to_nat (e - o) <= fuel)%nat ->
  copy_loop fuel d o e stride = None.
Proof.
  induction fuel as [|fuel IH]; intros d o e stride Hoe HL HF; [lia|]. cbn [copy_loop].
  destruct (N.ltb_spec o e); [|lia].
  destruct (N.lt_ge_cases (o + stride) (N.of_nat (length d))) as [A|A].
  - rewrite getN_some by lia.
    destruct (setN_spec d o (nthN d (o + stride)) ltac:(lia)) as (d1 & E1 & L1 & _). rewrite E1.
    apply IH; lia.
  - now rewrite getN_none by lia.
Qed.

(** the model's one-pass [copy_down] is the Go loop *)
Theorem copy_down_is_loop d s e stride :
  copy_down d s e stride = copy_loop (N.to_nat (e - s)) d s e stride.
Proof.
  destruct (N.le_gt_cases e s) as [A|A].
  - unfold copy_down. destruct (N.leb_spec e s); [|lia].
    replace (N.to_nat (e - s)) with 0%nat by lia. reflexivity.
  - destruct (N.lt_ge_cases (N.of_nat (length d)) (e + stride)) as [B|B].
    + rewrite copy_loop_panics by lia. unfold copy_down. destruct (N.leb_spec e s); [lia|].
      rewrite lenN_length. destruct (N.ltb_spec (N.of_nat (length d)) (e + stride)); [reflexivity|lia].
    + destruct (copy_loop_ok (N.to_nat (e - s)) d s e stride ltac:(lia) B ltac:(lia)) as (d1 & E1 & L1 & P1).
      destruct (copy_down_spec d s e stride ltac:(lia) B) as (d2 & E2 & L2 & P2).
      rewrite E1, E2. f_equal. apply list_ext_nthN; [lia|]. intros i. rewrite P1, P2.
      destruct (N.leb_spec s i); destruct (N.ltb_spec i s); destruct (N.ltb_spec i e); cbn [andb]; try reflexivity; lia.
Qed.

(** ---- the blank loop ---- *)
Lemma blank_loop_ok fuel : forall d o k fg bg,
  o + k * 3 <= N.of_nat (length d) -> (N.to_nat k <= fuel)%nat ->
  forall lim, o + (k - 1) * 3 < lim \/ k = 0 -> lim <= o + k * 3 ->
  exists d', blank_loop fuel d o lim fg bg = Some d' /\ length d' = length d /\
    forall i, nthN d' i = if (o <=? i) && (i <? o + k * 3)
                          then match (i - o) mod 3 with 0 => 32 | 1 => fg | _ => bg end
                          else nthN d i.
Proof.
  induction fuel as [|fuel IH]; intros d o k fg bg HL HF lim Hlo Hhi; cbn [blank_loop].
  - assert (k = 0) by lia. subst k. exists d. split; [reflexivity|]. split; [reflexivity|]. intros i.
    destruct (N.leb_spec o i); destruct (N.ltb_spec i (o + 0 * 3)); cbn [andb]; try reflexivity; lia.
  - destruct (N.ltb_spec o lim) as [A|A].
    + assert (Hk : 1 <= k) by lia.
      destruct (setN_spec d o 32 ltac:(lia)) as (d1 & E1 & L1 & P1). rewrite E1.
      destruct (setN_spec d1 (o + 1) fg ltac:(lia)) as (d2 & E2 & L2 & P2). rewrite E2.
      destruct (setN_spec d2 (o + 2) bg ltac:(lia)) as (d3 & E3 & L3 & P3). rewrite E3.
      destruct (IH d3 (o + 3) (k - 1) fg bg ltac:(lia) ltac:(lia) lim ltac:(lia) ltac:(lia)) as (d' & E' & L' & P').
      exists d'. split; [exact E'|]. split; [lia|]. intros i. rewrite P', P3, P2, P1.
      destruct (N.leb_spec (o + 3) i); destruct (N.ltb_spec i (o + 3 + (k - 1) * 3));
        destruct (N.leb_spec o i); destruct (N.ltb_spec i (o + k * 3)); cbn [andb]; try lia.
      * replace ((i - (o + 3)) mod 3) with ((i - o) mod 3) by lia. reflexivity.
      * destruct (N.eqb_spec i (o + 2)); destruct (N.eqb_spec i (o + 1)); destruct (N.eqb_spec i o); try lia; reflexivity.
      * destruct (N.eqb_spec i (o + 2)) as [->|]; [replace ((o + 2 - o) mod 3) with 2 by lia; reflexivity|].
        destruct (N.eqb_spec i (o + 1)) as [->|]; [replace ((o + 1 - o) mod 3) with 1 by lia; reflexivity|].
        destruct (N.eqb_spec i o) as [->|]; [replace ((o - o) mod 3) with 0 by lia; reflexivity|]. lia.
      * destruct (N.eqb_spec i (o + 2)); destruct (N.eqb_spec i (o + 1)); destruct (N.eqb_spec i o); try lia; reflexivity.
    + assert (k = 0) by lia. subst k. exists d. split; [reflexivity|]. split; [reflexivity|]. intros i.
      destruct (N.leb_spec o i); destruct (N.ltb_spec i (o + 0 * 3)); cbn [andb]; try reflexivity; lia.
Qed.

Lemma blank_loop_panics fuel : forall d o k fg bg,
  N.of_nat (length d) < o + k * 3 -> (N.to_nat k <= fuel)%nat ->
  forall lim, o + (k - 1) * 3 < lim -> 1 <= k ->
  blank_loop fuel d o lim fg bg = None.
Proof.
  induction fuel as [|fuel IH]; intros d o k fg bg HL HF lim Hlo Hk; [lia|]. cbn [blank_loop].
  destruct (N.ltb_spec o lim); [|lia].
  destruct (N.lt_ge_cases o (N.of_nat (length d))) as [A0|A0]; [|now rewrite setN_none by lia].
  destruct (setN_spec d o 32 ltac:(lia)) as (d1 & E1 & L1 & _). rewrite E1.
  destruct (N.lt_ge_cases (o + 1) (N.of_nat (length d))) as [A1|A1]; [|now rewrite setN_none by lia].
  destruct (setN_spec d1 (o + 1) fg ltac:(lia)) as (d2 & E2 & L2 & _). rewrite E2.
  destruct (N.lt_ge_cases (o + 2) (N.of_nat (length d))) as [A2|A2]; [|now rewrite setN_none by lia].
  destruct (setN_spec d2 (o + 2) bg ltac:(lia)) as (d3 & E3 & L3 & _). rewrite E3.
  apply (IH d3 (o + 3) (k - 1)); lia.
Qed.

(** the model's one-pass [blank_range] is the Go loop *)
Theorem blank_range_is_loop d e stride fg bg :
  blank_range d e stride fg bg = blank_loop (N.to_nat ((stride + 2) / 3)) d e (e + stride) fg bg.
Proof.
  set (k := (stride + 2) / 3).
  assert (Hk : stride <= k * 3 /\ (k - 1) * 3 < stride \/ (k = 0 /\ stride = 0)) by (unfold k; lia).
  unfold blank_range. fold k.
  destruct (N.eqb_spec k 0) as [K0|K0].
  - rewrite K0. cbn [N.to_nat blank_loop]. reflexivity.
  - rewrite lenN_length.
    destruct (N.ltb_spec (N.of_nat (length d)) (e + k * 3)) as [B|B].
    + rewrite (blank_loop_panics _ d e k) by lia. reflexivity.
    + destruct (blank_loop_ok (N.to_nat k) d e k fg bg B ltac:(lia) (e + stride) ltac:(lia) ltac:(lia)) as (d1 & E1 & L1 & P1).
      rewrite E1. f_equal. rewrite !takeN_firstn, !dropN_skipn.
      apply list_ext_nthN.
      * rewrite !app_length, firstn_length, skipn_length, blank_cells_length. lia.
      * intros i. rewrite P1. unfold nthN. rewrite nth_app3, firstn_length, blank_cells_length.
        destruct (N.leb_spec e i) as [C|C]; destruct (N.ltb_spec i (e + k * 3)) as [D|D]; cbn [andb].
        -- match goal with |- context [Nat.ltb ?a ?b] => destruct (Nat.ltb_spec a b); [lia|] end.
           match goal with |- context [Nat.ltb ?a ?b] => destruct (Nat.ltb_spec a b); [|lia] end.
           rewrite blank_cells_nth by lia.
           replace (N.to_nat i - Nat.min (N.to_nat e) (length d))%nat with (N.to_nat (i - e)) by lia.
           assert (M : ((N.to_nat (i - e)) mod 3)%nat = N.to_nat ((i - e) mod 3)).
           { generalize (i - e). intros q. change 3%nat with (N.to_nat 3). now rewrite <- N2Nat.inj_mod. }
           rewrite M.
           assert (Q : (i - e) mod 3 = 0 \/ (i - e) mod 3 = 1 \/ (i - e) mod 3 = 2) by lia.
           destruct Q as [Q|[Q|Q]]; rewrite Q; reflexivity.
        -- match goal with |- context [Nat.ltb ?a ?b] => destruct (Nat.ltb_spec a b); [lia|] end.
           match goal with |- context [Nat.ltb ?a ?b] => destruct (Nat.ltb_spec a b); [lia|] end.
           rewrite nth_skipn_add. f_equal. lia.
        -- match goal with |- context [Nat.ltb ?a ?b] => destruct (Nat.ltb_spec a b); [|lia] end.
           apply nth_firstn_lt. lia.
        -- lia.
Qed.

(** AttachTo's fill loop [for i := 0; i < len; i += 3 {...}] over a fresh [make([]uint8, len)]:
    [blank_cells (len/3)] when [len] is a multiple of 3, a panic otherwise — as modelled in [attach] *)
Theorem attach_fill_is_loop len fg bg :
  blank_loop (N.to_nat ((len + 2) / 3)) (repeat 0 (N.to_nat len)) 0 len fg bg =
  if len mod 3 =? 0 then Some (blank_cells (len / 3) fg bg) else None.
Proof.
  pose proof (blank_range_is_loop (repeat 0 (N.to_nat len)) 0 len fg bg) as H.
  replace (0 + len) with len in H by lia. rewrite <- H. clear H.
  unfold blank_range. rewrite lenN_length, repeat_length.
  destruct (N.eqb_spec (len mod 3) 0) as [M|M].
  - assert (E : (len + 2) / 3 = len / 3) by lia. rewrite E.
    destruct (N.eqb_spec (len / 3) 0) as [Z|Z].
    + assert (len = 0) by lia. subst len. reflexivity.
    + destruct (N.ltb_spec (N.of_nat (N.to_nat len)) (0 + len / 3 * 3)); [lia|].
      rewrite takeN_firstn, dropN_skipn. cbn [N.to_nat firstn app].
      rewrite skipn_all2 by (rewrite repeat_length; lia). now rewrite app_nil_r.
  - destruct (N.eqb_spec ((len + 2) / 3) 0); [lia|].
    destruct (N.ltb_spec (N.of_nat (N.to_nat len)) (0 + (len + 2) / 3 * 3)); [reflexivity|lia].
Qed.
