(** C18 down to framebuffer pixels: the terminal model (Tty/Vt.v) driving the model of
    VesaFbConsole (Console/Vesa.v), using the refinement of Console/Grid.v proved by the C19
    development (Console/VesaGridProofs.v) and its byte-level specifications.

    The lines vacated by a scroll hold arbitrary pixels (not the picture of any cell) until the
    terminal clears them; on the abstract side they are the cell [MARK], which no viewport cell can
    be (its "character" is 256).  C18_sync_inv holds for every junk, in particular for this one. *)
From Coq Require Import NArith ZArith List Bool Lia.
From Coq Require Import ZifyBool ZifyN ZifyNat.
From FF Require Import Lib.Word Gen.Consts_device_video_console.
From FF Require Import Console.Mem Console.Ops Console.Grid Console.Vga Console.VgaProofs Console.Vesa Console.VesaSpec
     Console.VesaProofs Console.VesaFillProofs Console.VesaScrollProofs Console.VesaWriteProofs Console.VesaGridProofs.
From FF Require Import Gen.Consts_device_tty Tty.Vt Tty.VtSpec Tty.VtConsSpec Tty.VtProofs Tty.VtCons Tty.VtConsProofs
     Tty.VtSmall Tty.VtVgaSync Tty.VtVesaSync.
Import ListNotations.
Local Open Scope N_scope.
Ltac Zify.zify_post_hook ::= Z.div_mod_to_equations.

Definition MARK : cell := (256, 0, 0).
Definition mark_junk : N -> N -> cell := fun _ _ => MARK.

Fixpoint apply_calls_mark (g : cgrid) (cs : list ccall) : cgrid :=
  match cs with
  | [] => g
  | k :: r => apply_calls_mark (apply_call mark_junk g k) r
  end.

Lemma apply_calls_mark_rel cs : forall g, calls_rel g cs (apply_calls_mark g cs).
Proof.
  induction cs as [|k t IH]; intros g; cbn [apply_calls_mark]; [constructor|]. econstructor. apply IH.
Qed.

(** the picture of a cell: colour bytes of pixel (q, r) *)
Definition pixbytes (c : vesa) (d : depth) (idx : N) : list N :=
  match pixel_bytes c d idx with Some b => b | None => [] end.

Definition paint (c : vesa) (f : font) (d : depth) (cl : cell) : cell_pix :=
  let '(ch, fg, bg) := cl in
  fun r q k => byte_at (pixbytes c d (if glyph_bit f ch r q then fg else bg)) k.

Definition RelV (c : vesa) (f : font) (d : depth) (m : fbuf) (g : cgrid) : Prop :=
  gw g = wchars c /\ gh g = hchars c /\
  forall x y, 1 <= x <= wchars c -> 1 <= y <= hchars c ->
    gcell g x y = MARK \/ cell_rel f d (gcell (vesa_grid c f m) x y) (paint c f d (gcell g x y)).

Definition call_okv (k : ccall) : Prop :=
  match k with
  | CWrite ch f b x y => ch < 256 /\ f < 256 /\ b < 256 /\ x < two32 /\ y < two32
  | CFill _ _ _ _ _ b => b < 256
  | CScroll d n => n < two32 /\ VgaProofs.dir_of d <> None
  end.

Lemma cell_rel_trans f d a b c0 : cell_rel f d a b -> cell_rel f d b c0 -> cell_rel f d a c0.
Proof. intros H1 H2 r q k Hr Hq Hk. now rewrite H1, H2. Qed.

Lemma cell_of_logo c f X Y : Y < offsetY c -> cell_of c f X Y = None.
Proof.
  intros H. unfold cell_of. destruct (N.leb_spec (offsetY c) Y); [lia|].
  now rewrite andb_false_r.
Qed.

Lemma protected_spec c i : protected c i <->
  (pw c * bytespp c <= i mod pitch c \/ i / pitch c < offsetY c).
Proof.
  unfold protected, place_of. destruct (N.ltb_spec (i mod pitch c) (pw c * bytespp c)) as [L|L]; split; intros HH; try lia; auto; try (destruct HH; [lia|assumption]).
Qed.

(** one console call *)
Lemma vesa_apply_refines c f d m g k :
  vesa_wf c f d m -> RelV c f d m g ->
  (forall r q, r < f_gh f -> q < f_gw f -> glyph_bit f 32 r q = false) ->
  call_okv k ->
  exists m', vesa_apply c m k = Mem.Ok m' /\ vesa_wf c f d m' /\
             RelV c f d m' (apply_call mark_junk g k) /\
             (forall i, protected c i -> load m' i = load m i).
Proof.
  intros Hwf (Gw & Gh & RC) Hsp Hk.
  destruct k as [ch fg bg x y|x y wd ht fg bg|dr n]; cbn [vesa_apply apply_call call_okv] in *.
  - (* Write *)
    destruct Hk as (H1 & H2 & H3 & H4 & H5).
    destruct (vesa_write_spec c f d m ch fg bg x y Hwf H1 H2 H3 H4 H5) as (m' & fgb & bgb & P1 & P2 & E & FL & BY).
    destruct (vesa_write_refines c f d m ch fg bg x y Hwf H1 H2 H3 H4 H5) as (m2 & fgb2 & bgb2 & P1' & P2' & E2 & Hwf' & (D1 & D2 & GE)).
    assert (m2 = m') by congruence. subst m2. assert (fgb2 = fgb) by congruence. assert (bgb2 = bgb) by congruence.
    subst fgb2 bgb2. clear P1' P2' E2.
    exists m'. split; [exact E|]. split; [exact Hwf'|]. split.
    + destruct (g_write_dims g x y (ch, fg, bg)) as (A1 & A2).
      split; [congruence|]. split; [congruence|]. intros cx cy Hcx Hcy.
      specialize (GE cx cy ltac:(apply in_grid_spec; cbn [vesa_grid gw gh]; lia)).
      unfold g_write in *.
      rewrite (in_grid_same (vesa_grid c f m) g x y) in GE by (cbn [vesa_grid gw gh]; congruence).
      destruct (in_grid g x y); cbn [gcell] in *.
      * destruct ((cx =? x) && (cy =? y)).
        -- right. eapply cell_rel_trans; [exact GE|]. intros r q k Hr Hq Hk0.
           unfold glyph_cell, paint, pixbytes. destruct (glyph_bit f ch r q); [now rewrite P1|now rewrite P2].
        -- destruct (RC cx cy Hcx Hcy) as [M|Rl]; [left; exact M|right; eapply cell_rel_trans; eassumption].
      * destruct (RC cx cy Hcx Hcy) as [M|Rl]; [left; exact M|right; eapply cell_rel_trans; eassumption].
    + intros i Hp. rewrite BY. destruct (in_grid (vesa_dims c) x y); [|reflexivity].
      unfold write_ref. unfold protected in Hp. destruct (place_of c i) as [|X Y k0]; [reflexivity|].
      now rewrite cell_of_logo.
  - (* Fill *)
    destruct (vesa_fill_spec c f d m x y wd ht fg bg Hwf Hk) as (m' & bgb & P1 & E & FL & BY).
    destruct (vesa_fill_refines c f d m x y wd ht fg bg Hwf Hk) as (m2 & bgb2 & P1' & E2 & Hwf' & (D1 & D2 & GE)).
    assert (m2 = m') by congruence. subst m2. assert (bgb2 = bgb) by congruence. subst bgb2. clear P1' E2.
    exists m'. split; [exact E|]. split; [exact Hwf'|]. split.
    + split; [exact Gw|]. split; [exact Gh|]. intros cx cy Hcx Hcy.
      specialize (GE cx cy ltac:(apply in_grid_spec; cbn [vesa_grid gw gh]; lia)).
      cbn [g_fill gcell] in *.
      replace (in_fill (vesa_grid c f m) x y wd ht cx cy) with (in_fill g x y wd ht cx cy) in GE
        by (unfold in_fill; cbn [vesa_grid gw gh]; now rewrite Gw, Gh).
      destruct (in_fill g x y wd ht cx cy).
      * right. eapply cell_rel_trans; [exact GE|]. intros r q k Hr Hq Hk0.
        unfold solid_cell, paint, pixbytes. rewrite Hsp by assumption. now rewrite P1.
      * destruct (RC cx cy Hcx Hcy) as [M|Rl]; [left; exact M|right; eapply cell_rel_trans; eassumption].
    + intros i Hp. rewrite BY. unfold fill_ref. unfold protected in Hp.
      destruct (place_of c i) as [|X Y k0]; [reflexivity|]. now rewrite cell_of_logo.
  - (* Scroll *)
    destruct Hk as (Hn & Hd). rewrite dir_of_same.
    destruct (VgaProofs.dir_of dr) as [sd|] eqn:Ed; [|congruence].
    destruct (vesa_scroll_spec c f d m dr n Hwf Hn) as (m' & E & FL & BY).
    destruct (vesa_scroll_refines c f d m dr sd n Hwf Hn Ed) as (m2 & E2 & Hwf' & (D1 & D2 & GE)).
    assert (m2 = m') by congruence. subst m2. clear E2.
    exists m'. split; [exact E|]. split; [exact Hwf'|]. split.
    + destruct (g_scroll_dims g sd n mark_junk) as (A1 & A2).
      split; [congruence|]. split; [congruence|]. intros cx cy Hcx Hcy.
      specialize (GE cx cy ltac:(apply in_grid_spec; cbn [vesa_grid gw gh]; lia)).
      unfold g_scroll, scroll_ok in *. cbn [vesa_grid gh gw] in GE. rewrite Gh.
      destruct ((1 <=? n) && (n <=? hchars c)) eqn:So; cbn [gcell] in *.
      * apply andb_true_iff in So as (S1 & S2). apply N.leb_le in S1. apply N.leb_le in S2.
        destruct sd.
        -- destruct (N.leb_spec (cy + n) (hchars c)); [|left; reflexivity].
           destruct (RC cx (cy + n) Hcx ltac:(lia)) as [M|Rl]; [left; exact M|right; eapply cell_rel_trans; eassumption].
        -- destruct (N.ltb_spec n cy); [|left; reflexivity].
           destruct (RC cx (cy - n) Hcx ltac:(lia)) as [M|Rl]; [left; exact M|right; eapply cell_rel_trans; eassumption].
      * destruct (RC cx cy Hcx Hcy) as [M|Rl]; [left; exact M|right; eapply cell_rel_trans; eassumption].
    + intros i Hp. rewrite BY, Ed. destruct (scroll_ok (vesa_dims c) n); [|reflexivity].
      apply protected_spec in Hp. unfold scroll_ref.
      destruct (N.ltb_spec (i mod pitch c) (pw c * bytespp c)); [|reflexivity].
      destruct Hp as [Hp|Hp]; [lia|].
      destruct sd.
      * destruct (N.leb_spec (offsetY c) (i / pitch c)); [lia|]. reflexivity.
      * destruct (N.leb_spec (offsetY c + n * f_gh f) (i / pitch c)); [lia|]. reflexivity.
Qed.

Lemma vesa_apply_calls_refines c f d cs : forall m g,
  vesa_wf c f d m -> RelV c f d m g ->
  (forall r q, r < f_gh f -> q < f_gw f -> glyph_bit f 32 r q = false) ->
  Forall call_okv cs ->
  exists m', vesa_apply_calls c m cs = Mem.Ok m' /\ vesa_wf c f d m' /\
             RelV c f d m' (apply_calls_mark g cs) /\
             (forall i, protected c i -> load m' i = load m i).
Proof.
  induction cs as [|k t IH]; intros m g Hwf HR Hsp HF; cbn [vesa_apply_calls apply_calls_mark].
  - exists m. auto.
  - inversion HF as [|? ? Hk Ht]; subst.
    destruct (vesa_apply_refines c f d m g k Hwf HR Hsp Hk) as (m1 & E1 & Hwf1 & HR1 & PR1). rewrite E1.
    destruct (IH m1 _ Hwf1 HR1 Hsp Ht) as (m2 & E2 & Hwf2 & HR2 & PR2).
    exists m2. split; [exact E2|]. split; [exact Hwf2|]. split; [exact HR2|].
    intros i Hp. now rewrite PR2, PR1.
Qed.

(** a byte of a cell's pixel is at the index [pix_index] computes *)
Lemma place_index c f d m i X Y k cx cy q r :
  vesa_wf c f d m -> place_of c i = PixelByte X Y k -> cell_of c f X Y = Some (cx, cy, q, r) ->
  i = pix_index c f cx cy r q k /\ 1 <= cx <= wchars c /\ 1 <= cy <= hchars c /\ r < f_gh f /\ q < f_gw f.
Proof.
  intros W HP HC.
  pose proof (geometry c f d m W) as (G1 & G2 & G3 & G4 & G5 & G6 & G7 & G8 & G9 & G10 & G11 & G12).
  pose proof (wf_gw _ _ _ _ W) as Hgw. pose proof (wf_gh _ _ _ _ W) as Hgh.
  clear W.
  unfold place_of in HP.
  pose proof (N.div_mod i (pitch c) ltac:(lia)) as Di.
  set (b := i mod pitch c) in *. set (Y0 := i / pitch c) in *. clearbody b Y0.
  destruct (N.ltb_spec b (pw c * bytespp c)) as [Hb|Hb]; [|discriminate].
  pose proof (N.div_mod b (bytespp c) ltac:(lia)) as Db.
  set (x0 := b / bytespp c) in *. set (k0 := b mod bytespp c) in *. clearbody x0 k0.
  injection HP as EX EY Ek. subst x0 Y0 k0.
  unfold cell_of in HC.
  destruct (N.ltb_spec X (wchars c * f_gw f)) as [HX|]; [|discriminate].
  destruct (N.leb_spec (offsetY c) Y) as [HY1|]; [|discriminate].
  destruct (N.ltb_spec Y (offsetY c + hchars c * f_gh f)) as [HY2|]; [|discriminate].
  cbn [andb] in HC.
  pose proof (N.div_mod X (f_gw f) ltac:(lia)) as DX.
  pose proof (N.div_mod (Y - offsetY c) (f_gh f) ltac:(lia)) as DY.
  pose proof (N.mod_lt X (f_gw f) ltac:(lia)) as MX.
  pose proof (N.mod_lt (Y - offsetY c) (f_gh f) ltac:(lia)) as MY.
  assert (CX : X / f_gw f < wchars c) by (apply N.div_lt_upper_bound; [lia|rewrite N.mul_comm; exact HX]).
  assert (CY : (Y - offsetY c) / f_gh f < hchars c).
  { apply N.div_lt_upper_bound; [lia|]. rewrite N.mul_comm. clear - HY1 HY2. lia. }
  set (a1 := X / f_gw f) in *. set (q1 := X mod f_gw f) in *.
  set (a2 := (Y - offsetY c) / f_gh f) in *. set (r1 := (Y - offsetY c) mod f_gh f) in *.
  clearbody a1 q1 a2 r1.
  injection HC as Ecx Ecy Eq Er. subst cx cy q r.
  split; [|lia].
  unfold pix_index.
  replace (a1 + 1 - 1) with a1 by lia. replace (a2 + 1 - 1) with a2 by lia.
  replace (offsetY c + a2 * f_gh f + r1) with Y by lia.
  replace (a1 * f_gw f + q1) with X by lia.
  lia.
Qed.

(** calls of the terminal are acceptable to the framebuffer driver *)
Lemma call_okv_of w h k : w < two32 -> h < two32 -> call_in_grid w h k -> call_small k -> call_okv k.
Proof.
  intros Hw Hh HG HS. destruct k as [ch fg bg x y|x y wd ht fg bg|dr n]; cbn [call_in_grid call_small call_okv] in *.
  - lia.
  - lia.
  - destruct HG as (-> & Hn). split; [lia|]. discriminate.
Qed.

(** ---- C18 for the framebuffer console, down to the pixels ---- *)
Theorem sync_pixels_fb_thm :
  forall (c : vesa) (f : font) (d : depth) (m0 : fbuf) sb tab (ops : list op),
    vesa_wf c f d m0 -> tab <= 255 -> wchars c * (hchars c + sb) * 3 < two32 -> Forall op_wf ops ->
    (forall r q, r < f_gh f -> q < f_gw f -> glyph_bit f 32 r q = false) ->
    exists v0 v m,
      attach (new_vt tab sb) (wchars c) (hchars c) vesa_defaultFg vesa_defaultBg = Vt.Ok v0 /\
      run_ops v0 ops = Vt.Ok v /\
      vesa_apply_calls c m0 (rev (trace v)) = Mem.Ok m /\
      (forall i, protected c i -> load m i = load m0 i) /\
      (st v = tty_StateActive -> forall i, byte_shows c f d m v i).
Proof.
  intros c f d m0 sb tab ops Hwf Ht Hsz WF Hsp.
  set (w := wchars c) in *. set (h := hchars c) in *.
  pose proof (wf_w1 _ _ _ _ Hwf) as Hw. pose proof (wf_h1 _ _ _ _ Hwf) as Hh. fold w in Hw. fold h in Hh.
  assert (Hfg : vesa_defaultFg < 256) by reflexivity.
  assert (Hbg : vesa_defaultBg < 256) by reflexivity.
  set (g0 := mkGrid w h mark_junk : cgrid).
  destruct (sync_inv_thm w h sb tab vesa_defaultFg vesa_defaultBg ops g0 Hw Hh Ht Hsz WF eq_refl eq_refl)
    as (v0 & v & E0 & E & SY).
  destruct (attach_sim w h sb tab vesa_defaultFg vesa_defaultBg Hw Hh Hsz) as (v0' & E0' & I0 & R0 & S0 & T0).
  assert (v0' = v0) by congruence. subst v0'.
  destruct (run_sim18 w h sb tab vesa_defaultFg vesa_defaultBg Hw Hh Hsz ops v0 _ I0 R0 WF) as (v' & E' & I & RR & S & T).
  assert (v' = v) by congruence. subst v'.
  set (r0 := r_init w h sb vesa_defaultFg vesa_defaultBg) in *.
  assert (TR : rev (trace v) = e_run w h sb tab vesa_defaultFg vesa_defaultBg (st v0) r0 ops).
  { rewrite T, T0, app_nil_r. apply rev_involutive. }
  pose proof (w_small w h sb Hw Hh Hsz) as Hw32. pose proof (hs_small w h sb Hw Hh Hsz) as Hh32.
  pose proof (rinv_of_model w h sb tab vesa_defaultFg vesa_defaultBg v0 _ I0 R0) as RI0.
  destruct (cs_run w h sb tab vesa_defaultFg vesa_defaultBg Hw Hh Hfg Hbg ops (st v0) r0 RI0
              (small_init w h sb vesa_defaultFg vesa_defaultBg Hw Hh Hfg Hbg) WF) as (CS & SM).
  assert (OK : Forall call_okv (rev (trace v))).
  { rewrite TR.
    pose proof (in_grid_run w h sb tab vesa_defaultFg vesa_defaultBg Hw Hh ops (st v0) _ RI0) as IG.
    rewrite Forall_forall in *. intros k Hk. apply (call_okv_of w h); [lia|lia|now apply IG|now apply CS]. }
  assert (RV0 : RelV c f d m0 g0).
  { split; [reflexivity|]. split; [reflexivity|]. intros x y _ _. left. reflexivity. }
  destruct (vesa_apply_calls_refines c f d (rev (trace v)) m0 g0 Hwf RV0 Hsp OK) as (m & Em & Hwfm & (_ & _ & RC) & PR).
  exists v0, v, m. split; [exact E0|]. split; [exact E|]. split; [exact Em|]. split; [exact PR|].
  intros Ha i. unfold byte_shows.
  destruct (place_of c i) as [|X Y k] eqn:EP; [exact Logic.I|].
  destruct (cell_of c f X Y) as [[[[cx cy] q] r]|] eqn:EC; [|exact Logic.I].
  intros Hk.
  destruct (place_index c f d m i X Y k cx cy q r Hwfm EP EC) as (Ei & Hcx & Hcy & Hr & Hq).
  destruct (SY _ (apply_calls_mark_rel (rev (trace v)) g0) Ha) as (_ & _ & SC).
  destruct I as ((Ga & Gvw & Gvh & Grest) & Dn & Cu).
  assert (EV : gcell (apply_calls_mark g0 (rev (trace v))) cx cy = v_cell v cx cy)
    by (apply SC; [rewrite Gvw|rewrite Gvh]; assumption).
  assert (SMC : small_cell (v_cell v cx cy)).
  { rewrite <- (r_cell_v_cell w h sb tab vesa_defaultFg vesa_defaultBg Hw Hh Hsz v _ cx cy
                  (conj (conj Ga (conj Gvw (conj Gvh Grest))) (conj Dn Cu)) RR Hcx Hcy).
    rewrite r_cell_lcell. destruct RR as ((_ & EVw & _) & _).
    destruct Dn as (_ & _ & DV & _). apply SM; lia. }
  destruct (RC cx cy Hcx Hcy) as [M|Rl].
  - exfalso. rewrite EV in M. rewrite M in SMC. unfold MARK, small_cell in SMC. lia.
  - rewrite EV in Rl. destruct (v_cell v cx cy) as [[ch fg] bg]. cbn [small_cell] in SMC.
    specialize (Rl r q k Hr Hq Hk). cbn [vesa_grid gcell paint] in Rl.
    destruct (pixel_bytes_ok c f d m (if glyph_bit f ch r q then fg else bg) Hwfm
                ltac:(destruct (glyph_bit f ch r q); lia)) as (bytes & PB & _).
    exists bytes. split; [exact PB|]. rewrite Ei, Rl. unfold pixbytes. now rewrite PB.
Qed.
