(** Facts about the bounds-checked list primitives of Tty/Vt.v: each is the standard-library
    function it mimics ([nth_error], [firstn], [skipn], [length]) with [N] indices. *)
From Coq Require Import NArith ZArith List Bool Lia.
From Coq Require Import ZifyBool ZifyN ZifyNat.
From FF Require Import Lib.Word Tty.Vt Tty.VtSpec.
Import ListNotations.
Local Open Scope N_scope.
Ltac Zify.zify_post_hook ::= Z.div_mod_to_equations.

Lemma getN_nth_error l : forall i, getN l i = nth_error l (N.to_nat i).
Proof.
  induction l as [|x r IH]; intros i; cbn [getN].
  - destruct (N.to_nat i); reflexivity.
  - destruct (N.eqb_spec i 0) as [->|Hi]; [reflexivity|].
    rewrite IH. replace (N.to_nat i) with (S (N.to_nat (N.pred i))) by lia. reflexivity.
Qed.

Lemma getN_some l i : (N.to_nat i < length l)%nat -> getN l i = Some (nthN l i).
Proof.
  intros H. rewrite getN_nth_error. unfold nthN. now apply nth_error_nth'.
Qed.

Lemma getN_none l i : (length l <= N.to_nat i)%nat -> getN l i = None.
Proof. intros H. rewrite getN_nth_error. now apply nth_error_None. Qed.

Lemma nthN_cons_0 x r : nthN (x :: r) 0 = x.
Proof. reflexivity. Qed.

Lemma nthN_cons_pos x r j : j <> 0 -> nthN (x :: r) j = nthN r (N.pred j).
Proof.
  intros H. unfold nthN. replace (N.to_nat j) with (S (N.to_nat (N.pred j))) by lia. reflexivity.
Qed.

Lemma setN_spec l : forall i v, (N.to_nat i < length l)%nat ->
  exists l', setN l i v = Some l' /\ length l' = length l /\
             forall j, nthN l' j = if j =? i then v else nthN l j.
Proof.
  induction l as [|x r IH]; intros i v H; cbn [length] in H; [lia|].
  cbn [setN]. destruct (N.eqb_spec i 0) as [->|Hi].
  - eexists; split; [reflexivity|]. split; [reflexivity|]. intros j.
    destruct (N.eqb_spec j 0) as [->|Hj]; [reflexivity|]. now rewrite !nthN_cons_pos.
  - destruct (IH (N.pred i) v) as (r' & E & L & P); [lia|]. rewrite E.
    eexists; split; [reflexivity|]. split; [cbn; now rewrite L|]. intros j.
    destruct (N.eqb_spec j 0) as [->|Hj].
    + destruct (N.eqb_spec 0 i); [lia|reflexivity].
    + rewrite !nthN_cons_pos by assumption. rewrite P.
      destruct (N.eqb_spec (N.pred j) (N.pred i)); destruct (N.eqb_spec j i); try reflexivity; lia.
Qed.

Lemma setN_none l : forall i v, (length l <= N.to_nat i)%nat -> setN l i v = None.
Proof.
  induction l as [|x r IH]; intros i v H; cbn [setN]; [reflexivity|]. cbn [length] in H.
  destruct (N.eqb_spec i 0); [lia|]. rewrite IH by lia. reflexivity.
Qed.

Lemma lenN_length l : lenN l = N.of_nat (length l).
Proof.
  unfold lenN. enough (forall a, fold_left (fun a (_ : N) => N.succ a) l a = a + N.of_nat (length l)) as E
    by (rewrite E; lia).
  induction l as [|x r IH]; intros a; cbn [fold_left length]; [lia|]. rewrite IH. lia.
Qed.

Lemma takeN_firstn l : forall n, takeN n l = firstn (N.to_nat n) l.
Proof.
  induction l as [|x r IH]; intros n; cbn [takeN].
  - now rewrite firstn_nil.
  - destruct (N.eqb_spec n 0) as [->|Hn]; [reflexivity|].
    replace (N.to_nat n) with (S (N.to_nat (N.pred n))) by lia. cbn [firstn]. now rewrite IH.
Qed.

Lemma dropN_skipn l : forall n, dropN n l = skipn (N.to_nat n) l.
Proof.
  induction l as [|x r IH]; intros n; cbn [dropN].
  - now rewrite skipn_nil.
  - destruct (N.eqb_spec n 0) as [->|Hn]; [reflexivity|].
    replace (N.to_nat n) with (S (N.to_nat (N.pred n))) by lia. cbn [skipn]. now rewrite IH.
Qed.

(** ---- pointwise view of firstn / skipn / app ---- *)
Lemma nth_firstn_lt {A} (l : list A) : forall n i d, (i < n)%nat -> nth i (firstn n l) d = nth i l d.
Proof.
  induction l as [|x r IH]; intros n i d H.
  - now rewrite firstn_nil.
  - destruct n; [lia|]. cbn [firstn]. destruct i; [reflexivity|]. cbn [nth]. apply IH. lia.
Qed.

Lemma nth_skipn_add {A} (l : list A) : forall n i d, nth i (skipn n l) d = nth (n + i) l d.
Proof.
  induction l as [|x r IH]; intros n i d.
  - rewrite skipn_nil. destruct i, n; reflexivity.
  - destruct n; [reflexivity|]. cbn [skipn Nat.add nth]. apply IH.
Qed.

Lemma nth_app3 {A} (a b c : list A) i d :
  nth i (a ++ b ++ c) d =
  if (i <? length a)%nat then nth i a d
  else if (i <? length a + length b)%nat then nth (i - length a) b d
  else nth (i - length a - length b) c d.
Proof.
  destruct (Nat.ltb_spec i (length a)) as [H|H].
  - now apply app_nth1.
  - rewrite app_nth2 by assumption.
    destruct (Nat.ltb_spec i (length a + length b)) as [H2|H2].
    + apply app_nth1. lia.
    + rewrite app_nth2 by lia. reflexivity.
Qed.

(** ---- blank cells ---- *)
Fixpoint blanks (k : nat) (fg bg : N) : list N :=
  match k with O => [] | S k => 32 :: fg :: bg :: blanks k fg bg end.

Lemma blank_cells_nat n fg bg : blank_cells n fg bg = blanks (N.to_nat n) fg bg.
Proof.
  unfold blank_cells. rewrite N2Nat.inj_iter.
  induction (N.to_nat n) as [|k IH]; [reflexivity|]. simpl. now rewrite IH.
Qed.

Lemma blanks_length k fg bg : length (blanks k fg bg) = (3 * k)%nat.
Proof. induction k as [|k IH]; cbn [blanks length]; [reflexivity|]. rewrite IH. lia. Qed.

Lemma blank_cells_length n fg bg : length (blank_cells n fg bg) = (3 * N.to_nat n)%nat.
Proof. rewrite blank_cells_nat. apply blanks_length. Qed.

Lemma blanks_nth k fg bg : forall i, (i < 3 * k)%nat ->
  nth i (blanks k fg bg) 0 = match (i mod 3)%nat with O => 32 | S O => fg | _ => bg end.
Proof.
  induction k as [|k IH]; intros i H; [lia|].
  cbn [blanks]. destruct i as [|[|[|i]]]; try reflexivity.
  cbn [nth]. rewrite IH by lia.
  replace (S (S (S i))) with (i + 1 * 3)%nat by lia. now rewrite Nat.mod_add.
Qed.

Lemma blank_cells_nth n fg bg i : (i < 3 * N.to_nat n)%nat ->
  nth i (blank_cells n fg bg) 0 = match (i mod 3)%nat with O => 32 | S O => fg | _ => bg end.
Proof. rewrite blank_cells_nat. apply blanks_nth. Qed.

(** three consecutive bytes at a multiple of 3 inside a run of blank cells *)
Lemma blank_cells_cell n fg bg k : k < n ->
  cellN (blank_cells n fg bg) (k * 3) = (32, fg, bg).
Proof.
  intros H. unfold cellN, nthN.
  rewrite !blank_cells_nth by lia.
  replace (N.to_nat (k * 3)) with (0 + N.to_nat k * 3)%nat by lia.
  replace (N.to_nat (k * 3 + 1)) with (1 + N.to_nat k * 3)%nat by lia.
  replace (N.to_nat (k * 3 + 2)) with (2 + N.to_nat k * 3)%nat by lia.
  rewrite !Nat.mod_add by lia. reflexivity.
Qed.

(** ---- seqN ---- *)
Lemma seqN_length a n : length (seqN a n) = N.to_nat n.
Proof. unfold seqN. now rewrite map_length, seq_length. Qed.

Lemma nth_map_seqN {A} (f : N -> A) n i d : i < n ->
  nth (N.to_nat i) (map f (seqN 0 n)) d = f i.
Proof.
  intros H. unfold seqN. rewrite map_map.
  rewrite nth_indep with (d' := f (N.of_nat 0)) by (rewrite map_length, seq_length; lia).
  rewrite map_nth with (f := fun k => f (N.of_nat k)). rewrite seq_nth by lia.
  f_equal. lia.
Qed.

Lemma seqN_S a n : seqN a (N.succ n) = a :: seqN (N.succ a) n.
Proof.
  unfold seqN. rewrite N2Nat.inj_succ. cbn [seq map]. rewrite N2Nat.id, N2Nat.inj_succ. reflexivity.
Qed.

Lemma seqN_0 a : seqN a 0 = [].
Proof. reflexivity. Qed.

Lemma nth_repeat_lt {A} (a d : A) : forall m n, (n < m)%nat -> nth n (repeat a m) d = a.
Proof.
  induction m as [|m IH]; intros n H; [lia|]. cbn [repeat]. destruct n; [reflexivity|].
  cbn [nth]. apply IH. lia.
Qed.

(** ---- upd (Tty/VtSpec.v) ---- *)
Lemma upd_length {A} (l : list A) : forall i f, length (upd l i f) = length l.
Proof. induction l as [|a r IH]; intros [|i] f; cbn [upd length]; auto. Qed.

Lemma upd_nth_same {A} (l : list A) : forall i f d, (i < length l)%nat -> nth i (upd l i f) d = f (nth i l d).
Proof.
  induction l as [|a r IH]; intros [|i] f d H; cbn [length] in H; try lia; cbn [upd nth]; auto.
  apply IH. lia.
Qed.

Lemma upd_nth_other {A} (l : list A) : forall i k f d, k <> i -> nth k (upd l i f) d = nth k l d.
Proof.
  induction l as [|a r IH]; intros [|i] [|k] f d H; cbn [upd nth]; auto; try congruence.
Qed.


(** ---- dropping line [v0] of [n] lines and appending a line ---- *)
Lemma scroll_rows {A} (ls : list (list A)) (bl : list A) (n v0 : N) :
  length ls = N.to_nat (n) -> v0 < n ->
  forall i, i < n ->
    nth (N.to_nat i) (firstn (N.to_nat v0) ls ++ skipn (S (N.to_nat v0)) ls ++ [bl]) [] =
    if i <? v0 then nth (N.to_nat i) ls []
    else if i <? n - 1 then nth (N.to_nat (i + 1)) ls [] else bl.
Proof.
  intros L Hv i Hi. rewrite nth_app3. rewrite firstn_length, skipn_length, L.
  destruct (N.ltb_spec i v0) as [A0|A0].
  - destruct (Nat.ltb_spec (N.to_nat i) (Nat.min (N.to_nat v0) (N.to_nat (n)))); [|lia].
    apply nth_firstn_lt. lia.
  - destruct (Nat.ltb_spec (N.to_nat i) (Nat.min (N.to_nat v0) (N.to_nat (n)))); [lia|].
    destruct (N.ltb_spec i (n - 1)) as [B|B].
    + destruct (Nat.ltb_spec (N.to_nat i) (Nat.min (N.to_nat v0) (N.to_nat (n)) + (N.to_nat (n) - S (N.to_nat v0)))); [|lia].
      rewrite nth_skipn_add. f_equal. lia.
    + destruct (Nat.ltb_spec (N.to_nat i) (Nat.min (N.to_nat v0) (N.to_nat (n)) + (N.to_nat (n) - S (N.to_nat v0)))); [lia|].
      replace (N.to_nat i - Nat.min (N.to_nat v0) (N.to_nat (n)) - (N.to_nat (n) - S (N.to_nat v0)))%nat with 0%nat by lia.
      reflexivity.
Qed.

Lemma scroll_length {A} (ls : list (list A)) (bl : list A) (n v0 : N) :
  length ls = N.to_nat (n) -> v0 < n ->
  length (firstn (N.to_nat v0) ls ++ skipn (S (N.to_nat v0)) ls ++ [bl]) = N.to_nat (n).
Proof.
  intros L Hv. rewrite !app_length, firstn_length, skipn_length, L. cbn [length]. lia.
Qed.


Lemma in_seqN x a n : In x (seqN a n) -> a <= x < a + n.
Proof.
  unfold seqN. rewrite in_map_iff. intros (k & <- & Hk). apply in_seq in Hk. lia.
Qed.

Lemma seqN_cons a n : 1 <= n -> seqN a n = a :: seqN (a + 1) (n - 1).
Proof.
  intros H. replace n with (N.succ (n - 1)) at 1 by lia. rewrite seqN_S. f_equal. f_equal. lia.
Qed.

