(** C18: the terminal model (Tty/Vt.v) composed with the cell-level console of Console/Grid.v.
    A console is a [grid] of cells (character, foreground, background); the calls recorded in the
    terminal's trace act on it with the cell-level semantics that C19 proves of the drivers:
    Write sets one in-grid cell, Fill clamps/clips and sets the cells to blank in the given
    colours, Scroll moves lines (the vacated lines hold driver-dependent junk).  Definitions only. *)
From Coq Require Import NArith List Bool.
From FF Require Import Gen.Consts_device_tty Console.Grid Tty.Vt Tty.VtSpec Tty.VtConsSpec.
Import ListNotations.
Local Open Scope N_scope.

Definition cgrid : Type := grid cell.

Definition dir_of (d : N) : option scroll_dir :=
  if d =? console_ScrollDirUp then Some ScrollUp
  else if d =? console_ScrollDirDown then Some ScrollDown
  else None.                      (* the drivers' [switch dir] has no other case: nothing happens *)

(** effect of one console call; [junk] is what the driver leaves in the lines vacated by a scroll *)
Definition apply_call (junk : N -> N -> cell) (g : cgrid) (c : ccall) : cgrid :=
  match c with
  | CWrite ch f b x y => g_write g x y (ch, f, b)
  | CFill x y wd ht f b => g_fill g x y wd ht (32, f, b)
  | CScroll d n => match dir_of d with Some dd => g_scroll g dd n junk | None => g end
  end.

(** [calls_rel g cs g']: [g'] is a possible console content after the calls [cs] (in the order they
    are made) starting from [g], for SOME choice of junk at every scroll *)
Inductive calls_rel : cgrid -> list ccall -> cgrid -> Prop :=
| calls_nil g : calls_rel g [] g
| calls_cons g c junk cs g' : calls_rel (apply_call junk g c) cs g' -> calls_rel g (c :: cs) g'.

(** cell [(x, y)] (1-based) of the viewport of a model state *)
Definition v_cell (v : vt) (x y : N) : cell :=
  cellN (data v) (((vy v + y - 1) * vw v + (x - 1)) * 3).

(** the console shows the viewport, in every cell *)
Definition shows (g : cgrid) (v : vt) : Prop :=
  gw g = vw v /\ gh g = vh v /\
  forall x y, 1 <= x <= vw v -> 1 <= y <= vh v -> gcell g x y = v_cell v x y.

(** a call whose effective area lies inside a [w] x [h] grid (no clamping or clipping needed) *)
Definition call_in_grid (w h : N) (c : ccall) : Prop :=
  match c with
  | CWrite _ _ _ x y => 1 <= x <= w /\ 1 <= y <= h
  | CFill x y wd ht _ _ => 1 <= x /\ 1 <= y /\ 1 <= wd /\ 1 <= ht /\ x + wd - 1 <= w /\ y + ht - 1 <= h
  | CScroll d n => d = console_ScrollDirUp /\ 1 <= n <= h
  end.

(** ---- executable composition for the correspondence driver ----
    The junk of a scroll is the old content of the vacated line (what the shipped drivers and the
    harness's cell-level console leave there). *)
Definition keep_junk (g : cgrid) : N -> N -> cell := gcell g.

Definition table (g : cgrid) : list (list cell) :=
  map (fun y => map (fun x => gcell g x y) (seqN 1 (gw g))) (seqN 1 (gh g)).

(** re-tabulate, so that lookups do not walk through the whole history of updates *)
Definition of_table (w h : N) (t : list (list cell)) : cgrid :=
  mkGrid w h (fun x y => nth (N.to_nat (x - 1)) (nth (N.to_nat (y - 1)) t []) (0, 0, 0)).

Definition normalize (g : cgrid) : cgrid := of_table (gw g) (gh g) (table g).

Fixpoint apply_calls (g : cgrid) (cs : list ccall) : cgrid :=
  match cs with
  | [] => g
  | c :: r => apply_calls (apply_call (keep_junk g) g c) r
  end.

(** case = 8 numbers describing the real console of the harness (kind, depth, padding, font, logo,
    colour layout, pixel margins: they do not concern the cell-level model, which gets [w] and [h])
    ++ tab :: scrollback :: w :: h :: fg :: bg :: m0 :: m1 :: m2 :: ops  (ops as in Tty/Vt.v,
    without attach); the console starts with every cell = (m0, m1, m2).
    observation per op = returned values ++ [cx; cy; vy; st; #calls; sum1; sum2 of the grid cells]
    a panic ends the case with 0xdead. *)
Definition grid_sum (g : cgrid) : N * N :=
  cksum (flat_map (fun row => flat_map (fun c : cell => let '(a, b, d) := c in [a; b; d]) row) (table g)).

Fixpoint run_obs18 (v : vt) (g : cgrid) (ops : list op) : list N :=
  match ops with
  | [] => []
  | o :: r =>
      match step (set_trace v []) o with
      | Ok (v', res) =>
          let calls := rev (trace v') in
          let g' := normalize (apply_calls g calls) in
          let '(a, b) := grid_sum g' in
          res ++ [cx v'; cy v'; vy v'; st v'; N.of_nat (length calls); a; b] ++ run_obs18 v' g' r
      | PanicOOB => [0xdead]
      end
  end.

Definition run_case (l : list N) : list N :=
  match l with
  | _ :: _ :: _ :: _ :: _ :: _ :: _ :: _ ::
    tab :: scrollback :: w :: h :: fg :: bg :: m0 :: m1 :: m2 :: rest =>
      match attach (new_vt tab scrollback) w h fg bg with
      | Ok v0 => run_obs18 v0 (mkGrid w h (fun _ _ => (m0, m1, m2))) (dec_ops (length rest) rest)
      | PanicOOB => [0xdead]
      end
  | _ => []
  end.
