(** C18 down to framebuffer pixels: definitions for the composition of the terminal model with the
    model of VesaFbConsole (Console/Vesa.v, C19); proofs in Tty/VtVesaProofs.v.  Definitions only. *)
From Coq Require Import NArith List Bool.
From FF Require Import Lib.Word Console.Mem Console.Ops Console.Grid Console.Vesa Console.VesaSpec.
From FF Require Import Tty.Vt Tty.VtSpec Tty.VtCons.
Import ListNotations.
Local Open Scope N_scope.

(** the framebuffer driver executing one console call / a sequence of calls *)
Definition vesa_apply (c : vesa) (m : fbuf) (k : ccall) : res :=
  match k with
  | CWrite ch f b x y => vesa_write c m ch f b x y
  | CFill x y wd ht f b => vesa_fill c m x y wd ht f b
  | CScroll d n => vesa_scroll c m d n
  end.

Fixpoint vesa_apply_calls (c : vesa) (m : fbuf) (cs : list ccall) : res :=
  match cs with
  | [] => Mem.Ok m
  | k :: r => match vesa_apply c m k with
              | Mem.Ok m' => vesa_apply_calls c m' r
              | bad => bad
              end
  end.

(** byte [i] of the framebuffer shows what the viewport of [v] says: if it is colour byte [k] of
    pixel (q, r) of cell (cx, cy), it is byte [k] of the packed palette colour — the cell's
    foreground where the glyph of the cell's character has its bit set, its background elsewhere *)
Definition byte_shows (c : vesa) (f : font) (d : depth) (m : fbuf) (v : vt) (i : N) : Prop :=
  match place_of c i with
  | Padding => True
  | PixelByte X Y k =>
      match cell_of c f X Y with
      | None => True
      | Some (cx, cy, q, r) =>
          k < ncomp d ->
          let '(ch, fg, bg) := v_cell v cx cy in
          exists bytes, pixel_bytes c d (if glyph_bit f ch r q then fg else bg) = Some bytes /\
                        load m i = byte_at bytes k
      end
  end.

(** bytes no console call of the terminal may change: the padding between pixel rows and the logo
    rows above the text area.  (The pixels right of the last text column are moved vertically by
    VesaFbConsole.Scroll together with the text — C19_vesa_scroll_rows — so they are not in this
    set.) *)
Definition protected (c : vesa) (i : N) : Prop :=
  match place_of c i with Padding => True | PixelByte _ Y _ => Y < offsetY c end.
