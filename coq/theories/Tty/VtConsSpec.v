(** What an ACTIVE reference terminal is expected to tell its console (property C18), written over
    the reference terminal of Tty/VtSpec.v: every stored cell is mirrored with one Write at the
    cursor; a line feed on the last viewport line scrolls the console up by one line and clears
    its last line; activation redraws every viewport cell.  An inactive terminal says nothing.
    Definitions only.  Calls are listed in the order they are made. *)
From Coq Require Import NArith List Bool.
From FF Require Import Gen.Consts_device_tty Tty.Vt Tty.VtSpec.
Import ListNotations.
Local Open Scope N_scope.

(** cell [(x, y)] (1-based) of the viewport of a reference terminal *)
Definition r_cell (r : rterm) (x y : N) : cell :=
  nth (N.to_nat (x - 1)) (nth (N.to_nat (r_view r + y - 1)) (r_lines r) []) (0, 0, 0).

Definition write_call (c : cell) (x y : N) : ccall :=
  let '(ch, f, b) := c in CWrite ch f b x y.

Section Emit.
  Variables (w h sb tab fg bg : N).
  Variable act : bool.

  Definition e_put (r : rterm) (c : cell) : list ccall :=
    if act then [write_call c (r_x r) (r_y r)] else [].

  Definition e_lf (r : rterm) : list ccall :=
    if r_y r <? h then []
    else if act then [CScroll console_ScrollDirUp 1; CFill 1 (r_y r) w 1 fg bg] else [].

  Definition e_putc (r : rterm) (c : cell) : list ccall :=
    e_put r c ++ (if r_x r <? w then [] else e_lf (r_put r c)).

  Fixpoint e_iter (n : nat) (r : rterm) : list ccall :=
    match n with
    | O => []
    | S n => e_putc r (blank fg bg) ++ e_iter n (r_putc w h sb fg bg r (blank fg bg))
    end.

  Definition e_byte (r : rterm) (b : N) : list ccall :=
    if b =? 13 then []
    else if b =? 10 then e_lf r
    else if b =? 8 then
      if 1 <? r_x r then e_put (mkR (r_lines r) (r_view r) (r_x r - 1) (r_y r)) (blank fg bg) else []
    else if b =? 9 then e_iter (N.to_nat tab) r
    else e_putc r (b, fg, bg).

  Fixpoint e_bytes (r : rterm) (bs : list N) : list ccall :=
    match bs with
    | [] => []
    | b :: t => e_byte r b ++ e_bytes (r_byte w h sb tab fg bg r b) t
    end.
End Emit.

(** the activation redraw: every viewport cell, line by line *)
Definition e_redraw (w h : N) (r : rterm) : list ccall :=
  flat_map (fun y => map (fun x => write_call (r_cell r x y) x y) (seqN 1 w)) (seqN 1 h).

(** one API call of a terminal whose state byte is [st] *)
Definition e_step (w h sb tab fg bg : N) (st : N) (r : rterm) (o : op) : list ccall :=
  let act := st =? tty_StateActive in
  match o with
  | OWrite bs => e_bytes w h sb tab fg bg act r bs
  | OWriteByte b => e_byte w h sb tab fg bg act r b
  | OSetCursor _ _ => []
  | OSetState s' => if st =? s' then [] else if s' =? tty_StateActive then e_redraw w h r else []
  | OAttach _ _ _ _ => []
  end.

Definition st_step (st : N) (o : op) : N :=
  match o with OSetState s' => s' | _ => st end.
