(** ALL methods of tty.VT as modelled by hand in Tty/Vt.v ARE the Gallina translation that gen/gotrans
    (extended mode) regenerates from kernel/device/tty/vt.go on every run (Gen/Trans_tty_vt_full.v).
    The record of the translation has the fields of the Go struct (the console reference as "is
    non-nil") plus the trace of console calls ([gevent], most recent first); [to_gof] maps the
    model's record to it.  Results are [gres]: a value, [GPanic] (Go run-time panic: index out of
    range, call through a nil console) or [GFuel] (a loop ran out of fuel; excluded by a stated bound).

    Preconditions (none of them is an invariant of the terminal, they say that the record is a Go
    value): [vt_pre] - viewportY is a uint32, len(data) is an int, and int(viewportY)*stride does
    not overflow int; and, where the console is called, that it is attached (or the terminal
    inactive) - WriteByte / Write / SetState check that themselves. *)
From Coq Require Import NArith ZArith String List Bool Lia.
From Coq Require Import ZifyBool ZifyN ZifyNat.
From FF Require Import Lib.Word Lib.GoOps Lib.GoOpsExt Gen.Consts_device_tty Gen.Trans_tty_vt_full.
From FF Require Import Tty.Vt Tty.VtSpec Tty.ListFacts Tty.VtLoops.
From FF Require Tty.VtTrans.
Import ListNotations.
Local Open Scope N_scope.
Ltac Zify.zify_post_hook ::= Z.div_mod_to_equations.

(** ---- the abstraction ---- *)
Definition ev_of (c : ccall) : gevent :=
  match c with
  | CWrite ch fg bg x y => GEv "Write" [ch; fg; bg; x; y]
  | CFill x y w h fg bg => GEv "Fill" [x; y; w; h; fg; bg]
  | CScroll d n => GEv "Scroll" [d; n]
  end.

Definition to_gof (v : vt) : go_tty_VT :=
  mk_go_tty_VT (attached v) (tw v) (th v) (vw v) (vh v) (sb v) (data v) (tabw v) (dfg v) (cfg v) (dbg v) (cbg v)
               (cx v) (cy v) (vy v) (doff v) (st v) (map ev_of (trace v)).

Ltac gsimp :=
  cbn [f_VT_cons f_VT_termWidth f_VT_termHeight f_VT_viewportWidth f_VT_viewportHeight f_VT_scrollback f_VT_data
       f_VT_tabWidth f_VT_defaultFg f_VT_curFg f_VT_defaultBg f_VT_curBg f_VT_cursorX f_VT_cursorY f_VT_viewportY
       f_VT_dataOffset f_VT_state f_VT_trace
       set_f_VT_cons set_f_VT_termWidth set_f_VT_termHeight set_f_VT_viewportWidth set_f_VT_viewportHeight set_f_VT_scrollback set_f_VT_data
       set_f_VT_tabWidth set_f_VT_defaultFg set_f_VT_curFg set_f_VT_defaultBg set_f_VT_curBg set_f_VT_cursorX set_f_VT_cursorY set_f_VT_viewportY
       set_f_VT_dataOffset set_f_VT_state set_f_VT_trace
       attached Vt.vw Vt.vh Vt.tw Vt.th Vt.sb tabw dfg dbg cfg cbg Vt.cx Vt.cy Vt.vy doff st data trace].
Ltac gsimp_in H :=
  cbn [f_VT_cons f_VT_termWidth f_VT_termHeight f_VT_viewportWidth f_VT_viewportHeight f_VT_scrollback f_VT_data
       f_VT_tabWidth f_VT_defaultFg f_VT_curFg f_VT_defaultBg f_VT_curBg f_VT_cursorX f_VT_cursorY f_VT_viewportY
       f_VT_dataOffset f_VT_state f_VT_trace
       set_f_VT_cons set_f_VT_termWidth set_f_VT_termHeight set_f_VT_viewportWidth set_f_VT_viewportHeight set_f_VT_scrollback set_f_VT_data
       set_f_VT_tabWidth set_f_VT_defaultFg set_f_VT_curFg set_f_VT_defaultBg set_f_VT_curBg set_f_VT_cursorX set_f_VT_cursorY set_f_VT_viewportY
       set_f_VT_dataOffset set_f_VT_state set_f_VT_trace
       attached Vt.vw Vt.vh Vt.tw Vt.th Vt.sb tabw dfg dbg cfg cbg Vt.cx Vt.cy Vt.vy doff st data trace] in H.

Definition res_unit (o : outcome vt) : gres (go_tty_VT * unit) :=
  match o with Ok v' => GOk (to_gof v', tt) | PanicOOB => GPanic end.

(** the model's list primitives are those of the translation *)
Lemma getN_gidx l i : getN l i = gidx l i.
Proof. apply getN_nth_error. Qed.

Lemma setN_gset l : forall i v, setN l i v = gset l i v.
Proof.
  induction l as [|x r IH]; intros i v.
  - unfold gset, glen. cbn [setN length N.of_nat]. destruct (N.ltb_spec i 0); [lia|reflexivity].
  - cbn [setN]. destruct (N.eqb_spec i 0) as [->|Hi].
    + reflexivity.
    + rewrite IH. unfold gset, glen. cbn [length].
      destruct (N.ltb_spec (N.pred i) (N.of_nat (length r))); destruct (N.ltb_spec i (N.of_nat (S (length r)))); try lia.
      * replace (N.to_nat i) with (S (N.to_nat (N.pred i))) by lia. reflexivity.
      * reflexivity.
Qed.

Lemma lenN_glen l : lenN l = glen l.
Proof. apply lenN_length. Qed.

(** ---- the loop-free methods (as in Tty/VtTrans.v, for the record with the trace) ---- *)
Theorem state_full v : go_tty_VT_State (to_gof v) = GOk (to_gof v, st v).
Proof. reflexivity. Qed.

Theorem cursorPosition_full v : go_tty_VT_CursorPosition (to_gof v) = GOk (to_gof v, (cx v, cy v)).
Proof. reflexivity. Qed.

Theorem updateDataOffset_full v :
  go_tty_VT_updateDataOffset (to_gof v) = GOk (to_gof (update_data_offset v), tt).
Proof.
  unfold go_tty_VT_updateDataOffset, update_data_offset, set_doff, to_gof. gsimp.
  rewrite VtTrans.doff_eq. reflexivity.
Qed.

Theorem cr_full v : go_tty_VT_cr (to_gof v) = GOk (to_gof (cr v), tt).
Proof.
  cbv delta [go_tty_VT_cr cr]. cbv beta zeta. change (gw 32 1) with 1.
  change (set_f_VT_cursorX (to_gof v) 1) with (to_gof (set_cx v 1)).
  rewrite updateDataOffset_full. reflexivity.
Qed.

Theorem setCursorPosition_full v x y :
  go_tty_VT_SetCursorPosition (to_gof v) x y = GOk (to_gof (set_cursor_position v x y), tt).
Proof.
  destruct (attached v) eqn:E.
  2:{ unfold go_tty_VT_SetCursorPosition, set_cursor_position.
      change (f_VT_cons (to_gof v)) with (attached v). rewrite E. reflexivity. }
  unfold go_tty_VT_SetCursorPosition, set_cursor_position.
  change (gw 32 1) with 1.
  assert (K: forall X Y, match go_tty_VT_updateDataOffset (to_gof (set_cy (set_cx v X) Y)) with
                         | GPanic => GPanic | GFuel => GFuel | GOk (v_t, _) => GOk (v_t, tt) end =
                         GOk (to_gof (update_data_offset (set_cy (set_cx v X) Y)), tt)).
  { intros X Y. rewrite updateDataOffset_full. reflexivity. }
  replace (negb (f_VT_cons (to_gof v))) with false
    by (change (f_VT_cons (to_gof v)) with (attached v); rewrite E; reflexivity).
  rewrite E. cbn [negb].
  change (f_VT_viewportWidth (to_gof v)) with (vw v).
  change (f_VT_viewportHeight (to_gof v)) with (vh v).
  destruct (x <? 1); destruct (vw v <? x); destruct (y <? 1); destruct (vh v <? y); exact (K _ _).
Qed.

(** ---- preconditions and fuel ---- *)
Definition stride_of (v : vt) : N := w32 (vw v * 3).

(** the record is a Go value whose int arithmetic in lf cannot overflow: viewportY is a uint32, len(data) an
    int, the stride (3 * viewportWidth as uint32) below 2^31 - so that every offset lf computes
    (at most 2^32 * stride) is a non-negative int *)
Definition vt_pre (v : vt) : Prop := vy v < two32 /\ lenN (data v) < two63 /\ stride_of v < 2 ^ 31.

(** enough fuel for every loop of lf / doWrite / WriteByte: the scroll loop makes at most 2^32 * stride
    iterations, the blank loop at most stride, the tab loop at most 255 *)
Definition vt_fuel (v : vt) : N := 2 ^ 32 * stride_of v + 256.

Lemma gsets_setN d i x : lenN d < two63 -> gsets 64 d i x = setN d i x.
Proof.
  intros H. rewrite lenN_length in H. unfold gsets. destruct (N.lt_ge_cases i two63) as [A|A].
  - rewrite gisneg_small by exact A. symmetry. apply setN_gset.
  - rewrite gisneg_big by exact A. symmetry. apply setN_none. lia.
Qed.

Lemma gidxs_getN d i : lenN d < two63 -> gidxs 64 d i = getN d i.
Proof.
  intros H. rewrite lenN_length in H. unfold gidxs. destruct (N.lt_ge_cases i two63) as [A|A].
  - rewrite gisneg_small by exact A. symmetry. apply getN_gidx.
  - rewrite gisneg_big by exact A. symmetry. apply getN_none. lia.
Qed.

Lemma setN_length l i x l' : setN l i x = Some l' -> length l' = length l.
Proof. rewrite setN_gset. apply gset_length. Qed.

(** ---- lf ---- *)
Definition g_with_data (g : go_tty_VT) (d : list N) : go_tty_VT := set_f_VT_data g d.

Ltac msimp :=
  unfold active, emit, set_trace, set_vy, set_cy, set_cx, set_data, set_doff, set_st, g_with_data; gsimp.

Lemma udo_match g :
  match go_tty_VT_updateDataOffset g with
  | GOk (v_t, _) => GOk (v_t, tt) | GPanic => GPanic | GFuel => GFuel
  end = go_tty_VT_updateDataOffset g.
Proof. reflexivity. Qed.

Lemma sub32_lt a b : sub32 a b < two32.
Proof. unfold sub32. apply w32_lt. Qed.

Lemma lf_cr_reduce fuel v :
  go_tty_VT_lf fuel (to_gof v) true = go_tty_VT_lf fuel (to_gof (set_cx v 1)) false.
Proof. unfold go_tty_VT_lf. reflexivity. Qed.

(** the console synchronisation at the end of lf, then updateDataOffset *)
Ltac lf_sync Hatt :=
  let A := fresh "A" in
  destruct (_ =? tty_StateActive) eqn:A;
  [ destruct Hatt as [Hatt|Hatt]; [|unfold active in Hatt; congruence];
    rewrite Hatt; rewrite udo_match; rewrite <- updateDataOffset_full; reflexivity
  | rewrite udo_match; rewrite <- updateDataOffset_full; reflexivity ].

Theorem lf_false_is_translation v fuel :
  vt_pre v -> attached v = true \/ active v = false -> (N.to_nat (vt_fuel v) < fuel)%nat ->
  go_tty_VT_lf fuel (to_gof v) false = res_unit (lf v false).
Proof.
  intros (Hvy & Hlen & Hst) Hatt Hfuel.
  cbv delta [go_tty_VT_lf to_gof]. cbv beta. gsimp. unfold lf, scroll_buffer.
  change (gw 32) with w32. change (gsub 32) with sub32.
  destruct (w32 (cy v + 1) <=? vh v).
  { cbn [bind res_unit]. rewrite udo_match, <- updateDataOffset_full. reflexivity. }
  destruct (w32 (vy v + vh v) <? th v).
  { cbn [bind res_unit]. msimp. lf_sync Hatt. }
  (* the bottom of the buffer: scroll the contents up, blank the last line *)
  fold (stride_of v). set (T := stride_of v) in *.
  set (S0 := vy v * T). set (E0 := sub32 (w32 (vy v + vh v)) 1 * T).
  unfold two32, two63 in *.
  pose proof (sub32_lt (w32 (vy v + vh v)) 1) as Hm. unfold two32 in Hm.
  assert (HT : gw 64 T = T) by (apply gw64_small'; lia). rewrite !HT.
  assert (HS : gw 64 (gw 64 (vy v) * T) = S0) by (unfold S0; rewrite (gw64_small' (vy v)) by lia; apply gw64_small'; nia).
  assert (HE : gw 64 (gw 64 (sub32 (w32 (vy v + vh v)) 1) * T) = E0)
    by (unfold E0; rewrite (gw64_small' (sub32 _ _)) by lia; apply gw64_small'; nia).
  rewrite HS, !HE.
  assert (HS63 : S0 < 2 ^ 63) by (unfold S0; nia).
  assert (HE63 : E0 + T + 3 < 2 ^ 63) by (unfold E0; nia).
  assert (HET : gw 64 (E0 + T) = E0 + T) by (apply gw64_small'; lia). rewrite HET.
  assert (HfE : (N.to_nat (E0 - S0) < fuel)%nat) by (unfold vt_fuel in Hfuel; fold T in Hfuel; unfold E0; nia).
  assert (HfT : (N.to_nat ((T + 2) / 3) < fuel)%nat) by (unfold vt_fuel in Hfuel; fold T in Hfuel; lia).
  (* first loop *)
  match goal with |- context [gloop fuel ?f (?g, S0)] => set (step1 := f); remember g as g0 eqn:Hg0 end.
  assert (L1 : forall n d o fu, lenN d < 2 ^ 63 -> o < 2 ^ 63 -> n = N.to_nat (E0 - o) -> (n < fu)%nat ->
            gloop fu step1 (g_with_data g0 d, o) =
            match copy_loop n d o E0 T with
            | Some d' => GOk (inl (g_with_data g0 d', if o <? E0 then E0 else o))
            | None => GPanic
            end).
  { induction n as [|n IH]; intros d o fu Hd Ho Hn Hfu; (destruct fu as [|fu]; [lia|]).
    - cbn [copy_loop]. destruct (N.ltb_spec o E0); [lia|].
      apply gloop_break. unfold step1. rewrite gslt_small by (unfold two63; lia).
      destruct (N.ltb_spec o E0); [lia|reflexivity].
    - cbn [copy_loop]. destruct (N.ltb_spec o E0) as [A|A]; [|lia].
      rewrite gloop_S. unfold step1 at 1. cbv beta iota zeta.
      change (f_VT_data (g_with_data g0 d)) with d.
      rewrite gslt_small by (unfold two63; lia).
      destruct (N.ltb_spec o E0); [|lia].
      rewrite (gw64_small' (o + T)) by lia.
      rewrite gidxs_getN by exact Hd.
      destruct (getN d (o + T)) as [x|]; [|reflexivity].
      rewrite gsets_setN by exact Hd.
      destruct (setN d o x) as [d2|] eqn:E2; [|reflexivity].
      rewrite (gw64_small' (o + 1)) by lia.
      assert (Hd2 : lenN d2 < 2 ^ 63) by (rewrite lenN_length in *; rewrite (setN_length _ _ _ _ E2); exact Hd).
      change (set_f_VT_data (g_with_data g0 d) d2) with (g_with_data g0 d2).
      rewrite (IH d2 (o + 1) fu Hd2 ltac:(lia) ltac:(lia) ltac:(lia)).
      destruct (copy_loop n d2 (o + 1) E0 T); [|reflexivity].
      destruct (N.ltb_spec (o + 1) E0); [reflexivity|]. replace (o + 1) with E0 by lia. reflexivity. }
  replace (g0, S0) with (g_with_data g0 (data v), S0) by (rewrite Hg0; reflexivity).
  rewrite (L1 (N.to_nat (E0 - S0)) (data v) S0 fuel Hlen HS63 eq_refl HfE).
  rewrite copy_down_is_loop.
  destruct (copy_loop (N.to_nat (E0 - S0)) (data v) S0 E0 T) as [d1|] eqn:EC; [|reflexivity].
  assert (Hd1 : lenN d1 < 2 ^ 63).
  { rewrite <- copy_down_is_loop in EC. unfold copy_down in EC.
    destruct (N.leb_spec E0 S0); [injection EC as <-; exact Hlen|].
    destruct (N.ltb_spec (lenN (data v)) (E0 + T)); [discriminate|]. injection EC as <-.
    rewrite !lenN_length in *. rewrite !takeN_firstn, !dropN_skipn, !app_length, !firstn_length, !skipn_length. lia. }
  cbv iota beta.
  (* second loop *)
  match goal with |- context [gloop fuel ?f (_, E0)] => set (step2 := f) end.
  assert (Hfg : f_VT_defaultFg g0 = dfg v) by (rewrite Hg0; reflexivity).
  assert (Hbg : f_VT_defaultBg g0 = dbg v) by (rewrite Hg0; reflexivity).
  assert (L2 : forall n d o fu, lenN d < 2 ^ 63 -> o < E0 + T + 3 -> n = N.to_nat ((E0 + T - o + 2) / 3) -> (n < fu)%nat ->
            gloop fu step2 (g_with_data g0 d, o) =
            match blank_loop n d o (E0 + T) (dfg v) (dbg v) with
            | Some d' => GOk (inl (g_with_data g0 d', o + 3 * N.of_nat n))
            | None => GPanic
            end).
  { induction n as [|n IH]; intros d o fu Hd Ho Hn Hfu; (destruct fu as [|fu]; [lia|]).
    - cbn [blank_loop]. replace (o + 3 * N.of_nat 0) with o by lia.
      apply gloop_break. unfold step2. rewrite gslt_small by (unfold two63; lia).
      destruct (N.ltb_spec o (E0 + T)); [lia|reflexivity].
    - cbn [blank_loop]. destruct (N.ltb_spec o (E0 + T)) as [A|A]; [|lia].
      rewrite gloop_S. unfold step2 at 1. cbv beta iota zeta.
      rewrite gslt_small by (unfold two63; lia).
      destruct (N.ltb_spec o (E0 + T)); [|lia].
      cbn [f_VT_data f_VT_defaultFg f_VT_defaultBg set_f_VT_data g_with_data]. rewrite ?Hfg, ?Hbg.
      rewrite (gw64_small' (o + 0)), (gw64_small' (o + 1)), (gw64_small' (o + 2)), (gw64_small' (o + 3)) by lia.
      replace (o + 0) with o by lia. change (gw 8 32) with 32.
      rewrite gsets_setN by exact Hd.
      destruct (setN d o 32) as [da|] eqn:Ea; [|reflexivity].
      assert (Hda : lenN da < 2 ^ 63) by (rewrite lenN_length in *; rewrite (setN_length _ _ _ _ Ea); exact Hd).
      rewrite gsets_setN by exact Hda.
      destruct (setN da (o + 1) (dfg v)) as [db|] eqn:Eb; [|reflexivity].
      assert (Hdb : lenN db < 2 ^ 63) by (rewrite lenN_length in *; rewrite (setN_length _ _ _ _ Eb); exact Hda).
      rewrite gsets_setN by exact Hdb.
      destruct (setN db (o + 2) (dbg v)) as [dc|] eqn:Ec; [|reflexivity].
      assert (Hdc : lenN dc < 2 ^ 63) by (rewrite lenN_length in *; rewrite (setN_length _ _ _ _ Ec); exact Hdb).
      match goal with |- context [gloop fu step2 (?X, o + 3)] => change X with (g_with_data g0 dc) end.
      rewrite (IH dc (o + 3) fu Hdc ltac:(lia) ltac:(lia) ltac:(lia)).
      replace (o + 3 * N.of_nat (S n)) with (o + 3 + 3 * N.of_nat n) by lia. reflexivity. }
  rewrite blank_range_is_loop.
  rewrite (L2 (N.to_nat ((T + 2) / 3)) d1 E0 fuel Hd1 ltac:(lia) ltac:(f_equal; f_equal; lia) HfT).
  destruct (blank_loop (N.to_nat ((T + 2) / 3)) d1 E0 (E0 + T) (dfg v) (dbg v)) as [d2|]; [|reflexivity].
  cbv iota beta. cbn [bind res_unit]. rewrite Hg0. msimp. lf_sync Hatt.
Qed.

Lemma vt_pre_data v d : vt_pre v -> length d = length (data v) -> vt_pre (set_data v d).
Proof.
  intros (A & B & C) L. unfold vt_pre, stride_of, set_data. gsimp. rewrite lenN_length in *. rewrite L. auto.
Qed.

Theorem lf_is_translation v withCR fuel :
  vt_pre v -> attached v = true \/ active v = false -> (N.to_nat (vt_fuel v) < fuel)%nat ->
  go_tty_VT_lf fuel (to_gof v) withCR = res_unit (lf v withCR).
Proof.
  intros Hp Ha Hf. destruct withCR; [|apply lf_false_is_translation; assumption].
  rewrite lf_cr_reduce. change (lf v true) with (lf (set_cx v 1) false).
  apply lf_false_is_translation; assumption.
Qed.

(** ---- symbolic execution of the translated code on [to_gof v]: a field update of the translation's record
    is the model's setter (so the state stays of the form [to_gof <model term>]), a field read is the
    model's projection ---- *)
Lemma fold_data v d : set_f_VT_data (to_gof v) d = to_gof (set_data v d). Proof. reflexivity. Qed.
Lemma fold_cx v x : set_f_VT_cursorX (to_gof v) x = to_gof (set_cx v x). Proof. reflexivity. Qed.
Lemma fold_cy v x : set_f_VT_cursorY (to_gof v) x = to_gof (set_cy v x). Proof. reflexivity. Qed.
Lemma fold_vy v x : set_f_VT_viewportY (to_gof v) x = to_gof (set_vy v x). Proof. reflexivity. Qed.
Lemma fold_doff v x : set_f_VT_dataOffset (to_gof v) x = to_gof (set_doff v x). Proof. reflexivity. Qed.
Lemma fold_st v x : set_f_VT_state (to_gof v) x = to_gof (set_st v x). Proof. reflexivity. Qed.
Lemma fold_write v ch fg bg x y :
  set_f_VT_trace (to_gof v) (GEv "Write" [ch; fg; bg; x; y] :: map ev_of (trace v)) = to_gof (emit v (CWrite ch fg bg x y)).
Proof. reflexivity. Qed.
Lemma fold_fill v x y w h fg bg :
  set_f_VT_trace (to_gof v) (GEv "Fill" [x; y; w; h; fg; bg] :: map ev_of (trace v)) = to_gof (emit v (CFill x y w h fg bg)).
Proof. reflexivity. Qed.
Lemma fold_scroll v d n :
  set_f_VT_trace (to_gof v) (GEv "Scroll" [d; n] :: map ev_of (trace v)) = to_gof (emit v (CScroll d n)).
Proof. reflexivity. Qed.

Ltac gfold := repeat (progress rewrite ?fold_data, ?fold_cx, ?fold_cy, ?fold_vy, ?fold_doff, ?fold_st,
                                ?fold_write, ?fold_fill, ?fold_scroll).

(** projections: of [to_gof], and of the model's setters (one field is forced at a time) *)
Ltac gproj :=
  cbn [to_gof f_VT_cons f_VT_termWidth f_VT_termHeight f_VT_viewportWidth f_VT_viewportHeight f_VT_scrollback f_VT_data
       f_VT_tabWidth f_VT_defaultFg f_VT_curFg f_VT_defaultBg f_VT_curBg f_VT_cursorX f_VT_cursorY f_VT_viewportY
       f_VT_dataOffset f_VT_state f_VT_trace
       attached Vt.vw Vt.vh Vt.tw Vt.th Vt.sb tabw dfg dbg cfg cbg Vt.cx Vt.cy Vt.vy doff st data trace
       set_cx set_cy set_vy set_doff set_st set_data set_trace emit active].

(** ---- doWrite ---- *)
Lemma lf_match fuel g b :
  match go_tty_VT_lf fuel g b with
  | GOk (v_t, _) => GOk (v_t, tt) | GPanic => GPanic | GFuel => GFuel
  end = go_tty_VT_lf fuel g b.
Proof. destruct (go_tty_VT_lf fuel g b) as [[g' []]| |]; reflexivity. Qed.

Lemma gw64_eq x : gw 64 x = w64 x. Proof. reflexivity. Qed.
Lemma gw32_eq x : gw 32 x = w32 x. Proof. reflexivity. Qed.
Lemma gsub32_eq a b : gsub 32 a b = sub32 a b. Proof. reflexivity. Qed.

(** NB: no [change (gw 64) with w64] on these goals: the kernel re-checks such a conversion at every use of a
    let-bound record, which is exponential in the nesting; rewriting with the three lemmas above is linear *)
Ltac gwfix := repeat match goal with
  | |- context [gw 32 ?a] => rewrite (gw32_eq a)
  | |- context [gw 64 ?a] => rewrite (gw64_eq a)
  | |- context [gsub 32 ?a ?b] => rewrite (gsub32_eq a b)
  end.
Ltac gstep := repeat (progress (gfold; gproj; gwfix)); rewrite <- ?setN_gset.

Ltac do_write_tail v adv fuel Hp Hatt Hfuel :=
  let d1 := fresh "d1" in let d2 := fresh "d2" in let d3 := fresh "d3" in
  let E1 := fresh "E1" in let E2 := fresh "E2" in let E3 := fresh "E3" in
  destruct (setN (data v) (doff v) _) as [d1|] eqn:E1; [|reflexivity]; cbn [bind]; gstep;
  destruct (setN d1 _ _) as [d2|] eqn:E2; [|reflexivity]; cbn [bind]; gstep;
  destruct (setN d2 _ _) as [d3|] eqn:E3; [|reflexivity]; cbn [bind]; gstep;
  (destruct adv; [|reflexivity]);
  (destruct (vw v <? w32 (cx v + 1)); [|reflexivity]);
  rewrite lf_match; apply lf_is_translation;
  [ destruct Hp as (P1 & P2 & P3); unfold vt_pre, stride_of in *; gproj; rewrite lenN_length in *;
    rewrite (setN_length _ _ _ _ E3), (setN_length _ _ _ _ E2), (setN_length _ _ _ _ E1); auto
  | unfold active in *; gproj; exact Hatt
  | exact Hfuel ].

Theorem doWrite_is_translation v b adv fuel :
  vt_pre v -> attached v = true \/ active v = false -> (N.to_nat (vt_fuel v) < fuel)%nat ->
  go_tty_VT_doWrite fuel (to_gof v) b adv = res_unit (do_write v b adv).
Proof.
  intros Hp Hatt Hfuel.
  cbv delta [go_tty_VT_doWrite do_write store]. cbv beta zeta.
  gstep. unfold active.
  destruct (st v =? tty_StateActive) eqn:A.
  - assert (Ha : attached v = true) by (destruct Hatt as [H|H]; [exact H|unfold active in H; congruence]).
    rewrite Ha. gstep. do_write_tail v adv fuel Hp Hatt Hfuel.
  - do_write_tail v adv fuel Hp Hatt Hfuel.
Qed.

Ltac gproj_in H :=
  cbn [to_gof f_VT_cons f_VT_termWidth f_VT_termHeight f_VT_viewportWidth f_VT_viewportHeight f_VT_scrollback f_VT_data
       f_VT_tabWidth f_VT_defaultFg f_VT_curFg f_VT_defaultBg f_VT_curBg f_VT_cursorX f_VT_cursorY f_VT_viewportY
       f_VT_dataOffset f_VT_state f_VT_trace
       attached Vt.vw Vt.vh Vt.tw Vt.th Vt.sb tabw dfg dbg cfg cbg Vt.cx Vt.cy Vt.vy doff st data trace
       set_cx set_cy set_vy set_doff set_st set_data set_trace emit active] in H.

(** ---- what the model's operations leave unchanged (so that the preconditions and the fuel bound carry
    over from one call to the next) ---- *)
Definition frame (v v' : vt) : Prop :=
  attached v' = attached v /\ vw v' = vw v /\ tabw v' = tabw v /\
  length (data v') = length (data v) /\ (vy v < two32 -> vy v' < two32).

Lemma frame_refl v : frame v v.
Proof. unfold frame. auto. Qed.

Lemma frame_trans a b c : frame a b -> frame b c -> frame a c.
Proof. unfold frame. intros (A1 & A2 & A3 & A4 & A5) (B1 & B2 & B3 & B4 & B5). repeat split; try congruence. auto. Qed.

Lemma vt_pre_frame v v' : frame v v' -> vt_pre v -> vt_pre v'.
Proof.
  intros (A1 & A2 & A3 & A4 & A5) (P1 & P2 & P3). unfold vt_pre, stride_of in *. rewrite lenN_length in *.
  rewrite A4, A2. auto.
Qed.

Lemma vt_fuel_frame v v' : frame v v' -> vt_fuel v' = vt_fuel v.
Proof. intros (A1 & A2 & _). unfold vt_fuel, stride_of. rewrite A2. reflexivity. Qed.

Lemma copy_down_length d s e T d' : copy_down d s e T = Some d' -> length d' = length d.
Proof.
  unfold copy_down. destruct (N.leb_spec e s); [intros E; injection E as <-; reflexivity|].
  rewrite lenN_length. destruct (N.ltb_spec (N.of_nat (length d)) (e + T)); [discriminate|].
  intros E. injection E as <-.
  rewrite !takeN_firstn, !dropN_skipn, !app_length, !firstn_length, !skipn_length. lia.
Qed.

Lemma blank_range_length d e T fg bg d' : blank_range d e T fg bg = Some d' -> length d' = length d.
Proof.
  unfold blank_range. destruct (N.eqb_spec ((T + 2) / 3) 0); [intros E; injection E as <-; reflexivity|].
  rewrite lenN_length. destruct (N.ltb_spec (N.of_nat (length d)) (e + (T + 2) / 3 * 3)); [discriminate|].
  intros E. injection E as <-.
  rewrite takeN_firstn, dropN_skipn, !app_length, firstn_length, skipn_length, blank_cells_length. lia.
Qed.

Lemma udo_frame v : frame v (update_data_offset v).
Proof. unfold frame, update_data_offset, set_doff. gproj. auto. Qed.
Lemma frame_set_cx v x : frame v (set_cx v x). Proof. unfold frame, set_cx. gproj. auto. Qed.
Lemma frame_set_cy v x : frame v (set_cy v x). Proof. unfold frame, set_cy. gproj. auto. Qed.
Lemma frame_set_doff v x : frame v (set_doff v x). Proof. unfold frame, set_doff. gproj. auto. Qed.
Lemma frame_set_st v x : frame v (set_st v x). Proof. unfold frame, set_st. gproj. auto. Qed.
Lemma frame_emit v c : frame v (emit v c). Proof. unfold frame, emit, set_trace. gproj. auto. Qed.
Lemma frame_set_vy v x : x < two32 -> frame v (set_vy v x). Proof. unfold frame, set_vy. gproj. auto. Qed.
Lemma frame_set_data v d : length d = length (data v) -> frame v (set_data v d).
Proof. unfold frame, set_data. gproj. auto. Qed.

Ltac fr_chain :=
  repeat first [ apply frame_refl | eapply frame_trans; [|apply udo_frame] | eapply frame_trans; [|apply frame_set_cx]
               | eapply frame_trans; [|apply frame_set_cy] | eapply frame_trans; [|apply frame_set_doff]
               | eapply frame_trans; [|apply frame_emit] ].

Lemma lf_frame v c v' : lf v c = Ok v' -> frame v v'.
Proof.
  unfold lf, scroll_buffer.
  set (v0 := if c then set_cx v 1 else v).
  assert (F0 : frame v v0) by (unfold v0; destruct c; [apply frame_set_cx|apply frame_refl]).
  clearbody v0. intros E. apply (frame_trans _ _ _ F0). clear F0 v.
  destruct (w32 (cy v0 + 1) <=? vh v0).
  { cbn [bind] in E. injection E as <-. fr_chain. }
  destruct (w32 (vy v0 + vh v0) <? th v0).
  { cbn [bind] in E. injection E as <-. pose proof (w32_lt (vy v0 + 1)).
    destruct (active (set_vy v0 (w32 (vy v0 + 1)))); fr_chain; apply frame_set_vy; assumption. }
  destruct (copy_down _ _ _ _) as [d1|] eqn:E1; [|discriminate].
  destruct (blank_range _ _ _ _ _) as [d2|] eqn:E2; [|discriminate].
  cbn [bind] in E. injection E as <-.
  apply copy_down_length in E1. apply blank_range_length in E2.
  destruct (active (set_data v0 d2)); fr_chain; apply frame_set_data; congruence.
Qed.

Lemma do_write_frame v b adv v' : do_write v b adv = Ok v' -> frame v v'.
Proof.
  unfold do_write, store.
  set (v0 := if active v then _ else v).
  assert (F0 : frame v v0) by (unfold v0; destruct (active v); [apply frame_emit|apply frame_refl]).
  clearbody v0. intros E. apply (frame_trans _ _ _ F0). clear F0 v.
  destruct (setN (data v0) (doff v0) b) as [d1|] eqn:E1; [|discriminate]. cbn [bind] in E.
  apply setN_length in E1. apply (frame_trans _ _ _ (frame_set_data v0 d1 E1)).
  set (v1 := set_data v0 d1) in *. clearbody v1. clear E1 v0.
  destruct (setN (data v1) _ _) as [d2|] eqn:E2; [|discriminate]. cbn [bind] in E.
  apply setN_length in E2. apply (frame_trans _ _ _ (frame_set_data v1 d2 E2)).
  set (v2 := set_data v1 d2) in *. clearbody v2. clear E2 v1.
  destruct (setN (data v2) _ _) as [d3|] eqn:E3; [|discriminate]. cbn [bind] in E.
  apply setN_length in E3. apply (frame_trans _ _ _ (frame_set_data v2 d3 E3)).
  set (v3 := set_data v2 d3) in *. clearbody v3. clear E3 v2.
  destruct adv; [|injection E as <-; apply frame_refl].
  match type of E with (if ?c then _ else _) = _ => destruct c end.
  - apply lf_frame in E. refine (frame_trans _ _ _ _ E). fr_chain.
  - injection E as <-. fr_chain.
Qed.

Lemma scp_frame v x y : frame v (set_cursor_position v x y).
Proof.
  unfold set_cursor_position. destruct (negb (attached v)); [apply frame_refl|]. fr_chain.
Qed.

Lemma cr_frame v : frame v (cr v).
Proof. unfold cr. fr_chain. Qed.

(** ---- WriteByte ---- *)
Definition err_of (e : N) : option string := if e =? 0 then None else Some "io.ErrClosedPipe"%string.

Definition res_err (o : outcome (vt * N)) : gres (go_tty_VT * option string) :=
  match o with Ok (v', e) => GOk (to_gof v', err_of e) | PanicOOB => GPanic end.

Theorem writeByte_is_translation v b fuel :
  vt_pre v -> tabw v < 256 -> (N.to_nat (vt_fuel v) < fuel)%nat ->
  go_tty_VT_WriteByte fuel (to_gof v) b = res_err (write_byte v b).
Proof.
  intros Hp Htab Hfuel.
  cbv delta [go_tty_VT_WriteByte write_byte]. cbv beta zeta. gstep.
  destruct (attached v) eqn:Ha; cbn [negb]; [|reflexivity].
  destruct (b =? 13).
  { rewrite cr_full. reflexivity. }
  destruct (b =? 10).
  { rewrite (lf_is_translation v true fuel Hp (or_introl Ha) Hfuel). destruct (lf v true); reflexivity. }
  destruct (b =? 8).
  { destruct (1 <? cx v); [|reflexivity].
    rewrite setCursorPosition_full.
    pose proof (scp_frame v (sub32 (cx v) 1) (cy v)) as F.
    rewrite doWrite_is_translation;
      [ | exact (vt_pre_frame _ _ F Hp) | left; destruct F as (F1 & _); congruence | rewrite (vt_fuel_frame _ _ F); exact Hfuel ].
    destruct (do_write _ 32 false); reflexivity. }
  destruct (b =? 9).
  { (* the tab loop *)
    match goal with |- context [gloop fuel ?f _] => set (step := f) end.
    assert (L : forall n v0 i fu, vt_pre v0 -> attached v0 = true -> tabw v0 = tabw v -> vt_fuel v0 = vt_fuel v ->
              i <= tabw v -> n = N.to_nat (tabw v - i) -> (n < fu)%nat ->
              gloop fu step (to_gof v0, i) =
              match repeat_do n (fun v => do_write v 32 true) v0 with
              | Ok v' => GOk (inl (to_gof v', tabw v))
              | PanicOOB => GPanic
              end).
    { induction n as [|n IH]; intros v0 i fu Hp0 Ha0 Ht0 Hf0 Hi Hn Hfu; (destruct fu as [|fu]; [lia|]).
      - cbn [repeat_do]. replace (tabw v) with i by lia. apply gloop_break.
        unfold step. gproj. rewrite Ht0. destruct (N.ltb_spec i (tabw v)); [lia|reflexivity].
      - cbn [repeat_do]. rewrite gloop_S. unfold step at 1. cbv beta iota zeta. gproj. rewrite Ht0.
        destruct (N.ltb_spec i (tabw v)); [|lia].
        rewrite (doWrite_is_translation v0 32 true fuel Hp0 (or_introl Ha0)) by (rewrite Hf0; exact Hfuel).
        destruct (do_write v0 32 true) as [v1|] eqn:E1; [|reflexivity]. cbn [res_unit bind].
        pose proof (do_write_frame _ _ _ _ E1) as F.
        unfold gw. rewrite N.mod_small by lia.
        apply IH; try lia.
        + exact (vt_pre_frame _ _ F Hp0).
        + destruct F as (F1 & _). congruence.
        + destruct F as (_ & _ & F3 & _). congruence.
        + rewrite (vt_fuel_frame _ _ F). exact Hf0. }
    change (gw 8 0) with 0.
    rewrite (L (N.to_nat (tabw v)) v 0 fuel Hp Ha eq_refl eq_refl ltac:(lia) ltac:(f_equal; lia)).
    2:{ unfold vt_fuel in Hfuel. lia. }
    destruct (repeat_do _ _ v); reflexivity. }
  rewrite (doWrite_is_translation v b true fuel Hp (or_introl Ha) Hfuel).
  destruct (do_write v b true); reflexivity.
Qed.

Lemma repeat_do_frame n : forall v v', repeat_do n (fun v => do_write v 32 true) v = Ok v' -> frame v v'.
Proof.
  induction n as [|n IH]; intros v v' E; cbn [repeat_do] in E.
  - injection E as <-. apply frame_refl.
  - destruct (do_write v 32 true) as [v1|] eqn:E1; [|discriminate]. cbn [bind] in E.
    exact (frame_trans _ _ _ (do_write_frame _ _ _ _ E1) (IH _ _ E)).
Qed.

Lemma write_byte_frame v b v' e : write_byte v b = Ok (v', e) -> frame v v'.
Proof.
  unfold write_byte. destruct (negb (attached v)); [intros E; injection E as <- _; apply frame_refl|].
  destruct (b =? 13); [cbn [bind]; intros E; injection E as <- _; apply cr_frame|].
  destruct (b =? 10).
  { destruct (lf v true) as [v1|] eqn:E1; [|discriminate]. cbn [bind]. intros E. injection E as <- _. exact (lf_frame _ _ _ E1). }
  destruct (b =? 8).
  { destruct (1 <? cx v); [|cbn [bind]; intros E; injection E as <- _; apply frame_refl].
    destruct (do_write _ 32 false) as [v1|] eqn:E1; [|discriminate]. cbn [bind]. intros E. injection E as <- _.
    exact (frame_trans _ _ _ (scp_frame _ _ _) (do_write_frame _ _ _ _ E1)). }
  destruct (b =? 9).
  { destruct (repeat_do _ _ v) as [v1|] eqn:E1; [|discriminate]. cbn [bind]. intros E. injection E as <- _.
    exact (repeat_do_frame _ _ _ E1). }
  destruct (do_write v b true) as [v1|] eqn:E1; [|discriminate]. cbn [bind]. intros E. injection E as <- _.
  exact (do_write_frame _ _ _ _ E1).
Qed.

(** ---- Write ---- *)
Definition res_write (o : outcome (vt * N * N)) : gres (go_tty_VT * (N * option string)) :=
  match o with Ok (v', n, e) => GOk (to_gof v', (n, err_of e)) | PanicOOB => GPanic end.

Lemma write_count bs : forall v c v' n, write v bs c = Ok (v', n, 0) -> n = c + N.of_nat (length bs).
Proof.
  induction bs as [|b r IH]; intros v c v' n E; cbn [write] in E.
  - injection E as _ <-. cbn [length]. lia.
  - destruct (write_byte v b) as [[v1 e]|]; [|discriminate]. cbn [bind] in E.
    destruct (N.eqb_spec e 0).
    + apply IH in E. cbn [length]. lia.
    + injection E as _ _ E. congruence.
Qed.

Theorem write_is_translation v bs fuel :
  vt_pre v -> tabw v < 256 -> (N.to_nat (vt_fuel v) < fuel)%nat -> (length bs < fuel)%nat ->
  go_tty_VT_Write fuel (to_gof v) bs = res_write (write v bs 0).
Proof.
  intros Hp Htab Hfuel Hlen.
  cbv delta [go_tty_VT_Write]. cbv beta zeta.
  match goal with |- context [gloop fuel ?f _] => set (step := f) end.
  assert (L : forall n k v0 fu, vt_pre v0 -> tabw v0 = tabw v -> vt_fuel v0 = vt_fuel v ->
            (k + n = length bs)%nat -> (n < fu)%nat ->
            gloop fu step (to_gof v0, N.of_nat k) =
            match write v0 (skipn k bs) (N.of_nat k) with
            | Ok (v', c, e) => if e =? 0 then GOk (inl (to_gof v', glen bs)) else GOk (inr (to_gof v', (c, err_of e)))
            | PanicOOB => GPanic
            end).
  { induction n as [|n IH]; intros k v0 fu Hp0 Ht0 Hf0 Hk Hfu; (destruct fu as [|fu]; [lia|]).
    - rewrite skipn_all2 by lia. cbn [write N.eqb].
      rewrite gloop_break with (s' := (to_gof v0, N.of_nat k)); [unfold glen; repeat f_equal; lia|].
      unfold step, glen. destruct (N.ltb_spec (N.of_nat k) (N.of_nat (length bs))); [lia|reflexivity].
    - assert (Hlt : (k < length bs)%nat) by lia.
      destruct (nth_error bs k) as [b|] eqn:Eb; [|apply nth_error_None in Eb; lia].
      assert (Esk : skipn k bs = b :: skipn (S k) bs).
      { clear - Eb. revert bs Eb. induction k as [|k IH]; intros [|x p] Eb; try discriminate.
        - injection Eb as ->. reflexivity.
        - cbn [nth_error] in Eb. cbn [skipn]. apply IH. exact Eb. }
      rewrite Esk. cbn [write]. rewrite gloop_S. unfold step at 1. cbv beta iota zeta.
      unfold glen. destruct (N.ltb_spec (N.of_nat k) (N.of_nat (length bs))); [|lia].
      unfold gidx. rewrite Nat2N.id, Eb.
      rewrite (writeByte_is_translation v0 b fuel Hp0) by (rewrite ?Ht0, ?Hf0; assumption).
      destruct (write_byte v0 b) as [[v1 e]|] eqn:E1; [|reflexivity]. cbn [res_err bind].
      unfold err_of at 1. destruct (N.eqb_spec e 0) as [->|Hne].
      + cbn [gerr_eqb negb].
        pose proof (write_byte_frame _ _ _ _ E1) as F.
        replace (N.of_nat k + 1) with (N.of_nat (S k)) by lia.
        apply IH; try lia.
        * exact (vt_pre_frame _ _ F Hp0).
        * destruct F as (_ & _ & F3 & _). congruence.
        * rewrite (vt_fuel_frame _ _ F). exact Hf0.
      + cbn [gerr_eqb negb]. destruct (N.eqb_spec e 0); [contradiction|].
        unfold err_of. destruct (N.eqb_spec e 0); [contradiction|]. reflexivity. }
  change 0 with (N.of_nat 0) at 1.
  rewrite (L (length bs) 0%nat v fuel Hp eq_refl eq_refl eq_refl Hlen). cbn [skipn N.of_nat].
  destruct (write v bs 0) as [[[v' c] e]|] eqn:E; [|reflexivity].
  destruct (N.eqb_spec e 0) as [->|Hne]; [|reflexivity].
  apply write_count in E. cbn [res_write]. unfold err_of, glen. cbn [N.eqb]. repeat f_equal. lia.
Qed.

(** ---- SetState ---- *)
Lemma emit_set_trace v tr c : emit (set_trace v tr) c = set_trace v (c :: tr).
Proof. reflexivity. Qed.

Lemma redraw_row_shape v y : forall xs tr off v', redraw_row (set_trace v tr) xs off y = Ok v' -> exists tr', v' = set_trace v tr'.
Proof.
  induction xs as [|x r IH]; intros tr off v' E; cbn [redraw_row] in E.
  - injection E as <-. eauto.
  - destruct (getN _ off); [|discriminate]. destruct (getN _ (w32 (off + 1))); [|discriminate].
    destruct (getN _ (w32 (off + 2))); [|discriminate]. rewrite emit_set_trace in E. eapply IH. exact E.
Qed.

Theorem setState_is_translation v s fuel :
  vw v < two32 - 1 -> vh v < two32 - 1 -> (N.to_nat (vw v) + 1 < fuel)%nat -> (N.to_nat (vh v) + 1 < fuel)%nat ->
  go_tty_VT_SetState fuel (to_gof v) s = res_unit (set_state v s).
Proof.
  intros Hw Hh Hfw Hfh. unfold two32 in *.
  cbv delta [go_tty_VT_SetState set_state]. cbv beta zeta. gstep.
  destruct (st v =? s); [reflexivity|].
  destruct (s =? tty_StateActive); cbn [andb]; [|reflexivity].
  destruct (attached v) eqn:Ha; [|reflexivity].
  set (v1 := set_st v s).
  assert (Ha1 : attached v1 = true) by exact Ha.
  change (vh v) with (vh v1). change (vw v) with (vw v1) in Hw, Hfw. change (vh v) with (vh v1) in Hh, Hfh.
  clearbody v1. clear Ha v.
  match goal with |- context [gloop fuel ?f _] => set (stepO := f) end.
  (* one iteration of the outer loop is one redraw_row *)
  assert (Row : forall tr y, 1 <= y -> y <= vh v1 ->
            stepO (to_gof (set_trace v1 tr), y) =
            match redraw_row (set_trace v1 tr) (seqN 1 (vw v1)) (w32 (w32 (sub32 y 1 + vy v1) * w32 (vw v1 * 3))) y with
            | Ok v' => GOk (GNext (to_gof v', y + 1))
            | PanicOOB => GPanic
            end).
  { intros tr y Hy1 Hy2. unfold stepO. cbv beta iota zeta. gstep.
    destruct (N.leb_spec y (vh v1)); [|lia].
    match goal with |- context [gloop fuel ?f _] => set (stepR := f) end.
    assert (L : forall n x off tr0 fu, 1 <= x -> x + N.of_nat n = vw v1 + 1 -> off < two32 -> (n < fu)%nat ->
              gloop fu stepR (to_gof (set_trace v1 tr0), off, x) =
              match redraw_row (set_trace v1 tr0) (seqN x (N.of_nat n)) off y with
              | Ok v' => GOk (inl (to_gof v', w32 (off + 3 * N.of_nat n), vw v1 + 1))
              | PanicOOB => GPanic
              end).
    { induction n as [|n IH]; intros x off tr0 fu Hx Hxn Hoff Hfu; (destruct fu as [|fu]; [lia|]).
      - cbn [N.of_nat]. rewrite seqN_0. cbn [redraw_row].
        rewrite gloop_break with (s' := (to_gof (set_trace v1 tr0), off, x)).
        + rewrite N.mul_0_r, N.add_0_r, (w32_small off Hoff). repeat f_equal. lia.
        + unfold stepR. gproj. destruct (N.leb_spec x (vw v1)); [lia|reflexivity].
      - rewrite seqN_cons by lia. cbn [redraw_row]. gproj.
        rewrite gloop_S. unfold stepR at 1. cbv beta iota zeta. gstep.
        destruct (N.leb_spec x (vw v1)); [|lia].
        rewrite <- getN_gidx. destruct (getN (data v1) off) as [a|]; [|reflexivity]. gstep.
        rewrite <- getN_gidx. destruct (getN (data v1) (w32 (off + 1))) as [b|]; [|reflexivity]. gstep.
        rewrite <- getN_gidx. destruct (getN (data v1) (w32 (off + 2))) as [c|]; [|reflexivity]. gstep.
        rewrite Ha1. gstep.
        rewrite emit_set_trace.
        rewrite (w32_small (x + 1)) by (unfold two32; lia).
        replace (N.of_nat (S n) - 1) with (N.of_nat n) by lia.
        rewrite (IH (x + 1) (w32 (off + 3)) (CWrite a b c x y :: tr0) fu ltac:(lia) ltac:(lia) (w32_lt _) ltac:(lia)).
        destruct (redraw_row _ _ _ _); [|reflexivity].
        replace (w32 (w32 (off + 3) + 3 * N.of_nat n)) with (w32 (off + 3 * N.of_nat (S n))) by (unfold w32, two32; lia).
        reflexivity. }
    change (w32 1) with 1.
    rewrite (L (N.to_nat (vw v1)) 1 _ tr fuel ltac:(lia) ltac:(lia) (w32_lt _) ltac:(lia)).
    rewrite N2Nat.id.
    destruct (redraw_row _ _ _ _); [|reflexivity].
    cbv beta iota. rewrite (w32_small (y + 1)) by (unfold two32; lia). reflexivity. }
  (* the outer loop *)
  assert (LO : forall m y tr fu, 1 <= y -> y + N.of_nat m = vh v1 + 1 -> (m < fu)%nat ->
            gloop fu stepO (to_gof (set_trace v1 tr), y) =
            match redraw_rows (set_trace v1 tr) (seqN y (N.of_nat m)) with
            | Ok v' => GOk (inl (to_gof v', vh v1 + 1))
            | PanicOOB => GPanic
            end).
  { induction m as [|m IH]; intros y tr fu Hy Hym Hfu; (destruct fu as [|fu]; [lia|]).
    - cbn [N.of_nat]. rewrite seqN_0. cbn [redraw_rows].
      rewrite gloop_break with (s' := (to_gof (set_trace v1 tr), y)); [repeat f_equal; lia|].
      unfold stepO. gproj. destruct (N.leb_spec y (vh v1)); [lia|reflexivity].
    - rewrite seqN_cons by lia. cbn [redraw_rows]. gproj.
      rewrite gloop_S, (Row tr y Hy ltac:(lia)).
      destruct (redraw_row _ _ _ _) as [v2|] eqn:E2; [|reflexivity]. cbn [bind].
      destruct (redraw_row_shape _ _ _ _ _ _ E2) as (tr2 & ->).
      replace (N.of_nat (S m) - 1) with (N.of_nat m) by lia.
      apply IH; lia. }
  change (w32 1) with 1.
  replace (to_gof v1) with (to_gof (set_trace v1 (trace v1))) by (destruct v1; reflexivity).
  rewrite (LO (N.to_nat (vh v1)) 1 (trace v1) fuel ltac:(lia) ltac:(lia) ltac:(lia)).
  rewrite N2Nat.id.
  replace (set_trace v1 (trace v1)) with v1 by (destruct v1; reflexivity).
  destruct (redraw_rows v1 _); reflexivity.
Qed.

(** ---- AttachTo ---- *)
Lemma go_ext g g' :
  f_VT_cons g = f_VT_cons g' -> f_VT_termWidth g = f_VT_termWidth g' -> f_VT_termHeight g = f_VT_termHeight g' ->
  f_VT_viewportWidth g = f_VT_viewportWidth g' -> f_VT_viewportHeight g = f_VT_viewportHeight g' ->
  f_VT_scrollback g = f_VT_scrollback g' -> f_VT_data g = f_VT_data g' -> f_VT_tabWidth g = f_VT_tabWidth g' ->
  f_VT_defaultFg g = f_VT_defaultFg g' -> f_VT_curFg g = f_VT_curFg g' -> f_VT_defaultBg g = f_VT_defaultBg g' ->
  f_VT_curBg g = f_VT_curBg g' -> f_VT_cursorX g = f_VT_cursorX g' -> f_VT_cursorY g = f_VT_cursorY g' ->
  f_VT_viewportY g = f_VT_viewportY g' -> f_VT_dataOffset g = f_VT_dataOffset g' -> f_VT_state g = f_VT_state g' ->
  f_VT_trace g = f_VT_trace g' -> g = g'.
Proof.
  destruct g as [a1 a2 a3 a4 a5 a6 a7 a8 a9 a10 a11 a12 a13 a14 a15 a16 a17 a18], g' as [b1 b2 b3 b4 b5 b6 b7 b8 b9 b10 b11 b12 b13 b14 b15 b16 b17 b18]. cbn [f_VT_cons f_VT_termWidth f_VT_termHeight f_VT_viewportWidth f_VT_viewportHeight f_VT_scrollback f_VT_data
       f_VT_tabWidth f_VT_defaultFg f_VT_curFg f_VT_defaultBg f_VT_curBg f_VT_cursorX f_VT_cursorY f_VT_viewportY
       f_VT_dataOffset f_VT_state f_VT_trace].
  intros; subst; reflexivity.
Qed.

(** a nil console: nothing happens *)
Theorem attachTo_nil_is_translation v fuel fg bg w h :
  go_tty_VT_AttachTo fuel (to_gof v) false fg bg w h = GOk (to_gof v, tt).
Proof. reflexivity. Qed.

(** a console reporting Dimensions(Characters) = (w, h), DefaultColors() = (fg, bg) *)
Theorem attachTo_is_translation v w h fg bg fuel :
  (N.to_nat two32 < fuel)%nat ->
  go_tty_VT_AttachTo fuel (to_gof v) true fg bg w h = res_unit (attach v w h fg bg).
Proof.
  intros Hfuel.
  cbv delta [go_tty_VT_AttachTo attach]. cbv beta zeta. cbn [negb].
  set (th' := w32 (h + sb v)).
  set (V0 := mkVT true w h w th' (sb v) (tabw v) fg bg fg bg 1 1 0 (doff v) (st v) (data v) (trace v)).
  match goal with |- context [f_VT_termWidth ?c] => set (C := c) end.
  assert (EC : C = to_gof V0) by (apply go_ext; reflexivity).
  clearbody C. subst C. gstep. change (tw V0) with w. change (th V0) with th'. set (len := w32 (w32 (w * th') * 3)).
  assert (Hlen : len < two32) by apply w32_lt. unfold two32 in *.
  unfold gmake. destruct (N.ltb_spec len (2 ^ 63)); [|change (2 ^ 63) with 9223372036854775808 in *; lia].
  gstep.
  match goal with |- context [gloop fuel ?f _] => set (stepA := f) end.
  assert (LA : forall n d o fu, N.of_nat (length d) = len -> o < len + 3 ->
            n = N.to_nat ((len - o + 2) / 3) -> (n < fu)%nat ->
            gloop fu stepA (to_gof (set_data V0 d), o) =
            match blank_loop n d o len fg bg with
            | Some d' => GOk (inl (to_gof (set_data V0 d'), o + 3 * N.of_nat n))
            | None => GPanic
            end).
  { induction n as [|n IH]; intros d o fu Hd Ho Hn Hfu; (destruct fu as [|fu]; [lia|]).
    - cbn [blank_loop]. replace (o + 3 * N.of_nat 0) with o by lia.
      apply gloop_break. unfold stepA. gproj. unfold glen. rewrite Hd.
      rewrite gslt_small by (unfold two63; change (2 ^ 63) with 9223372036854775808; lia).
      destruct (N.ltb_spec o len); [lia|reflexivity].
    - cbn [blank_loop]. destruct (N.ltb_spec o len) as [A|A]; [|lia].
      assert (Hd63 : lenN d < two63) by (rewrite lenN_length, Hd; unfold two63; change (2 ^ 63) with 9223372036854775808; lia).
      rewrite gloop_S. unfold stepA at 1. cbv beta iota zeta. gstep. unfold glen. rewrite Hd.
      rewrite gslt_small by (unfold two63; change (2 ^ 63) with 9223372036854775808; lia).
      destruct (N.ltb_spec o len); [|lia].
      change (gw 8 32) with 32.
      rewrite gsets_setN by exact Hd63.
      destruct (setN d o 32) as [da|] eqn:Ea; [|reflexivity].
      assert (Hda : length da = length d) by exact (setN_length _ _ _ _ Ea).
      gstep. change (dfg V0) with fg. rewrite (w64_small (o + 1)) by (unfold two64; lia).
      rewrite gsets_setN by (rewrite lenN_length, Hda, <- lenN_length; exact Hd63).
      destruct (setN da (o + 1) fg) as [db|] eqn:Eb; [|reflexivity].
      assert (Hdb : length db = length d) by (rewrite (setN_length _ _ _ _ Eb); exact Hda).
      gstep. change (dbg V0) with bg. rewrite (w64_small (o + 2)) by (unfold two64; lia).
      rewrite gsets_setN by (rewrite lenN_length, Hdb, <- lenN_length; exact Hd63).
      destruct (setN db (o + 2) bg) as [dc|] eqn:Ec; [|reflexivity].
      assert (Hdc : length dc = length d) by (rewrite (setN_length _ _ _ _ Ec); exact Hdb).
      gstep. rewrite (w64_small (o + 3)) by (unfold two64; lia).
      match goal with |- context [gloop fu stepA (?X, o + 3)] => change X with (to_gof (set_data V0 dc)) end.
      rewrite (IH dc (o + 3) fu ltac:(rewrite Hdc; exact Hd) ltac:(lia) ltac:(lia) ltac:(lia)).
      replace (o + 3 * N.of_nat (S n)) with (o + 3 + 3 * N.of_nat n) by lia. reflexivity. }
  change (w64 0) with 0.
  rewrite (LA (N.to_nat ((len + 2) / 3)) (repeat 0 (N.to_nat len)) 0 fuel);
    [ | rewrite repeat_length; lia | lia | f_equal; f_equal; lia | lia ].
  rewrite attach_fill_is_loop.
  destruct (len mod 3 =? 0); reflexivity.
Qed.

(** ---- the preconditions are kept along a history (so the equalities chain) ---- *)
Lemma redraw_rows_shape v : forall ys tr v', redraw_rows (set_trace v tr) ys = Ok v' -> exists tr', v' = set_trace v tr'.
Proof.
  induction ys as [|y r IH]; intros tr v' E; cbn [redraw_rows] in E.
  - injection E as <-. eauto.
  - destruct (redraw_row _ _ _ _) as [v1|] eqn:E1; [|discriminate]. cbn [bind] in E.
    change (vw (set_trace v tr)) with (vw v) in E1. change (vy (set_trace v tr)) with (vy v) in E1.
    destruct (redraw_row_shape v y _ tr _ _ E1) as (tr1 & ->). eapply IH. exact E.
Qed.

Lemma set_state_frame v s v' : set_state v s = Ok v' -> frame v v'.
Proof.
  unfold set_state. destruct (st v =? s); [intros E; injection E as <-; apply frame_refl|].
  destruct ((s =? tty_StateActive) && attached (set_st v s)).
  - intros E. replace (set_st v s) with (set_trace (set_st v s) (trace (set_st v s))) in E by (destruct v; reflexivity).
    destruct (redraw_rows_shape _ _ _ _ E) as (tr' & ->).
    apply (frame_trans _ (set_st v s)); [apply frame_set_st|]. unfold frame, set_trace. gproj. auto.
  - intros E. injection E as <-. apply frame_set_st.
Qed.

Theorem vt_pre_kept :
  (forall v b v' e, write_byte v b = Ok (v', e) -> vt_pre v -> vt_pre v' /\ tabw v' = tabw v /\ vt_fuel v' = vt_fuel v) /\
  (forall v x y, vt_pre v -> vt_pre (set_cursor_position v x y) /\ tabw (set_cursor_position v x y) = tabw v /\
                 vt_fuel (set_cursor_position v x y) = vt_fuel v) /\
  (forall v s v', set_state v s = Ok v' -> vt_pre v -> vt_pre v' /\ tabw v' = tabw v /\ vt_fuel v' = vt_fuel v) /\
  (forall v w h fg bg v', attach v w h fg bg = Ok v' -> w32 (w * 3) < 2 ^ 31 -> vt_pre v' /\ tabw v' = tabw v).
Proof.
  split; [|split; [|split]].
  - intros v b v' e E Hp. pose proof (write_byte_frame _ _ _ _ E) as F.
    split; [exact (vt_pre_frame _ _ F Hp)|]. split; [destruct F as (_ & _ & F3 & _); exact F3|exact (vt_fuel_frame _ _ F)].
  - intros v x y Hp. pose proof (scp_frame v x y) as F.
    split; [exact (vt_pre_frame _ _ F Hp)|]. split; [destruct F as (_ & _ & F3 & _); exact F3|exact (vt_fuel_frame _ _ F)].
  - intros v s v' E Hp. pose proof (set_state_frame _ _ _ E) as F.
    split; [exact (vt_pre_frame _ _ F Hp)|]. split; [destruct F as (_ & _ & F3 & _); exact F3|exact (vt_fuel_frame _ _ F)].
  - intros v w h fg bg v' E Hw. unfold attach in E.
    destruct (_ mod 3 =? 0); [|discriminate]. injection E as <-.
    split; [|reflexivity]. unfold vt_pre, stride_of. gproj.
    split; [reflexivity|]. split; [|exact Hw].
    rewrite lenN_length, blank_cells_length.
    pose proof (w32_lt (w32 (w * w32 (h + sb v)) * 3)) as B. unfold two32 in B. unfold two63.
    change (2 ^ 63) with 9223372036854775808. lia.
Qed.
