(** Small-step interleaving machine for kernel/sync/spinlock_amd64.s + spinlock.go (C08).
    Definitions only.  The program is a parameter ([cfg]); [gen_cfg] is the one regenerated from
    the source on every run (Gen/SpinAsm.v). *)
From Coq Require Import NArith List Bool.
From FF Require Import Lib.Word Sync.Instr Gen.SpinAsm.
Import ListNotations.
Local Open Scope N_scope.

Record cfg := { prog : list instr; attempts : N; tswap : N; tcmp : N; rstore : N }.

Definition gen_cfg : cfg :=
  {| prog := acquire_prog; attempts := acquire_attempts; tswap := try_swap; tcmp := try_cmp; rstore := release_store |}.

(** What AX holds (it is a pointer register in this routine). *)
Inductive axval := PState | PYieldFn | PNull | PJunk.

Record regs := { ax : axval; bx : N; cx : N; zf : bool }.

Inductive tstate :=
| Idle
| InAcq (pc : nat) (r : regs)       (* inside archAcquireSpinlock *)
| Holding (tmp : option N)          (* in the critical section; [Some v] = between the read and the write of the protected counter *)
| Faulted.                          (* stray memory access / unknown instruction / fell off the routine *)

Record mstate := { lock : N; counter : N; ndone : N; threads : list tstate }.

Definition axval_eqb (a b : axval) : bool :=
  match a, b with PState, PState | PYieldFn, PYieldFn | PNull, PNull | PJunk, PJunk => true | _, _ => false end.

Definition set_reg (r : regs) (x : reg) (v : N) : regs :=
  match x with
  | AX => {| ax := PJunk; bx := bx r; cx := cx r; zf := zf r |}
  | BX => {| ax := ax r; bx := w32 v; cx := cx r; zf := zf r |}
  | CX => {| ax := ax r; bx := bx r; cx := w32 v; zf := zf r |}
  end.

Definition with_ax (r : regs) (a : axval) : regs := {| ax := a; bx := bx r; cx := cx r; zf := zf r |}.
Definition with_zf (r : regs) (z : bool) : regs := {| ax := ax r; bx := bx r; cx := cx r; zf := z |}.

(** One instruction of a thread at [pc] with registers [r]; [lk] is the lock word, [yield] says whether
    yieldFn is set, [h] is an arbitrary value: what a plain (non-atomic) read returns and what registers
    hold after a call.  Returns the thread's next state and the lock word. *)
Definition exec (c : cfg) (yield : bool) (i : instr) (pc : nat) (r : regs) (lk h : N) : tstate * N :=
  match i with
  | ILoadStatePtr => (InAcq (S pc) (with_ax r PState), lk)
  | ILoadAttempts => (InAcq (S pc) (set_reg r CX (attempts c)), lk)
  | IMovImm x v => (InAcq (S pc) (set_reg r x v), lk)
  | IXchg => match ax r with
             | PState => (InAcq (S pc) (set_reg r BX lk), bx r)
             | _ => (Faulted, lk)
             end
  | ITest x =>
      let z := match x with
               | AX => match ax r with PNull => true | PJunk => N.even h | _ => false end
               | BX => bx r =? 0
               | CX => cx r =? 0
               end in
      (InAcq (S pc) (with_zf r z), lk)
  | IJnz t => (InAcq (if zf r then S pc else t) r, lk)
  | IJz t => (InAcq (if zf r then t else S pc) r, lk)
  | IJmp t => (InAcq t r, lk)
  | IRet => (Holding None, lk)          (* Acquire returns: the caller now believes it holds the lock *)
  | IPause => (InAcq (S pc) r, lk)
  | ILoad => match ax r with
             | PState => (InAcq (S pc) (set_reg r BX h), lk)
             | _ => (Faulted, lk)
             end
  | IStore => match ax r with
              | PState => (InAcq (S pc) r, bx r)
              | _ => (Faulted, lk)
              end
  | IDec x =>
      let v := match x with AX => 0 | BX => bx r | CX => cx r end in
      let v' := w32 (v + two32 - 1) in
      match x with
      | AX => (Faulted, lk)
      | _ => (InAcq (S pc) (with_zf (set_reg r x v') (v' =? 0)), lk)
      end
  | ILoadYield => (InAcq (S pc) (with_ax r (if yield then PYieldFn else PNull)), lk)
  | ICallAX => match ax r with
               | PYieldFn => (InAcq (S pc) {| ax := PJunk; bx := w32 h; cx := w32 (h / two32); zf := N.odd h |}, lk)
               | _ => (Faulted, lk)
               end
  | IBad => (Faulted, lk)
  end.

Inductive choice :=
| CStartAcq            (* call Acquire *)
| CTry                 (* call TryToAcquire *)
| CRelease             (* call Release (only a holder does) *)
| CCsRead | CCsWrite   (* the two halves of a non-atomic increment of the protected counter *)
| CInstr (h : N).      (* one instruction of archAcquireSpinlock *)

Definition label : Type := (nat * choice)%type.

Definition entry_regs : regs := {| ax := PJunk; bx := 0; cx := 0; zf := false |}.

Fixpoint upd {A} (l : list A) (i : nat) (x : A) : list A :=
  match l, i with
  | [], _ => []
  | _ :: t, O => x :: t
  | a :: t, S i => a :: upd t i x
  end.

(** [Some (s', out)]: the step is enabled; [out] is the boolean returned by TryToAcquire. *)
Definition step (c : cfg) (yield : bool) (s : mstate) (l : label) : option (mstate * option bool) :=
  let '(tid, ch) := l in
  match nth_error (threads s) tid with
  | None => None
  | Some t =>
      let put t' lk cnt dn := {| lock := lk; counter := cnt; ndone := dn; threads := upd (threads s) tid t' |} in
      match ch, t with
      | CStartAcq, Idle => Some (put (InAcq 0 entry_regs) (lock s) (counter s) (ndone s), None)
      | CTry, Idle =>
          let old := lock s in
          let ok := old =? tcmp c in
          Some (put (if ok then Holding None else Idle) (tswap c) (counter s) (ndone s), Some ok)
      | CRelease, Holding None => Some (put Idle (rstore c) (counter s) (ndone s), None)
      | CCsRead, Holding None => Some (put (Holding (Some (counter s))) (lock s) (counter s) (ndone s), None)
      | CCsWrite, Holding (Some v) => Some (put (Holding None) (lock s) (v + 1) (ndone s + 1), None)
      | CInstr h, InAcq pc r =>
          match nth_error (prog c) pc with
          | None => Some (put Faulted (lock s) (counter s) (ndone s), None)
          | Some i => let '(t', lk) := exec c yield i pc r (lock s) h in
                      Some (put t' lk (counter s) (ndone s), None)
          end
      | _, _ => None
      end
  end.

Fixpoint run (c : cfg) (yield : bool) (s : mstate) (ls : list label) : option mstate :=
  match ls with
  | [] => Some s
  | l :: rest => match step c yield s l with
                 | Some (s', _) => run c yield s' rest
                 | None => None
                 end
  end.

Definition init (n : nat) : mstate := {| lock := 0; counter := 0; ndone := 0; threads := repeat Idle n |}.

Definition is_holding (t : tstate) : bool := match t with Holding _ => true | _ => false end.
Definition is_faulted (t : tstate) : bool := match t with Faulted => true | _ => false end.
Definition holders (s : mstate) : nat := length (filter is_holding (threads s)).

(** ---- sequential runs of one thread (correspondence with the real lock) ---- *)

(** run thread [tid] alone inside Acquire, every plain read returning the true lock value *)
Fixpoint solo_acquire (c : cfg) (yield : bool) (fuel : nat) (tid : nat) (s : mstate) : mstate * bool :=
  match fuel with
  | O => (s, false)
  | S fuel =>
      match nth_error (threads s) tid with
      | Some (InAcq _ _) =>
          match step c yield s (tid, CInstr (lock s)) with
          | Some (s', _) => solo_acquire c yield fuel tid s'
          | None => (s, false)
          end
      | Some (Holding _) => (s, true)
      | _ => (s, false)
      end
  end.

(** ops: 0 = TryToAcquire, 1 = Release, 2 = Acquire.  Output per op: result code, lock word.
    result code: 0/1 = TryToAcquire returned false/true, 2 = returned, 3 = did not return (hang / fault) *)
Fixpoint seq_run (c : cfg) (fuel : nat) (s : mstate) (ops : list N) : list N :=
  match ops with
  | [] => []
  | o :: rest =>
      if o =? 0 then
        match step c false s (O, CTry) with
        | Some (s', Some b) => (if b then 1 else 0) :: lock s' :: seq_run c fuel s' rest
        | _ =>   (* thread already holds: TryToAcquire by a holder just swaps *)
            let s' := {| lock := tswap c; counter := counter s; ndone := ndone s; threads := threads s |} in
            (if lock s =? tcmp c then 1 else 0) :: lock s' :: seq_run c fuel s' rest
        end
      else if o =? 1 then
        let s' := {| lock := rstore c; counter := counter s; ndone := ndone s; threads := [Idle] |} in
        2 :: lock s' :: seq_run c fuel s' rest
      else
        match step c false {| lock := lock s; counter := counter s; ndone := ndone s; threads := [Idle] |} (O, CStartAcq) with
        | Some (s1, _) =>
            let '(s2, ok) := solo_acquire c false fuel O s1 in
            (if ok then 2 else 3) :: lock s2 :: (if ok then seq_run c fuel s2 rest else [])
        | None => [3; lock s]
        end
  end.

(** ---- bounded search for a schedule that breaks mutual exclusion (used only to FIND a replay when the
    proofs no longer check against a regenerated program; never stands in for a theorem) ---- *)

Definition enc_ax (a : axval) : N := match a with PState => 0 | PYieldFn => 1 | PNull => 2 | PJunk => 3 end.
Definition enc_t (t : tstate) : N :=
  match t with
  | Idle => 0
  | Holding _ => 1
  | Faulted => 2
  | InAcq pc r => 3 + (N.of_nat pc + 64 * (enc_ax (ax r) + 4 * ((if zf r then 1 else 0) + 2 * (N.min (bx r) 3 + 4 * N.min (cx r) 3))))
  end.
Definition enc_s (s : mstate) : N := fold_left (fun acc t => acc * 65536 + enc_t t) (threads s) (N.min (lock s) 3).

Definition choices : list choice := [CStartAcq; CTry; CRelease; CInstr 0; CInstr 1].

Definition bad (s : mstate) : bool := (Nat.ltb 1 (holders s)) || existsb is_faulted (threads s).

Fixpoint mem_N (x : N) (l : list N) : bool := match l with [] => false | y :: t => (x =? y) || mem_N x t end.

(** breadth-first search; frontier entries carry their schedule (reversed) *)
Fixpoint bfs (c : cfg) (yield : bool) (n : nat) (fuel : nat) (frontier : list (mstate * list label)) (seen : list N)
  : option (list label) :=
  match fuel with
  | O => None
  | S fuel =>
      match frontier with
      | [] => None
      | _ =>
          let expand (acc : list (mstate * list label) * list N * option (list label)) (e : mstate * list label) :=
            let '(s, path) := e in
            fold_left (fun acc tid =>
              fold_left (fun acc ch =>
                let '(nf, sn, found) := acc in
                match found with
                | Some _ => acc
                | None =>
                    match step c yield s (tid, ch) with
                    | None => acc
                    | Some (s', _) =>
                        if bad s' then (nf, sn, Some (rev ((tid, ch) :: path)))
                        else let k := enc_s s' in
                             if mem_N k sn then acc else ((s', (tid, ch) :: path) :: nf, k :: sn, None)
                    end
                end) choices acc) (seq 0 n) acc in
          let '(nf, sn, found) := fold_left expand frontier ([], seen, None) in
          match found with
          | Some p => Some p
          | None => bfs c yield n fuel nf sn
          end
      end
  end.

Definition enc_choice (ch : choice) : N :=
  match ch with CStartAcq => 0 | CTry => 1 | CRelease => 2 | CCsRead => 3 | CCsWrite => 4 | CInstr h => 5 + h end.

(** case = 0 :: ops                      -> sequential run
         1 :: _                          -> stress configuration (real lock only); model answers [1]
         2 :: nthreads :: depth :: yield -> bounded search: [0] or 1 :: schedule as (tid, choice) pairs *)
Definition run_case (l : list N) : list N :=
  match l with
  | 0 :: ops => seq_run gen_cfg 200 (init 1) ops
  | 1 :: _ => [1]
  | 2 :: n :: depth :: y :: _ =>
      match bfs gen_cfg (negb (y =? 0)) (N.to_nat n) (N.to_nat depth) [(init (N.to_nat n), [])] [enc_s (init (N.to_nat n))] with
      | None => [0]
      | Some p => 1 :: flat_map (fun '(tid, ch) => [N.of_nat tid; enc_choice ch]) p
      end
  | _ => []
  end.
