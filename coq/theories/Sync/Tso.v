(** The spinlock machine of Sync/Machine.v under x86-TSO (C08: "tasks running truly in parallel on all
    cores", "work done inside the lock by one holder is visible to the next holder").
    Definitions only.

    Every task (= core) has a FIFO store buffer.  A plain store (the write half of the protected
    counter's increment; a plain MOVL to the lock word, should the routine contain one) is appended to
    the task's own buffer and reaches memory later, at a [TFlush] step the scheduler chooses.  A plain
    load sees the newest entry of the task's own buffer for that location, else memory (for the lock
    word the machine is more liberal still: the "dirty read" returns an arbitrary value, as in the
    interleaving model).  A LOCK-prefixed instruction - XCHGL (implicitly locked), i.e. the exchange in
    archAcquireSpinlock and atomic.SwapUint32 in TryToAcquire - executes only when the task's own
    buffer is empty and acts on memory directly.  Release is atomic.StoreUint32: an XCHGL on amd64
    ([locked_release = true]); the machine also covers a release by a plain buffered MOVL
    ([locked_release = false]), of which the locked store is the special case "drain, store, drain".
    Instruction semantics ([exec]), programs ([cfg]) and thread states are those of Sync/Machine.v. *)
From Coq Require Import NArith List Bool.
From FF Require Import Lib.Word Sync.Instr Gen.SpinAsm Sync.Machine.
Import ListNotations.
Local Open Scope N_scope.

Inductive wr := WLock (v : N) | WCounter (v : N).

Definition is_lockw (w : wr) : bool := match w with WLock _ => true | WCounter _ => false end.
Definition is_counterw (w : wr) : bool := match w with WLock _ => false | WCounter _ => true end.

(** the protected counter as a task with buffer [buf] reads it (oldest entry first) *)
Fixpoint view (buf : list wr) (m : N) : N :=
  match buf with
  | [] => m
  | WCounter v :: rest => view rest v
  | WLock _ :: rest => view rest m
  end.

Record tso := { m_lock : N; m_counter : N; t_ndone : N; tthreads : list (tstate * list wr) }.

Inductive tchoice :=
| TFlush                 (* the oldest buffered store of the task reaches memory *)
| TOp (ch : choice).     (* a program step of the task *)

Definition tlabel : Type := (nat * tchoice)%type.

Definition tstep (c : cfg) (yield locked_release : bool) (s : tso) (l : tlabel) : option (tso * option bool) :=
  let '(tid, ch) := l in
  match nth_error (tthreads s) tid with
  | None => None
  | Some (t, buf) =>
      let put t' buf' lk cnt dn :=
        {| m_lock := lk; m_counter := cnt; t_ndone := dn; tthreads := upd (tthreads s) tid (t', buf') |} in
      match ch with
      | TFlush =>
          match buf with
          | [] => None
          | WLock v :: rest => Some (put t rest v (m_counter s) (t_ndone s), None)
          | WCounter v :: rest => Some (put t rest (m_lock s) v (t_ndone s), None)
          end
      | TOp CStartAcq =>
          match t with
          | Idle => Some (put (InAcq 0 entry_regs) buf (m_lock s) (m_counter s) (t_ndone s), None)
          | _ => None
          end
      | TOp CTry =>
          match t, buf with
          | Idle, [] =>
              let ok := m_lock s =? tcmp c in
              Some (put (if ok then Holding None else Idle) [] (tswap c) (m_counter s) (t_ndone s), Some ok)
          | _, _ => None
          end
      | TOp CRelease =>
          match t with
          | Holding None =>
              if locked_release then
                match buf with
                | [] => Some (put Idle [] (rstore c) (m_counter s) (t_ndone s), None)
                | _ => None
                end
              else Some (put Idle (buf ++ [WLock (rstore c)]) (m_lock s) (m_counter s) (t_ndone s), None)
          | _ => None
          end
      | TOp CCsRead =>
          match t with
          | Holding None => Some (put (Holding (Some (view buf (m_counter s)))) buf (m_lock s) (m_counter s) (t_ndone s), None)
          | _ => None
          end
      | TOp CCsWrite =>
          match t with
          | Holding (Some v) => Some (put (Holding None) (buf ++ [WCounter (v + 1)]) (m_lock s) (m_counter s) (t_ndone s + 1), None)
          | _ => None
          end
      | TOp (CInstr h) =>
          match t with
          | InAcq pc r =>
              match nth_error (prog c) pc with
              | None => Some (put Faulted buf (m_lock s) (m_counter s) (t_ndone s), None)
              | Some IXchg =>
                  match buf with
                  | [] => let '(t', lk) := exec c yield IXchg pc r (m_lock s) h in
                          Some (put t' [] lk (m_counter s) (t_ndone s), None)
                  | _ => None
                  end
              | Some IStore =>
                  match ax r with
                  | PState => Some (put (InAcq (S pc) r) (buf ++ [WLock (bx r)]) (m_lock s) (m_counter s) (t_ndone s), None)
                  | _ => Some (put Faulted buf (m_lock s) (m_counter s) (t_ndone s), None)
                  end
              | Some i => let '(t', _) := exec c yield i pc r (m_lock s) h in
                          Some (put t' buf (m_lock s) (m_counter s) (t_ndone s), None)
              end
          | _ => None
          end
      end
  end.

Fixpoint trun (c : cfg) (yield lr : bool) (s : tso) (ls : list tlabel) : option tso :=
  match ls with
  | [] => Some s
  | l :: rest => match tstep c yield lr s l with
                 | Some (s', _) => trun c yield lr s' rest
                 | None => None
                 end
  end.

Definition tinit (n : nat) : tso := {| m_lock := 0; m_counter := 0; t_ndone := 0; tthreads := repeat (Idle, []) n |}.

Definition TReachable (n : nat) (y lr : bool) (s : tso) : Prop := exists ls, trun gen_cfg y lr (tinit n) ls = Some s.

Definition tholders (s : tso) : nat := length (filter (fun p => is_holding (fst p)) (tthreads s)).

(** all tasks idle, all store buffers drained *)
Definition quiescent (s : tso) : Prop := Forall (fun p => p = (Idle, [])) (tthreads s).

(** the interleaving machine's state seen as a TSO state with all buffers empty *)
Definition embed (s : mstate) : tso :=
  {| m_lock := lock s; m_counter := counter s; t_ndone := ndone s; tthreads := map (fun t => (t, [])) (threads s) |}.
