(** Executable interface for the C09 correspondence driver: the stress harness runs the real allocator;
    the model side only reports the verdict of the skeleton checker on the regenerated skeletons. *)
From Coq Require Import NArith List String.
From FF Require Import Sync.Skel Gen.LockSkel.
Import ListNotations.
Local Open Scope N_scope.

Definition skeletons_ok : bool :=
  well_bracketed skel_AllocFrame && well_bracketed skel_FreeFrame &&
  mentions_shared skel_AllocFrame && mentions_shared skel_FreeFrame &&
  match skel_unknown with [] => true | _ => false end.

Definition run_case (l : list N) : list N := [if skeletons_ok then 1 else 0].
