(** Obligations on the skeletons regenerated from bitmap_allocator.go (Gen/LockSkel.v). *)
From Coq Require Import NArith List String Bool.
From FF Require Import Sync.Skel Sync.SkelProofs Gen.LockSkel Sync.SkelRun.
Import ListNotations.

Lemma skeletons_ok_true : skeletons_ok = true.
Proof. vm_compute. reflexivity. Qed.

Lemma alloc_wb : well_bracketed skel_AllocFrame = true.
Proof. vm_compute. reflexivity. Qed.

Lemma free_wb : well_bracketed skel_FreeFrame = true.
Proof. vm_compute. reflexivity. Qed.

Lemma alloc_paths t o : exec skel_AllocFrame t o -> lkrun false t = Some false /\ (o = ONormal \/ o = OReturn).
Proof. apply well_bracketed_sound. exact alloc_wb. Qed.

Lemma free_paths t o : exec skel_FreeFrame t o -> lkrun false t = Some false /\ (o = ONormal \/ o = OReturn).
Proof. apply well_bracketed_sound. exact free_wb. Qed.
