(** Lock-call skeletons (C09): the control-flow shape of an allocator operation with its
    mutex.Acquire / mutex.Release calls and its accesses to shared mutable state.
    Gen/LockSkel.v (regenerated from bitmap_allocator.go by gen/lockskel on every run) gives the
    skeletons of AllocFrame and FreeFrame.  Definitions only. *)
From Coq Require Import String List Bool.
Import ListNotations.

Inductive skel :=
| KAcq | KRel
| KShared (f : string)
| KSkip
| KUnknown                         (* something the translator does not understand: may do anything *)
| KSeq (a b : skel)
| KIf (c t e : skel)               (* events of the condition, then one branch *)
| KLoop (c body post : skel)       (* for ; c ; post { body } *)
| KCall (body : skel)              (* inlined callee: a return inside it only leaves the callee *)
| KReturn (e : skel)
| KBreak | KContinue.

Inductive ev := EAcq | ERel | EShared (f : string).
Inductive out := ONormal | OBreak | OContinue | OReturn.

(** every control-flow path, as the trace of lock/shared events it performs *)
Inductive exec : skel -> list ev -> out -> Prop :=
| XAcq : exec KAcq [EAcq] ONormal
| XRel : exec KRel [ERel] ONormal
| XShared f : exec (KShared f) [EShared f] ONormal
| XSkip : exec KSkip [] ONormal
| XUnknown t o : exec KUnknown t o
| XSeqN a b t1 t2 o : exec a t1 ONormal -> exec b t2 o -> exec (KSeq a b) (t1 ++ t2) o
| XSeqA a b t1 o : exec a t1 o -> o <> ONormal -> exec (KSeq a b) t1 o
| XIfT c t e tc tt o : exec c tc ONormal -> exec t tt o -> exec (KIf c t e) (tc ++ tt) o
| XIfE c t e tc te o : exec c tc ONormal -> exec e te o -> exec (KIf c t e) (tc ++ te) o
| XIfC c t e tc o : exec c tc o -> o <> ONormal -> exec (KIf c t e) tc o
| XLoopExit c b p tc : exec c tc ONormal -> exec (KLoop c b p) tc ONormal
| XLoopCond c b p tc o : exec c tc o -> o <> ONormal -> exec (KLoop c b p) tc o
| XLoopIter c b p tc tb ob tp tr o :
    exec c tc ONormal -> exec b tb ob -> (ob = ONormal \/ ob = OContinue) ->
    exec p tp ONormal -> exec (KLoop c b p) tr o ->
    exec (KLoop c b p) (tc ++ tb ++ tp ++ tr) o
| XLoopBreak c b p tc tb : exec c tc ONormal -> exec b tb OBreak -> exec (KLoop c b p) (tc ++ tb) ONormal
| XLoopRet c b p tc tb : exec c tc ONormal -> exec b tb OReturn -> exec (KLoop c b p) (tc ++ tb) OReturn
| XLoopPost c b p tc tb ob tp o :
    exec c tc ONormal -> exec b tb ob -> (ob = ONormal \/ ob = OContinue) ->
    exec p tp o -> o <> ONormal -> exec (KLoop c b p) (tc ++ tb ++ tp) o
| XCall body t o : exec body t o -> (o = ONormal \/ o = OReturn) -> exec (KCall body) t ONormal
| XCallEsc body t o : exec body t o -> (o = OBreak \/ o = OContinue) -> exec (KCall body) t o
| XReturn e te : exec e te ONormal -> exec (KReturn e) te OReturn
| XReturnE e te o : exec e te o -> o <> ONormal -> exec (KReturn e) te o
| XBreak : exec KBreak [] OBreak
| XContinue : exec KContinue [] OContinue.

(** the lock as seen by ONE caller: false = it does not hold the mutex, true = it holds it *)
Definition lkstep (held : bool) (e : ev) : option bool :=
  match e, held with
  | EAcq, false => Some true
  | EAcq, true => None              (* re-acquire: self-deadlock *)
  | ERel, true => Some false
  | ERel, false => None             (* releasing a mutex it does not hold *)
  | EShared _, true => Some true
  | EShared _, false => None        (* shared state touched outside the mutex *)
  end.

Fixpoint lkrun (held : bool) (t : list ev) : option bool :=
  match t with
  | [] => Some held
  | e :: t => match lkstep held e with Some h => lkrun h t | None => None end
  end.

(** ---- the checker: abstract interpretation over sets of lock states ---- *)
Definition aset : Type := (bool * bool)%type.   (* (may be not-held, may be held) *)
Definition bot : aset := (false, false).
Definition join (a b : aset) : aset := (fst a || fst b, snd a || snd b).
Definition sub (a b : aset) : bool := (implb (fst a) (fst b)) && (implb (snd a) (snd b)).
Definition isbot (a : aset) : bool := negb (fst a) && negb (snd a).

Record res := { rn : aset; rb : aset; rc : aset; rr : aset }.
Definition only_n (a : aset) : res := {| rn := a; rb := bot; rc := bot; rr := bot |}.

Fixpoint flows (s : skel) (S : aset) : option res :=
  match s with
  | KAcq => if snd S then None else Some (only_n (false, fst S))
  | KRel => if fst S then None else Some (only_n (snd S, false))
  | KShared _ => if fst S then None else Some (only_n S)
  | KSkip => Some (only_n S)
  | KUnknown => None
  | KSeq a b =>
      match flows a S with
      | None => None
      | Some ra =>
          match flows b (rn ra) with
          | None => None
          | Some r2 => Some {| rn := rn r2; rb := join (rb ra) (rb r2); rc := join (rc ra) (rc r2); rr := join (rr ra) (rr r2) |}
          end
      end
  | KIf c t e =>
      match flows c S with
      | None => None
      | Some r0 =>
          match flows t (rn r0), flows e (rn r0) with
          | Some r1, Some r2 =>
              Some {| rn := join (rn r1) (rn r2);
                      rb := join (rb r0) (join (rb r1) (rb r2));
                      rc := join (rc r0) (join (rc r1) (rc r2));
                      rr := join (rr r0) (join (rr r1) (rr r2)) |}
          | _, _ => None
          end
      end
  | KLoop c b p =>
      (* [S] itself must be a loop invariant *)
      match flows c S with
      | None => None
      | Some r0 =>
          match flows b (rn r0) with
          | None => None
          | Some r1 =>
              match flows p (join (rn r1) (rc r1)) with
              | None => None
              | Some r2 =>
                  if sub (rn r2) S then
                    Some {| rn := join (rn r0) (rb r1);
                            rb := join (rb r0) (rb r2);
                            rc := join (rc r0) (rc r2);
                            rr := join (rr r0) (join (rr r1) (rr r2)) |}
                  else None
              end
          end
      end
  | KCall body =>
      match flows body S with
      | None => None
      | Some r0 => Some {| rn := join (rn r0) (rr r0); rb := rb r0; rc := rc r0; rr := bot |}
      end
  | KReturn e =>
      match flows e S with
      | None => None
      | Some r0 => Some {| rn := bot; rb := rb r0; rc := rc r0; rr := join (rn r0) (rr r0) |}
      end
  | KBreak => Some {| rn := bot; rb := S; rc := bot; rr := bot |}
  | KContinue => Some {| rn := bot; rb := bot; rc := S; rr := bot |}
  end.

Definition unheld : aset := (true, false).

(** every path: enters without the mutex, touches shared state only while holding it, and leaves
    (by return or by falling off the end) without it; no break/continue escapes *)
Definition well_bracketed (s : skel) : bool :=
  match flows s unheld with
  | Some r => sub (rn r) unheld && sub (rr r) unheld && isbot (rb r) && isbot (rc r)
  | None => false
  end.

Fixpoint mentions_shared (s : skel) : bool :=
  match s with
  | KShared _ => true
  | KSeq a b => mentions_shared a || mentions_shared b
  | KIf c t e => mentions_shared c || mentions_shared t || mentions_shared e
  | KLoop c b p => mentions_shared c || mentions_shared b || mentions_shared p
  | KCall b | KReturn b => mentions_shared b
  | _ => false
  end.
