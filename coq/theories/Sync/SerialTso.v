(** Lock-disciplined programs under x86-TSO behave as under interleaving semantics (C09: "many callers
    allocate and free at the same time").  Definitions only.

    Tasks run deterministic code whose shared accesses are LOADS and STORES of memory cells.  Under
    TSO every task (core) has a FIFO store buffer: a store is appended to the task's own buffer and
    reaches memory at a scheduler-chosen flush step; a load sees the task's own buffered stores on
    top of memory; Acquire is a locked read-modify-write of the mutex word: it executes only when the
    word is free in MEMORY and the task's own buffer is empty; Release is a store of "free" to the
    mutex word - locked (executes on an empty buffer, acts on memory; what Go's atomic.StoreUint32 is
    on amd64) or plain (buffered behind the task's earlier stores).
    [sc_code] reads the same program as a program of Sync/Serial.v over the shared state "memory"
    (a load/store = one atomic [AShared] step), so that SerialTsoProofs.v can show: every TSO run is
    matched by an interleaving run of Sync/Serial.v - and hence, by [serializable], by a serial one. *)
From Coq Require Import List Arith Bool Lia.
From FF Require Import Sync.Serial.
Import ListNotations.

Section SerialTso.
  Context {V L R : Type}.

  Definition addr := nat.
  Definition mem := addr -> V.
  Definition mupd (m : mem) (a : addr) (v : V) : mem := fun b => if Nat.eqb b a then v else m b.

  Inductive taction :=
  | TAcq (l' : L)
  | TRel (l' : L)
  | TLoad (a : addr) (k : V -> L)      (* read cell a, continue with k (value) *)
  | TStore (a : addr) (v : V) (l' : L)
  | TLocal (l' : L)
  | TDone (r : R) (l' : L)
  | TStop.

  Variable code : L -> taction.
  Variable holds : L -> bool.

  (** the lock discipline, on loads and stores *)
  Record tdisciplined : Prop := {
    td_acq : forall l l', code l = TAcq l' -> holds l = false /\ holds l' = true;
    td_rel : forall l l', code l = TRel l' -> holds l = true /\ holds l' = false;
    td_load : forall l a k, code l = TLoad a k -> holds l = true /\ forall v, holds (k v) = true;
    td_store : forall l a v l', code l = TStore a v l' -> holds l = true /\ holds l' = true;
    td_local : forall l l', code l = TLocal l' -> holds l' = holds l;
    td_done : forall l r l', code l = TDone r l' -> holds l = false /\ holds l' = false;
  }.

  (** the same program over interleaving semantics: S = memory, one access = one atomic step *)
  Definition sc_code (l : L) : @action mem L R :=
    match code l with
    | TAcq l' => AAcq l'
    | TRel l' => ARel l'
    | TLoad a k => AShared (fun m => (m, k (m a)))
    | TStore a v l' => AShared (fun m => (mupd m a v, l'))
    | TLocal l' => ALocal l'
    | TDone r l' => ADone r l'
    | TStop => AStop
    end.

  (** store-buffer entries: a store to a memory cell, or the releasing store to the mutex word *)
  Inductive bentry := BW (a : addr) (v : V) | BUnlock.

  Definition is_unlock (e : bentry) : bool := match e with BUnlock => true | BW _ _ => false end.

  (** memory as a task with buffer [buf] (oldest entry first) sees it *)
  Fixpoint bview (buf : list bentry) (m : mem) : mem :=
    match buf with
    | [] => m
    | BW a v :: rest => bview rest (mupd m a v)
    | BUnlock :: rest => bview rest m
    end.

  Record tst := {
    tmem : mem;
    tlock : option nat;            (* the mutex word in memory: free, or taken (by whom: ghost) *)
    tloc : nat -> L;
    tbuf : nat -> list bentry;
    thist : list (nat * R)
  }.

  Definition bupd (f : nat -> list bentry) (t : nat) (b : list bentry) : nat -> list bentry :=
    fun u => if Nat.eqb u t then b else f u.

  (** [lr]: Release is a locked store (true) or a plain buffered store (false) *)
  Inductive tstep (lr : bool) : tst -> tst -> Prop :=
  | TSAcq g t l' : code (tloc g t) = TAcq l' -> tlock g = None -> tbuf g t = [] ->
      tstep lr g {| tmem := tmem g; tlock := Some t; tloc := upd (tloc g) t l'; tbuf := tbuf g; thist := thist g |}
  | TSRelLocked g t l' : lr = true -> code (tloc g t) = TRel l' -> tbuf g t = [] ->
      tstep lr g {| tmem := tmem g; tlock := None; tloc := upd (tloc g) t l'; tbuf := tbuf g; thist := thist g |}
  | TSRelPlain g t l' : lr = false -> code (tloc g t) = TRel l' ->
      tstep lr g {| tmem := tmem g; tlock := tlock g; tloc := upd (tloc g) t l';
                    tbuf := bupd (tbuf g) t (tbuf g t ++ [BUnlock]); thist := thist g |}
  | TSLoad g t a k : code (tloc g t) = TLoad a k ->
      tstep lr g {| tmem := tmem g; tlock := tlock g; tloc := upd (tloc g) t (k (bview (tbuf g t) (tmem g) a));
                    tbuf := tbuf g; thist := thist g |}
  | TSStore g t a v l' : code (tloc g t) = TStore a v l' ->
      tstep lr g {| tmem := tmem g; tlock := tlock g; tloc := upd (tloc g) t l';
                    tbuf := bupd (tbuf g) t (tbuf g t ++ [BW a v]); thist := thist g |}
  | TSLocal g t l' : code (tloc g t) = TLocal l' ->
      tstep lr g {| tmem := tmem g; tlock := tlock g; tloc := upd (tloc g) t l'; tbuf := tbuf g; thist := thist g |}
  | TSDone g t r l' : code (tloc g t) = TDone r l' ->
      tstep lr g {| tmem := tmem g; tlock := tlock g; tloc := upd (tloc g) t l'; tbuf := tbuf g; thist := thist g ++ [(t, r)] |}
  | TSFlushW g t a v rest : tbuf g t = BW a v :: rest ->
      tstep lr g {| tmem := mupd (tmem g) a v; tlock := tlock g; tloc := tloc g; tbuf := bupd (tbuf g) t rest; thist := thist g |}
  | TSFlushU g t rest : tbuf g t = BUnlock :: rest ->
      tstep lr g {| tmem := tmem g; tlock := None; tloc := tloc g; tbuf := bupd (tbuf g) t rest; thist := thist g |}.

  Inductive tstar (lr : bool) : tst -> tst -> Prop :=
  | tstar_refl g : tstar lr g g
  | tstar_step g1 g2 g3 : tstar lr g1 g2 -> tstep lr g2 g3 -> tstar lr g1 g3.

  Definition tinitial (g : tst) : Prop :=
    tlock g = None /\ (forall u, holds (tloc g u) = false) /\ (forall u, tbuf g u = []).

  (** the interleaving state a TSO state starts as *)
  Definition sc_of (g : tst) : @st mem L R := {| sh := tmem g; owner := tlock g; loc := tloc g; hist := thist g |}.

  (** the shared state as the current owner of the mutex word sees it *)
  Definition owner_view (g : tst) : mem :=
    match tlock g with Some u => bview (tbuf g u) (tmem g) | None => tmem g end.

  (** [tsim g c]: TSO state [g] corresponds to interleaving state [c] *)
  Definition tsim (g : tst) (c : @st mem L R) : Prop :=
    thist g = hist c /\ (forall u, tloc g u = loc c u) /\
    (forall u, tbuf g u <> [] -> tlock g = Some u) /\
    sh c = owner_view g /\
    match tlock g with
    | None => owner c = None
    | Some u =>
        (holds (tloc g u) = true /\ existsb is_unlock (tbuf g u) = false /\ owner c = Some u) \/
        (holds (tloc g u) = false /\ owner c = None /\
         exists ws, tbuf g u = ws ++ [BUnlock] /\ existsb is_unlock ws = false)
    end.
End SerialTso.
