(** Lock-protected critical sections are serializable (C09).

    A generic theorem: tasks run deterministic code whose actions are Acquire, Release, a step on the
    SHARED state, a purely local step, or the completion of a call with a result.  If the code obeys the
    lock discipline that [Sync.Skel.well_bracketed] checks on the allocator's skeletons (shared steps only
    between Acquire and Release; calls complete outside), then every interleaved execution is equivalent
    to the serial execution in which each critical section runs atomically, in the order of the Acquires:
    same shared state, same local states, same results in the same order. *)
From Coq Require Import List Arith Bool Lia.
Import ListNotations.

Section Serial.
  Context {S L R : Type}.

  Inductive action :=
  | AAcq (l' : L)                     (* mutex.Acquire(), continue in local state l' *)
  | ARel (l' : L)                     (* mutex.Release() *)
  | AShared (f : S -> S * L)          (* one access to the shared state (may read and write it) *)
  | ALocal (l' : L)
  | ADone (r : R) (l' : L)            (* a call returns r; the task goes on with l' *)
  | AStop.

  Variable code : L -> action.
  (** [holds l]: a task in local state [l] is between its Acquire and its Release. *)
  Variable holds : L -> bool.

  (** the lock discipline *)
  Record disciplined : Prop := {
    d_acq : forall l l', code l = AAcq l' -> holds l = false /\ holds l' = true;
    d_rel : forall l l', code l = ARel l' -> holds l = true /\ holds l' = false;
    d_shared : forall l f, code l = AShared f -> holds l = true /\ forall s, holds (snd (f s)) = true;
    d_local : forall l l', code l = ALocal l' -> holds l' = holds l;
    d_done : forall l r l', code l = ADone r l' -> holds l = false /\ holds l' = false;
  }.

  Record st := { sh : S; owner : option nat; loc : nat -> L; hist : list (nat * R) }.

  Definition upd (f : nat -> L) (t : nat) (l : L) : nat -> L := fun u => if Nat.eqb u t then l else f u.

  (** interleaved execution: any task may take its next action; Acquire is enabled only when the mutex is free *)
  Inductive cstep : st -> st -> Prop :=
  | CAcq g t l' : code (loc g t) = AAcq l' -> owner g = None ->
      cstep g {| sh := sh g; owner := Some t; loc := upd (loc g) t l'; hist := hist g |}
  | CRel g t l' : code (loc g t) = ARel l' ->
      cstep g {| sh := sh g; owner := None; loc := upd (loc g) t l'; hist := hist g |}
  | CShared g t f : code (loc g t) = AShared f ->
      cstep g {| sh := fst (f (sh g)); owner := owner g; loc := upd (loc g) t (snd (f (sh g))); hist := hist g |}
  | CLocal g t l' : code (loc g t) = ALocal l' ->
      cstep g {| sh := sh g; owner := owner g; loc := upd (loc g) t l'; hist := hist g |}
  | CDone g t r l' : code (loc g t) = ADone r l' ->
      cstep g {| sh := sh g; owner := owner g; loc := upd (loc g) t l'; hist := hist g ++ [(t, r)] |}.

  (** a whole critical section, run alone from just after the Acquire to just after the Release *)
  Inductive crit : S -> L -> S -> L -> Prop :=
  | crit_rel s l l' : code l = ARel l' -> crit s l s l'
  | crit_shared s l f s' l' : code l = AShared f -> crit (fst (f s)) (snd (f s)) s' l' -> crit s l s' l'
  | crit_local s l l1 s' l' : code l = ALocal l1 -> crit s l1 s' l' -> crit s l s' l'.

  (** serial execution: critical sections are atomic *)
  Inductive sstep : st -> st -> Prop :=
  | SCrit g t l1 s' l' : code (loc g t) = AAcq l1 -> crit (sh g) l1 s' l' ->
      sstep g {| sh := s'; owner := None; loc := upd (loc g) t l'; hist := hist g |}
  | SLocal g t l' : code (loc g t) = ALocal l' -> holds (loc g t) = false ->
      sstep g {| sh := sh g; owner := None; loc := upd (loc g) t l'; hist := hist g |}
  | SDone g t r l' : code (loc g t) = ADone r l' ->
      sstep g {| sh := sh g; owner := None; loc := upd (loc g) t l'; hist := hist g ++ [(t, r)] |}.

  Inductive star (step : st -> st -> Prop) : st -> st -> Prop :=
  | star_refl g : star step g g
  | star_step g1 g2 g3 : star step g1 g2 -> step g2 g3 -> star step g1 g3.

  (** the part of a critical section already executed *)
  Inductive partial : S -> L -> S -> L -> Prop :=
  | p_refl s l : partial s l s l
  | p_shared s l f s' l' : code l = AShared f -> partial (fst (f s)) (snd (f s)) s' l' -> partial s l s' l'
  | p_local s l l1 s' l' : code l = ALocal l1 -> partial s l1 s' l' -> partial s l s' l'.

  Definition same_loc (a b : nat -> L) : Prop := forall u, a u = b u.

  (** [sim g g']: the interleaved state [g] corresponds to the serial state [g'] *)
  Definition sim (g g' : st) : Prop :=
    hist g = hist g' /\ owner g' = None /\
    match owner g with
    | None => sh g = sh g' /\ same_loc (loc g) (loc g')
    | Some t =>
        (forall u, u <> t -> loc g u = loc g' u) /\
        exists l1, code (loc g' t) = AAcq l1 /\ partial (sh g') l1 (sh g) (loc g t)
    end.

  Definition lockinv (g : st) : Prop :=
    forall u, holds (loc g u) = true <-> owner g = Some u.

  Definition initial (g : st) : Prop := owner g = None /\ forall u, holds (loc g u) = false.
End Serial.
