From Coq Require Import List Arith Bool Lia.
From FF Require Import Sync.Serial.
Import ListNotations.

Section Proofs.
  Context {S L R : Type}.
  Variable code : L -> @action S L R.
  Variable holds : L -> bool.
  Hypothesis D : disciplined code holds.

  Notation cstep := (cstep code).
  Notation sstep := (sstep code holds).
  Notation crit := (crit code).
  Notation partial := (partial code).

  Lemma upd_same (f : nat -> L) t l : upd f t l t = l.
  Proof. unfold upd. rewrite Nat.eqb_refl. reflexivity. Qed.
  Lemma upd_other (f : nat -> L) t l u : u <> t -> upd f t l u = f u.
  Proof. intros H. unfold upd. destruct (Nat.eqb_spec u t); congruence. Qed.

  Lemma partial_snoc_shared s0 l0 s l f :
    partial s0 l0 s l -> code l = AShared f -> partial s0 l0 (fst (f s)) (snd (f s)).
  Proof.
    induction 1 as [s l|s l f0 s' l' Hc _ IH|s l l1 s' l' Hc _ IH]; intros Hf.
    - eapply p_shared; [exact Hf|apply p_refl].
    - eapply p_shared; [exact Hc|apply IH; exact Hf].
    - eapply p_local; [exact Hc|apply IH; exact Hf].
  Qed.

  Lemma partial_snoc_local s0 l0 s l l' :
    partial s0 l0 s l -> code l = ALocal l' -> partial s0 l0 s l'.
  Proof.
    induction 1 as [s l|s l f0 s' l2 Hc _ IH|s l l1 s' l2 Hc _ IH]; intros Hf.
    - eapply p_local; [exact Hf|apply p_refl].
    - eapply p_shared; [exact Hc|apply IH; exact Hf].
    - eapply p_local; [exact Hc|apply IH; exact Hf].
  Qed.

  Lemma partial_rel s0 l0 s l l' :
    partial s0 l0 s l -> code l = ARel l' -> crit s0 l0 s l'.
  Proof.
    induction 1 as [s l|s l f0 s' l2 Hc _ IH|s l l1 s' l2 Hc _ IH]; intros Hf.
    - apply crit_rel; exact Hf.
    - eapply crit_shared; [exact Hc|apply IH; exact Hf].
    - eapply crit_local; [exact Hc|apply IH; exact Hf].
  Qed.

  (** the mutex really is held by exactly the task that is inside *)
  Lemma lockinv_step g g' : lockinv holds g -> cstep g g' -> lockinv holds g'.
  Proof.
    intros I H. destruct D as [Dacq Drel Dsh Dloc Ddone].
    inversion H as [g0 t l' Hc Ho|g0 t l' Hc|g0 t f Hc|g0 t l' Hc|g0 t r l' Hc]; subst; intros u; cbn [loc owner].
    - destruct (Dacq _ _ Hc) as [H1 H2]. destruct (Nat.eq_dec u t) as [->|Hne].
      + rewrite upd_same. split; auto.
      + rewrite upd_other by exact Hne. split.
        * intros Hh. apply I in Hh. congruence.
        * intros E. injection E as E. congruence.
    - destruct (Drel _ _ Hc) as [H1 H2]. apply I in H1. destruct (Nat.eq_dec u t) as [->|Hne].
      + rewrite upd_same. split; [congruence|discriminate].
      + rewrite upd_other by exact Hne. split; [|discriminate].
        intros Hh. apply I in Hh. rewrite H1 in Hh. injection Hh as Hh. congruence.
    - destruct (Dsh _ _ Hc) as [H1 H2]. apply I in H1. destruct (Nat.eq_dec u t) as [->|Hne].
      + rewrite upd_same. split; auto.
      + rewrite upd_other by exact Hne. apply I.
    - pose proof (Dloc _ _ Hc) as H1. destruct (Nat.eq_dec u t) as [->|Hne].
      + rewrite upd_same. rewrite H1. apply I.
      + rewrite upd_other by exact Hne. apply I.
    - destruct (Ddone _ _ _ Hc) as [H1 H2]. destruct (Nat.eq_dec u t) as [->|Hne].
      + rewrite upd_same. split; [congruence|]. intros E. apply I in E. congruence.
      + rewrite upd_other by exact Hne. apply I.
  Qed.

  Lemma same_loc_upd (a b : nat -> L) t l : same_loc a b -> same_loc (upd a t l) (upd b t l).
  Proof. intros H u. unfold upd. destruct (Nat.eqb u t); auto. Qed.

  (** one interleaved step is matched by zero or one serial steps *)
  Lemma sim_step g g1 g' :
    lockinv holds g -> sim code g g' -> cstep g g1 ->
    exists g1', (g1' = g' \/ sstep g' g1') /\ sim code g1 g1'.
  Proof.
    intros I (Hh & Ho' & Hm) H. destruct D as [Dacq Drel Dsh Dloc Ddone].
    inversion H as [g0 t l' Hc Ho|g0 t l' Hc|g0 t f Hc|g0 t l' Hc|g0 t r l' Hc]; subst.
    - (* Acquire: the serial run waits *)
      rewrite Ho in Hm. destruct Hm as [Hs Hl].
      exists g'. split; [left; reflexivity|].
      unfold sim. cbn [hist owner sh loc]. repeat split; auto.
      + intros u Hne. rewrite upd_other by exact Hne. apply Hl.
      + exists l'. split; [rewrite <- Hl; exact Hc|]. rewrite upd_same, Hs. apply p_refl.
    - (* Release: the serial run executes the whole critical section now *)
      destruct (Drel _ _ Hc) as [H1 H2]. apply I in H1. rewrite H1 in Hm.
      destruct Hm as [Hl (l1 & Hc1 & Hp)].
      pose proof (partial_rel _ _ _ _ _ Hp Hc) as Hcrit.
      exists {| sh := sh g; owner := None; loc := upd (loc g') t l'; hist := hist g' |}.
      split; [right; eapply SCrit; eauto|].
      unfold sim. cbn [hist owner sh loc]. repeat split; auto.
      intros u. unfold upd. destruct (Nat.eqb_spec u t); auto.
    - (* shared step: only the owner can do it *)
      destruct (Dsh _ _ Hc) as [H1 H2]. apply I in H1. rewrite H1 in Hm.
      destruct Hm as [Hl (l1 & Hc1 & Hp)].
      exists g'. split; [left; reflexivity|].
      unfold sim. cbn [hist owner sh loc]. rewrite H1. repeat split; auto.
      + intros u Hne. rewrite upd_other by exact Hne. apply Hl; exact Hne.
      + exists l1. split; [exact Hc1|]. rewrite upd_same. eapply partial_snoc_shared; eauto.
    - (* local step *)
      destruct (owner g) as [o|] eqn:Eo.
      + destruct Hm as [Hl (l1 & Hc1 & Hp)]. destruct (Nat.eq_dec t o) as [->|Hne].
        * (* the owner, inside its critical section *)
          exists g'. split; [left; reflexivity|].
          unfold sim. cbn [hist owner sh loc]. repeat split; auto.
          -- intros u Hne. rewrite upd_other by exact Hne. apply Hl; exact Hne.
          -- exists l1. split; [exact Hc1|]. rewrite upd_same. eapply partial_snoc_local; eauto.
        * (* another task, outside *)
          assert (Hnh: holds (loc g t) = false).
          { destruct (holds (loc g t)) eqn:E; auto. apply I in E. congruence. }
          exists {| sh := sh g'; owner := None; loc := upd (loc g') t l'; hist := hist g' |}.
          split; [right; apply SLocal; rewrite <- Hl by exact Hne; auto|].
          unfold sim. cbn [hist owner sh loc]. repeat split; auto.
          -- intros u Hu. unfold upd. destruct (Nat.eqb_spec u t); auto.
          -- exists l1. rewrite !upd_other by congruence. auto.
      + destruct Hm as [Hs Hl].
        assert (Hnh: holds (loc g t) = false).
        { destruct (holds (loc g t)) eqn:E; auto. apply I in E. congruence. }
        exists {| sh := sh g'; owner := None; loc := upd (loc g') t l'; hist := hist g' |}.
        split; [right; apply SLocal; rewrite <- Hl; auto|].
        unfold sim. cbn [hist owner sh loc]. repeat split; auto using same_loc_upd.
    - (* a call completes: outside any critical section *)
      destruct (Ddone _ _ _ Hc) as [H1 H2].
      destruct (owner g) as [o|] eqn:Eo.
      + destruct Hm as [Hl (l1 & Hc1 & Hp)].
        assert (Hne: t <> o). { intros ->. assert (holds (loc g o) = true) by (apply I; exact Eo). congruence. }
        exists {| sh := sh g'; owner := None; loc := upd (loc g') t l'; hist := hist g' ++ [(t, r)] |}.
        split; [right; apply SDone; rewrite <- Hl by exact Hne; auto|].
        unfold sim. cbn [hist owner sh loc]. repeat split; auto.
        -- rewrite Hh. reflexivity.
        -- intros u Hu. unfold upd. destruct (Nat.eqb_spec u t); auto.
        -- exists l1. rewrite !upd_other by congruence. auto.
      + destruct Hm as [Hs Hl].
        exists {| sh := sh g'; owner := None; loc := upd (loc g') t l'; hist := hist g' ++ [(t, r)] |}.
        split; [right; apply SDone; rewrite <- Hl; auto|].
        unfold sim. cbn [hist owner sh loc]. repeat split; auto using same_loc_upd.
        rewrite Hh. reflexivity.
  Qed.

  Lemma initial_lockinv (g : @st S L R) : initial holds g -> lockinv holds g.
  Proof. intros [Ho Hh] u. rewrite Ho, Hh. split; discriminate. Qed.

  Lemma initial_sim (g : @st S L R) : initial holds g -> sim code g g.
  Proof. intros [Ho Hh]. unfold sim. rewrite Ho. repeat split; auto. Qed.

  (** Every interleaved execution of disciplined tasks is matched by a serial execution: same history of
      results; and whenever nobody is inside a critical section, the same shared state and local states. *)
  Theorem serializable (g0 g : @st S L R) :
    initial holds g0 -> star cstep g0 g ->
    lockinv holds g /\ exists g', star sstep g0 g' /\ sim code g g'.
  Proof.
    intros Hi Hs. induction Hs as [g|g1 g2 g3 Hs IH Hstep].
    - split; [apply initial_lockinv; exact Hi|]. exists g. split; [apply star_refl|apply initial_sim; exact Hi].
    - destruct (IH Hi) as (I & g' & Hs' & Hsim).
      split; [eapply lockinv_step; eauto|].
      destruct (sim_step _ _ _ I Hsim Hstep) as (g1' & [-> | Hss] & Hsim').
      + exists g'. auto.
      + exists g1'. split; [eapply star_step; eauto|exact Hsim'].
  Qed.

  Corollary serializable_quiescent (g0 g : @st S L R) :
    initial holds g0 -> star cstep g0 g -> owner g = None ->
    exists g', star sstep g0 g' /\ hist g = hist g' /\ sh g = sh g' /\ same_loc (loc g) (loc g').
  Proof.
    intros Hi Hs Ho. destruct (serializable _ _ Hi Hs) as (_ & g' & Hs' & (Hh & _ & Hm)).
    rewrite Ho in Hm. destruct Hm as [H1 H2]. exists g'. auto.
  Qed.

  (** at most one task is ever inside a critical section, and it is the mutex owner *)
  Corollary one_inside (g0 g : @st S L R) t u :
    initial holds g0 -> star cstep g0 g -> holds (loc g t) = true -> holds (loc g u) = true -> t = u.
  Proof.
    intros Hi Hs Ht Hu. destruct (serializable _ _ Hi Hs) as (I & _).
    apply I in Ht. apply I in Hu. congruence.
  Qed.
End Proofs.
