From Coq Require Import NArith List Bool Lia Arith.
From FF Require Import Pmm.Bitmap Sync.Serial Sync.SerialProofs Sync.AllocTasks.
Import ListNotations.

Lemma alloc_disciplined : disciplined code holds.
Proof.
  constructor.
  - intros [td p] l' H. unfold code in H. cbn in H. destruct p; try discriminate.
    destruct td as [|o rest]; try discriminate. injection H as <-. auto.
  - intros [td p] l' H. unfold code in H. cbn in H. destruct p; try discriminate; [destruct td; discriminate|].
    injection H as <-. auto.
  - intros [td p] f H. unfold code in H. cbn in H. destruct p; try discriminate; [destruct td; discriminate|].
    injection H as <-. auto.
  - intros [td p] l' H. unfold code in H. cbn in H. destruct p; try discriminate. destruct td; discriminate.
  - intros [td p] r l' H. unfold code in H. cbn in H. destruct p; try discriminate; [destruct td; discriminate|].
    injection H as <- <-. auto.
Qed.

Lemma final_app a ops o : final a (ops ++ [o]) = fst (step (final a ops) o).
Proof. unfold final. rewrite fold_left_app. reflexivity. Qed.

Lemma results_app a ops o : results a (ops ++ [o]) = results a ops ++ [snd (step (final a ops) o)].
Proof.
  revert a. induction ops as [|x ops IH]; intros a; cbn; [reflexivity|]. rewrite IH. reflexivity.
Qed.

Section Serial.
  Variable a0 : balloc.
  Variable plan : nat -> list op.

  Definition planned (o : op) : Prop := exists t, In o (plan t).

  (** what a serial state looks like *)
  Definition SInv (g : @st balloc tl res) : Prop :=
    owner g = None /\
    exists ops,
      sh g = final a0 ops /\ Forall planned ops /\
      Forall (fun e => In (snd e) (results a0 ops)) (hist g) /\
      (forall t, incl (todo (loc g t)) (plan t)) /\
      (forall t, match ph (loc g t) with
                 | PIdle => True
                 | PRet r => In r (results a0 ops)
                 | _ => False
                 end).

  Lemma crit_alloc (s : balloc) l s' l' :
    crit code s l s' l' -> forall o, ph l = PIn o ->
    s' = fst (step s o) /\ l' = {| todo := todo l; ph := PRet (snd (step s o)) |}.
  Proof.
    intros H o Hp. destruct l as [td p]. cbn in Hp. subst p.
    inversion H as [s0 l0 l1 Hc|s0 l0 f s1 l1 Hc Hrest|s0 l0 l1 s1 l2 Hc Hrest]; subst;
      unfold code in Hc; cbn in Hc; try discriminate.
    injection Hc as <-. cbn in Hrest.
    inversion Hrest as [s0 l0 l1 Hc|s0 l0 f s1 l1 Hc _|s0 l0 l1 s1 l2 Hc _]; subst;
      unfold code in Hc; cbn in Hc; try discriminate.
    injection Hc as <-. auto.
  Qed.

  Lemma sinv_step g g' : SInv g -> sstep code holds g g' -> SInv g'.
  Proof.
    intros (Ho & ops & Hs & Hpl & Hh & Htd & Hph) H.
    inversion H as [g1 t l1 s' l' Hc Hcrit|g1 t l' Hc Hn|g1 t r l' Hc]; subst.
    - (* a whole critical section *)
      unfold code in Hc. pose proof (Hph t) as Hpt. pose proof (Htd t) as Htdt.
      destruct (loc g t) as [td p] eqn:El. cbn in Hc, Hpt, Htdt. destruct p; try discriminate; try contradiction.
      destruct td as [|o rest]; [discriminate|]. injection Hc as <-.
      destruct (crit_alloc _ _ _ _ Hcrit o eq_refl) as [-> ->]. cbn [todo].
      split; [reflexivity|]. exists (ops ++ [o]). cbn [sh hist loc].
      rewrite final_app, results_app, Hs. repeat split.
      + apply Forall_app. split; [exact Hpl|]. constructor; [|constructor]. exists t. apply Htdt. left. reflexivity.
      + eapply Forall_impl; [|exact Hh]. intros e He. apply in_or_app. left. exact He.
      + intros u. unfold upd. destruct (Nat.eqb_spec u t) as [->|Hne]; cbn.
        * intros x Hx. apply Htdt. right. exact Hx.
        * apply Htd.
      + intros u. unfold upd. destruct (Nat.eqb_spec u t) as [->|Hne]; cbn.
        * apply in_or_app. right. left. reflexivity.
        * pose proof (Hph u) as Hpu. destruct (ph (loc g u)); auto. apply in_or_app. left. exact Hpu.
    - exfalso. unfold code in Hc. destruct (loc g t) as [td p]. cbn in Hc. destruct p; try discriminate. destruct td; discriminate.
    - unfold code in Hc. pose proof (Hph t) as Hpt. pose proof (Htd t) as Htdt.
      destruct (loc g t) as [td p] eqn:El. cbn in Hc, Hpt, Htdt.
      destruct p; try discriminate; [destruct td; discriminate|]. injection Hc as <- <-.
      split; [reflexivity|]. exists ops. cbn [sh hist loc]. repeat split; auto.
      + apply Forall_app. split; [exact Hh|]. constructor; [exact Hpt|constructor].
      + intros u. unfold upd. destruct (Nat.eqb_spec u t) as [->|Hne]; cbn; [exact Htdt|apply Htd].
      + intros u. unfold upd. destruct (Nat.eqb_spec u t) as [->|Hne]; cbn; [exact I|apply Hph].
  Qed.
End Serial.

Section Main.
  Variable a0 : balloc.
  Variable plan : nat -> list op.

  Lemma start_sinv : SInv a0 plan (start a0 plan).
  Proof.
    split; [reflexivity|]. exists []. cbn. repeat split; auto.
    intros t x Hx. exact Hx.
  Qed.

  Lemma star_sinv g : star (sstep code holds) (start a0 plan) g -> SInv a0 plan g.
  Proof.
    intros H. remember (start a0 plan) as g0 eqn:E0.
    induction H as [g1|g1 g2 g3 _ IH Hs]; [subst; apply start_sinv|]. eapply sinv_step; eauto.
  Qed.

  Lemma start_initial : initial holds (start a0 plan).
  Proof. split; reflexivity. Qed.

  (** Any number of tasks, any plans of AllocFrame/FreeFrame calls, any interleaving: whenever nobody is
      inside the allocator, its state is the state after SOME sequential history [ops] of planned calls,
      and every result a caller has been handed is a result of that sequential history. *)
  Theorem concurrent_alloc_is_serial g :
    star (cstep code) (start a0 plan) g -> owner g = None ->
    exists ops, sh g = final a0 ops /\ Forall (planned plan) ops /\
                Forall (fun e => In (snd e) (results a0 ops)) (hist g).
  Proof.
    intros Hs Ho.
    destruct (serializable_quiescent code holds alloc_disciplined _ _ start_initial Hs Ho) as (g' & Hs' & Hh & Hsh & _).
    destruct (star_sinv g' Hs') as (_ & ops & H1 & H2 & H3 & _).
    exists ops. rewrite Hsh, Hh. auto.
  Qed.
End Main.

(** ---- composition with the sequential theorems of C01/C03 ---- *)
From FF Require Import Lib.Word Pmm.Boot Pmm.BootProofs Pmm.BitmapProofs Pmm.HistoryProofs Pmm.InitProofs Pmm.TopProofs.

Lemma exclusive_no_panic U : forall ops a H,
  exclusive U H (combine ops (map fst (run a ops))) -> map fst (run a ops) = results a ops.
Proof.
  induction ops as [|o ops IH]; intros a H Hx; [reflexivity|].
  cbn [run results]. destruct (step a o) as [a' r] eqn:Es. cbn [fst snd].
  destruct r as [r|fr].
  - cbn [map fst]. f_equal. cbn [run] in Hx. rewrite Es in Hx. cbn [map fst combine] in Hx.
    destruct o; destruct r; cbn [exclusive] in Hx; try (eapply IH; exact Hx); try (destruct Hx as (_ & _ & Hx); eapply IH; exact Hx).
  - cbn [run] in Hx. rewrite Es in Hx. destruct fr; cbn [map fst combine] in Hx |- *.
    + f_equal. destruct o; cbn [exclusive] in Hx; [eapply IH; exact Hx|destruct Hx as (_ & Hx); eapply IH; exact Hx].
    + f_equal. destruct o; cbn [exclusive] in Hx; eapply IH; exact Hx.
    + f_equal. destruct o; cbn [exclusive] in Hx; eapply IH; exact Hx.
    + destruct o; cbn [exclusive] in Hx; contradiction.
Qed.

(** After a successful pmm.Init, for any number of concurrent callers with any plans of AllocFrame /
    FreeFrame calls (frees of frames reserved at initialisation excluded, as in C01/C03) and ANY
    interleaving: whenever nobody is inside the allocator there is a sequential history [ops] of the
    planned calls such that the allocator state is the state after [ops]; along [ops] every frame handed
    out is usable and not held by anybody (no frame is ever held by two callers); the totals agree with
    usable minus held frames at every step; and every result handed to a caller is a result of [ops]. *)
Theorem concurrent_frames_exclusive
  (m : memmap) (kstart kend limit mapfail : N) (a0 : balloc) (b0 : bstate) (obs : init_obs) (plan : nat -> list op) g :
  WFmap m -> WFkernel m kstart kend -> small_map m ->
  pmm_init m kstart kend limit mapfail = (InitOk a0 b0, obs) ->
  (forall t, history_ok m kstart kend (early_frames obs) (plan t)) ->
  star (cstep code) (start a0 plan) g -> owner g = None ->
  exists ops,
    sh g = final a0 ops /\ Forall (planned plan) ops /\
    exclusive (usable m kstart kend (early_frames obs)) [] (combine ops (map fst (run a0 ops))) /\
    stats_ok (total_frames m) (usable_count m kstart kend (early_frames obs)) 0 (run a0 ops) /\
    Forall (fun e => In (snd e) (map fst (run a0 ops))) (hist g).
Proof.
  intros Hm Hk Hs Hi Hp Hstar Ho.
  destruct (concurrent_alloc_is_serial a0 plan g Hstar Ho) as (ops & H1 & H2 & H3).
  assert (Hok: history_ok m kstart kend (early_frames obs) ops).
  { intros f Hf. rewrite Forall_forall in H2. destruct (H2 _ Hf) as [t Ht]. exact (Hp t f Ht). }
  pose proof (alloc_exclusive m kstart kend limit mapfail Hm Hk Hs a0 b0 obs Hi ops Hok) as Hx.
  pose proof (history_stats m kstart kend limit mapfail Hm Hk Hs a0 b0 obs Hi ops Hok) as Hst.
  exists ops. repeat split; auto.
  rewrite (exclusive_no_panic _ _ _ _ Hx). exact H3.
Qed.
