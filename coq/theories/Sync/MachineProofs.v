(** Proofs about Sync/Machine.v (C08): mutual exclusion for any number of tasks and any schedule,
    exactness of try-acquire, release, no lost update. *)
From Coq Require Import NArith Lia List Bool Arith.
From Coq Require Import ZifyBool ZifyN ZifyNat.
From FF Require Import Lib.Word Sync.Instr Gen.SpinAsm Sync.Machine.
Import ListNotations.
Local Open Scope N_scope.

(** The program the proofs below are about.  [gen_matches] is the obligation that ties it to the
    assembly and Go source of the current tree (Gen/SpinAsm.v is regenerated on every run). *)
Definition expected_cfg : cfg :=
  {| prog := [ ILoadStatePtr; ILoadAttempts; IMovImm BX 1; IXchg; ITest BX; IJnz 7; IRet;
               IPause; ILoad; ITest BX; IJz 2; IDec CX; IJnz 7;
               ILoadYield; ITest AX; IJz 17; ICallAX; ILoadStatePtr; ILoadAttempts; IJmp 7 ];
     attempts := 1; tswap := 1; tcmp := 0; rstore := 0 |}.

Lemma gen_matches : gen_cfg = expected_cfg /\ go_shape_ok = true.
Proof. split; reflexivity. Qed.

Definition b2n (b : bool) : nat := if b then 1%nat else 0%nat.

(** A task owns the lock: it is in its critical section, or it is inside Acquire after the exchange that read 0. *)
Definition got (t : tstate) : bool :=
  match t with
  | Holding _ => true
  | InAcq pc r =>
      match pc with
      | 4%nat => bx r =? 0
      | 5%nat => zf r
      | 6%nat => true
      | _ => false
      end
  | _ => false
  end.

Definition ax_state_pcs : list nat := [1; 2; 3; 4; 5; 6; 7; 8; 9; 10; 11; 12; 13; 18; 19]%nat.

Definition linv (yield : bool) (t : tstate) : Prop :=
  match t with
  | InAcq pc r =>
      (pc < 20)%nat /\
      (In pc ax_state_pcs -> ax r = PState) /\
      (pc = 3%nat -> bx r = 1) /\
      (pc = 14%nat \/ pc = 15%nat \/ pc = 16%nat -> ax r = if yield then PYieldFn else PNull) /\
      (pc = 15%nat -> zf r = negb yield) /\
      (pc = 16%nat -> yield = true)
  | Faulted => False
  | _ => True
  end.

Lemma entry_linv y : linv y (InAcq 0 entry_regs).
Proof.
  cbn. repeat split; try lia; intros H; repeat (destruct H as [H|H]; try discriminate); try contradiction.
Qed.

Lemma pc_cases pc : (pc < 20)%nat ->
  pc = 0%nat \/ pc = 1%nat \/ pc = 2%nat \/ pc = 3%nat \/ pc = 4%nat \/ pc = 5%nat \/ pc = 6%nat \/ pc = 7%nat \/ pc = 8%nat \/ pc = 9%nat \/
  pc = 10%nat \/ pc = 11%nat \/ pc = 12%nat \/ pc = 13%nat \/ pc = 14%nat \/ pc = 15%nat \/ pc = 16%nat \/ pc = 17%nat \/ pc = 18%nat \/ pc = 19%nat.
Proof. lia. Qed.

(** One instruction of the expected program: the local invariant is kept, the routine never faults,
    and ownership changes only by an exchange that finds the lock word 0 and leaves it 1. *)
Lemma exec_inv y pc r i lk h :
  linv y (InAcq pc r) ->
  nth_error (prog expected_cfg) pc = Some i ->
  (lk = 0 \/ lk = 1) ->
  (got (InAcq pc r) = true -> lk = 1) ->
  let '(t', lk') := exec expected_cfg y i pc r lk h in
  linv y t' /\
  ((got t' = got (InAcq pc r) /\ lk' = lk) \/
   (got (InAcq pc r) = false /\ got t' = true /\ lk = 0 /\ lk' = 1)).
Proof.
  intros (Hpc & Hax & Hbx & Hy & Hz & Hy16) Hi Hlk Hg.
  destruct r as [a b c z]. cbn [ax bx cx zf] in *.
  destruct (pc_cases pc Hpc) as [->|[->|[->|[->|[->|[->|[->|[->|[->|[->|[->|[->|[->|[->|[->|[->|[->|[->|[->| ->]]]]]]]]]]]]]]]]]]];
    cbn [nth_error prog expected_cfg] in Hi; injection Hi as <-;
    try (assert (Ha: a = PState) by (apply Hax; cbn; tauto); subst a);
    try (assert (Ha: a = if y then PYieldFn else PNull) by (apply Hy; tauto); subst a);
    try (specialize (Hbx eq_refl); subst b);
    try (specialize (Hz eq_refl); subst z);
    try (specialize (Hy16 eq_refl); subst y);
    clear Hax Hy;
    destruct Hlk as [-> | ->]; try destruct z; try destruct y;
    cbn -[N.eqb w32 N.div N.even N.odd] in *;
    try (specialize (Hg eq_refl); try discriminate);
    (split; [ repeat split; try lia; try reflexivity;
              try (intros H; repeat (destruct H as [H|H]; try discriminate; try lia); try contradiction; try reflexivity; try discriminate)
            | try (left; split; reflexivity); try (right; repeat split; reflexivity) ]).
  all: try (destruct (b =? 0); (left; split; reflexivity)).
Qed.

Lemma exec_no_tmp c y i pc r lk h v : fst (exec c y i pc r lk h) <> Holding (Some v).
Proof.
  unfold exec. destruct i; cbn; try discriminate;
    repeat match goal with |- context [match ?x with _ => _ end] => destruct x; cbn end; discriminate.
Qed.

(** ---- lists ---- *)
Definition count_got (ts : list tstate) : nat := length (filter got ts).

Lemma count_upd ts : forall i t t', nth_error ts i = Some t ->
  (count_got (upd ts i t') + b2n (got t) = count_got ts + b2n (got t'))%nat.
Proof.
  induction ts as [|a ts IH]; intros i t t' H; destruct i as [|i]; cbn in H; try discriminate.
  - injection H as ->. unfold count_got. cbn [upd filter]. destruct (got t), (got t'); cbn; lia.
  - specialize (IH i t t' H). unfold count_got in *. cbn [upd filter]. destruct (got a); cbn; lia.
Qed.

Lemma nth_upd_same {A} (l : list A) : forall i (x y : A), nth_error l i = Some y -> nth_error (upd l i x) i = Some x.
Proof. induction l as [|a l IH]; intros [|i] x y H; cbn in *; try discriminate; eauto. Qed.

Lemma nth_upd_other {A} (l : list A) : forall i j (x : A), i <> j -> nth_error (upd l i x) j = nth_error l j.
Proof. induction l as [|a l IH]; intros [|i] [|j] x H; cbn; try reflexivity; try congruence. apply IH. congruence. Qed.

Lemma upd_length {A} (l : list A) : forall i x, length (upd l i x) = length l.
Proof. induction l as [|a l IH]; intros [|i] x; cbn; auto. Qed.

Lemma Forall_upd {A} (P : A -> Prop) (l : list A) : forall i x, Forall P l -> P x -> Forall P (upd l i x).
Proof.
  induction l as [|a l IH]; intros [|i] x H Hx; cbn; auto; inversion H; subst; constructor; auto.
Qed.

Lemma Forall_upd_weak {A} (P : A -> Prop) (l : list A) : forall i x,
  (forall j y, j <> i -> nth_error l j = Some y -> P y) -> P x -> Forall P (upd l i x).
Proof.
  induction l as [|a l IH]; intros [|i] x H Hx; cbn; auto.
  - constructor; auto. apply Forall_forall. intros y Hy. destruct (In_nth_error _ _ Hy) as [j Hj].
    apply (H (S j)); auto.
  - constructor; [apply (H 0%nat); auto|]. apply IH; auto. intros j y Hne Hj. apply (H (S j)); auto.
Qed.

Lemma Forall_nth {A} (P : A -> Prop) (l : list A) i x : Forall P l -> nth_error l i = Some x -> P x.
Proof. intros H Hn. rewrite Forall_forall in H. apply H. eapply nth_error_In; eauto. Qed.

Lemma got_in_count ts i t : nth_error ts i = Some t -> got t = true -> (1 <= count_got ts)%nat.
Proof.
  revert i. induction ts as [|a ts IH]; intros [|i] H Hg; cbn in H; try discriminate.
  - injection H as ->. unfold count_got. cbn. rewrite Hg. cbn. lia.
  - unfold count_got in *. cbn. destruct (got a); cbn; [lia|]. eapply IH; eauto.
Qed.

(** ---- the global invariant ---- *)
Definition tmp_ok (cnt : N) (t : tstate) : Prop := match t with Holding (Some v) => v = cnt | _ => True end.

Definition Inv (y : bool) (s : mstate) : Prop :=
  lock s = N.of_nat (count_got (threads s)) /\
  (count_got (threads s) <= 1)%nat /\
  Forall (linv y) (threads s) /\
  counter s = ndone s /\
  Forall (tmp_ok (counter s)) (threads s).

Lemma init_inv y n : Inv y (init n).
Proof.
  unfold Inv, init. cbn [lock threads counter ndone].
  assert (H: count_got (repeat Idle n) = 0%nat) by (induction n; cbn; auto).
  rewrite H. repeat split; try lia; apply Forall_forall; intros t Ht; apply repeat_spec in Ht; subst; exact I.
Qed.

Lemma tmp_ok_other cnt cnt' ts :
  Forall (tmp_ok cnt) ts -> (forall t, In t ts -> got t = true -> False) -> Forall (tmp_ok cnt') ts.
Proof.
  intros H Hn. rewrite Forall_forall in *. intros t Ht. specialize (H t Ht).
  destruct t as [| | [v|] |]; cbn in *; auto. exfalso. eapply Hn; eauto.
Qed.

Lemma step_inv y s l s' o : Inv y s -> step expected_cfg y s l = Some (s', o) -> Inv y s'.
Proof.
  intros (Hlock & Hcnt & Hl & Hdone & Htmp) Hs. destruct l as [tid ch]. unfold step in Hs.
  destruct (nth_error (threads s) tid) as [t|] eqn:Ht; [|discriminate].
  pose proof (Forall_nth _ _ _ _ Hl Ht) as Hlt.
  pose proof (Forall_nth _ _ _ _ Htmp Ht) as Htt.
  destruct ch; destruct t as [|pc r|[v|]|]; try discriminate.
  - (* StartAcq *)
    injection Hs as <- <-. unfold Inv. cbn [lock counter ndone threads].
    pose proof (count_upd _ _ _ (InAcq 0 entry_regs) Ht) as Hc. cbn in Hc.
    repeat split; try lia; auto.
    + apply Forall_upd; auto; apply entry_linv.
    + apply Forall_upd; auto; exact I.
  - (* Try *)
    injection Hs as <- <-. unfold Inv. cbn [lock counter ndone threads tswap tcmp expected_cfg].
    destruct (N.eqb_spec (lock s) 0) as [E|E].
    + pose proof (count_upd _ _ _ (Holding None) Ht) as Hc. cbn in Hc.
      repeat split; try lia; auto; apply Forall_upd; auto; exact I.
    + pose proof (count_upd _ _ _ Idle Ht) as Hc. cbn in Hc.
      repeat split; try lia; auto; apply Forall_upd; auto; exact I.
  - (* Release *)
    injection Hs as <- <-. unfold Inv. cbn [lock counter ndone threads rstore expected_cfg].
    pose proof (count_upd _ _ _ Idle Ht) as Hc. cbn in Hc.
    repeat split; try lia; auto; apply Forall_upd; auto; exact I.
  - (* CsRead *)
    injection Hs as <- <-. unfold Inv. cbn [lock counter ndone threads].
    pose proof (count_upd _ _ _ (Holding (Some (counter s))) Ht) as Hc. cbn in Hc.
    repeat split; try lia; auto; apply Forall_upd; auto; try exact I. reflexivity.
  - (* CsWrite *)
    injection Hs as <- <-. unfold Inv. cbn [lock counter ndone threads].
    pose proof (count_upd _ _ _ (Holding None) Ht) as Hc. cbn in Hc. cbn in Htt. subst v.
    repeat split; try lia; auto.
    + apply Forall_upd; auto; exact I.
    + apply Forall_upd_weak; [|exact I].
      (* no other task is in the critical section, so nobody holds a stale copy *)
      intros j t Hne Hj. destruct t as [| | [v|] |]; cbn; auto.
      exfalso. clear Hc.
      assert (H2: (2 <= count_got (threads s))%nat).
      { clear - Ht Hj Hne. revert tid j Ht Hj Hne. induction (threads s) as [|a ts IH]; intros [|i] [|j] H1 H2 Hne; cbn in *; try discriminate; try congruence.
        - injection H1 as ->. unfold count_got. cbn. pose proof (got_in_count ts j _ H2 eq_refl) as H. unfold count_got in H. lia.
        - injection H2 as ->. unfold count_got. cbn. pose proof (got_in_count ts i _ H1 eq_refl) as H. unfold count_got in H. lia.
        - unfold count_got in *. cbn. destruct (got a); cbn; [|eapply IH; eauto].
          assert (2 <= length (filter got ts))%nat by (eapply IH; eauto). lia. }
      lia.
  - (* one instruction *)
    destruct (nth_error (prog expected_cfg) pc) as [i|] eqn:Hi.
    2:{ exfalso. destruct Hlt as (Hpc & _). apply nth_error_None in Hi. cbn in Hi. lia. }
    assert (Hlk: lock s = 0 \/ lock s = 1) by lia.
    assert (Hg: got (InAcq pc r) = true -> lock s = 1).
    { intros G. pose proof (got_in_count _ _ _ Ht G). lia. }
    pose proof (exec_inv y pc r i (lock s) h Hlt Hi Hlk Hg) as He.
    pose proof (fun v => exec_no_tmp expected_cfg y i pc r (lock s) h v) as Hnt.
    destruct (exec expected_cfg y i pc r (lock s) h) as [t' lk'].
    injection Hs as <- <-. destruct He as (Hl' & Hown). unfold Inv. cbn [lock counter ndone threads].
    pose proof (count_upd _ _ _ t' Ht) as Hc.
    assert (Htmp': tmp_ok (counter s) t').
    { destruct t' as [| | [v|] |]; cbn; auto. exfalso. apply (Hnt v). reflexivity. }
    destruct Hown as [(G & L)|(G0 & G1 & L0 & L1)].
    + rewrite G in Hc. repeat split; try lia; auto; apply Forall_upd; auto.
    + rewrite G0, G1 in Hc. cbn in Hc. repeat split; try lia; auto; apply Forall_upd; auto.
Qed.

(** ---- theorems over all schedules ---- *)
Lemma run_inv y ls : forall s s', Inv y s -> run expected_cfg y s ls = Some s' -> Inv y s'.
Proof.
  induction ls as [|l ls IH]; intros s s' Hi Hr; cbn in Hr.
  - injection Hr as <-. exact Hi.
  - destruct (step expected_cfg y s l) as [[s1 o]|] eqn:E; [|discriminate].
    eapply IH; [|exact Hr]. eapply step_inv; eauto.
Qed.

Lemma holders_le_got ts : (length (filter is_holding ts) <= count_got ts)%nat.
Proof.
  unfold count_got. induction ts as [|t ts IH]; cbn; [lia|].
  destruct t as [|pc r|v|]; cbn [filter is_holding got]; try (destruct (match pc with 4%nat => _ | _ => _ end)); cbn [length]; lia.
Qed.

Lemma linv_not_faulted y ts : Forall (linv y) ts -> existsb is_faulted ts = false.
Proof.
  induction 1 as [|t ts Ht _ IH]; cbn; auto. destruct t; cbn in *; auto. contradiction.
Qed.

(** Mutual exclusion, for any number of tasks, any schedule, yieldFn set or not. *)
Theorem mutex_all_schedules :
  forall (n : nat) (y : bool) (ls : list label) (s : mstate),
    run expected_cfg y (init n) ls = Some s ->
    (holders s <= 1)%nat /\ existsb is_faulted (threads s) = false /\
    lock s = N.of_nat (count_got (threads s)) /\ (count_got (threads s) <= 1)%nat.
Proof.
  intros n y ls s Hr. pose proof (run_inv y ls _ _ (init_inv y n) Hr) as (H1 & H2 & H3 & _).
  repeat split; auto.
  - unfold holders. pose proof (holders_le_got (threads s)). lia.
  - eapply linv_not_faulted; eauto.
Qed.

(** A plain counter incremented (read, then write) only inside the critical section never loses an update. *)
Theorem no_lost_update_all_schedules :
  forall n y ls s, run expected_cfg y (init n) ls = Some s -> counter s = ndone s.
Proof.
  intros n y ls s Hr. pose proof (run_inv y ls _ _ (init_inv y n) Hr) as (_ & _ & _ & H & _). exact H.
Qed.

Lemma upd_same {A} (l : list A) : forall i (x : A), nth_error l i = Some x -> upd l i x = l.
Proof. induction l as [|a l IH]; intros [|i] x H; cbn in *; try discriminate; [congruence|f_equal; auto]. Qed.

(** try-acquire returns true exactly when the lock word was free; then the caller owns it. When it
    returns false the machine state is unchanged (no side effect). *)
Theorem try_exact :
  forall y s tid, Inv y s -> nth_error (threads s) tid = Some Idle ->
    exists s', step expected_cfg y s (tid, CTry) = Some (s', Some (lock s =? 0)) /\
      ((lock s = 0 /\ lock s' = 1 /\ nth_error (threads s') tid = Some (Holding None) /\
        (forall j, j <> tid -> nth_error (threads s') j = nth_error (threads s) j) /\ counter s' = counter s)
       \/ (lock s = 1 /\ s' = s)).
Proof.
  intros y s tid (Hlock & Hcnt & _) Ht. unfold step. rewrite Ht. cbn [tcmp tswap expected_cfg].
  eexists. split; [reflexivity|].
  destruct (N.eqb_spec (lock s) 0) as [E|E].
  - left. cbn [lock threads counter]. repeat split; auto.
    + eapply nth_upd_same; eauto.
    + intros j Hj. apply nth_upd_other. congruence.
  - right. assert (lock s = 1) by lia. split; [assumption|].
    rewrite (upd_same _ _ _ Ht). destruct s as [lk c d ts]; cbn [lock counter ndone threads] in *. rewrite H. reflexivity.
Qed.

(** After the holder's release the lock word is 0, nobody owns the lock ... *)
Theorem release_frees :
  forall y s tid, Inv y s -> nth_error (threads s) tid = Some (Holding None) ->
    exists s', step expected_cfg y s (tid, CRelease) = Some (s', None) /\
      lock s' = 0 /\ count_got (threads s') = 0%nat /\ nth_error (threads s') tid = Some Idle.
Proof.
  intros y s tid Hi Ht.
  assert (Hs: step expected_cfg y s (tid, CRelease) = Some ({| lock := 0; counter := counter s; ndone := ndone s; threads := upd (threads s) tid Idle |}, None)).
  { unfold step. rewrite Ht. reflexivity. }
  eexists. split; [exact Hs|].
  pose proof (step_inv _ _ _ _ _ Hi Hs) as (H1 & _). cbn [lock threads] in *.
  repeat split; try lia. eapply nth_upd_same; eauto.
Qed.

(** ... and it can be taken again: a task running alone (its plain reads returning the true lock word)
    gets through Acquire in a fixed number of instructions. *)
Fixpoint solo_thread (c : cfg) (y : bool) (fuel : nat) (t : tstate) (lk : N) : tstate * N :=
  match fuel with
  | O => (t, lk)
  | S fuel =>
      match t with
      | InAcq pc r =>
          match nth_error (prog c) pc with
          | Some i => let '(t', lk') := exec c y i pc r lk lk in solo_thread c y fuel t' lk'
          | None => (Faulted, lk)
          end
      | _ => (t, lk)
      end
  end.

Lemma solo_acquire_thread c y fuel tid : forall s t,
  nth_error (threads s) tid = Some t ->
  let '(t', lk') := solo_thread c y fuel t (lock s) in
  (is_holding t' = true ->
   exists s', solo_acquire c y (S fuel) tid s = (s', true) /\ lock s' = lk' /\ nth_error (threads s') tid = Some t' /\
              (forall j, j <> tid -> nth_error (threads s') j = nth_error (threads s) j)).
Proof.
  induction fuel as [|fuel IH]; intros s t Ht; cbn [solo_thread].
  - intros Hh. destruct t; try discriminate. exists s. cbn [solo_acquire]. rewrite Ht. auto.
  - destruct t as [|pc r|v|]; try (intros Hh; try discriminate; exists s; cbn [solo_acquire]; rewrite Ht; auto; fail).
    destruct (nth_error (prog c) pc) as [i|] eqn:Hi; [|intros Hh; discriminate].
    destruct (exec c y i pc r (lock s) (lock s)) as [t1 lk1] eqn:He.
    set (s1 := {| lock := lk1; counter := counter s; ndone := ndone s; threads := upd (threads s) tid t1 |}).
    assert (Hs: step c y s (tid, CInstr (lock s)) = Some (s1, None)).
    { unfold step. rewrite Ht, Hi, He. reflexivity. }
    assert (Ht1: nth_error (threads s1) tid = Some t1) by (eapply nth_upd_same; eauto).
    specialize (IH s1 t1 Ht1). cbn [lock s1] in IH. fold s1 in IH.
    destruct (solo_thread c y fuel t1 lk1) as [t' lk'].
    intros Hh. destruct (IH Hh) as (s' & R1 & R2 & R3 & R4).
    exists s'. split; [|split; [|split]]; auto.
    + change (solo_acquire c y (S (S fuel)) tid s) with
        (match nth_error (threads s) tid with
         | Some (InAcq _ _) => match step c y s (tid, CInstr (lock s)) with
                               | Some (s0, _) => solo_acquire c y (S fuel) tid s0
                               | None => (s, false) end
         | Some (Holding _) => (s, true)
         | _ => (s, false) end).
      rewrite Ht, Hs. exact R1.
    + intros j Hj. rewrite (R4 j Hj). apply nth_upd_other. congruence.
Qed.

Theorem acquire_after_release :
  forall y s tid, lock s = 0 -> nth_error (threads s) tid = Some Idle ->
    exists s1 s2, step expected_cfg y s (tid, CStartAcq) = Some (s1, None) /\
      solo_acquire expected_cfg y 8 tid s1 = (s2, true) /\
      nth_error (threads s2) tid = Some (Holding None) /\ lock s2 = 1.
Proof.
  intros y s tid Hl Ht.
  set (s1 := {| lock := lock s; counter := counter s; ndone := ndone s; threads := upd (threads s) tid (InAcq 0 entry_regs) |}).
  assert (Hs: step expected_cfg y s (tid, CStartAcq) = Some (s1, None)) by (unfold step; rewrite Ht; reflexivity).
  assert (Ht1: nth_error (threads s1) tid = Some (InAcq 0 entry_regs)) by (eapply nth_upd_same; eauto).
  pose proof (solo_acquire_thread expected_cfg y 7 tid s1 _ Ht1) as H.
  cbn [lock s1] in H. rewrite Hl in H.
  assert (E: solo_thread expected_cfg y 7 (InAcq 0 entry_regs) 0 = (Holding None, 1)) by (destruct y; vm_compute; reflexivity).
  rewrite E in H. destruct (H eq_refl) as (s2 & R1 & R2 & R3 & _).
  exists s1, s2. auto.
Qed.

(** ---- progress: no call blocks forever (as far as the lock itself is concerned) ---- *)
Section Progress.
Local Arguments N.eqb : simpl nomatch.
Local Arguments N.modulo : simpl nomatch.
Local Arguments N.div : simpl nomatch.
Local Arguments N.add : simpl nomatch.
Local Arguments N.sub : simpl nomatch.

(** One lemma per program point, each one instruction plus the lemma of the next point (symbolic
    execution of 30 instructions from every point at once is far too slow). [R a b c z] are the registers. *)
Notation R a b c z := {| ax := a; bx := b; cx := c; zf := z |}.
Notation DONE := (Holding None, 1).

Ltac one_step :=
  let n := fresh "n" in let Hn := fresh "Hn" in
  intros n Hn; destruct n as [|n]; [exfalso; lia|];
  cbn [solo_thread nth_error prog expected_cfg];
  cbn [exec with_ax with_zf set_reg ax bx cx zf attempts expected_cfg].

Lemma solo_done y n : solo_thread expected_cfg y n (Holding None) 1 = DONE.
Proof. destruct n; reflexivity. Qed.

Lemma P6 y b c z : forall n, (1 <= n)%nat -> solo_thread expected_cfg y n (InAcq 6 (R PState b c z)) 1 = DONE.
Proof. one_step. apply solo_done. Qed.
Lemma P5t y b c : forall n, (2 <= n)%nat -> solo_thread expected_cfg y n (InAcq 5 (R PState b c true)) 1 = DONE.
Proof. one_step. apply P6. lia. Qed.
Lemma P4z y c z : forall n, (3 <= n)%nat -> solo_thread expected_cfg y n (InAcq 4 (R PState 0 c z)) 1 = DONE.
Proof. one_step. apply P5t. lia. Qed.
Lemma P3 y c z : forall n, (4 <= n)%nat -> solo_thread expected_cfg y n (InAcq 3 (R PState 1 c z)) 0 = DONE.
Proof. one_step. apply P4z. lia. Qed.
Lemma P2 y b c z : forall n, (5 <= n)%nat -> solo_thread expected_cfg y n (InAcq 2 (R PState b c z)) 0 = DONE.
Proof. one_step. apply P3. lia. Qed.
Lemma P1 y b c z : forall n, (6 <= n)%nat -> solo_thread expected_cfg y n (InAcq 1 (R PState b c z)) 0 = DONE.
Proof. one_step. apply P2. lia. Qed.
Lemma P0 y a b c z : forall n, (7 <= n)%nat -> solo_thread expected_cfg y n (InAcq 0 (R a b c z)) 0 = DONE.
Proof. one_step. apply P1. lia. Qed.
Lemma P10t y b c : forall n, (6 <= n)%nat -> solo_thread expected_cfg y n (InAcq 10 (R PState b c true)) 0 = DONE.
Proof. one_step. apply P2. lia. Qed.
Lemma P9z y c z : forall n, (7 <= n)%nat -> solo_thread expected_cfg y n (InAcq 9 (R PState 0 c z)) 0 = DONE.
Proof. one_step. apply P10t. lia. Qed.
Lemma P8 y b c z : forall n, (8 <= n)%nat -> solo_thread expected_cfg y n (InAcq 8 (R PState b c z)) 0 = DONE.
Proof. one_step. apply P9z. lia. Qed.
Lemma P7 y b c z : forall n, (9 <= n)%nat -> solo_thread expected_cfg y n (InAcq 7 (R PState b c z)) 0 = DONE.
Proof. one_step. apply P8. lia. Qed.
Lemma P19 y b c z : forall n, (10 <= n)%nat -> solo_thread expected_cfg y n (InAcq 19 (R PState b c z)) 0 = DONE.
Proof. one_step. apply P7. lia. Qed.
Lemma P18 y b c z : forall n, (11 <= n)%nat -> solo_thread expected_cfg y n (InAcq 18 (R PState b c z)) 0 = DONE.
Proof. one_step. apply P19. lia. Qed.
Lemma P17 y a b c z : forall n, (12 <= n)%nat -> solo_thread expected_cfg y n (InAcq 17 (R a b c z)) 0 = DONE.
Proof. one_step. apply P18. lia. Qed.
Lemma P16 y b c z : forall n, (13 <= n)%nat -> solo_thread expected_cfg y n (InAcq 16 (R PYieldFn b c z)) 0 = DONE.
Proof. one_step. apply P17. lia. Qed.
Lemma P15 y b c : forall n, (14 <= n)%nat ->
  solo_thread expected_cfg y n (InAcq 15 (R (if y then PYieldFn else PNull) b c (negb y))) 0 = DONE.
Proof. destruct y; one_step; [apply P16|apply P17]; lia. Qed.
Lemma P14 y b c z : forall n, (15 <= n)%nat ->
  solo_thread expected_cfg y n (InAcq 14 (R (if y then PYieldFn else PNull) b c z)) 0 = DONE.
Proof. destruct y; one_step; [apply (P15 true)|apply (P15 false)]; lia. Qed.
Lemma P13 y b c z : forall n, (16 <= n)%nat -> solo_thread expected_cfg y n (InAcq 13 (R PState b c z)) 0 = DONE.
Proof. one_step. apply P14. lia. Qed.
Lemma P12 y b c z : forall n, (17 <= n)%nat -> solo_thread expected_cfg y n (InAcq 12 (R PState b c z)) 0 = DONE.
Proof. destruct z; one_step; [apply P13|apply P7]; lia. Qed.
Lemma P11 y b c z : forall n, (18 <= n)%nat -> solo_thread expected_cfg y n (InAcq 11 (R PState b c z)) 0 = DONE.
Proof. one_step. apply P12. lia. Qed.
Lemma P10f y b c : forall n, (19 <= n)%nat -> solo_thread expected_cfg y n (InAcq 10 (R PState b c false)) 0 = DONE.
Proof. one_step. apply P11. lia. Qed.
Lemma P9 y b c z : forall n, (20 <= n)%nat -> solo_thread expected_cfg y n (InAcq 9 (R PState b c z)) 0 = DONE.
Proof. one_step. destruct (b =? 0); [apply P10t|apply P10f]; lia. Qed.
Lemma P5f y b c : forall n, (10 <= n)%nat -> solo_thread expected_cfg y n (InAcq 5 (R PState b c false)) 0 = DONE.
Proof. one_step. apply P7. lia. Qed.
Lemma P4n y b c z : (b =? 0) = false -> forall n, (11 <= n)%nat -> solo_thread expected_cfg y n (InAcq 4 (R PState b c z)) 0 = DONE.
Proof. intros Hb. one_step. rewrite Hb. apply P5f. lia. Qed.

(** a task anywhere inside Acquire that does not own the lock gets it within 30 of its own
    instructions once the lock word is 0 (its plain reads returning the true value) *)
Lemma spin_progress y pc r :
  linv y (InAcq pc r) -> got (InAcq pc r) = false ->
  solo_thread expected_cfg y 30 (InAcq pc r) 0 = (Holding None, 1).
Proof.
  intros (Hpc & Hax & Hbx & Hy & Hz & Hy16) Hg.
  destruct r as [a b c z]. cbn [ax bx cx zf] in *.
  destruct (pc_cases pc Hpc) as [->|[->|[->|[->|[->|[->|[->|[->|[->|[->|[->|[->|[->|[->|[->|[->|[->|[->|[->| ->]]]]]]]]]]]]]]]]]]];
    try (assert (Ha: a = PState) by (apply Hax; cbn; tauto); subst a);
    try (assert (Ha: a = if y then PYieldFn else PNull) by (apply Hy; tauto); subst a);
    try (specialize (Hbx eq_refl); subst b);
    try (specialize (Hz eq_refl); subst z);
    try (specialize (Hy16 eq_refl); subst y);
    clear Hax Hy;
    cbn [got bx zf] in Hg; try discriminate.
  - apply P0; lia.
  - apply P1; lia.
  - apply P2; lia.
  - apply P3; lia.
  - apply P4n; [exact Hg|lia].
  - subst z. apply P5f; lia.
  - apply P7; lia.
  - apply P8; lia.
  - apply P9; lia.
  - destruct z; [apply P10t|apply P10f]; lia.
  - apply P11; lia.
  - apply P12; lia.
  - apply P13; lia.
  - apply P14; lia.
  - apply P15; lia.
  - apply (P16 true); lia.
  - apply P17; lia.
  - apply P18; lia.
  - apply P19; lia.
Qed.

(** a task that owns the lock but is still inside Acquire returns within 3 instructions *)
Lemma got_progress y pc r :
  linv y (InAcq pc r) -> got (InAcq pc r) = true ->
  solo_thread expected_cfg y 3 (InAcq pc r) 1 = (Holding None, 1).
Proof.
  intros (Hpc & Hax & Hbx & Hy & Hz & Hy16) Hg.
  destruct r as [a b c z]. cbn [ax bx cx zf] in *.
  destruct (pc_cases pc Hpc) as [->|[->|[->|[->|[->|[->|[->|[->|[->|[->|[->|[->|[->|[->|[->|[->|[->|[->|[->| ->]]]]]]]]]]]]]]]]]]];
    cbn [got bx zf] in Hg; try discriminate.
  - cbn. rewrite Hg. reflexivity.
  - subst z. reflexivity.
  - reflexivity.
Qed.
End Progress.

Lemma count_pos_exists ts : (1 <= count_got ts)%nat -> exists u t, nth_error ts u = Some t /\ got t = true.
Proof.
  unfold count_got. induction ts as [|a ts IH]; cbn; [lia|]. destruct (got a) eqn:E.
  - intros _. exists 0%nat, a. auto.
  - intros H. destruct (IH H) as (u & t & H1 & H2). exists (S u), t. auto.
Qed.

(** From every reachable state: if the lock word is 0, ANY task that is inside Acquire completes it on
    its own within 31 steps; if it is 1, the task that owns the lock is either in its critical section
    (where Release is enabled) or completes Acquire on its own within 4 steps. So some task can always
    finish its current lock operation: the lock itself never deadlocks. *)
Theorem lock_progress y s :
  Inv y s ->
  (lock s = 0 -> forall tid pc r, nth_error (threads s) tid = Some (InAcq pc r) ->
     exists s', solo_acquire expected_cfg y 31 tid s = (s', true) /\ nth_error (threads s') tid = Some (Holding None)) /\
  (lock s = 1 -> exists u t, nth_error (threads s) u = Some t /\ got t = true /\
     match t with
     | InAcq pc r => exists s', solo_acquire expected_cfg y 4 u s = (s', true) /\ nth_error (threads s') u = Some (Holding None)
     | _ => is_holding t = true
     end).
Proof.
  intros (Hlock & Hcnt & Hl & _). split.
  - intros L0 tid pc r Ht.
    pose proof (Forall_nth _ _ _ _ Hl Ht) as Hlt.
    assert (Hg: got (InAcq pc r) = false).
    { destruct (got (InAcq pc r)) eqn:E; auto. pose proof (got_in_count _ _ _ Ht E). lia. }
    pose proof (solo_acquire_thread expected_cfg y 30 tid s _ Ht) as H.
    rewrite L0, (spin_progress y pc r Hlt Hg) in H. destruct (H eq_refl) as (s' & R1 & _ & R3 & _).
    exists s'. auto.
  - intros L1. assert (Hc: (1 <= count_got (threads s))%nat) by lia.
    destruct (count_pos_exists _ Hc) as (u & t & Ht & Hg). exists u, t. repeat split; auto.
    destruct t as [|pc r|v|]; try (cbn in Hg; discriminate); auto.
    pose proof (Forall_nth _ _ _ _ Hl Ht) as Hlt.
    pose proof (solo_acquire_thread expected_cfg y 3 u s _ Ht) as H.
    rewrite L1, (got_progress y pc r Hlt Hg) in H. destruct (H eq_refl) as (s' & R1 & _ & R3 & _).
    exists s'. auto.
Qed.

(** ---- the same statements about the program regenerated from the current source tree ---- *)
Definition Reachable (n : nat) (y : bool) (s : mstate) : Prop := exists ls, run gen_cfg y (init n) ls = Some s.

Lemma reachable_inv n y s : Reachable n y s -> Inv y s.
Proof. intros [ls H]. rewrite (proj1 gen_matches) in H. eapply run_inv; [apply init_inv|exact H]. Qed.

Lemma mutex_gen n y s : Reachable n y s ->
  (holders s <= 1)%nat /\ existsb is_faulted (threads s) = false /\
  lock s = N.of_nat (count_got (threads s)) /\ (count_got (threads s) <= 1)%nat.
Proof. intros [ls H]. rewrite (proj1 gen_matches) in H. eapply mutex_all_schedules; eauto. Qed.

Lemma no_lost_update_gen n y s : Reachable n y s -> counter s = ndone s.
Proof. intros [ls H]. rewrite (proj1 gen_matches) in H. eapply no_lost_update_all_schedules; eauto. Qed.

Lemma try_exact_gen n y s tid : Reachable n y s -> nth_error (threads s) tid = Some Idle ->
    exists s', step gen_cfg y s (tid, CTry) = Some (s', Some (lock s =? 0)) /\
      ((lock s = 0 /\ lock s' = 1 /\ nth_error (threads s') tid = Some (Holding None) /\
        (forall j, j <> tid -> nth_error (threads s') j = nth_error (threads s) j) /\ counter s' = counter s)
       \/ (lock s = 1 /\ s' = s)).
Proof. intros R. pose proof (reachable_inv _ _ _ R). rewrite (proj1 gen_matches). apply try_exact; assumption. Qed.

Lemma release_frees_gen n y s tid : Reachable n y s -> nth_error (threads s) tid = Some (Holding None) ->
    exists s', step gen_cfg y s (tid, CRelease) = Some (s', None) /\
      lock s' = 0 /\ count_got (threads s') = 0%nat /\ nth_error (threads s') tid = Some Idle.
Proof. intros R. pose proof (reachable_inv _ _ _ R). rewrite (proj1 gen_matches). apply release_frees; assumption. Qed.

Lemma acquire_after_release_gen y s tid : lock s = 0 -> nth_error (threads s) tid = Some Idle ->
    exists s1 s2, step gen_cfg y s (tid, CStartAcq) = Some (s1, None) /\
      solo_acquire gen_cfg y 8 tid s1 = (s2, true) /\
      nth_error (threads s2) tid = Some (Holding None) /\ lock s2 = 1.
Proof. rewrite (proj1 gen_matches). apply acquire_after_release. Qed.

(** owning the lock word and being in the critical section *)
Lemma holding_is_owner t : is_holding t = true -> got t = true.
Proof. destruct t; cbn; auto; discriminate. Qed.

Lemma lock_progress_gen n y s : Reachable n y s ->
  (lock s = 0 -> forall tid pc r, nth_error (threads s) tid = Some (InAcq pc r) ->
     exists s', solo_acquire gen_cfg y 31 tid s = (s', true) /\ nth_error (threads s') tid = Some (Holding None)) /\
  (lock s = 1 -> exists u t, nth_error (threads s) u = Some t /\ got t = true /\
     match t with
     | InAcq pc r => exists s', solo_acquire gen_cfg y 4 u s = (s', true) /\ nth_error (threads s') u = Some (Holding None)
     | _ => is_holding t = true
     end).
Proof. intros R. pose proof (reachable_inv _ _ _ R). rewrite (proj1 gen_matches). apply lock_progress; assumption. Qed.
