(** Soundness of the skeleton checker: a well-bracketed skeleton's every path is a sequence of
    critical sections (acquire, shared accesses only inside, release) and ends with the mutex released. *)
From Coq Require Import String List Bool Lia.
From FF Require Import Sync.Skel.
Import ListNotations.

Definition inS (held : bool) (S : aset) : Prop := if held then snd S = true else fst S = true.

Definition pick (r : res) (o : out) : aset :=
  match o with ONormal => rn r | OBreak => rb r | OContinue => rc r | OReturn => rr r end.

Lemma inS_join_l h a b : inS h a -> inS h (join a b).
Proof. destruct h, a, b; cbn; intros; subst; auto using orb_true_r. Qed.
Lemma inS_join_r h a b : inS h b -> inS h (join a b).
Proof. destruct h, a as [a1 a2], b; cbn; intros; subst; auto using orb_true_r. Qed.
Lemma inS_sub h a b : sub a b = true -> inS h a -> inS h b.
Proof. destruct h, a as [[] []], b as [[] []]; cbn; intros; auto; discriminate. Qed.
Lemma inS_bot h : ~ inS h bot.
Proof. destruct h; cbn; discriminate. Qed.

Lemma lkrun_app h t1 t2 : lkrun h (t1 ++ t2) = match lkrun h t1 with Some h' => lkrun h' t2 | None => None end.
Proof. revert h. induction t1 as [|e t1 IH]; intros h; cbn; auto. destruct (lkstep h e); auto. Qed.

Ltac fl x n E := destruct (flows x _) as [n|] eqn:E; [|discriminate].
Ltac ifs := repeat match goal with
  | H : (if ?x then _ else None) = Some _ |- _ => destruct x eqn:?; [|discriminate]
  | H : (if ?x then None else _) = Some _ |- _ => destruct x eqn:?; [discriminate|]
  end.

Theorem flows_sound s t o :
  exec s t o -> forall S r h, flows s S = Some r -> inS h S ->
  exists h', lkrun h t = Some h' /\ inS h' (pick r o).
Proof.
  induction 1; intros S r h0 Hf Hin; cbn [flows] in Hf.
  - (* Acq *) ifs. injection Hf as <-. destruct h0; cbn in *; [congruence|]. eexists; split; eauto.
  - (* Rel *) ifs. injection Hf as <-. destruct h0; cbn in *; [|congruence]. eexists; split; eauto.
  - (* Shared *) ifs. injection Hf as <-. destruct h0; cbn in *; [|congruence]. eexists; split; eauto.
  - injection Hf as <-. exists h0. cbn. auto.
  - discriminate.
  - (* SeqN *) fl a ra Ea. fl b r2 Eb. injection Hf as <-.
    destruct (IHexec1 _ _ _ Ea Hin) as (h1 & R1 & I1). cbn in I1.
    destruct (IHexec2 _ _ _ Eb I1) as (h2 & R2 & I2).
    exists h2. rewrite lkrun_app, R1. split; auto. destruct o; cbn in *; auto using inS_join_r.
  - (* SeqA *) fl a ra Ea. fl b r2 Eb. injection Hf as <-.
    destruct (IHexec _ _ _ Ea Hin) as (h1 & R1 & I1).
    exists h1. split; auto. destruct o; cbn in *; try congruence; auto using inS_join_l.
  - (* IfT *) fl c r0 E0. fl t r1 E1. fl e r2 E2. injection Hf as <-.
    destruct (IHexec1 _ _ _ E0 Hin) as (h1 & R1 & I1). cbn in I1.
    destruct (IHexec2 _ _ _ E1 I1) as (h2 & R2 & I2).
    exists h2. rewrite lkrun_app, R1. split; auto.
    destruct o; cbn in *; auto using inS_join_l, inS_join_r.
  - (* IfE *) fl c r0 E0. fl t r1 E1. fl e r2 E2. injection Hf as <-.
    destruct (IHexec1 _ _ _ E0 Hin) as (h1 & R1 & I1). cbn in I1.
    destruct (IHexec2 _ _ _ E2 I1) as (h2 & R2 & I2).
    exists h2. rewrite lkrun_app, R1. split; auto.
    destruct o; cbn in *; auto using inS_join_l, inS_join_r.
  - (* IfC *) fl c r0 E0. fl t r1 E1. fl e r2 E2. injection Hf as <-.
    destruct (IHexec _ _ _ E0 Hin) as (h1 & R1 & I1).
    exists h1. split; auto. destruct o; cbn in *; try congruence; auto using inS_join_l.
  - (* LoopExit *) fl c r0 E0. fl b r1 E1. fl p r2 E2. ifs. injection Hf as <-.
    destruct (IHexec _ _ _ E0 Hin) as (h1 & R1 & I1).
    exists h1. split; auto. cbn in *. auto using inS_join_l.
  - (* LoopCond *) fl c r0 E0. fl b r1 E1. fl p r2 E2. ifs. injection Hf as <-.
    destruct (IHexec _ _ _ E0 Hin) as (h1 & R1 & I1).
    exists h1. split; auto. destruct o; cbn in *; try congruence; auto using inS_join_l.
  - (* LoopIter *)
    fl c r0 E0. fl b r1 E1. fl p r2 E2.
    destruct (sub (rn r2) S) eqn:Esub; [|discriminate]. injection Hf as <-.
    match goal with |- context [pick ?R o] =>
      assert (Hf0: flows (KLoop c b p) S = Some R) by (cbn [flows]; rewrite E0, E1, E2, Esub; reflexivity) end.
    destruct (IHexec1 _ _ _ E0 Hin) as (h1 & R1 & I1). cbn in I1.
    destruct (IHexec2 _ _ _ E1 I1) as (h2 & R2 & I2).
    assert (I2': inS h2 (join (rn r1) (rc r1))).
    { destruct H1 as [-> | ->]; cbn in I2; auto using inS_join_l, inS_join_r. }
    destruct (IHexec3 _ _ _ E2 I2') as (h3 & R3 & I3). cbn in I3.
    pose proof (inS_sub _ _ _ Esub I3) as I3'.
    destruct (IHexec4 _ _ _ Hf0 I3') as (h4 & R4 & I4).
    exists h4. rewrite lkrun_app, R1, lkrun_app, R2, lkrun_app, R3. split; auto.
  - (* LoopBreak *) fl c r0 E0. fl b r1 E1. fl p r2 E2. ifs. injection Hf as <-.
    destruct (IHexec1 _ _ _ E0 Hin) as (h1 & R1 & I1). cbn in I1.
    destruct (IHexec2 _ _ _ E1 I1) as (h2 & R2 & I2).
    exists h2. rewrite lkrun_app, R1. split; auto. cbn in *. auto using inS_join_r.
  - (* LoopRet *) fl c r0 E0. fl b r1 E1. fl p r2 E2. ifs. injection Hf as <-.
    destruct (IHexec1 _ _ _ E0 Hin) as (h1 & R1 & I1). cbn in I1.
    destruct (IHexec2 _ _ _ E1 I1) as (h2 & R2 & I2).
    exists h2. rewrite lkrun_app, R1. split; auto. cbn in *. auto using inS_join_l, inS_join_r.
  - (* LoopPost *) fl c r0 E0. fl b r1 E1. fl p r2 E2. ifs. injection Hf as <-.
    destruct (IHexec1 _ _ _ E0 Hin) as (h1 & R1 & I1). cbn in I1.
    destruct (IHexec2 _ _ _ E1 I1) as (h2 & R2 & I2).
    assert (I2': inS h2 (join (rn r1) (rc r1))).
    { destruct H1 as [-> | ->]; cbn in I2; auto using inS_join_l, inS_join_r. }
    destruct (IHexec3 _ _ _ E2 I2') as (h3 & R3 & I3).
    exists h3. rewrite lkrun_app, R1, lkrun_app, R2. split; auto.
    destruct o; cbn in *; try congruence; auto using inS_join_l, inS_join_r.
  - (* Call *) fl body r0 E0. injection Hf as <-.
    destruct (IHexec _ _ _ E0 Hin) as (h1 & R1 & I1).
    exists h1. split; auto. cbn. destruct H0 as [-> | ->]; cbn in I1; auto using inS_join_l, inS_join_r.
  - (* CallEsc *) fl body r0 E0. injection Hf as <-.
    destruct (IHexec _ _ _ E0 Hin) as (h1 & R1 & I1).
    exists h1. split; auto. destruct H0 as [-> | ->]; cbn in *; auto.
  - (* Return *) fl e r0 E0. injection Hf as <-.
    destruct (IHexec _ _ _ E0 Hin) as (h1 & R1 & I1).
    exists h1. split; auto. cbn in *. auto using inS_join_l.
  - (* ReturnE *) fl e r0 E0. injection Hf as <-.
    destruct (IHexec _ _ _ E0 Hin) as (h1 & R1 & I1).
    exists h1. split; auto. destruct o; cbn in *; try congruence; auto using inS_join_r.
  - injection Hf as <-. exists h0. cbn. auto.
  - injection Hf as <-. exists h0. cbn. auto.
Qed.

(** Every complete path of a well-bracketed operation, started without the mutex, performs its events
    without ever violating the lock discipline (no shared access outside the mutex, no double acquire,
    no stray release) and ends with the mutex released; break/continue cannot escape. *)
Theorem well_bracketed_sound s t o :
  well_bracketed s = true -> exec s t o ->
  lkrun false t = Some false /\ (o = ONormal \/ o = OReturn).
Proof.
  unfold well_bracketed. intros H Hx.
  destruct (flows s unheld) as [r|] eqn:E; [|discriminate].
  apply andb_prop in H as [H Hc]. apply andb_prop in H as [H Hb]. apply andb_prop in H as [Hn Hr].
  assert (I0: inS false unheld) by reflexivity.
  destruct (flows_sound _ _ _ Hx _ _ _ E I0) as (h' & R & I).
  assert (Hbot: forall a h, isbot a = true -> ~ inS h a).
  { intros [[] []] []; cbn; intros; try discriminate; auto. }
  destruct o; cbn in I.
  - pose proof (inS_sub _ _ _ Hn I) as I'. destruct h'; cbn in I'; [discriminate|]. split; [exact R|auto].
  - exfalso. exact (Hbot _ _ Hb I).
  - exfalso. exact (Hbot _ _ Hc I).
  - pose proof (inS_sub _ _ _ Hr I) as I'. destruct h'; cbn in I'; [discriminate|]. split; [exact R|auto].
Qed.
