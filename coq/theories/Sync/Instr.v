(** Instruction set of kernel/sync/spinlock_amd64.s as far as it occurs there.
    Gen/SpinAsm.v (regenerated from the assembly on every run) is a [list instr]. *)
From Coq Require Import NArith List.
Import ListNotations.

Inductive reg := AX | BX | CX.

Inductive instr :=
| ILoadStatePtr            (* MOVQ state+0(FP), AX *)
| ILoadAttempts            (* MOVL attemptsBeforeYielding+8(FP), CX *)
| IMovImm (r : reg) (v : N)(* MOVL $v, r *)
| IXchg                    (* XCHGL 0(AX), BX   -- atomic exchange with the lock word *)
| ITest (r : reg)          (* TESTL/TESTQ r, r *)
| IJnz (target : nat)
| IJz (target : nat)
| IJmp (target : nat)
| IRet
| IPause
| ILoad                    (* MOVL 0(AX), BX    -- plain read of the lock word *)
| IStore                   (* MOVL BX, 0(AX)    -- plain store (does not occur in the unchanged tree) *)
| IDec (r : reg)           (* DECL r *)
| ILoadYield               (* MOVQ ·yieldFn+0(SB), AX *)
| ICallAX                  (* CALL 0(AX) *)
| IBad.                    (* anything the translator does not know *)
