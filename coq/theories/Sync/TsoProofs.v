(** Proofs about Sync/Tso.v (C08 under x86-TSO store buffering): mutual exclusion for any number of
    tasks and any schedule of program steps and buffer flushes, visibility of the work done inside the
    lock to the next holder, exactness of try-acquire. *)
From Coq Require Import NArith Lia List Bool Arith.
From Coq Require Import ZifyBool ZifyN ZifyNat.
From FF Require Import Lib.Word Sync.Instr Gen.SpinAsm Sync.Machine Sync.MachineProofs Sync.Tso.
Import ListNotations.
Local Open Scope N_scope.

(** ---- buffers ---- *)
Lemma view_app_counter buf m v : view (buf ++ [WCounter v]) m = v.
Proof. revert m. induction buf as [|w buf IH]; intros m; cbn; [reflexivity|]. destruct w; apply IH. Qed.

Lemma view_app_lock buf m v : view (buf ++ [WLock v]) m = view buf m.
Proof. revert m. induction buf as [|w buf IH]; intros m; cbn; [reflexivity|]. destruct w; apply IH. Qed.

Lemma existsb_lock_counters cs : forallb is_counterw cs = true -> existsb is_lockw cs = false.
Proof. induction cs as [|w cs IH]; cbn; auto. destruct w; cbn; auto; try discriminate. Qed.

Lemma existsb_app_lock cs v : existsb is_lockw (cs ++ [WLock v]) = true.
Proof. rewrite existsb_app. cbn. apply orb_true_r. Qed.

(** A task owns the lock: it is in its critical section or past the successful exchange ([got]), or it
    has released but its store of 0 to the lock word is still in its buffer. *)
Definition towner (p : tstate * list wr) : bool := got (fst p) || existsb is_lockw (snd p).

(** shape of a buffer: an owner in its critical section has only counter writes pending; a task that is
    not [got] has nothing pending, or counter writes followed by ONE store of 0 to the lock word *)
Definition buf_ok (p : tstate * list wr) : Prop :=
  let '(t, buf) := p in
  if got t then forallb is_counterw buf = true
  else buf = [] \/ exists cs, forallb is_counterw cs = true /\ buf = cs ++ [WLock 0].

Definition count_own (ts : list (tstate * list wr)) : nat := length (filter towner ts).

Lemma count_own_upd ts : forall i p p', nth_error ts i = Some p ->
  (count_own (upd ts i p') + b2n (towner p) = count_own ts + b2n (towner p'))%nat.
Proof.
  induction ts as [|a ts IH]; intros i p p' H; destruct i as [|i]; cbn in H; try discriminate.
  - injection H as ->. unfold count_own. cbn [upd filter]. destruct (towner p), (towner p'); cbn; lia.
  - specialize (IH i p p' H). unfold count_own in *. cbn [upd filter]. destruct (towner a); cbn; lia.
Qed.

Lemma own_in_count ts i p : nth_error ts i = Some p -> towner p = true -> (1 <= count_own ts)%nat.
Proof.
  revert i. induction ts as [|a ts IH]; intros [|i] H Hg; cbn in H; try discriminate.
  - injection H as ->. unfold count_own. cbn. rewrite Hg. cbn. lia.
  - unfold count_own in *. cbn. destruct (towner a); cbn; [lia|]. eapply IH; eauto.
Qed.

Lemma two_owners ts : forall i j p q, i <> j -> nth_error ts i = Some p -> nth_error ts j = Some q ->
  towner p = true -> towner q = true -> (2 <= count_own ts)%nat.
Proof.
  induction ts as [|a ts IH]; intros [|i] [|j] p q Hne H1 H2 Hp Hq; cbn in *; try discriminate; try congruence.
  - injection H1 as ->. unfold count_own. cbn. rewrite Hp. cbn. pose proof (own_in_count ts j _ H2 Hq) as H. unfold count_own in H. lia.
  - injection H2 as ->. unfold count_own. cbn. rewrite Hq. cbn. pose proof (own_in_count ts i _ H1 Hp) as H. unfold count_own in H. lia.
  - unfold count_own in *. cbn. assert (2 <= length (filter towner ts))%nat by (eapply (IH i j); eauto).
    destruct (towner a); cbn; lia.
Qed.

Lemma count_zero_none ts i p : count_own ts = 0%nat -> nth_error ts i = Some p -> towner p = false.
Proof.
  intros H0 Hn. destruct (towner p) eqn:E; auto. pose proof (own_in_count _ _ _ Hn E). lia.
Qed.


Lemma buf_lock_head t v rest : buf_ok (t, WLock v :: rest) -> got t = false /\ v = 0 /\ rest = [].
Proof.
  cbn [buf_ok]. destruct (got t) eqn:G.
  - cbn. discriminate.
  - intros [H|(cs & Hcs & H)]; [discriminate|]. destruct cs as [|c cs].
    + cbn in H. injection H as -> ->. auto.
    + cbn in H. injection H as <- _. cbn in Hcs. discriminate.
Qed.

Lemma buf_counter_head t v rest : buf_ok (t, WCounter v :: rest) -> buf_ok (t, rest) /\ towner (t, rest) = true.
Proof.
  cbn [buf_ok]. unfold towner. cbn [fst snd]. destruct (got t) eqn:G.
  - cbn. auto.
  - intros [H|(cs & Hcs & H)]; [discriminate|]. destruct cs as [|c cs]; [discriminate|].
    cbn in H. injection H as <- ->. cbn in Hcs. split.
    + right. exists cs. auto.
    + cbn [orb]. apply existsb_app_lock.
Qed.

(** ---- the invariant ---- *)
Definition sees (cnt dn : N) (p : tstate * list wr) : Prop :=
  towner p = true -> view (snd p) cnt = dn /\ tmp_ok dn (fst p).

Definition TInv (y : bool) (s : tso) : Prop :=
  m_lock s = N.of_nat (count_own (tthreads s)) /\
  (count_own (tthreads s) <= 1)%nat /\
  Forall (fun p => linv y (fst p)) (tthreads s) /\
  Forall buf_ok (tthreads s) /\
  Forall (sees (m_counter s) (t_ndone s)) (tthreads s) /\
  (count_own (tthreads s) = 0%nat -> m_counter s = t_ndone s).

Lemma tinit_inv y n : TInv y (tinit n).
Proof.
  unfold TInv, tinit. cbn [m_lock m_counter t_ndone tthreads].
  assert (H: count_own (repeat (Idle, []) n) = 0%nat) by (induction n; cbn; auto).
  rewrite H. repeat split; try lia; apply Forall_forall; intros p Hp; apply repeat_spec in Hp; subst; cbn; auto.
  unfold sees. cbn. discriminate.
Qed.

Lemma exec_mem_unchanged c y i pc r lk h : i <> IXchg -> i <> IStore -> snd (exec c y i pc r lk h) = lk.
Proof.
  intros H1 H2. destruct i; try congruence; cbn; try reflexivity;
    repeat match goal with |- context [match ?x with _ => _ end] => destruct x; cbn end; reflexivity.
Qed.

(** everybody but [tid] is no owner when [tid] is *)
Lemma others_not_owner ts tid p : (count_own ts <= 1)%nat -> nth_error ts tid = Some p -> towner p = true ->
  forall j q, j <> tid -> nth_error ts j = Some q -> towner q = false.
Proof.
  intros Hc Hp Ho j q Hne Hq. destruct (towner q) eqn:E; auto.
  assert (2 <= count_own ts)%nat by (eapply (two_owners ts tid j); eauto). lia.
Qed.

Lemma sees_nonowner cnt' dn' p : towner p = false -> sees cnt' dn' p.
Proof. intros H Ho. congruence. Qed.

(** re-establish the per-thread clauses after thread [tid] moved to [p'] *)
Lemma Forall_upd_others {A} (P Q : A -> Prop) (l : list A) i x :
  Forall P l -> (forall j y, j <> i -> nth_error l j = Some y -> P y -> Q y) -> Q x -> Forall Q (upd l i x).
Proof.
  intros HP H Hx. apply Forall_upd_weak; auto. intros j y Hne Hj. apply (H j y Hne Hj). eapply Forall_nth; eauto.
Qed.

Ltac inv_some H := injection H as <- <-.

Ltac tinv_split := unfold TInv; cbn [m_lock m_counter t_ndone tthreads]; split; [|split; [|split; [|split; [|split]]]].

Lemma tstep_inv y lr s l s' o : TInv y s -> tstep expected_cfg y lr s l = Some (s', o) -> TInv y s'.
Proof.
  intros (Hlock & Hcnt & Hl & Hb & Hsee & Hzero) Hs. destruct l as [tid ch]. unfold tstep in Hs.
  destruct (nth_error (tthreads s) tid) as [[t buf]|] eqn:Ht; [|discriminate].
  pose proof (Forall_nth _ _ _ _ Hl Ht) as Hlt. cbn [fst] in Hlt.
  pose proof (Forall_nth _ _ _ _ Hb Ht) as Hbt.
  pose proof (Forall_nth _ _ _ _ Hsee Ht) as Hst. unfold sees in Hst. cbn [fst snd] in Hst.
  destruct ch as [|ch].
  - (* ---- flush ---- *)
    destruct buf as [|w rest]; [discriminate|]. destruct w as [v|v]; inv_some Hs.
    + (* the store to the lock word *)
      destruct (buf_lock_head _ _ _ Hbt) as (Hg & -> & ->).
      assert (Ho: towner (t, [WLock 0]) = true) by (unfold towner; cbn; rewrite Hg; reflexivity).
      pose proof (count_own_upd _ _ _ (t, []) Ht) as Hc. rewrite Ho in Hc.
      assert (Ho': towner (t, []) = false) by (unfold towner; cbn; rewrite Hg; reflexivity).
      rewrite Ho' in Hc. cbn in Hc.
      pose proof (own_in_count _ _ _ Ht Ho) as H1.
      destruct (Hst Ho) as (Hv & _). cbn in Hv.
      tinv_split.
      * lia.
      * lia.
      * apply Forall_upd; [assumption|]; cbn [fst snd]; auto.
      * apply Forall_upd; [assumption|]. cbn. rewrite Hg. left. reflexivity.
      * eapply Forall_upd_others; [exact Hsee| |].
        -- intros j q Hne Hq _. apply sees_nonowner. eapply (others_not_owner _ tid _ Hcnt Ht); eauto.
        -- apply sees_nonowner. exact Ho'.
      * intros _. exact Hv.
    + (* a store to the counter *)
      assert (Ho: towner (t, WCounter v :: rest) = towner (t, rest)) by reflexivity.
      pose proof (count_own_upd _ _ _ (t, rest) Ht) as Hc. rewrite Ho in Hc.
      destruct (buf_counter_head _ _ _ Hbt) as (Hbt' & Hown).
      tinv_split.
      * lia.
      * lia.
      * apply Forall_upd; [assumption|]; cbn [fst snd]; auto.
      * apply Forall_upd; [assumption|]; cbn [fst snd]; auto.
      * eapply Forall_upd_others; [exact Hsee| |].
        -- intros j q Hne Hq _. apply sees_nonowner. eapply (others_not_owner _ tid _ Hcnt Ht); eauto.
        -- intros _. cbn [fst snd]. rewrite Ho in Hst. exact (Hst Hown).
      * intros H0. exfalso. assert (1 <= count_own (upd (tthreads s) tid (t, rest)))%nat.
        { eapply own_in_count; [eapply nth_upd_same; eauto|exact Hown]. }
        lia.
  - destruct ch as [| | | | |h].
    + (* ---- StartAcq ---- *)
      destruct t as [|pc r|v|]; try discriminate. inv_some Hs.
      assert (Ho: towner (InAcq 0 entry_regs, buf) = towner (Idle, buf)) by reflexivity.
      pose proof (count_own_upd _ _ _ (InAcq 0 entry_regs, buf) Ht) as Hc. rewrite Ho in Hc.
      tinv_split.
      * lia.
      * lia.
      * apply Forall_upd; [assumption|]. apply entry_linv.
      * apply Forall_upd; [assumption|]; cbn [fst snd]; auto.
      * apply Forall_upd; [assumption|]. unfold sees. rewrite Ho. cbn [fst snd]. intros H. destruct (Hst H) as (Hv & _). split; [exact Hv|exact I].
      * intros H0. apply Hzero. lia.
    + (* ---- TryToAcquire ---- *)
      destruct t as [|pc r|v|]; try discriminate. destruct buf as [|w rest]; [|discriminate]. inv_some Hs.
      cbn [tswap tcmp expected_cfg].
      assert (Ho: towner (Idle, []) = false) by reflexivity.
      destruct (N.eqb_spec (m_lock s) 0) as [E|E].
      * pose proof (count_own_upd _ _ _ (Holding None, []) Ht) as Hc. rewrite Ho in Hc. cbn in Hc.
        assert (H0: count_own (tthreads s) = 0%nat) by lia.
        tinv_split.
        -- lia.
        -- lia.
        -- apply Forall_upd; [assumption|]. exact I.
        -- apply Forall_upd; [assumption|]. reflexivity.
        -- eapply Forall_upd_others; [exact Hsee| |].
           ++ intros j q Hne Hq _. apply sees_nonowner. eapply count_zero_none; eauto.
           ++ intros _. cbn. split; [apply Hzero; exact H0|exact I].
        -- intros H2. exfalso. lia.
      * pose proof (count_own_upd _ _ _ (Idle, []) Ht) as Hc. rewrite Ho in Hc. cbn in Hc.
        tinv_split.
        -- lia.
        -- lia.
        -- apply Forall_upd; [assumption|]; cbn [fst snd]; auto.
        -- apply Forall_upd; [assumption|]; cbn [fst snd]; auto.
        -- apply Forall_upd; [assumption|]. apply sees_nonowner. exact Ho.
        -- intros H0. apply Hzero. lia.
    + (* ---- Release ---- *)
      destruct t as [|pc r|[v|]|]; try discriminate.
      assert (Ho: towner (Holding None, buf) = true) by reflexivity.
      destruct (Hst Ho) as (Hv & _). cbn in Hbt.
      pose proof (own_in_count _ _ _ Ht Ho) as H1.
      destruct lr.
      * destruct buf as [|w rest]; [|discriminate]. inv_some Hs. cbn [rstore expected_cfg].
        pose proof (count_own_upd _ _ _ (Idle, []) Ht) as Hc. rewrite Ho in Hc. cbn in Hc.
        tinv_split.
        -- lia.
        -- lia.
        -- apply Forall_upd; [assumption|]. exact I.
        -- apply Forall_upd; [assumption|]. cbn. left. reflexivity.
        -- eapply Forall_upd_others; [exact Hsee| |].
           ++ intros j q Hne Hq _. apply sees_nonowner. eapply (others_not_owner _ tid _ Hcnt Ht); eauto.
           ++ apply sees_nonowner. reflexivity.
        -- intros _. exact Hv.
      * inv_some Hs. cbn [rstore expected_cfg].
        assert (Ho': towner (Idle, buf ++ [WLock 0]) = true) by (unfold towner; cbn [fst snd got]; rewrite existsb_app_lock; reflexivity).
        pose proof (count_own_upd _ _ _ (Idle, buf ++ [WLock 0]) Ht) as Hc. rewrite Ho, Ho' in Hc.
        tinv_split.
        -- lia.
        -- lia.
        -- apply Forall_upd; [assumption|]. exact I.
        -- apply Forall_upd; [assumption|]. cbn. right. exists buf. split; auto.
        -- eapply Forall_upd_others; [exact Hsee| |].
           ++ intros j q Hne Hq Hq'. exact Hq'.
           ++ intros _. cbn [fst snd]. rewrite view_app_lock. split; [exact Hv|exact I].
        -- intros H0. exfalso. lia.
    + (* ---- critical section: read ---- *)
      destruct t as [|pc r|[v|]|]; try discriminate. inv_some Hs.
      assert (Ho: towner (Holding None, buf) = true) by reflexivity.
      destruct (Hst Ho) as (Hv & _).
      pose proof (count_own_upd _ _ _ (Holding (Some (view buf (m_counter s))), buf) Ht) as Hc.
      assert (Ho': towner (Holding (Some (view buf (m_counter s))), buf) = true) by reflexivity.
      rewrite Ho, Ho' in Hc.
      tinv_split.
      * lia.
      * lia.
      * apply Forall_upd; [assumption|]. exact I.
      * apply Forall_upd; [assumption|]; cbn [fst snd]; auto.
      * apply Forall_upd; [assumption|]. intros _. cbn [fst snd]. split; [exact Hv|]. cbn. exact Hv.
      * intros H0. apply Hzero. lia.
    + (* ---- critical section: write ---- *)
      destruct t as [|pc r|[v|]|]; try discriminate. inv_some Hs.
      assert (Ho: towner (Holding (Some v), buf) = true) by reflexivity.
      destruct (Hst Ho) as (Hv & Htmp). cbn in Htmp. subst v. cbn in Hbt.
      pose proof (count_own_upd _ _ _ (Holding None, buf ++ [WCounter (t_ndone s + 1)]) Ht) as Hc.
      assert (Ho': towner (Holding None, buf ++ [WCounter (t_ndone s + 1)]) = true) by reflexivity.
      rewrite Ho, Ho' in Hc.
      pose proof (own_in_count _ _ _ Ht Ho) as H1.
      tinv_split.
      * lia.
      * lia.
      * apply Forall_upd; [assumption|]. exact I.
      * apply Forall_upd; [assumption|]. cbn. rewrite forallb_app, Hbt. reflexivity.
      * eapply Forall_upd_others; [exact Hsee| |].
        -- intros j q Hne Hq _. apply sees_nonowner. eapply (others_not_owner _ tid _ Hcnt Ht); eauto.
        -- intros _. cbn [fst snd]. rewrite view_app_counter. split; [reflexivity|exact I].
      * intros H0. exfalso. lia.
    + (* ---- one instruction of archAcquireSpinlock ---- *)
      destruct t as [|pc r|v|]; try discriminate.
      destruct (nth_error (prog expected_cfg) pc) as [i|] eqn:Hi.
      2:{ exfalso. destruct Hlt as (Hpc & _). apply nth_error_None in Hi. cbn in Hi. lia. }
      assert (Hlk: m_lock s = 0 \/ m_lock s = 1) by lia.
      assert (Hg: got (InAcq pc r) = true -> m_lock s = 1).
      { intros G. assert (towner (InAcq pc r, buf) = true) by (unfold towner; cbn [fst]; rewrite G; reflexivity).
        pose proof (own_in_count _ _ _ Ht H). lia. }
      pose proof (exec_inv y pc r i (m_lock s) h Hlt Hi Hlk Hg) as He.
      pose proof (fun v => exec_no_tmp expected_cfg y i pc r (m_lock s) h v) as Hnt.
      assert (Hnostore: i <> IStore).
      { intros ->. destruct Hlt as (Hpc & _).
        destruct (pc_cases pc Hpc) as [->|[->|[->|[->|[->|[->|[->|[->|[->|[->|[->|[->|[->|[->|[->|[->|[->|[->|[->| ->]]]]]]]]]]]]]]]]]]]; cbn in Hi; discriminate. }
      destruct (exec expected_cfg y i pc r (m_lock s) h) as [t' lk'] eqn:Hex.
      destruct He as (Hl' & Hown).
      assert (Htmp': forall dn, tmp_ok dn t').
      { intros dn. destruct t' as [| | [v|] |]; cbn; auto. exfalso. apply (Hnt v). reflexivity. }
      (* split on the exchange *)
      assert (Hcases: (i = IXchg /\ buf = [] /\ s' = {| m_lock := lk'; m_counter := m_counter s; t_ndone := t_ndone s; tthreads := upd (tthreads s) tid (t', []) |})
                      \/ (i <> IXchg /\ lk' = m_lock s /\ s' = {| m_lock := m_lock s; m_counter := m_counter s; t_ndone := t_ndone s; tthreads := upd (tthreads s) tid (t', buf) |})).
      { destruct i; try congruence;
          try (right; split; [discriminate|]; split;
               [ match type of Hex with exec _ _ ?ii _ _ _ _ = _ =>
                   assert (Hm: snd (exec expected_cfg y ii pc r (m_lock s) h) = m_lock s) by (apply exec_mem_unchanged; discriminate) end;
                 rewrite Hex in Hm; exact Hm
               | try rewrite Hex in Hs; inv_some Hs; reflexivity ]).
        left. destruct buf as [|w rest]; [|discriminate]. try rewrite Hex in Hs. inv_some Hs. auto. }
      clear Hs.
      destruct Hcases as [(-> & -> & ->)|(Hnx & -> & ->)].
      * (* XCHG with an empty buffer *)
        assert (Ho: towner (InAcq pc r, []) = got (InAcq pc r)) by (unfold towner; cbn [fst snd existsb]; apply orb_false_r).
        assert (Ho': towner (t', []) = got t') by (unfold towner; cbn [fst snd existsb]; apply orb_false_r).
        pose proof (count_own_upd _ _ _ (t', []) Ht) as Hc. rewrite Ho, Ho' in Hc.
        destruct Hown as [(G & L)|(G0 & G1 & L0 & L1)].
        -- rewrite G in Hc. subst lk'.
           tinv_split.
           ++ lia.
           ++ lia.
           ++ apply Forall_upd; [assumption|]; cbn [fst snd]; auto.
           ++ apply Forall_upd; [assumption|]. cbn. destruct (got t'); auto.
           ++ apply Forall_upd; [assumption|]. unfold sees. rewrite Ho', G, <- Ho. cbn [fst snd]. intros H. destruct (Hst H) as (Hv & _). split; auto.
           ++ intros H0. apply Hzero. lia.
        -- rewrite G0, G1 in Hc. cbn in Hc. subst lk'.
           assert (H0: count_own (tthreads s) = 0%nat) by lia.
           tinv_split.
           ++ lia.
           ++ lia.
           ++ apply Forall_upd; [assumption|]; cbn [fst snd]; auto.
           ++ apply Forall_upd; [assumption|]. cbn. rewrite G1. reflexivity.
           ++ eapply Forall_upd_others; [exact Hsee| |].
              ** intros j q Hne Hq _. apply sees_nonowner. eapply count_zero_none; eauto.
              ** intros _. cbn [fst snd view]. split; [apply Hzero; exact H0|apply Htmp'].
           ++ intros H2. exfalso. lia.
      * (* any other instruction: memory untouched *)
        assert (G: got t' = got (InAcq pc r)).
        { destruct Hown as [(G & _)|(_ & _ & L0 & L1)]; [exact G|]. exfalso. lia. }
        assert (Ho': towner (t', buf) = towner (InAcq pc r, buf)) by (unfold towner; cbn [fst snd]; rewrite G; reflexivity).
        pose proof (count_own_upd _ _ _ (t', buf) Ht) as Hc. rewrite Ho' in Hc.
        tinv_split.
        -- lia.
        -- lia.
        -- apply Forall_upd; [assumption|]; cbn [fst snd]; auto.
        -- apply Forall_upd; [assumption|]. cbn [buf_ok] in *. rewrite G. exact Hbt.
        -- apply Forall_upd; [assumption|]. unfold sees. rewrite Ho'. cbn [fst snd]. intros H. destruct (Hst H) as (Hv & _). split; auto.
        -- intros H0. apply Hzero. lia.
Qed.

Lemma trun_inv y lr ls : forall s s', TInv y s -> trun expected_cfg y lr s ls = Some s' -> TInv y s'.
Proof.
  induction ls as [|l ls IH]; intros s s' Hi Hr; cbn in Hr.
  - injection Hr as <-. exact Hi.
  - destruct (tstep expected_cfg y lr s l) as [[s1 o]|] eqn:E; [|discriminate].
    eapply IH; [|exact Hr]. eapply tstep_inv; eauto.
Qed.

Lemma treachable_inv n y lr s : TReachable n y lr s -> TInv y s.
Proof.
  intros [ls Hr]. destruct gen_matches as [Hg _]. rewrite Hg in Hr. eapply trun_inv; [apply tinit_inv|exact Hr].
Qed.

Lemma filter_le {A} (f g : A -> bool) (l : list A) : (forall x, f x = true -> g x = true) ->
  (length (filter f l) <= length (filter g l))%nat.
Proof.
  intros H. induction l as [|a l IH]; cbn; [lia|]. destruct (f a) eqn:F.
  - rewrite (H _ F). cbn. lia.
  - destruct (g a); cbn; lia.
Qed.

Lemma tholders_le_own ts : (length (filter (fun p => is_holding (fst p)) ts) <= count_own ts)%nat.
Proof.
  unfold count_own. apply filter_le. intros [t buf] H. unfold towner. cbn [fst snd] in *.
  destruct t; try discriminate. reflexivity.
Qed.

Lemma linv_not_faulted_t y (ts : list (tstate * list wr)) : Forall (fun p => linv y (fst p)) ts -> existsb (fun p => is_faulted (fst p)) ts = false.
Proof.
  induction 1 as [|[t b] ts Ht _ IH]; cbn; auto. destruct t; cbn in *; auto. contradiction.
Qed.

(** Mutual exclusion under TSO, for any number of tasks, any schedule of program steps and flushes,
    yieldFn set or not, release by XCHG or by a plain buffered store. *)
Theorem tso_mutex n y lr s : TReachable n y lr s ->
  (tholders s <= 1)%nat /\ existsb (fun p => is_faulted (fst p)) (tthreads s) = false /\
  m_lock s = N.of_nat (count_own (tthreads s)) /\ (count_own (tthreads s) <= 1)%nat.
Proof.
  intros Hr. pose proof (treachable_inv _ _ _ _ Hr) as (H1 & H2 & H3 & _).
  repeat split; auto.
  - unfold tholders. pose proof (tholders_le_own (tthreads s)). lia.
  - eapply linv_not_faulted_t; eauto.
Qed.

(** Visibility: whatever is still sitting in store buffers, the task in its critical section reads the
    protected counter as the number of increments completed by ALL holders so far (its own and every
    earlier holder's), and the value it is about to write back is that number plus one. *)
Theorem tso_visibility n y lr s tid t buf : TReachable n y lr s ->
  nth_error (tthreads s) tid = Some (t, buf) -> is_holding t = true ->
  view buf (m_counter s) = t_ndone s /\ match t with Holding (Some v) => v = t_ndone s | _ => True end.
Proof.
  intros Hr Ht Hh. pose proof (treachable_inv _ _ _ _ Hr) as (_ & _ & _ & _ & Hsee & _).
  pose proof (Forall_nth _ _ _ _ Hsee Ht) as Hs. unfold sees in Hs. cbn [fst snd] in Hs.
  destruct t as [|pc r|v|]; try discriminate. destruct (Hs eq_refl) as (Hv & Htmp). split; auto.
Qed.

(** No lost update: once every task is idle and every buffer drained, memory holds the number of
    completed increments and the lock word is 0. *)
Theorem tso_quiescent n y lr s : TReachable n y lr s -> quiescent s -> m_counter s = t_ndone s /\ m_lock s = 0.
Proof.
  intros Hr Hq. pose proof (treachable_inv _ _ _ _ Hr) as (Hlock & _ & _ & _ & _ & Hzero).
  assert (H0: count_own (tthreads s) = 0%nat).
  { unfold quiescent in Hq. unfold count_own. clear - Hq. induction Hq as [|p ts Hp _ IH]; cbn; auto. subst p. cbn. exact IH. }
  split; [apply Hzero; exact H0|]. rewrite Hlock, H0. reflexivity.
Qed.

(** try-acquire under TSO: it returns true exactly when the lock word in memory was 0 - the caller then
    is in its critical section and the word is 1; when it returns false (the word is 1: somebody owns
    the lock, possibly with its releasing store still buffered) the whole state is unchanged. *)
Theorem tso_try_exact n y lr s tid : TReachable n y lr s -> nth_error (tthreads s) tid = Some (Idle, []) ->
  exists s', tstep gen_cfg y lr s (tid, TOp CTry) = Some (s', Some (m_lock s =? 0)) /\
    ((m_lock s = 0 /\ m_lock s' = 1 /\ nth_error (tthreads s') tid = Some (Holding None, []) /\
      (forall j, j <> tid -> nth_error (tthreads s') j = nth_error (tthreads s) j) /\
      m_counter s' = m_counter s /\ t_ndone s' = t_ndone s)
     \/ (m_lock s = 1 /\ s' = s)).
Proof.
  intros Hr Ht. pose proof (treachable_inv _ _ _ _ Hr) as (Hlock & Hcnt & _).
  destruct gen_matches as [Hg _]. rewrite Hg.
  unfold tstep. rewrite Ht. cbn [tcmp tswap expected_cfg].
  eexists. split; [reflexivity|].
  destruct (N.eqb_spec (m_lock s) 0) as [E|E].
  - left. cbn [m_lock tthreads m_counter t_ndone]. repeat split; auto.
    + eapply nth_upd_same; eauto.
    + intros j Hj. apply nth_upd_other. congruence.
  - right. assert (m_lock s = 1) by lia. split; [assumption|].
    rewrite (upd_same _ _ _ Ht). destruct s as [lk c d ts]; cbn [m_lock m_counter t_ndone tthreads] in *. rewrite H. reflexivity.
Qed.

(** The release reaches memory: a task that has released (plain store still buffered) frees the lock
    by draining its buffer; nobody else can take the lock before that, and afterwards the word is 0. *)
Theorem tso_release_drains n y lr s tid t buf : TReachable n y lr s ->
  nth_error (tthreads s) tid = Some (t, buf) -> existsb is_lockw buf = true ->
  exists s', trun gen_cfg y lr s (repeat (tid, TFlush) (length buf)) = Some s' /\
             m_lock s' = 0 /\ nth_error (tthreads s') tid = Some (t, []) /\ m_counter s' = t_ndone s'.
Proof.
  intros Hr Ht Hb. pose proof (treachable_inv _ _ _ _ Hr) as Hi.
  destruct gen_matches as [Hg _]. rewrite Hg. clear Hr.
  revert s Ht Hb Hi. induction buf as [|w rest IH]; intros s Ht Hb Hi; [discriminate|].
  cbn [length repeat trun]. unfold tstep at 1. rewrite Ht.
  destruct w as [v|v].
  - (* the lock store is the last entry *)
    destruct Hi as (Hlock & Hcnt & Hl & Hbo & Hsee & Hzero).
    pose proof (Forall_nth _ _ _ _ Hbo Ht) as Hbt.
    destruct (buf_lock_head _ _ _ Hbt) as (Hg' & -> & ->). cbn [length repeat trun].
    eexists. split; [reflexivity|]. cbn [m_lock tthreads m_counter t_ndone].
    repeat split; auto.
    + eapply nth_upd_same; eauto.
    + pose proof (Forall_nth _ _ _ _ Hsee Ht) as Hs. unfold sees in Hs.
      assert (Ho: towner (t, [WLock 0]) = true) by (unfold towner; cbn; rewrite Hg'; reflexivity).
      destruct (Hs Ho) as (Hv & _). exact Hv.
  - cbn [existsb is_lockw orb] in Hb.
    set (s1 := {| m_lock := m_lock s; m_counter := v; t_ndone := t_ndone s; tthreads := upd (tthreads s) tid (t, rest) |}).
    assert (Hs1: tstep expected_cfg y lr s (tid, TFlush) = Some (s1, None)).
    { unfold tstep. rewrite Ht. reflexivity. }
    pose proof (tstep_inv _ _ _ _ _ _ Hi Hs1) as Hi1.
    assert (Ht1: nth_error (tthreads s1) tid = Some (t, rest)) by (cbn; eapply nth_upd_same; eauto).
    destruct (IH s1 Ht1 Hb Hi1) as (s' & Hr' & H1 & H2 & H3).
    exists s'. split; [exact Hr'|]. auto.
Qed.

(** The interleaving machine is the TSO machine with every store flushed at once (locked release):
    every schedule of Sync/Machine.v is a schedule of the TSO machine, so the theorems above
    generalise those of Sync/MachineProofs.v and their hypotheses are met by all its runs. *)
Definition sc_label (l : label) : list tlabel :=
  match l with
  | (tid, CCsWrite) => [(tid, TOp CCsWrite); (tid, TFlush)]
  | (tid, ch) => [(tid, TOp ch)]
  end.

Lemma map_upd {A B} (f : A -> B) (l : list A) : forall i x, map f (upd l i x) = upd (map f l) i (f x).
Proof. induction l as [|a l IH]; intros [|i] x; cbn; auto. f_equal. apply IH. Qed.

Lemma trun_app c y lr ls1 : forall s ls2, trun c y lr s (ls1 ++ ls2) =
  match trun c y lr s ls1 with Some s1 => trun c y lr s1 ls2 | None => None end.
Proof.
  induction ls1 as [|l ls1 IH]; intros s ls2; cbn; auto.
  destruct (tstep c y lr s l) as [[s1 o]|]; auto.
Qed.

Lemma sc_step_embeds c y s l s' o : ~ In IStore (prog c) -> step c y s l = Some (s', o) ->
  trun c y true (embed s) (sc_label l) = Some (embed s').
Proof.
  intros Hns Hs. destruct l as [tid ch]. unfold step in Hs.
  destruct (nth_error (threads s) tid) as [t|] eqn:Ht; [|discriminate].
  assert (Hte: nth_error (tthreads (embed s)) tid = Some (t, [])).
  { unfold embed. cbn [tthreads]. rewrite nth_error_map, Ht. reflexivity. }
  destruct ch; destruct t as [|pc r|[v|]|]; try discriminate; cbn [sc_label trun].
  - inv_some Hs. unfold tstep. rewrite Hte. unfold embed. cbn. rewrite map_upd. reflexivity.
  - inv_some Hs. unfold tstep. rewrite Hte. unfold embed. cbn -[N.eqb].
    rewrite map_upd. destruct (lock s =? tcmp c); reflexivity.
  - inv_some Hs. unfold tstep. rewrite Hte. unfold embed. cbn. rewrite map_upd. reflexivity.
  - inv_some Hs. unfold tstep. rewrite Hte. unfold embed. cbn. rewrite map_upd. reflexivity.
  - inv_some Hs. unfold tstep at 1. rewrite Hte. cbn [app].
    unfold tstep. cbn [tthreads embed m_lock m_counter t_ndone].
    erewrite nth_upd_same by (rewrite nth_error_map, Ht; reflexivity).
    unfold embed. cbn. rewrite !map_upd. f_equal. f_equal.
    clear. generalize (map (fun t : tstate => (t, @nil wr)) (threads s)). intros l. revert tid.
    induction l as [|a l IH]; intros [|i]; cbn; auto. f_equal. apply IH.
  - unfold tstep. rewrite Hte.
    destruct (nth_error (prog c) pc) as [i|] eqn:Hi.
    + assert (Hni: i <> IStore) by (intros ->; apply Hns; eapply nth_error_In; eauto).
      destruct (exec c y i pc r (lock s) h) as [t' lk] eqn:Hex. inv_some Hs.
      destruct i; try congruence; cbn [embed m_lock m_counter t_ndone tthreads]; rewrite Hex;
        try (match type of Hex with exec _ _ ?ii _ _ _ _ = _ =>
               assert (Hm: snd (exec c y ii pc r (lock s) h) = lock s) by (apply exec_mem_unchanged; discriminate) end;
             rewrite Hex in Hm; cbn [snd] in Hm; subst lk);
        unfold embed; cbn; rewrite map_upd; reflexivity.
    + inv_some Hs. unfold embed. cbn. rewrite map_upd. reflexivity.
Qed.

Theorem sc_runs_are_tso_runs c y ls : ~ In IStore (prog c) -> forall s s', run c y s ls = Some s' ->
  trun c y true (embed s) (flat_map sc_label ls) = Some (embed s').
Proof.
  intros Hns. induction ls as [|l ls IH]; intros s s' Hr; cbn in Hr.
  - injection Hr as <-. reflexivity.
  - destruct (step c y s l) as [[s1 o]|] eqn:E; [|discriminate].
    cbn [flat_map]. rewrite trun_app, (sc_step_embeds _ _ _ _ _ _ Hns E). apply IH. exact Hr.
Qed.

Lemma embed_init n : embed (init n) = tinit n.
Proof. unfold embed, init, tinit. cbn. f_equal. induction n; cbn; [reflexivity|f_equal; assumption]. Qed.

Theorem sc_reachable_tso n y s : Reachable n y s -> TReachable n y true (embed s).
Proof.
  intros [ls Hr]. exists (flat_map sc_label ls). rewrite <- embed_init.
  apply sc_runs_are_tso_runs; [|exact Hr].
  destruct gen_matches as [-> _]. cbn. intuition discriminate.
Qed.
