(** C09 instantiated: tasks calling the (sequential model of the) bitmap allocator's AllocFrame / FreeFrame
    under the allocator mutex.  Definitions. *)
From Coq Require Import NArith List Bool.
From FF Require Import Pmm.Bitmap Sync.Serial.
Import ListNotations.

Inductive phase := PIdle | PIn (o : op) | POut (r : res) | PRet (r : res).
Record tl := { todo : list op; ph : phase }.

(** one call = Acquire; the operation's accesses to the allocator state (here: one shared step; by
    [Sync.SerialProofs.serializable] any finer split inside the mutex is equivalent); Release; return *)
Definition code (l : tl) : @action balloc tl res :=
  match ph l with
  | PIdle => match todo l with
             | [] => AStop
             | o :: rest => AAcq {| todo := rest; ph := PIn o |}
             end
  | PIn o => AShared (fun a => (fst (step a o), {| todo := todo l; ph := POut (snd (step a o)) |}))
  | POut r => ARel {| todo := todo l; ph := PRet r |}
  | PRet r => ADone r {| todo := todo l; ph := PIdle |}
  end.

Definition holds (l : tl) : bool := match ph l with PIn _ | POut _ => true | _ => false end.

Definition final (a : balloc) (ops : list op) : balloc := fold_left (fun a o => fst (step a o)) ops a.

Fixpoint results (a : balloc) (ops : list op) : list res :=
  match ops with
  | [] => []
  | o :: rest => snd (step a o) :: results (fst (step a o)) rest
  end.

(** the initial state: allocator [a0], mutex free, task [t] about to perform the calls [plan t] *)
Definition start (a0 : balloc) (plan : nat -> list op) : @st balloc tl res :=
  {| sh := a0; owner := None; loc := fun t => {| todo := plan t; ph := PIdle |}; hist := [] |}.
