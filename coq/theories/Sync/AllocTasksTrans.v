(** The task programs of Sync/AllocTasks.v - Acquire; one shared step [Pmm.Bitmap.step a o]; Release; return -
    are what the REGENERATED AllocFrame / FreeFrame do (Gen/Trans_pmm_bitmap.v, translated from
    kernel/mm/pmm/bitmap_allocator.go on every run): on every run that does not panic the mutex events
    are exactly one Acquire followed, last, by one Release, the allocator state in between goes from [a] to
    [fst (step a o)], and the caller gets [snd (step a o)].  (A panic - [RFree FreePanic], an index out of
    range - ends the history in the model and is GPanic in the translation.) *)
From Coq Require Import NArith String List Bool Lia.
From FF Require Import Lib.GoOps Lib.GoOpsExt Gen.Consts_mm_pmm Gen.Trans_pmm_bitmap Pmm.Bitmap Pmm.Bits Pmm.BitmapTrans.
Import ListNotations.
Local Open Scope N_scope.

(** one call of the real code on operation [o] *)
Definition go_call (fuel : nat) (g : go_pmm_BitmapAllocator) (o : op) : gres (go_pmm_BitmapAllocator * (N * option string)) :=
  match o with
  | OpAlloc => go_pmm_BitmapAllocator_AllocFrame fuel g
  | OpFree f =>
      match go_pmm_BitmapAllocator_FreeFrame fuel g f with
      | GOk (g', e) => GOk (g', (0, e))
      | GPanic => GPanic
      | GFuel => GFuel
      end
  end.

(** what the caller sees: (frame, error) of AllocFrame, (0, error) for FreeFrame *)
Definition enc_res (r : res) : N * option string :=
  match r with
  | RAlloc (Some f) => (f, None)
  | RAlloc None => (mm_InvalidFrame, Some "errBitmapAllocOutOfMemory"%string)
  | RFree e => (0, free_err e)
  end.

(** the slices have int lengths and the fuel covers the three loops *)
Definition alloc_sizes (a : balloc) (fuel : nat) : Prop :=
  N.of_nat (length (a_pools a)) < two63 /\
  (forall p, In p (a_pools a) -> N.of_nat (length (p_bitmap p)) < two63 /\ (length (p_bitmap p) < fuel)%nat) /\
  (length (a_pools a) < fuel)%nat /\ (64 < fuel)%nat.

Theorem call_is_task_step mtx a tr o fuel :
  alloc_sizes a fuel ->
  go_call fuel (to_ga mtx a tr) o =
  match snd (step a o) with
  | RFree FreePanic => GPanic
  | r => GOk (to_ga mtx (fst (step a o)) (ev_release :: ev_acquire :: tr), enc_res r)
  end.
Proof.
  intros (H1 & H2 & H3 & H4). destruct o as [|f]; cbn [go_call step].
  - rewrite (allocFrame_is_translation mtx a tr fuel H1 H2 H3 H4). unfold alloc_res.
    destruct (bitmap_alloc a) as [a' [f|]]; reflexivity.
  - rewrite (freeFrame_is_translation mtx a tr f fuel H1 H3). unfold free_res.
    destruct (bitmap_free a f) as [a' r]. destruct r; reflexivity.
Qed.

(** the side conditions are kept by every operation (lengths never change) *)
Lemma try_pool_length p f p' : try_pool p = Some (f, p') -> length (p_bitmap p') = length (p_bitmap p).
Proof.
  unfold try_pool. destruct (p_free p =? 0); [discriminate|].
  destruct (scan_blocks 0 (p_bitmap p)) as [[[bi off] mask]|]; [|discriminate].
  intros E. injection E as _ <-. cbn [p_bitmap]. apply length_set_nth.
Qed.

Lemma alloc_pools_sizes (P : pool -> Prop) :
  (forall p f p', P p -> try_pool p = Some (f, p') -> P p') ->
  forall ps f ps', alloc_pools ps = Some (f, ps') -> Forall P ps -> length ps' = length ps /\ Forall P ps'.
Proof.
  intros HP. induction ps as [|p rest IH]; intros f ps' E F; cbn [alloc_pools] in E; [discriminate|].
  inversion F as [|? ? Fp Fr]; subst.
  destruct (try_pool p) as [[f0 p0]|] eqn:Et.
  - injection E as _ <-. split; [reflexivity|]. constructor; [eapply HP; eauto|exact Fr].
  - destruct (alloc_pools rest) as [[f1 rest']|] eqn:Er; [|discriminate]. injection E as _ <-.
    destruct (IH _ _ eq_refl Fr) as (L & F'). split; [cbn [length]; congruence|constructor; assumption].
Qed.

Lemma update_pool_Forall (P : pool -> Prop) : forall ps i p', Forall P ps -> P p' -> Forall P (update_pool i p' ps).
Proof.
  induction ps as [|h tl IH]; intros [|i] p' F Hp; cbn [update_pool]; try exact F; inversion F; subst; constructor; auto.
Qed.

Theorem step_keeps_sizes a o fuel : alloc_sizes a fuel -> alloc_sizes (fst (step a o)) fuel.
Proof.
  intros (H1 & H2 & H3 & H4).
  set (P := fun p : pool => N.of_nat (length (p_bitmap p)) < two63 /\ (length (p_bitmap p) < fuel)%nat).
  assert (F : Forall P (a_pools a)) by (apply Forall_forall; exact H2).
  destruct o as [|f]; cbn [step].
  - unfold bitmap_alloc. destruct (alloc_pools (a_pools a)) as [[f ps]|] eqn:E; cbn [fst].
    + destruct (alloc_pools_sizes P) with (ps := a_pools a) (f := f) (ps' := ps) as (L & Fp); [|exact E|exact F|].
      * intros p f0 p' Pp Et. unfold P in *. rewrite (try_pool_length _ _ _ Et). exact Pp.
      * unfold alloc_sizes. cbn [a_pools]. rewrite L.
        split; [exact H1|]. split; [apply Forall_forall; exact Fp|]. split; assumption.
    + unfold alloc_sizes. auto.
  - unfold bitmap_free. destruct (pool_for_frame a f) as [i|]; [|unfold alloc_sizes; cbn [fst]; auto].
    destruct (nth_error (a_pools a) i) as [p|] eqn:Ep; [|unfold alloc_sizes; cbn [fst]; auto].
    destruct (nth_errorN (p_bitmap p) (N.shiftr (Lib.Word.sub64 f (p_start p)) 6)); [|unfold alloc_sizes; cbn [fst]; auto].
    destruct (N.land _ _ =? 0); cbn [fst]; [unfold alloc_sizes; auto|].
    unfold alloc_sizes. cbn [a_pools]. rewrite length_update_pool.
    split; [exact H1|]. split; [|split; assumption].
    apply Forall_forall. apply update_pool_Forall; [exact F|].
    unfold P. cbn [p_bitmap]. rewrite length_set_nth.
    exact (H2 p (nth_error_In _ _ Ep)).
Qed.

(** the same, with every definition of this file unfolded (the form stated in Props/C09_trans.v) *)
Theorem call_is_task_step_explicit mtx a tr o fuel :
  alloc_sizes a fuel ->
  match o with
  | OpAlloc => go_pmm_BitmapAllocator_AllocFrame fuel (to_ga mtx a tr)
  | OpFree f =>
      match go_pmm_BitmapAllocator_FreeFrame fuel (to_ga mtx a tr) f with
      | GOk (g', e) => GOk (g', (0, e))
      | GPanic => GPanic
      | GFuel => GFuel
      end
  end =
  match snd (step a o) with
  | RFree FreePanic => GPanic
  | r =>
      GOk (to_ga mtx (fst (step a o)) (GEv "Release" [] :: GEv "Acquire" [] :: tr),
           match r with
           | RAlloc (Some f) => (f, None)
           | RAlloc None => (mm_InvalidFrame, Some "errBitmapAllocOutOfMemory"%string)
           | RFree FreeNotManaged => (0, Some "errBitmapAllocFrameNotManaged"%string)
           | RFree FreeDoubleFree => (0, Some "errBitmapAllocDoubleFree"%string)
           | RFree _ => (0, None)
           end)
  end.
Proof.
  intros H. pose proof (call_is_task_step mtx a tr o fuel H) as E.
  change (match o with
          | OpAlloc => go_pmm_BitmapAllocator_AllocFrame fuel (to_ga mtx a tr)
          | OpFree f =>
              match go_pmm_BitmapAllocator_FreeFrame fuel (to_ga mtx a tr) f with
              | GOk (g', e) => GOk (g', (0, e))
              | GPanic => GPanic
              | GFuel => GFuel
              end
          end) with (go_call fuel (to_ga mtx a tr) o).
  rewrite E. destruct (snd (step a o)) as [[f|]|[]]; reflexivity.
Qed.
