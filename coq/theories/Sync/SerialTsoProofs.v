(** Proofs about Sync/SerialTso.v: a lock-disciplined load/store program run under x86-TSO store
    buffering is matched, step by step, by a run of the same program under the interleaving semantics
    of Sync/Serial.v (flushes are stutter steps), and therefore - by [serializable] - by a serial
    execution of its critical sections. *)
From Coq Require Import List Arith Bool Lia.
From FF Require Import Sync.Serial Sync.SerialProofs Sync.SerialTso.
Import ListNotations.

Section Proofs.
  Context {V L R : Type}.
  Variable code : L -> @taction V L R.
  Variable holds : L -> bool.
  Hypothesis D : tdisciplined code holds.

  Notation mem := (@mem V).
  Notation sc := (sc_code code).

  Lemma sc_disciplined : disciplined sc holds.
  Proof.
    destruct D as [Dacq Drel Dload Dstore Dlocal Ddone].
    constructor.
    - intros l l' H. unfold sc_code in H. destruct (code l) eqn:E; try discriminate. injection H as <-. eauto.
    - intros l l' H. unfold sc_code in H. destruct (code l) eqn:E; try discriminate. injection H as <-. eauto.
    - intros l f H. unfold sc_code in H. destruct (code l) eqn:E; try discriminate; injection H as <-.
      + destruct (Dload _ _ _ E) as [H1 H2]. split; [exact H1|]. intros s. cbn. apply H2.
      + destruct (Dstore _ _ _ _ E) as [H1 H2]. split; [exact H1|]. intros s. cbn. exact H2.
    - intros l l' H. unfold sc_code in H. destruct (code l) eqn:E; try discriminate. injection H as <-. eauto.
    - intros l r l' H. unfold sc_code in H. destruct (code l) eqn:E; try discriminate. injection H as <- <-. eauto.
  Qed.

  Lemma bview_app_w buf : forall (m : mem) a v, bview (buf ++ [BW a v]) m = mupd (bview buf m) a v.
  Proof. induction buf as [|e buf IH]; intros m a v; cbn; [reflexivity|]. destruct e; apply IH. Qed.

  Lemma bview_app_u buf : forall (m : mem), bview (buf ++ [@BUnlock V]) m = bview buf m.
  Proof. induction buf as [|e buf IH]; intros m; cbn; [reflexivity|]. destruct e; apply IH. Qed.

  Lemma bupd_same (f : nat -> list (@bentry V)) t b : bupd f t b t = b.
  Proof. unfold bupd. rewrite Nat.eqb_refl. reflexivity. Qed.
  Lemma bupd_other (f : nat -> list (@bentry V)) t b u : u <> t -> bupd f t b u = f u.
  Proof. intros H. unfold bupd. destruct (Nat.eqb_spec u t); congruence. Qed.

  Lemma loc_upd (a b : nat -> L) t l : (forall u, a u = b u) -> forall u, upd a t l u = upd b t l u.
  Proof. intros H u. unfold upd. destruct (Nat.eqb u t); auto. Qed.

  (** a task inside its critical section owns the mutex word, has no release pending, and the
      interleaving run's shared state is memory as this task sees it *)
  Lemma holder_is_owner (g : @tst V L R) c t :
    lockinv holds c -> tsim holds g c -> holds (tloc g t) = true ->
    tlock g = Some t /\ existsb is_unlock (tbuf g t) = false /\ owner c = Some t /\
    sh c = bview (tbuf g t) (tmem g).
  Proof.
    intros I (Hh & Hl & Hb & Hs & Hk) Ht.
    assert (Ho: owner c = Some t). { apply I. rewrite <- Hl. exact Ht. }
    unfold owner_view in Hs. destruct (tlock g) as [u|] eqn:E.
    - destruct Hk as [(H1 & H2 & H3)|(H1 & H3 & _)]; [|congruence].
      assert (u = t) by congruence. subst u. auto.
    - congruence.
  Qed.

  (** the owner clause of [tsim] survives a step of task [t] that keeps [holds] and the buffers *)
  Lemma owner_clause_upd (g : @tst V L R) t l' (o : option nat) :
    holds l' = holds (tloc g t) ->
    match tlock g with
    | None => o = None
    | Some u =>
        (holds (tloc g u) = true /\ existsb is_unlock (tbuf g u) = false /\ o = Some u) \/
        (holds (tloc g u) = false /\ o = None /\ exists ws, tbuf g u = ws ++ [BUnlock] /\ existsb is_unlock ws = false)
    end ->
    match tlock g with
    | None => o = None
    | Some u =>
        (holds (upd (tloc g) t l' u) = true /\ existsb is_unlock (tbuf g u) = false /\ o = Some u) \/
        (holds (upd (tloc g) t l' u) = false /\ o = None /\ exists ws, tbuf g u = ws ++ [BUnlock] /\ existsb is_unlock ws = false)
    end.
  Proof.
    intros Hh Hk. destruct (tlock g) as [u|]; [|exact Hk].
    destruct (Nat.eq_dec u t) as [->|Hne].
    - rewrite upd_same, Hh. exact Hk.
    - rewrite upd_other by exact Hne. exact Hk.
  Qed.

  Lemma tsim_step lr (g g1 : @tst V L R) c :
    lockinv holds c -> tsim holds g c -> tstep code lr g g1 ->
    exists c1, (c1 = c \/ cstep sc c c1) /\ tsim holds g1 c1.
  Proof.
    intros I Hsim Hstep. pose proof Hsim as (Hh & Hl & Hb & Hs & Hk).
    destruct D as [Dacq Drel Dload Dstore Dlocal Ddone].
    inversion Hstep as [g0 t l' Hc Hlk Hbt|g0 t l' Hlr Hc Hbt|g0 t l' Hlr Hc|g0 t a k Hc|g0 t a v l' Hc|g0 t l' Hc|g0 t r l' Hc
                        |g0 t a v rest Hbt|g0 t rest Hbt]; subst g0; subst.
    - (* Acquire *)
      destruct (Dacq _ _ Hc) as [H1 H2]. rewrite Hlk in Hk.
      exists {| sh := sh c; owner := Some t; loc := upd (loc c) t l'; hist := hist c |}. split.
      + right. apply CAcq; [|exact Hk]. rewrite <- Hl. unfold sc_code. rewrite Hc. reflexivity.
      + unfold tsim, owner_view. cbn [thist tloc tbuf tlock tmem hist loc sh owner].
        split; [exact Hh|]. split; [apply loc_upd; exact Hl|]. split.
        { intros u Hu. apply Hb in Hu. congruence. }
        split.
        { rewrite Hbt. cbn. rewrite Hs. unfold owner_view. rewrite Hlk. reflexivity. }
        left. rewrite upd_same, Hbt. auto.
    - (* locked Release *)
      destruct (Drel _ _ Hc) as [H1 H2].
      destruct (holder_is_owner _ _ _ I Hsim H1) as (Ht & Hnu & Ho & Hv).
      exists {| sh := sh c; owner := None; loc := upd (loc c) t l'; hist := hist c |}. split.
      + right. apply CRel. rewrite <- Hl. unfold sc_code. rewrite Hc. reflexivity.
      + unfold tsim, owner_view. cbn [thist tloc tbuf tlock tmem hist loc sh owner].
        split; [exact Hh|]. split; [apply loc_upd; exact Hl|]. split.
        { intros u Hu. exfalso. pose proof (Hb _ Hu) as E. rewrite Ht in E. injection E as <-. contradiction. }
        split; [|reflexivity]. rewrite Hv, Hbt. reflexivity.
    - (* plain Release: the store of "free" is buffered *)
      destruct (Drel _ _ Hc) as [H1 H2].
      destruct (holder_is_owner _ _ _ I Hsim H1) as (Ht & Hnu & Ho & Hv).
      exists {| sh := sh c; owner := None; loc := upd (loc c) t l'; hist := hist c |}. split.
      + right. apply CRel. rewrite <- Hl. unfold sc_code. rewrite Hc. reflexivity.
      + unfold tsim, owner_view. cbn [thist tloc tbuf tlock tmem hist loc sh owner].
        split; [exact Hh|]. split; [apply loc_upd; exact Hl|]. split.
        { intros u Hu. destruct (Nat.eq_dec u t) as [->|Hne]; [exact Ht|]. rewrite bupd_other in Hu by exact Hne. auto. }
        rewrite Ht, bupd_same, upd_same. split.
        { rewrite bview_app_u. exact Hv. }
        right. repeat split; auto. exists (tbuf g t). auto.
    - (* Load *)
      destruct (Dload _ _ _ Hc) as [H1 H2].
      destruct (holder_is_owner _ _ _ I Hsim H1) as (Ht & Hnu & Ho & Hv).
      exists {| sh := fst ((fun m : mem => (m, k (m a))) (sh c)); owner := owner c;
                loc := upd (loc c) t (snd ((fun m : mem => (m, k (m a))) (sh c))); hist := hist c |}. split.
      + right. apply (CShared sc c t (fun m : mem => (m, k (m a)))). rewrite <- Hl. unfold sc_code. rewrite Hc. reflexivity.
      + unfold tsim, owner_view. cbn [thist tloc tbuf tlock tmem hist loc sh owner fst snd].
        split; [exact Hh|]. split.
        { rewrite Hv. apply loc_upd. exact Hl. }
        split; [exact Hb|]. rewrite Ht. split; [exact Hv|].
        left. rewrite upd_same. auto.
    - (* Store *)
      destruct (Dstore _ _ _ _ Hc) as [H1 H2].
      destruct (holder_is_owner _ _ _ I Hsim H1) as (Ht & Hnu & Ho & Hv).
      exists {| sh := fst ((fun m : mem => (mupd m a v, l')) (sh c)); owner := owner c;
                loc := upd (loc c) t (snd ((fun m : mem => (mupd m a v, l')) (sh c))); hist := hist c |}. split.
      + right. apply (CShared sc c t (fun m : mem => (mupd m a v, l'))). rewrite <- Hl. unfold sc_code. rewrite Hc. reflexivity.
      + unfold tsim, owner_view. cbn [thist tloc tbuf tlock tmem hist loc sh owner fst snd].
        split; [exact Hh|]. split; [apply loc_upd; exact Hl|]. split.
        { intros u Hu. destruct (Nat.eq_dec u t) as [->|Hne]; [exact Ht|]. rewrite bupd_other in Hu by exact Hne. auto. }
        rewrite Ht, bupd_same, upd_same. split.
        { rewrite bview_app_w, Hv. reflexivity. }
        left. repeat split; auto. rewrite existsb_app, Hnu. reflexivity.
    - (* Local *)
      pose proof (Dlocal _ _ Hc) as H1.
      exists {| sh := sh c; owner := owner c; loc := upd (loc c) t l'; hist := hist c |}. split.
      + right. apply CLocal. rewrite <- Hl. unfold sc_code. rewrite Hc. reflexivity.
      + unfold tsim, owner_view. cbn [thist tloc tbuf tlock tmem hist loc sh owner].
        split; [exact Hh|]. split; [apply loc_upd; exact Hl|]. split; [exact Hb|]. split; [exact Hs|].
        apply owner_clause_upd; assumption.
    - (* a call completes *)
      destruct (Ddone _ _ _ Hc) as [H1 H2].
      exists {| sh := sh c; owner := owner c; loc := upd (loc c) t l'; hist := hist c ++ [(t, r)] |}. split.
      + right. apply CDone. rewrite <- Hl. unfold sc_code. rewrite Hc. reflexivity.
      + unfold tsim, owner_view. cbn [thist tloc tbuf tlock tmem hist loc sh owner].
        split; [rewrite Hh; reflexivity|]. split; [apply loc_upd; exact Hl|]. split; [exact Hb|]. split; [exact Hs|].
        apply owner_clause_upd; [congruence|assumption].
    - (* a buffered store reaches memory: no step of the interleaving run *)
      exists c. split; [left; reflexivity|].
      assert (Ht: tlock g = Some t) by (apply Hb; rewrite Hbt; discriminate).
      unfold tsim, owner_view. cbn [thist tloc tbuf tlock tmem].
      split; [exact Hh|]. split; [exact Hl|]. split.
      { intros u Hu. destruct (Nat.eq_dec u t) as [->|Hne]; [exact Ht|]. rewrite bupd_other in Hu by exact Hne. auto. }
      rewrite Ht in *. rewrite bupd_same. split.
      { rewrite Hs. unfold owner_view. rewrite Ht, Hbt. reflexivity. }
      rewrite Hbt in Hk. destruct Hk as [(H1 & H2 & H3)|(H1 & H3 & ws & Hws & Hnu)].
      + left. cbn in H2. auto.
      + right. repeat split; auto. destruct ws as [|e ws]; [discriminate|].
        cbn in Hws. injection Hws as <- ->. cbn in Hnu. exists ws. auto.
    - (* the releasing store reaches memory: the mutex word becomes free *)
      exists c. split; [left; reflexivity|].
      assert (Ht: tlock g = Some t) by (apply Hb; rewrite Hbt; discriminate).
      rewrite Ht, Hbt in Hk.
      destruct Hk as [(H1 & H2 & H3)|(H1 & H3 & ws & Hws & Hnu)]; [cbn in H2; discriminate|].
      assert (Hrest: rest = []).
      { destruct ws as [|e ws]; cbn in Hws; [injection Hws as <-; reflexivity|].
        injection Hws as <- _. cbn in Hnu. discriminate. }
      subst rest.
      unfold tsim, owner_view. cbn [thist tloc tbuf tlock tmem].
      split; [exact Hh|]. split; [exact Hl|]. split.
      { intros u Hu. exfalso. destruct (Nat.eq_dec u t) as [->|Hne].
        - rewrite bupd_same in Hu. contradiction.
        - rewrite bupd_other in Hu by exact Hne. apply Hb in Hu. congruence. }
      split; [|exact H3]. rewrite Hs. unfold owner_view. rewrite Ht, Hbt. reflexivity.
  Qed.

  Lemma tinitial_sim (g : @tst V L R) : tinitial holds g -> tsim holds g (sc_of g) /\ initial holds (sc_of g).
  Proof.
    intros (Hk & Hh & Hb). split.
    - unfold tsim, owner_view, sc_of. cbn. rewrite Hk. repeat split; auto.
      intros u Hu. rewrite Hb in Hu. contradiction.
    - split; [exact Hk|exact Hh].
  Qed.

  (** Every TSO run of a disciplined program is matched by a run under interleaving semantics. *)
  Theorem tso_refines_interleaving lr (g0 g : @tst V L R) :
    tinitial holds g0 -> tstar code lr g0 g ->
    exists c, star (cstep sc) (sc_of g0) c /\ lockinv holds c /\ tsim holds g c.
  Proof.
    intros Hi Hs. induction Hs as [g|g1 g2 g3 Hs IH Hstep].
    - destruct (tinitial_sim _ Hi) as [H1 H2]. exists (sc_of g). split; [apply star_refl|].
      split; [apply (initial_lockinv holds); exact H2|exact H1].
    - destruct (IH Hi) as (c & Hc & I & Hsim).
      destruct (tsim_step _ _ _ _ I Hsim Hstep) as (c1 & [-> | Hcs] & Hsim1).
      + exists c. auto.
      + exists c1. split; [eapply star_step; eauto|]. split; [|exact Hsim1].
        eapply (lockinv_step sc holds sc_disciplined); eauto.
  Qed.

  (** ... and hence by a SERIAL execution of its critical sections (composition with [serializable]). *)
  Theorem tso_serializable lr (g0 g : @tst V L R) :
    tinitial holds g0 -> tstar code lr g0 g ->
    exists c s', star (cstep sc) (sc_of g0) c /\ tsim holds g c /\
                 star (sstep sc holds) (sc_of g0) s' /\ sim sc c s'.
  Proof.
    intros Hi Hs. destruct (tso_refines_interleaving _ _ _ Hi Hs) as (c & Hc & I & Hsim).
    destruct (tinitial_sim _ Hi) as [_ Hi'].
    destruct (serializable sc holds sc_disciplined _ _ Hi' Hc) as (_ & s' & Hs' & Hss).
    exists c, s'. auto.
  Qed.

  (** Once the mutex word is free in memory (then every store buffer is empty): memory, the local
      states and the results in their order are those of the serial execution. *)
  Theorem tso_serializable_quiescent lr (g0 g : @tst V L R) :
    tinitial holds g0 -> tstar code lr g0 g -> tlock g = None ->
    (forall u, tbuf g u = []) /\
    exists s', star (sstep sc holds) (sc_of g0) s' /\ thist g = hist s' /\ tmem g = sh s' /\
               forall u, tloc g u = loc s' u.
  Proof.
    intros Hi Hs Hk. destruct (tso_serializable _ _ _ Hi Hs) as (c & s' & Hc & (Hh & Hl & Hb & Hv & Ho) & Hs' & (Hh' & _ & Hm)).
    split.
    { intros u. destruct (tbuf g u) eqn:E; [reflexivity|]. exfalso.
      assert (tlock g = Some u) by (apply Hb; rewrite E; discriminate). congruence. }
    rewrite Hk in Ho. rewrite Ho in Hm. destruct Hm as [H1 H2].
    exists s'. split; [exact Hs'|]. split; [congruence|]. split.
    - unfold owner_view in Hv. rewrite Hk in Hv. congruence.
    - intros u. rewrite Hl. apply H2.
  Qed.

  (** at most one task is inside a critical section, under TSO too *)
  Theorem tso_one_inside lr (g0 g : @tst V L R) t u :
    tinitial holds g0 -> tstar code lr g0 g -> holds (tloc g t) = true -> holds (tloc g u) = true -> t = u.
  Proof.
    intros Hi Hs Ht Hu. destruct (tso_refines_interleaving _ _ _ Hi Hs) as (c & _ & I & Hsim).
    destruct (holder_is_owner _ _ _ I Hsim Ht) as (H1 & _). destruct (holder_is_owner _ _ _ I Hsim Hu) as (H2 & _).
    congruence.
  Qed.
End Proofs.
