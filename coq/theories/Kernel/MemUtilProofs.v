(** Proofs about Kernel/MemUtil.v: the doubling loop of Memset fills exactly the requested region for
    EVERY size (not only powers of two), never runs out of the 64 iterations a 64-bit index allows,
    and touches nothing outside; Memcopy is a memmove. *)
From Coq Require Import NArith Lia List Bool Arith.
From Coq Require Import ZifyBool ZifyN ZifyNat.
From FF Require Import Lib.Word Kernel.MemUtil.
Import ListNotations.
Local Open Scope N_scope.

(** ---- list facts ---- *)
Lemma firstn_len_app {A} (l r : list A) : firstn (length l) (l ++ r) = l.
Proof. induction l as [|a l IH]; cbn; [destruct r; reflexivity|f_equal; exact IH]. Qed.

Lemma skipn_len_app {A} (l r : list A) : skipn (length l) (l ++ r) = r.
Proof. induction l as [|a l IH]; cbn; auto. Qed.

Lemma firstn_le_app {A} (l r : list A) : forall n, (n <= length l)%nat -> firstn n (l ++ r) = firstn n l.
Proof.
  induction l as [|a l IH]; intros n H; cbn in *.
  - assert (n = 0%nat) by lia. subst. reflexivity.
  - destruct n as [|n]; cbn; [reflexivity|]. f_equal. apply IH. lia.
Qed.

Lemma skipn_le_app {A} (l r : list A) : forall n, (n <= length l)%nat -> skipn n (l ++ r) = skipn n l ++ r.
Proof.
  induction l as [|a l IH]; intros n H; cbn in *.
  - assert (n = 0%nat) by lia. subst. reflexivity.
  - destruct n as [|n]; cbn; [reflexivity|]. apply IH. lia.
Qed.

Lemma skipn_add_app {A} (l r : list A) k : skipn (length l + k) (l ++ r) = skipn k r.
Proof. induction l as [|a l IH]; cbn; auto. Qed.

Lemma firstn_add_app {A} (l r : list A) k : firstn (length l + k) (l ++ r) = l ++ firstn k r.
Proof. induction l as [|a l IH]; cbn; [reflexivity|f_equal; exact IH]. Qed.

Lemma firstn_repeat {A} (v : A) : forall p n, (n <= p)%nat -> firstn n (repeat v p) = repeat v n.
Proof.
  induction p as [|p IH]; intros n H; cbn.
  - assert (n = 0%nat) by lia. subst. reflexivity.
  - destruct n as [|n]; cbn; [reflexivity|]. f_equal. apply IH. lia.
Qed.

Lemma repeat_add {A} (v : A) p q : repeat v p ++ repeat v q = repeat v (p + q).
Proof. induction p as [|p IH]; cbn; [reflexivity|f_equal; exact IH]. Qed.

(** copy(target[index:], target[:index]) on  A ++ P ++ R ++ C  with target = P ++ R *)
Lemma go_copy_decomp (A P R C : list N) :
  go_copy (A ++ P ++ R ++ C) (length A + length P) (length R) (length A) (length P) =
  A ++ P ++ firstn (Nat.min (length R) (length P)) P ++ skipn (Nat.min (length R) (length P)) R ++ C.
Proof.
  unfold go_copy. set (n := Nat.min (length R) (length P)).
  assert (Hn1: (n <= length P)%nat) by (unfold n; lia).
  assert (Hn2: (n <= length R)%nat) by (unfold n; lia).
  rewrite firstn_add_app, (firstn_len_app P), skipn_len_app, (firstn_le_app P) by exact Hn1.
  replace (length A + length P + n)%nat with (length A + (length P + n))%nat by lia.
  rewrite skipn_add_app, skipn_add_app, (skipn_le_app R) by exact Hn2.
  rewrite <- !app_assoc. reflexivity.
Qed.

(** ---- Memset ---- *)
Section Memset.
  Variables (A C : list N) (v : N) (size : N).
  Let sz := N.to_nat size.
  Hypothesis Hsize : size < 2 ^ 63.

  Lemma memset_loop_fills : forall fuel index p R,
    0 < index -> p = Nat.min (N.to_nat index) sz -> length R = (sz - p)%nat ->
    size <= index * 2 ^ N.of_nat fuel ->
    memset_loop (S fuel) (A ++ repeat v p ++ R ++ C) (length A) index size = MOk (A ++ repeat v sz ++ C).
  Proof.
    induction fuel as [|fuel IH]; intros index p R Hpos Hp HR Hfuel; cbn [memset_loop].
    - (* no fuel left: index >= size *)
      replace (2 ^ N.of_nat 0) with 1 in Hfuel by reflexivity.
      destruct (N.ltb_spec index size) as [L|L]; [lia|].
      assert (Hpz: p = sz) by (subst sz; lia). assert (HR0: length R = 0%nat) by lia.
      destruct R; [|discriminate]. rewrite Hpz. reflexivity.
    - destruct (N.ltb_spec index size) as [L|L].
      + assert (Hp': p = N.to_nat index) by (subst sz; lia).
        assert (HR': length R = N.to_nat (size - index)) by (subst sz; lia).
        pose proof (go_copy_decomp A (repeat v p) R C) as D. rewrite repeat_length in D.
        rewrite <- Hp', <- HR'. rewrite D. clear D.
        set (n := Nat.min (length R) p).
        rewrite firstn_repeat by (unfold n; lia).
        rewrite (app_assoc (repeat v p)), repeat_add.
        assert (Hw: w64 (index * 2) = index * 2).
        { unfold w64. apply N.mod_small. change two64 with (2 ^ 64). change (2 ^ 64) with (2 ^ 63 * 2). lia. }
        rewrite Hw. apply IH.
        * lia.
        * unfold n. subst sz. lia.
        * rewrite skipn_length. unfold n. lia.
        * replace (N.of_nat (S fuel)) with (N.succ (N.of_nat fuel)) in Hfuel by lia.
          rewrite N.pow_succ_r' in Hfuel. lia.
      + assert (Hpz: p = sz) by (subst sz; lia). assert (HR0: length R = 0%nat) by lia.
        destruct R; [|discriminate]. rewrite Hpz. reflexivity.
  Qed.
End Memset.

Lemma skipn_skipn' {A} (l : list A) : forall b a, skipn a (skipn b l) = skipn (b + a) l.
Proof. induction l as [|x l IH]; intros [|b] a; cbn; auto; destruct a; reflexivity. Qed.

Lemma split3 (mem : list N) base sz : (base + sz <= length mem)%nat ->
  mem = firstn base mem ++ firstn sz (skipn base mem) ++ skipn (base + sz) mem /\
  length (firstn base mem) = base /\ length (firstn sz (skipn base mem)) = sz.
Proof.
  intros H. repeat split.
  - rewrite <- (firstn_skipn base mem) at 1. f_equal.
    rewrite <- (firstn_skipn sz (skipn base mem)) at 1. f_equal. rewrite skipn_skipn'. reflexivity.
  - rewrite firstn_length. lia.
  - rewrite firstn_length, skipn_length. lia.
Qed.

(** Memset fills exactly [size] bytes at [base] with [value] - for every size below 2^63, power of two
    or not - within the 64 iterations the index can make, and leaves every other byte as it was. *)
Theorem memset_spec (mem : list N) (base : nat) (value size : N) :
  size <> 0 -> size < 2 ^ 63 -> (base + N.to_nat size <= length mem)%nat ->
  memset mem base value size =
  MOk (firstn base mem ++ repeat value (N.to_nat size) ++ skipn (base + N.to_nat size) mem).
Proof.
  intros H0 Hs Hb. unfold memset.
  destruct (N.eqb_spec size 0) as [E|_]; [contradiction|].
  destruct (N.leb_spec (2 ^ 63) size) as [L|_]; [lia|].
  set (sz := N.to_nat size) in *.
  destruct (split3 mem base sz Hb) as (Hm & HA & HB).
  set (A := firstn base mem) in *. set (B := firstn sz (skipn base mem)) in *. set (C := skipn (base + sz) mem) in *.
  destruct B as [|b R] eqn:EB; [cbn in HB; subst sz; lia|].
  assert (Hset: set_byte mem base value = A ++ repeat value 1 ++ R ++ C).
  { unfold set_byte. fold A. rewrite Hm at 1. rewrite <- HA at 1.
    replace (S (length A)) with (length A + 1)%nat by lia. rewrite skipn_add_app. reflexivity. }
  rewrite Hset. rewrite <- HA.
  apply (memset_loop_fills A C value size Hs 63 1 1%nat R); try lia; try (cbn in HB; fold sz; lia).
  all: change (N.of_nat 63) with 63; lia.
Qed.

Theorem memset_zero_size mem base value : memset mem base value 0 = MOk mem.
Proof. reflexivity. Qed.

Theorem memset_huge_undef mem base value size : 2 ^ 63 <= size -> memset mem base value size = MUndef.
Proof.
  intros H. unfold memset. destruct (N.eqb_spec size 0) as [E|_]; [subst; cbn in H; lia|].
  destruct (N.leb_spec (2 ^ 63) size); [reflexivity|lia].
Qed.

(** ---- Memcopy ---- *)
Lemma go_copy_length mem d s n : (d + n <= length mem)%nat -> (s + n <= length mem)%nat ->
  length (go_copy mem d n s n) = length mem.
Proof.
  intros Hd Hs. unfold go_copy. rewrite Nat.min_id, !app_length, !firstn_length, !skipn_length. lia.
Qed.

(** the destination afterwards shows what the source showed BEFORE the call (also when the two
    regions overlap), and no byte outside the destination changes *)
Theorem memcopy_spec (mem : list N) (src dst : nat) (size : N) :
  size < 2 ^ 63 -> (src + N.to_nat size <= length mem)%nat -> (dst + N.to_nat size <= length mem)%nat ->
  exists mem', memcopy mem src dst size = MOk mem' /\ length mem' = length mem /\
    firstn (N.to_nat size) (skipn dst mem') = firstn (N.to_nat size) (skipn src mem) /\
    firstn dst mem' = firstn dst mem /\
    skipn (dst + N.to_nat size) mem' = skipn (dst + N.to_nat size) mem.
Proof.
  intros Hs Hsrc Hdst. unfold memcopy.
  destruct (N.eqb_spec size 0) as [E|E].
  - subst. exists mem. cbn. repeat split; reflexivity.
  - destruct (N.leb_spec (2 ^ 63) size) as [L|_]; [lia|].
    set (n := N.to_nat size) in *. eexists. split; [reflexivity|].
    split; [apply go_copy_length; assumption|].
    unfold go_copy. rewrite Nat.min_id.
    assert (HA: length (firstn dst mem) = dst) by (rewrite firstn_length; lia).
    assert (HB: length (firstn n (skipn src mem)) = n) by (rewrite firstn_length, skipn_length; lia).
    repeat split.
    + rewrite <- HA at 1. rewrite skipn_len_app. rewrite <- HB at 1. rewrite firstn_len_app. reflexivity.
    + rewrite <- HA at 1. apply firstn_len_app.
    + rewrite <- HA at 1. rewrite skipn_add_app. rewrite <- HB at 1. rewrite skipn_len_app. reflexivity.
Qed.
