(** The hand-written models of kernel.Memset / kernel.Memcopy (Kernel/MemUtil.v [memset], [memcopy], proved correct for
    every size below 2^63 in Kernel/MemUtilProofs.v, Props/C06_mem.v) ARE the Gallina translation that gen/gotrans
    (byte-memory mode of gen/gotrans/ext_mem.go, config kernel_mem.json) regenerates from kernel/mem_util.go on every run
    (Gen/Trans_kernel_mem.v).  The slice overlaid on raw memory through reflect.SliceHeader is a window (start address,
    length) of the byte memory (Lib/GoBytes.v); the memory is the model's list of bytes, address = index; Go's copy is
    the model's [go_copy], a byte store the model's [set_byte]. *)
From Coq Require Import NArith ZArith List Bool Lia.
From Coq Require Import ZifyBool ZifyN ZifyNat.
From FF Require Import Lib.Word Lib.GoOps Lib.GoOpsExt Lib.GoOpsProofs Lib.GoBytes Gen.Trans_kernel_mem Kernel.MemUtil.
Import ListNotations.
Local Open Scope N_scope.

Notation W := mk_go_kernel_world (only parsing).

(** the model's outcomes as outcomes of the translation: a size of 2^63 or more - outside the model, [MUndef] - is where
    the translation stops with a panic at the overlay (int(size) is negative) *)
Definition mres_gres (tr : list gcall) (r : mres) : gres (go_kernel_world * unit) :=
  match r with MOk m => GOk (W tr m, tt) | MUndef => GPanic | MFuel => GFuel end.

Lemma to_nat_add base i : N.to_nat (N.of_nat base + i) = (base + N.to_nat i)%nat.
Proof. rewrite N2Nat.inj_add, Nat2N.id. reflexivity. Qed.

Theorem memset_is_translation mem base value size tr fuel :
  go_kernel_Memset fuel (W tr mem) (N.of_nat base) value size =
  mres_gres tr (if size =? 0 then MOk mem
                else if 2 ^ 63 <=? size then MUndef
                else memset_loop fuel (set_byte mem base value) base 1 size).
Proof.
  unfold go_kernel_Memset.
  destruct (size =? 0) eqn:E0; [reflexivity|]. apply N.eqb_neq in E0.
  unfold gwoverlay. rewrite N.ltb_antisym.
  destruct (2 ^ 63 <=? size) eqn:Ebig; cbn [negb]; [reflexivity|].
  unfold gwset. cbn [fst snd].
  destruct (N.ltb_spec 0 size) as [_|]; [|lia].
  rewrite N.add_0_r, Nat2N.id. cbn [f_world_mem set_f_world_mem f_world_trace].
  change (gw 64 1) with 1.
  match goal with |- context [gloop fuel ?f _] => set (step := f) end.
  generalize (set_byte mem base value) as m. generalize 1 as idx.
  induction fuel as [|fuel IH]; intros idx m; [reflexivity|].
  rewrite gloop_S. cbn [memset_loop]. unfold step at 1. cbv beta iota.
  destruct (N.ltb_spec idx size) as [Hlt|Hge]; [|reflexivity].
  unfold gwfrom, gwto. cbn [fst snd].
  destruct (N.leb_spec idx size) as [_|]; [|lia].
  cbn [f_world_mem set_f_world_mem f_world_trace].
  unfold gwcopy. cbn [fst snd]. rewrite to_nat_add, Nat2N.id, gw64.
  apply IH.
Qed.

Theorem memcopy_is_translation mem src dst size tr :
  go_kernel_Memcopy (W tr mem) (N.of_nat src) (N.of_nat dst) size = mres_gres tr (memcopy mem src dst size).
Proof.
  unfold go_kernel_Memcopy, memcopy.
  destruct (size =? 0); [reflexivity|].
  unfold gwoverlay. rewrite N.ltb_antisym.
  destruct (2 ^ 63 <=? size); cbn [negb]; [reflexivity|].
  unfold gwcopy. cbn [fst snd f_world_mem set_f_world_mem f_world_trace]. rewrite !Nat2N.id. reflexivity.
Qed.

(** with the model's 64 units of fuel *)
Corollary memset_is_translation_64 mem base value size tr :
  go_kernel_Memset 64 (W tr mem) (N.of_nat base) value size = mres_gres tr (memset mem base value size).
Proof. apply memset_is_translation. Qed.

From FF Require Import Kernel.MemUtilProofs.
Theorem memset_translated_fills_exactly mem base value size tr :
  size <> 0 -> size < 2 ^ 63 -> (base + N.to_nat size <= length mem)%nat ->
  go_kernel_Memset 64 (W tr mem) (N.of_nat base) value size =
  GOk (W tr (firstn base mem ++ repeat value (N.to_nat size) ++ skipn (base + N.to_nat size) mem), tt).
Proof.
  intros H0 H1 H2. rewrite memset_is_translation_64, (memset_spec mem base value size H0 H1 H2). reflexivity.
Qed.
