(** kernel/mem_util.go: Memset (log2(size) doubling copies) and Memcopy.  Definitions only.

    Memory is a list of bytes; a region is given by its start index.  Go's built-in
    [copy(dst, src)] copies min(len dst, len src) bytes with memmove semantics (the source is read
    before anything is written), also when both slices alias the same memory - as they do in Memset,
    where dst = target[index:] and src = target[:index]. *)
From Coq Require Import NArith List Bool.
From FF Require Import Lib.Word.
Import ListNotations.
Local Open Scope N_scope.

Inductive mres :=
| MOk (m : list N)
| MUndef          (* outside the model: the overlaid slice would get a negative length *)
| MFuel.          (* the model's loop fuel ran out (excluded by the theorems) *)

(** copy(mem[d : d+dl], mem[s : s+sl]) *)
Definition go_copy (mem : list N) (d dl s sl : nat) : list N :=
  let n := Nat.min dl sl in
  firstn d mem ++ firstn n (skipn s mem) ++ skipn (d + n) mem.

Definition set_byte (mem : list N) (i : nat) (v : N) : list N := firstn i mem ++ v :: skipn (S i) mem.

(** for index := uintptr(1); index < size; index *= 2 { copy(target[index:], target[:index]) }
    [index] is a uintptr: the doubling wraps at 2^64 *)
Fixpoint memset_loop (fuel : nat) (mem : list N) (base : nat) (index size : N) : mres :=
  match fuel with
  | O => MFuel
  | S f =>
      if index <? size
      then memset_loop f (go_copy mem (base + N.to_nat index) (N.to_nat (size - index)) base (N.to_nat index))
                       base (w64 (index * 2)) size
      else MOk mem
  end.

(** Memset(addr, value, size) where addr is the address of mem[base].
    size = 0: no-op.  size >= 2^63: the overlaid slice gets the negative length int(size); Go's bounds
    checks compare unsigned, so target[0] is NOT caught and memmove runs off the buffer (observed: a
    fatal SIGSEGV, not a recoverable panic) - outside the model, [MUndef].  Otherwise target[0] = value
    and the doubling loop. *)
Definition memset (mem : list N) (base : nat) (value size : N) : mres :=
  if size =? 0 then MOk mem
  else if 2 ^ 63 <=? size then MUndef
  else memset_loop 64 (set_byte mem base value) base 1 size.

(** Memcopy(src, dst, size): copy(dstSlice, srcSlice), both of length size (size < 2^63; a negative
    slice length is outside the model) *)
Definition memcopy (mem : list N) (src dst : nat) (size : N) : mres :=
  if size =? 0 then MOk mem
  else if 2 ^ 63 <=? size then MUndef
  else MOk (go_copy mem dst (N.to_nat size) src (N.to_nat size)).

(** ---- executable interface for the correspondence check ---- *)

(** the harness's buffer: byte i = (i * 7 + 3) mod 256 *)
Fixpoint pattern_from (len : nat) (i : N) : list N :=
  match len with O => [] | S l => ((i * 7 + 3) mod 256) :: pattern_from l (i + 1) end.
Definition pattern (len : nat) : list N := pattern_from len 0.

(** run-length encoding of the result: (count, byte) pairs *)
Fixpoint rle_go (l : list N) (cur cnt : N) : list N :=
  match l with
  | [] => [cnt; cur]
  | x :: r => if x =? cur then rle_go r cur (cnt + 1) else cnt :: cur :: rle_go r x 1
  end.
Definition rle (l : list N) : list N := match l with [] => [] | x :: r => rle_go r x 1 end.

Definition out (r : mres) : list N :=
  match r with MOk m => 0 :: rle m | MUndef => [1] | MFuel => [2] end.

(** case = 0 :: total :: base :: value :: size  -> Memset on pattern(total) at base
         1 :: total :: src :: dst :: size     -> Memcopy inside pattern(total) *)
Definition run_case (l : list N) : list N :=
  match l with
  | 0 :: total :: base :: value :: size :: _ => out (memset (pattern (N.to_nat total)) (N.to_nat base) value size)
  | 1 :: total :: src :: dst :: size :: _ => out (memcopy (pattern (N.to_nat total)) (N.to_nat src) (N.to_nat dst) size)
  | _ => []
  end.
