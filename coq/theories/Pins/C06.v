(** Fingerprints of the source the C06 model was validated against (function by function, comments and
    formatting ignored; written by `bin/repin C06` after a thorough correspondence run). Gen/Pin_C06.v is
    regenerated from the current tree on every run; if a pinned function changed, this obligation no
    longer checks: the model is then no longer known to describe the code, and the check searches for
    a failing input (and reports no-failing-input-found if it finds none). *)
From Coq Require Import String List.
From FF Require Import Gen.Pin_C06.
Import ListNotations.
Local Open Scope string_scope.

Definition expected_pins_C06 : list (string * string) := [
  ("kernel/mem_util.go:<declarations>", "53f5592cd108866f");
  ("kernel/mem_util.go:Memcopy", "196461509d2cd071");
  ("kernel/mem_util.go:Memset", "f8b1d2241d553612");
  ("kernel/mm/vmm/fault_amd64.go:<declarations>", "c2e97ef43f828195");
  ("kernel/mm/vmm/fault_amd64.go:generalProtectionFaultHandler", "9d8ddc769766f934");
  ("kernel/mm/vmm/fault_amd64.go:installFaultHandlers", "7ab76346b170647f");
  ("kernel/mm/vmm/fault_amd64.go:nonRecoverablePageFault", "5e806b73bdff1778");
  ("kernel/mm/vmm/fault_amd64.go:pageFaultHandler", "c084dd9a36e1efc2");
  ("kernel/mm/vmm/map.go:IdentityMapRegion", "76953440c098a274");
  ("kernel/mm/vmm/map.go:Map", "be6bb6728f891755");
  ("kernel/mm/vmm/map.go:MapRegion", "5de2a303152ab389");
  ("kernel/mm/vmm/map.go:MapTemporary", "4c72dea929394cfa");
  ("kernel/mm/vmm/map.go:Unmap", "07a4eead1adc3f72");
  ("kernel/mm/vmm/pdt.go:PageDirectoryTable.Map", "2985a6c60f6b4bc1");
  ("kernel/mm/vmm/pdt.go:walk", "a9ead376aeecf26b");
  ("kernel/mm/vmm/vmm.go:<declarations>", "62afed49b35191b6");
  ("kernel/mm/vmm/vmm.go:Init", "0fb6beaf8ae568cc");
  ("kernel/mm/vmm/vmm.go:reserveZeroedFrame", "3a754e212abfd6eb")
].

Theorem C06_source_pinned : pins_C06 = expected_pins_C06.
Proof. reflexivity. Qed.
Print Assumptions C06_source_pinned.
