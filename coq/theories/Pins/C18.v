(** Fingerprints of the source the C18 model was validated against (function by function, comments and
    formatting ignored; written by `bin/repin C18` after a thorough correspondence run). Gen/Pin_C18.v is
    regenerated from the current tree on every run; if a pinned function changed, this obligation no
    longer checks: the model is then no longer known to describe the code, and the check searches for
    a failing input (and reports no-failing-input-found if it finds none). *)
From Coq Require Import String List.
From FF Require Import Gen.Pin_C18.
Import ListNotations.
Local Open Scope string_scope.

Definition expected_pins_C18 : list (string * string) := [
  ("kernel/device/tty/vt.go:<declarations>", "9aa7ba2b2994bf77");
  ("kernel/device/tty/vt.go:NewVT", "ce33670e377e6a9c");
  ("kernel/device/tty/vt.go:VT.AttachTo", "b9afbdc9fdef24be");
  ("kernel/device/tty/vt.go:VT.CursorPosition", "520ce9e99047aafd");
  ("kernel/device/tty/vt.go:VT.DriverInit", "448093fabefabc48");
  ("kernel/device/tty/vt.go:VT.DriverName", "6c9d99d0debe20c5");
  ("kernel/device/tty/vt.go:VT.DriverVersion", "8b7e557065588dcd");
  ("kernel/device/tty/vt.go:VT.SetCursorPosition", "cf45a52d76e9869f");
  ("kernel/device/tty/vt.go:VT.SetState", "d698484e9d2aba36");
  ("kernel/device/tty/vt.go:VT.State", "aa60c7ac1a0f65aa");
  ("kernel/device/tty/vt.go:VT.Write", "0570f20dce82891c");
  ("kernel/device/tty/vt.go:VT.WriteByte", "4e8ded6dd75c52d8");
  ("kernel/device/tty/vt.go:VT.cr", "5cf3d026b1a2e1b2");
  ("kernel/device/tty/vt.go:VT.doWrite", "bbe31f4fdd815514");
  ("kernel/device/tty/vt.go:VT.lf", "0485ac741c27a967");
  ("kernel/device/tty/vt.go:VT.updateDataOffset", "f09b2f75677559fd");
  ("kernel/device/tty/vt.go:init", "8540a430a9c6af10");
  ("kernel/device/tty/vt.go:probeForVT", "21cb721b1bfa6c7f");
  ("kernel/device/video/console/device.go:<declarations>", "40601ea31cd2b8d7");
  ("kernel/device/video/console/vesa_fb.go:<declarations>", "e0e010683d5ea926");
  ("kernel/device/video/console/vesa_fb.go:NewVesaFbConsole", "c6ac033134f3faf0");
  ("kernel/device/video/console/vesa_fb.go:VesaFbConsole.DefaultColors", "c1d02fe7693f4b40");
  ("kernel/device/video/console/vesa_fb.go:VesaFbConsole.Dimensions", "ec5c6f2c212625c0");
  ("kernel/device/video/console/vesa_fb.go:VesaFbConsole.DriverInit", "5e0bec243846734a");
  ("kernel/device/video/console/vesa_fb.go:VesaFbConsole.DriverName", "23568a52498ff56c");
  ("kernel/device/video/console/vesa_fb.go:VesaFbConsole.DriverVersion", "492af96366f55d3d");
  ("kernel/device/video/console/vesa_fb.go:VesaFbConsole.Fill", "35059b06775e40fa");
  ("kernel/device/video/console/vesa_fb.go:VesaFbConsole.Palette", "56eb8feffb39c8b3");
  ("kernel/device/video/console/vesa_fb.go:VesaFbConsole.Scroll", "7c85a00f40520264");
  ("kernel/device/video/console/vesa_fb.go:VesaFbConsole.SetFont", "04beba89a067678b");
  ("kernel/device/video/console/vesa_fb.go:VesaFbConsole.SetLogo", "c3ed980a9576fd49");
  ("kernel/device/video/console/vesa_fb.go:VesaFbConsole.SetPaletteColor", "b154cb988f223527");
  ("kernel/device/video/console/vesa_fb.go:VesaFbConsole.Write", "65c626359380e862");
  ("kernel/device/video/console/vesa_fb.go:VesaFbConsole.fbOffset", "7e1d7dc0c3b00fe6");
  ("kernel/device/video/console/vesa_fb.go:VesaFbConsole.fill16", "8ec75dfa099640ac");
  ("kernel/device/video/console/vesa_fb.go:VesaFbConsole.fill24", "b3f01f09a1d23276");
  ("kernel/device/video/console/vesa_fb.go:VesaFbConsole.fill8", "8d306e3b8ce7af30");
  ("kernel/device/video/console/vesa_fb.go:VesaFbConsole.loadDefaultPalette", "d79656e942569fd4");
  ("kernel/device/video/console/vesa_fb.go:VesaFbConsole.packColor16", "5be669ce0903b949");
  ("kernel/device/video/console/vesa_fb.go:VesaFbConsole.packColor24", "b072a1274bdaea23");
  ("kernel/device/video/console/vesa_fb.go:VesaFbConsole.replace16", "a8b6562b5e2877ff");
  ("kernel/device/video/console/vesa_fb.go:VesaFbConsole.replace24", "aac0b3f68682a02a");
  ("kernel/device/video/console/vesa_fb.go:VesaFbConsole.setPaletteColor", "0763eb064d185410");
  ("kernel/device/video/console/vesa_fb.go:VesaFbConsole.write16", "d267e1fc22c14267");
  ("kernel/device/video/console/vesa_fb.go:VesaFbConsole.write24", "abffd3026aa39d45");
  ("kernel/device/video/console/vesa_fb.go:VesaFbConsole.write8", "a9bfafa4a75595f7");
  ("kernel/device/video/console/vesa_fb.go:init", "0e9f1c76367f6bf3");
  ("kernel/device/video/console/vesa_fb.go:probeForVesaFbConsole", "4820d96360791bea");
  ("kernel/device/video/console/vga_text.go:<declarations>", "4f0276735adac677");
  ("kernel/device/video/console/vga_text.go:NewVgaTextConsole", "1f844307b39f8c0f");
  ("kernel/device/video/console/vga_text.go:VgaTextConsole.DefaultColors", "9fa79a867d8f0a5c");
  ("kernel/device/video/console/vga_text.go:VgaTextConsole.Dimensions", "43f05efd7009e274");
  ("kernel/device/video/console/vga_text.go:VgaTextConsole.DriverInit", "e68b59dafdc9f734");
  ("kernel/device/video/console/vga_text.go:VgaTextConsole.DriverName", "79c8b44c2447c971");
  ("kernel/device/video/console/vga_text.go:VgaTextConsole.DriverVersion", "d14c1092acb16f7b");
  ("kernel/device/video/console/vga_text.go:VgaTextConsole.Fill", "acd628d8fec2607b");
  ("kernel/device/video/console/vga_text.go:VgaTextConsole.Palette", "e86dd279d2423e46");
  ("kernel/device/video/console/vga_text.go:VgaTextConsole.Scroll", "6dba07cc34159f4f");
  ("kernel/device/video/console/vga_text.go:VgaTextConsole.SetPaletteColor", "ba5ebcbedda62c93");
  ("kernel/device/video/console/vga_text.go:VgaTextConsole.Write", "a93ed0a9dcce1dba");
  ("kernel/device/video/console/vga_text.go:init", "d90cb1eecfcf2570");
  ("kernel/device/video/console/vga_text.go:probeForVgaTextConsole", "6ac80a81693a1ae8");
  ("kernel/hal/hal.go:<declarations>", "bf77c7629bd33ec1");
  ("kernel/hal/hal.go:ActiveTTY", "b59d180fa01084e0");
  ("kernel/hal/hal.go:DetectHardware", "1245ba8cf6f26ef5");
  ("kernel/hal/hal.go:linkTTYToConsole", "fae7793d802821f5");
  ("kernel/hal/hal.go:onConsoleInit", "ed18987fcf660752");
  ("kernel/hal/hal.go:onDriverInit", "441f249ea2cb57df");
  ("kernel/hal/hal.go:probe", "1c0ca4884c2797cb")
].

Theorem C18_source_pinned : pins_C18 = expected_pins_C18.
Proof. reflexivity. Qed.
Print Assumptions C18_source_pinned.
