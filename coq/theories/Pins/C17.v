(** Fingerprints of the source the C17 model was validated against (function by function, comments and
    formatting ignored; written by `bin/repin C17` after a thorough correspondence run). Gen/Pin_C17.v is
    regenerated from the current tree on every run; if a pinned function changed, this obligation no
    longer checks: the model is then no longer known to describe the code, and the check searches for
    a failing input (and reports no-failing-input-found if it finds none). *)
From Coq Require Import String List.
From FF Require Import Gen.Pin_C17.
Import ListNotations.
Local Open Scope string_scope.

Definition expected_pins_C17 : list (string * string) := [
  ("kernel/device/tty/device.go:<declarations>", "f5a731a70119b114");
  ("kernel/device/tty/vt.go:<declarations>", "9aa7ba2b2994bf77");
  ("kernel/device/tty/vt.go:NewVT", "ce33670e377e6a9c");
  ("kernel/device/tty/vt.go:VT.AttachTo", "b9afbdc9fdef24be");
  ("kernel/device/tty/vt.go:VT.CursorPosition", "520ce9e99047aafd");
  ("kernel/device/tty/vt.go:VT.DriverInit", "448093fabefabc48");
  ("kernel/device/tty/vt.go:VT.DriverName", "6c9d99d0debe20c5");
  ("kernel/device/tty/vt.go:VT.DriverVersion", "8b7e557065588dcd");
  ("kernel/device/tty/vt.go:VT.SetCursorPosition", "cf45a52d76e9869f");
  ("kernel/device/tty/vt.go:VT.SetState", "d698484e9d2aba36");
  ("kernel/device/tty/vt.go:VT.State", "aa60c7ac1a0f65aa");
  ("kernel/device/tty/vt.go:VT.Write", "0570f20dce82891c");
  ("kernel/device/tty/vt.go:VT.WriteByte", "4e8ded6dd75c52d8");
  ("kernel/device/tty/vt.go:VT.cr", "5cf3d026b1a2e1b2");
  ("kernel/device/tty/vt.go:VT.doWrite", "bbe31f4fdd815514");
  ("kernel/device/tty/vt.go:VT.lf", "0485ac741c27a967");
  ("kernel/device/tty/vt.go:VT.updateDataOffset", "f09b2f75677559fd");
  ("kernel/device/tty/vt.go:init", "8540a430a9c6af10");
  ("kernel/device/tty/vt.go:probeForVT", "21cb721b1bfa6c7f")
].

Theorem C17_source_pinned : pins_C17 = expected_pins_C17.
Proof. reflexivity. Qed.
Print Assumptions C17_source_pinned.
