(** Fingerprints of the source the C07 model was validated against (function by function, comments and
    formatting ignored; written by `bin/repin C07` after a thorough correspondence run). Gen/Pin_C07.v is
    regenerated from the current tree on every run; if a pinned function changed, this obligation no
    longer checks: the model is then no longer known to describe the code, and the check searches for
    a failing input (and reports no-failing-input-found if it finds none). *)
From Coq Require Import String List.
From FF Require Import Gen.Pin_C07.
Import ListNotations.
Local Open Scope string_scope.

Definition expected_pins_C07 : list (string * string) := [
  ("kernel/goruntime/bootstrap.go:sysAlloc", "7de401b05f1ea268");
  ("kernel/goruntime/bootstrap.go:sysMap", "2450486ab948c4de");
  ("kernel/goruntime/bootstrap.go:sysReserve", "3394a8da8142be72");
  ("kernel/mm/pmm/bitmap_allocator.go:BitmapAllocator.setupPoolBitmaps", "59da382815a3ec0a");
  ("kernel/mm/vmm/addr_space.go:<declarations>", "7cb0f754eb74f54e");
  ("kernel/mm/vmm/addr_space.go:EarlyReserveRegion", "39eb56fdd9e3432b");
  ("kernel/mm/vmm/map.go:IdentityMapRegion", "76953440c098a274");
  ("kernel/mm/vmm/map.go:MapRegion", "5de2a303152ab389")
].

Theorem C07_source_pinned : pins_C07 = expected_pins_C07.
Proof. reflexivity. Qed.
Print Assumptions C07_source_pinned.
