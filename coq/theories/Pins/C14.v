(** Fingerprints of the source the C14 model was validated against (function by function, comments and
    formatting ignored; written by `bin/repin C14` after a thorough correspondence run). Gen/Pin_C14.v is
    regenerated from the current tree on every run; if a pinned function changed, this obligation no
    longer checks: the model is then no longer known to describe the code, and the check searches for
    a failing input (and reports no-failing-input-found if it finds none). *)
From Coq Require Import String List.
From FF Require Import Gen.Pin_C14.
Import ListNotations.
Local Open Scope string_scope.

Definition expected_pins_C14 : list (string * string) := [
  ("kernel/device/acpi/acpi.go:<declarations>", "a5111242adda61ad");
  ("kernel/device/acpi/acpi.go:acpiDriver.DriverInit", "e8a0439b28a06455");
  ("kernel/device/acpi/acpi.go:acpiDriver.DriverName", "f6030673598e4407");
  ("kernel/device/acpi/acpi.go:acpiDriver.DriverVersion", "161109404ef36081");
  ("kernel/device/acpi/acpi.go:acpiDriver.enumerateTables", "100483f535c4f9b3");
  ("kernel/device/acpi/acpi.go:acpiDriver.printTableInfo", "ef870c42b5c36097");
  ("kernel/device/acpi/acpi.go:init", "31e851a8f8effe0d");
  ("kernel/device/acpi/acpi.go:locateRSDT", "7df6512b2dc4bbf8");
  ("kernel/device/acpi/acpi.go:mapACPITable", "fa197330eab910ba");
  ("kernel/device/acpi/acpi.go:probeForACPI", "f929bd4c277d368b");
  ("kernel/device/acpi/acpi.go:validTable", "102a0a33fd382650");
  ("kernel/device/acpi/table/tables.go:<declarations>", "0dd67813401007de")
].

Theorem C14_source_pinned : pins_C14 = expected_pins_C14.
Proof. reflexivity. Qed.
Print Assumptions C14_source_pinned.
