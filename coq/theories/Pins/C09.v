(** Fingerprints of the source the C09 model was validated against (function by function, comments and
    formatting ignored; written by `bin/repin C09` after a thorough correspondence run). Gen/Pin_C09.v is
    regenerated from the current tree on every run; if a pinned function changed, this obligation no
    longer checks: the model is then no longer known to describe the code, and the check searches for
    a failing input (and reports no-failing-input-found if it finds none). *)
From Coq Require Import String List.
From FF Require Import Gen.Pin_C09.
Import ListNotations.
Local Open Scope string_scope.

Definition expected_pins_C09 : list (string * string) := [
  ("kernel/mm/pmm/bitmap_allocator.go:BitmapAllocator.AllocFrame", "1cb89e109749503d");
  ("kernel/mm/pmm/bitmap_allocator.go:BitmapAllocator.FreeFrame", "eaf337b4aa77bc3c");
  ("kernel/mm/pmm/bitmap_allocator.go:BitmapAllocator.poolForFrame", "1d83339a94ee5ffa");
  ("kernel/sync/spinlock.go:<declarations>", "fba2f5c62c606783");
  ("kernel/sync/spinlock.go:Spinlock.Acquire", "1edaa0da8ee2a6cd");
  ("kernel/sync/spinlock.go:Spinlock.Release", "98ad402ed556cfaf");
  ("kernel/sync/spinlock.go:Spinlock.TryToAcquire", "a01de9abc7d79ee0");
  ("kernel/sync/spinlock.go:archAcquireSpinlock", "9b0d5a481d4e3fa5");
  ("kernel/sync/spinlock_amd64.s", "b94c438de6dfa971")
].

Theorem C09_source_pinned : pins_C09 = expected_pins_C09.
Proof. reflexivity. Qed.
Print Assumptions C09_source_pinned.
