(** Fingerprints of the source the C05 model was validated against (function by function, comments and
    formatting ignored; written by `bin/repin C05` after a thorough correspondence run). Gen/Pin_C05.v is
    regenerated from the current tree on every run; if a pinned function changed, this obligation no
    longer checks: the model is then no longer known to describe the code, and the check searches for
    a failing input (and reports no-failing-input-found if it finds none). *)
From Coq Require Import String List.
From FF Require Import Gen.Pin_C05.
Import ListNotations.
Local Open Scope string_scope.

Definition expected_pins_C05 : list (string * string) := [
  ("kernel/mem_util.go:<declarations>", "53f5592cd108866f");
  ("kernel/mem_util.go:Memcopy", "196461509d2cd071");
  ("kernel/mem_util.go:Memset", "f8b1d2241d553612");
  ("kernel/mm/vmm/addr_space.go:<declarations>", "7cb0f754eb74f54e");
  ("kernel/mm/vmm/addr_space.go:EarlyReserveRegion", "39eb56fdd9e3432b");
  ("kernel/mm/vmm/map.go:Map", "be6bb6728f891755");
  ("kernel/mm/vmm/map.go:Translate", "c3c29c29c44a5f33");
  ("kernel/mm/vmm/map.go:pteForAddress", "missing");
  ("kernel/mm/vmm/map.go:walk", "missing");
  ("kernel/mm/vmm/pdt.go:<declarations>", "d5d55ae56ea5162c");
  ("kernel/mm/vmm/pdt.go:PageDirectoryTable.Activate", "25f452f75e452ce8");
  ("kernel/mm/vmm/pdt.go:PageDirectoryTable.Init", "8793a530bfdbb6ee");
  ("kernel/mm/vmm/pdt.go:PageDirectoryTable.Map", "2985a6c60f6b4bc1");
  ("kernel/mm/vmm/pdt.go:PageDirectoryTable.Unmap", "6e07a597a11b6ae9");
  ("kernel/mm/vmm/pdt.go:noEscape", "4cead97966735637");
  ("kernel/mm/vmm/pdt.go:pageTableEntry.ClearFlags", "e352d0ff1c05f2d4");
  ("kernel/mm/vmm/pdt.go:pageTableEntry.Frame", "79f0518c5c065e17");
  ("kernel/mm/vmm/pdt.go:pageTableEntry.HasAnyFlag", "d51225d48085f035");
  ("kernel/mm/vmm/pdt.go:pageTableEntry.HasFlags", "480bfe559d87c8c1");
  ("kernel/mm/vmm/pdt.go:pageTableEntry.SetFlags", "56d31d36d2544b99");
  ("kernel/mm/vmm/pdt.go:pageTableEntry.SetFrame", "3f04721e91d4e448");
  ("kernel/mm/vmm/pdt.go:pteForAddress", "c52658a64a207b57");
  ("kernel/mm/vmm/pdt.go:setupPDTForKernel", "8273ac7ce79fb606");
  ("kernel/mm/vmm/pdt.go:walk", "a9ead376aeecf26b");
  ("kernel/mm/vmm/vmm.go:<declarations>", "62afed49b35191b6");
  ("kernel/mm/vmm/vmm.go:Init", "0fb6beaf8ae568cc");
  ("kernel/mm/vmm/vmm.go:reserveZeroedFrame", "3a754e212abfd6eb");
  ("kernel/multiboot/multiboot.go:VisitElfSections", "ca6ede706a32e9cd");
  ("kernel/multiboot/multiboot.go:findTagByType", "caef80e9225eff5e")
].

Theorem C05_source_pinned : pins_C05 = expected_pins_C05.
Proof. reflexivity. Qed.
Print Assumptions C05_source_pinned.
