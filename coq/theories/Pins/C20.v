(** Fingerprints of the source the C20 model was validated against (function by function, comments and
    formatting ignored; written by `bin/repin C20` after a thorough correspondence run). Gen/Pin_C20.v is
    regenerated from the current tree on every run; if a pinned function changed, this obligation no
    longer checks: the model is then no longer known to describe the code, and the check searches for
    a failing input (and reports no-failing-input-found if it finds none). *)
From Coq Require Import String List.
From FF Require Import Gen.Pin_C20.
Import ListNotations.
Local Open Scope string_scope.

Definition expected_pins_C20 : list (string * string) := [
  ("kbuild/compile.go:<declarations>", "daeaf360d53c0d25");
  ("kbuild/compile.go:Context.BuildISO", "44362817dd5c3cee");
  ("kbuild/compile.go:Context.CompileKernel", "b900a83ab1348e91");
  ("kbuild/compile.go:Context.CompileLinkerScript", "e96c57788039086d");
  ("kbuild/compile.go:Context.CompileRT0", "81e4cf6698f7ef11");
  ("kbuild/compile.go:Context.LinkKernel", "432d8cbe3cdf6e0d");
  ("kbuild/compile.go:Context.compileRT0", "c7369528234c54e0");
  ("kbuild/compile.go:copyFile", "e715d08707946087");
  ("kbuild/redirects.go:<declarations>", "e7c243efd55b65be");
  ("kbuild/redirects.go:Context.CompleteRedirects", "da48c4822ea13a5a");
  ("kbuild/redirects.go:Context.FindRedirects", "3f30969fac2d10a9")
].

Theorem C20_source_pinned : pins_C20 = expected_pins_C20.
Proof. reflexivity. Qed.
Print Assumptions C20_source_pinned.
