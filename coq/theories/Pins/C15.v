(** Fingerprints of the source the C15 model was validated against (function by function, comments and
    formatting ignored; written by `bin/repin C15` after a thorough correspondence run). Gen/Pin_C15.v is
    regenerated from the current tree on every run; if a pinned function changed, this obligation no
    longer checks: the model is then no longer known to describe the code, and the check searches for
    a failing input (and reports no-failing-input-found if it finds none). *)
From Coq Require Import String List.
From FF Require Import Gen.Pin_C15.
Import ListNotations.
Local Open Scope string_scope.

Definition expected_pins_C15 : list (string * string) := [
  ("kernel/kfmt/fmt.go:<declarations>", "22a1cf5aa36b58fc");
  ("kernel/kfmt/fmt.go:Fprintf", "735ce4c99a7879d0");
  ("kernel/kfmt/fmt.go:GetOutputSink", "f4276038d9967da7");
  ("kernel/kfmt/fmt.go:Printf", "806992502a3fa108");
  ("kernel/kfmt/fmt.go:SetOutputSink", "7b66e0784f985d98");
  ("kernel/kfmt/fmt.go:doRealWrite", "94840cb126abf99b");
  ("kernel/kfmt/fmt.go:doWrite", "50eacf854988c7da");
  ("kernel/kfmt/fmt.go:fmtBool", "f23d5f73a40d8357");
  ("kernel/kfmt/fmt.go:fmtInt", "17007cd4567ef980");
  ("kernel/kfmt/fmt.go:fmtRepeat", "e33034be28deec8a");
  ("kernel/kfmt/fmt.go:fmtString", "3e9163780674edf6");
  ("kernel/kfmt/fmt.go:noEscape", "4cead97966735637")
].

Theorem C15_source_pinned : pins_C15 = expected_pins_C15.
Proof. reflexivity. Qed.
Print Assumptions C15_source_pinned.
