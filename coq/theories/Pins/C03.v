(** Fingerprints of the source the C03 model was validated against (function by function, comments and
    formatting ignored; written by `bin/repin C03` after a thorough correspondence run). Gen/Pin_C03.v is
    regenerated from the current tree on every run; if a pinned function changed, this obligation no
    longer checks: the model is then no longer known to describe the code, and the check searches for
    a failing input (and reports no-failing-input-found if it finds none). *)
From Coq Require Import String List.
From FF Require Import Gen.Pin_C03.
Import ListNotations.
Local Open Scope string_scope.

Definition expected_pins_C03 : list (string * string) := [
  ("kernel/mem_util.go:Memset", "f8b1d2241d553612");
  ("kernel/mm/pmm/bitmap_allocator.go:<declarations>", "ff9f50b765daf4f4");
  ("kernel/mm/pmm/bitmap_allocator.go:BitmapAllocator.AllocFrame", "1cb89e109749503d");
  ("kernel/mm/pmm/bitmap_allocator.go:BitmapAllocator.FreeFrame", "eaf337b4aa77bc3c");
  ("kernel/mm/pmm/bitmap_allocator.go:BitmapAllocator.init", "95045239911a4b17");
  ("kernel/mm/pmm/bitmap_allocator.go:BitmapAllocator.markFrame", "a2d34ca4057d894a");
  ("kernel/mm/pmm/bitmap_allocator.go:BitmapAllocator.poolForFrame", "1d83339a94ee5ffa");
  ("kernel/mm/pmm/bitmap_allocator.go:BitmapAllocator.printStats", "2b32a2350fe3c5da");
  ("kernel/mm/pmm/bitmap_allocator.go:BitmapAllocator.reserveEarlyAllocatorFrames", "a023b6ce504fe847");
  ("kernel/mm/pmm/bitmap_allocator.go:BitmapAllocator.reserveKernelFrames", "9a935726827155a4");
  ("kernel/mm/pmm/bitmap_allocator.go:BitmapAllocator.setupPoolBitmaps", "59da382815a3ec0a");
  ("kernel/mm/pmm/pmm.go:<declarations>", "eaf57c9259a24de0");
  ("kernel/mm/pmm/pmm.go:Init", "f358a52e4c33a679");
  ("kernel/mm/pmm/pmm.go:bitmapAllocFrame", "25f741ce0e00e026");
  ("kernel/mm/pmm/pmm.go:earlyAllocFrame", "9cf10c266021c1d2")
].

Theorem C03_source_pinned : pins_C03 = expected_pins_C03.
Proof. reflexivity. Qed.
Print Assumptions C03_source_pinned.
