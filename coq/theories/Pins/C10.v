(** Fingerprints of the source the C10 model was validated against (function by function, comments and
    formatting ignored; written by `bin/repin C10` after a thorough correspondence run). Gen/Pin_C10.v is
    regenerated from the current tree on every run; if a pinned function changed, this obligation no
    longer checks: the model is then no longer known to describe the code, and the check searches for
    a failing input (and reports no-failing-input-found if it finds none). *)
From Coq Require Import String List.
From FF Require Import Gen.Pin_C10.
Import ListNotations.
Local Open Scope string_scope.

Definition expected_pins_C10 : list (string * string) := [
  ("kernel/multiboot/multiboot.go:<declarations>", "e7b4c17a24ff02b1");
  ("kernel/multiboot/multiboot.go:FramebufferInfo.RGBColorInfo", "5195be35c1486e75");
  ("kernel/multiboot/multiboot.go:GetBootCmdLine", "d5cdb5539a1e3040");
  ("kernel/multiboot/multiboot.go:GetFramebufferInfo", "6078d0ae8b735bf0");
  ("kernel/multiboot/multiboot.go:MemoryEntryType.String", "8ca818ffaf84350b");
  ("kernel/multiboot/multiboot.go:SetInfoPtr", "5529bf9156574843");
  ("kernel/multiboot/multiboot.go:VisitElfSections", "ca6ede706a32e9cd");
  ("kernel/multiboot/multiboot.go:VisitMemRegions", "ef3b8903087df4ce");
  ("kernel/multiboot/multiboot.go:findTagByType", "caef80e9225eff5e")
].

Theorem C10_source_pinned : pins_C10 = expected_pins_C10.
Proof. reflexivity. Qed.
Print Assumptions C10_source_pinned.
