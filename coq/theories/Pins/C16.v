(** Fingerprints of the source the C16 model was validated against (function by function, comments and
    formatting ignored; written by `bin/repin C16` after a thorough correspondence run). Gen/Pin_C16.v is
    regenerated from the current tree on every run; if a pinned function changed, this obligation no
    longer checks: the model is then no longer known to describe the code, and the check searches for
    a failing input (and reports no-failing-input-found if it finds none). *)
From Coq Require Import String List.
From FF Require Import Gen.Pin_C16.
Import ListNotations.
Local Open Scope string_scope.

Definition expected_pins_C16 : list (string * string) := [
  ("kernel/device/driver.go:<declarations>", "dace4783501b2983");
  ("kernel/device/driver.go:DriverInfoList.Len", "887ea709ea8da5a9");
  ("kernel/device/driver.go:DriverInfoList.Less", "ac0faf9b56709e9f");
  ("kernel/device/driver.go:DriverInfoList.Swap", "2f6476c14c4c86e3");
  ("kernel/device/driver.go:DriverList", "8e7ba243fddae63b");
  ("kernel/device/driver.go:RegisterDriver", "d8e4ccbdc306915b");
  ("kernel/hal/hal.go:<declarations>", "bf77c7629bd33ec1");
  ("kernel/hal/hal.go:ActiveTTY", "b59d180fa01084e0");
  ("kernel/hal/hal.go:DetectHardware", "1245ba8cf6f26ef5");
  ("kernel/hal/hal.go:linkTTYToConsole", "fae7793d802821f5");
  ("kernel/hal/hal.go:onConsoleInit", "ed18987fcf660752");
  ("kernel/hal/hal.go:onDriverInit", "441f249ea2cb57df");
  ("kernel/hal/hal.go:probe", "1c0ca4884c2797cb");
  ("kernel/kfmt/fmt.go:<declarations>", "22a1cf5aa36b58fc");
  ("kernel/kfmt/fmt.go:Fprintf", "735ce4c99a7879d0");
  ("kernel/kfmt/fmt.go:GetOutputSink", "f4276038d9967da7");
  ("kernel/kfmt/fmt.go:Printf", "806992502a3fa108");
  ("kernel/kfmt/fmt.go:SetOutputSink", "7b66e0784f985d98");
  ("kernel/kfmt/fmt.go:doRealWrite", "94840cb126abf99b");
  ("kernel/kfmt/fmt.go:doWrite", "50eacf854988c7da");
  ("kernel/kfmt/fmt.go:fmtBool", "f23d5f73a40d8357");
  ("kernel/kfmt/fmt.go:fmtInt", "17007cd4567ef980");
  ("kernel/kfmt/fmt.go:fmtRepeat", "e33034be28deec8a");
  ("kernel/kfmt/fmt.go:fmtString", "3e9163780674edf6");
  ("kernel/kfmt/fmt.go:noEscape", "4cead97966735637");
  ("kernel/kfmt/prefix_writer.go:<declarations>", "5bd199ed58218fd9");
  ("kernel/kfmt/prefix_writer.go:PrefixWriter.Write", "8be7c23164899e4c");
  ("kernel/kfmt/ringbuf.go:<declarations>", "9d7db1088954fee5");
  ("kernel/kfmt/ringbuf.go:ringBuffer.Read", "09e2aabbffc3ac48");
  ("kernel/kfmt/ringbuf.go:ringBuffer.Write", "2eeee1f74910da9c")
].

Theorem C16_source_pinned : pins_C16 = expected_pins_C16.
Proof. reflexivity. Qed.
Print Assumptions C16_source_pinned.
