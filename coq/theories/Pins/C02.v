(** Fingerprints of the source the C02 model was validated against (function by function, comments and
    formatting ignored; written by `bin/repin C02` after a thorough correspondence run). Gen/Pin_C02.v is
    regenerated from the current tree on every run; if a pinned function changed, this obligation no
    longer checks: the model is then no longer known to describe the code, and the check searches for
    a failing input (and reports no-failing-input-found if it finds none). *)
From Coq Require Import String List.
From FF Require Import Gen.Pin_C02.
Import ListNotations.
Local Open Scope string_scope.

Definition expected_pins_C02 : list (string * string) := [
  ("kernel/mm/pmm/bootmem_allocator.go:<declarations>", "72551aeac44810d2");
  ("kernel/mm/pmm/bootmem_allocator.go:BootMemAllocator.AllocFrame", "be679788e09e69c1");
  ("kernel/mm/pmm/bootmem_allocator.go:BootMemAllocator.init", "487f47c133fbf166");
  ("kernel/mm/pmm/bootmem_allocator.go:BootMemAllocator.printMemoryMap", "13c0f2f26bf8fcc1");
  ("kernel/multiboot/multiboot.go:VisitMemRegions", "ef3b8903087df4ce");
  ("kernel/multiboot/multiboot.go:findTagByType", "caef80e9225eff5e")
].

Theorem C02_source_pinned : pins_C02 = expected_pins_C02.
Proof. reflexivity. Qed.
Print Assumptions C02_source_pinned.
