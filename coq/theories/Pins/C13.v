(** Fingerprints of the source the C13 model was validated against (function by function, comments and
    formatting ignored; written by `bin/repin C13` after a thorough correspondence run). Gen/Pin_C13.v is
    regenerated from the current tree on every run; if a pinned function changed, this obligation no
    longer checks: the model is then no longer known to describe the code, and the check searches for
    a failing input (and reports no-failing-input-found if it finds none). *)
From Coq Require Import String List.
From FF Require Import Gen.Pin_C13.
Import ListNotations.
Local Open Scope string_scope.

Definition expected_pins_C13 : list (string * string) := [
  ("kernel/device/acpi/aml/obj_tree.go:<declarations>", "8ae11ab8f3289920");
  ("kernel/device/acpi/aml/obj_tree.go:NewObjectTree", "570d10814e4a3d8b");
  ("kernel/device/acpi/aml/obj_tree.go:ObjectTree.ArgAt", "b77ae553ea32706d");
  ("kernel/device/acpi/aml/obj_tree.go:ObjectTree.ClosestNamedAncestor", "26f2a377de181a1d");
  ("kernel/device/acpi/aml/obj_tree.go:ObjectTree.CreateDefaultScopes", "66ab7465fa2e1055");
  ("kernel/device/acpi/aml/obj_tree.go:ObjectTree.Find", "867dad31cd39e3e0");
  ("kernel/device/acpi/aml/obj_tree.go:ObjectTree.NumArgs", "1ece75421295097d");
  ("kernel/device/acpi/aml/obj_tree.go:ObjectTree.ObjectAt", "9668f627d25cc013");
  ("kernel/device/acpi/aml/obj_tree.go:ObjectTree.PrettyPrint", "e451574336152eb3");
  ("kernel/device/acpi/aml/obj_tree.go:ObjectTree.append", "f46f7112283a124d");
  ("kernel/device/acpi/aml/obj_tree.go:ObjectTree.appendAfter", "86aa1f5f7e648c18");
  ("kernel/device/acpi/aml/obj_tree.go:ObjectTree.detach", "1bb3d4fdd77b7a97");
  ("kernel/device/acpi/aml/obj_tree.go:ObjectTree.findRelative", "7636f36f21c78b82");
  ("kernel/device/acpi/aml/obj_tree.go:ObjectTree.free", "0754530f6117ea5e");
  ("kernel/device/acpi/aml/obj_tree.go:ObjectTree.methodArgCount", "92cd8af73f77cd82");
  ("kernel/device/acpi/aml/obj_tree.go:ObjectTree.newNamedObject", "96a90b4a5d271572");
  ("kernel/device/acpi/aml/obj_tree.go:ObjectTree.newObject", "d593a867160a9c1b");
  ("kernel/device/acpi/aml/obj_tree.go:ObjectTree.toString", "43a0539cf6d08e63");
  ("kernel/device/acpi/aml/obj_tree.go:hexToASCII", "d82d142e6261e5aa");
  ("kernel/device/acpi/aml/obj_tree.go:nameOf", "99142f9e32534d5d")
].

Theorem C13_source_pinned : pins_C13 = expected_pins_C13.
Proof. reflexivity. Qed.
Print Assumptions C13_source_pinned.
