(** Fingerprints of the source the C04 model was validated against (function by function, comments and
    formatting ignored; written by `bin/repin C04` after a thorough correspondence run). Gen/Pin_C04.v is
    regenerated from the current tree on every run; if a pinned function changed, this obligation no
    longer checks: the model is then no longer known to describe the code, and the check searches for
    a failing input (and reports no-failing-input-found if it finds none). *)
From Coq Require Import String List.
From FF Require Import Gen.Pin_C04.
Import ListNotations.
Local Open Scope string_scope.

Definition expected_pins_C04 : list (string * string) := [
  ("kernel/mem_util.go:<declarations>", "53f5592cd108866f");
  ("kernel/mem_util.go:Memcopy", "196461509d2cd071");
  ("kernel/mem_util.go:Memset", "f8b1d2241d553612");
  ("kernel/mm/page.go:<declarations>", "1688c28adaf4dfd2");
  ("kernel/mm/page.go:AllocFrame", "e4026a7b2cee5676");
  ("kernel/mm/page.go:Frame.Address", "92a80170c2d5f6fd");
  ("kernel/mm/page.go:Frame.Valid", "94145e68c181e141");
  ("kernel/mm/page.go:FrameFromAddress", "b62c3bf9dfe554af");
  ("kernel/mm/page.go:Page.Address", "9f435e8edfeab3f5");
  ("kernel/mm/page.go:PageFromAddress", "58db7f2ff4cc7dc1");
  ("kernel/mm/page.go:SetFrameAllocator", "748ba298cb0c5360");
  ("kernel/mm/vmm/map.go:<declarations>", "a805dd3a3fae0104");
  ("kernel/mm/vmm/map.go:IdentityMapRegion", "76953440c098a274");
  ("kernel/mm/vmm/map.go:Map", "be6bb6728f891755");
  ("kernel/mm/vmm/map.go:MapRegion", "5de2a303152ab389");
  ("kernel/mm/vmm/map.go:MapTemporary", "4c72dea929394cfa");
  ("kernel/mm/vmm/map.go:PageOffset", "2a3487d162d42e99");
  ("kernel/mm/vmm/map.go:Translate", "c3c29c29c44a5f33");
  ("kernel/mm/vmm/map.go:Unmap", "07a4eead1adc3f72");
  ("kernel/mm/vmm/pdt.go:<declarations>", "d5d55ae56ea5162c");
  ("kernel/mm/vmm/pdt.go:PageDirectoryTable.Activate", "25f452f75e452ce8");
  ("kernel/mm/vmm/pdt.go:PageDirectoryTable.Init", "8793a530bfdbb6ee");
  ("kernel/mm/vmm/pdt.go:PageDirectoryTable.Map", "2985a6c60f6b4bc1");
  ("kernel/mm/vmm/pdt.go:PageDirectoryTable.Unmap", "6e07a597a11b6ae9");
  ("kernel/mm/vmm/pdt.go:noEscape", "4cead97966735637");
  ("kernel/mm/vmm/pdt.go:pageTableEntry.ClearFlags", "e352d0ff1c05f2d4");
  ("kernel/mm/vmm/pdt.go:pageTableEntry.Frame", "79f0518c5c065e17");
  ("kernel/mm/vmm/pdt.go:pageTableEntry.HasAnyFlag", "d51225d48085f035");
  ("kernel/mm/vmm/pdt.go:pageTableEntry.HasFlags", "480bfe559d87c8c1");
  ("kernel/mm/vmm/pdt.go:pageTableEntry.SetFlags", "56d31d36d2544b99");
  ("kernel/mm/vmm/pdt.go:pageTableEntry.SetFrame", "3f04721e91d4e448");
  ("kernel/mm/vmm/pdt.go:pteForAddress", "c52658a64a207b57");
  ("kernel/mm/vmm/pdt.go:setupPDTForKernel", "8273ac7ce79fb606");
  ("kernel/mm/vmm/pdt.go:walk", "a9ead376aeecf26b");
  ("kernel/mm/vmm/vmm_constants_amd64.go:<declarations>", "c1aa8fe43ef0198f")
].

Theorem C04_source_pinned : pins_C04 = expected_pins_C04.
Proof. reflexivity. Qed.
Print Assumptions C04_source_pinned.
