(** Fingerprints of the source the C01 model was validated against (function by function, comments and
    formatting ignored; written by `bin/repin C01` after a thorough correspondence run). Gen/Pin_C01.v is
    regenerated from the current tree on every run; if a pinned function changed, this obligation no
    longer checks: the model is then no longer known to describe the code, and the check searches for
    a failing input (and reports no-failing-input-found if it finds none). *)
From Coq Require Import String List.
From FF Require Import Gen.Pin_C01.
Import ListNotations.
Local Open Scope string_scope.

Definition expected_pins_C01 : list (string * string) := [
  ("kernel/mem_util.go:Memset", "f8b1d2241d553612");
  ("kernel/mm/page.go:<declarations>", "1688c28adaf4dfd2");
  ("kernel/mm/page.go:AllocFrame", "e4026a7b2cee5676");
  ("kernel/mm/page.go:Frame.Address", "92a80170c2d5f6fd");
  ("kernel/mm/page.go:Frame.Valid", "94145e68c181e141");
  ("kernel/mm/page.go:FrameFromAddress", "b62c3bf9dfe554af");
  ("kernel/mm/page.go:Page.Address", "9f435e8edfeab3f5");
  ("kernel/mm/page.go:PageFromAddress", "58db7f2ff4cc7dc1");
  ("kernel/mm/page.go:SetFrameAllocator", "748ba298cb0c5360");
  ("kernel/mm/pmm/bitmap_allocator.go:<declarations>", "ff9f50b765daf4f4");
  ("kernel/mm/pmm/bitmap_allocator.go:BitmapAllocator.AllocFrame", "1cb89e109749503d");
  ("kernel/mm/pmm/bitmap_allocator.go:BitmapAllocator.FreeFrame", "eaf337b4aa77bc3c");
  ("kernel/mm/pmm/bitmap_allocator.go:BitmapAllocator.init", "95045239911a4b17");
  ("kernel/mm/pmm/bitmap_allocator.go:BitmapAllocator.markFrame", "a2d34ca4057d894a");
  ("kernel/mm/pmm/bitmap_allocator.go:BitmapAllocator.poolForFrame", "1d83339a94ee5ffa");
  ("kernel/mm/pmm/bitmap_allocator.go:BitmapAllocator.printStats", "2b32a2350fe3c5da");
  ("kernel/mm/pmm/bitmap_allocator.go:BitmapAllocator.reserveEarlyAllocatorFrames", "a023b6ce504fe847");
  ("kernel/mm/pmm/bitmap_allocator.go:BitmapAllocator.reserveKernelFrames", "9a935726827155a4");
  ("kernel/mm/pmm/bitmap_allocator.go:BitmapAllocator.setupPoolBitmaps", "59da382815a3ec0a");
  ("kernel/mm/pmm/bootmem_allocator.go:<declarations>", "72551aeac44810d2");
  ("kernel/mm/pmm/bootmem_allocator.go:BootMemAllocator.AllocFrame", "be679788e09e69c1");
  ("kernel/mm/pmm/bootmem_allocator.go:BootMemAllocator.init", "487f47c133fbf166");
  ("kernel/mm/pmm/bootmem_allocator.go:BootMemAllocator.printMemoryMap", "13c0f2f26bf8fcc1");
  ("kernel/mm/pmm/pmm.go:<declarations>", "eaf57c9259a24de0");
  ("kernel/mm/pmm/pmm.go:Init", "f358a52e4c33a679");
  ("kernel/mm/pmm/pmm.go:bitmapAllocFrame", "25f741ce0e00e026");
  ("kernel/mm/pmm/pmm.go:earlyAllocFrame", "9cf10c266021c1d2");
  ("kernel/multiboot/multiboot.go:VisitMemRegions", "ef3b8903087df4ce");
  ("kernel/multiboot/multiboot.go:findTagByType", "caef80e9225eff5e")
].

Theorem C01_source_pinned : pins_C01 = expected_pins_C01.
Proof. reflexivity. Qed.
Print Assumptions C01_source_pinned.
