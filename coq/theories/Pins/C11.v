(** Fingerprints of the source the C11 model was validated against (function by function, comments and
    formatting ignored; written by `bin/repin C11` after a thorough correspondence run). Gen/Pin_C11.v is
    regenerated from the current tree on every run; if a pinned function changed, this obligation no
    longer checks: the model is then no longer known to describe the code, and the check searches for
    a failing input (and reports no-failing-input-found if it finds none). *)
From Coq Require Import String List.
From FF Require Import Gen.Pin_C11.
Import ListNotations.
Local Open Scope string_scope.

Definition expected_pins_C11 : list (string * string) := [
  ("kernel/device/acpi/aml/obj_tree.go:<declarations>", "8ae11ab8f3289920");
  ("kernel/device/acpi/aml/obj_tree.go:NewObjectTree", "570d10814e4a3d8b");
  ("kernel/device/acpi/aml/obj_tree.go:ObjectTree.ArgAt", "b77ae553ea32706d");
  ("kernel/device/acpi/aml/obj_tree.go:ObjectTree.ClosestNamedAncestor", "26f2a377de181a1d");
  ("kernel/device/acpi/aml/obj_tree.go:ObjectTree.CreateDefaultScopes", "66ab7465fa2e1055");
  ("kernel/device/acpi/aml/obj_tree.go:ObjectTree.Find", "867dad31cd39e3e0");
  ("kernel/device/acpi/aml/obj_tree.go:ObjectTree.NumArgs", "1ece75421295097d");
  ("kernel/device/acpi/aml/obj_tree.go:ObjectTree.ObjectAt", "9668f627d25cc013");
  ("kernel/device/acpi/aml/obj_tree.go:ObjectTree.PrettyPrint", "e451574336152eb3");
  ("kernel/device/acpi/aml/obj_tree.go:ObjectTree.append", "f46f7112283a124d");
  ("kernel/device/acpi/aml/obj_tree.go:ObjectTree.appendAfter", "86aa1f5f7e648c18");
  ("kernel/device/acpi/aml/obj_tree.go:ObjectTree.detach", "1bb3d4fdd77b7a97");
  ("kernel/device/acpi/aml/obj_tree.go:ObjectTree.findRelative", "7636f36f21c78b82");
  ("kernel/device/acpi/aml/obj_tree.go:ObjectTree.free", "0754530f6117ea5e");
  ("kernel/device/acpi/aml/obj_tree.go:ObjectTree.methodArgCount", "92cd8af73f77cd82");
  ("kernel/device/acpi/aml/obj_tree.go:ObjectTree.newNamedObject", "96a90b4a5d271572");
  ("kernel/device/acpi/aml/obj_tree.go:ObjectTree.newObject", "d593a867160a9c1b");
  ("kernel/device/acpi/aml/obj_tree.go:ObjectTree.toString", "43a0539cf6d08e63");
  ("kernel/device/acpi/aml/obj_tree.go:hexToASCII", "d82d142e6261e5aa");
  ("kernel/device/acpi/aml/obj_tree.go:nameOf", "99142f9e32534d5d");
  ("kernel/device/acpi/aml/parser.go:<declarations>", "1ee9046108269342");
  ("kernel/device/acpi/aml/parser.go:NewParser", "935dd891f4388338");
  ("kernel/device/acpi/aml/parser.go:Parser.ParseAML", "73e7d3047e588015");
  ("kernel/device/acpi/aml/parser.go:Parser.attachSiblingsAsArgs", "c4b120338b3178d8");
  ("kernel/device/acpi/aml/parser.go:Parser.connectNamedObjArgs", "4b47436e33c43032");
  ("kernel/device/acpi/aml/parser.go:Parser.connectNonNamedObjArg", "39129945745ac998");
  ("kernel/device/acpi/aml/parser.go:Parser.connectNonNamedObjArgs", "95849e20072be16c");
  ("kernel/device/acpi/aml/parser.go:Parser.init", "bde068dfa918e8f3");
  ("kernel/device/acpi/aml/parser.go:Parser.mergeScopeDirectives", "752dfb887e69fcc9");
  ("kernel/device/acpi/aml/parser.go:Parser.nextOpcode", "cc89caceba42a521");
  ("kernel/device/acpi/aml/parser.go:Parser.parseArg", "91b02be1ea59f576");
  ("kernel/device/acpi/aml/parser.go:Parser.parseArgs", "6ea265080256590b");
  ("kernel/device/acpi/aml/parser.go:Parser.parseByteList", "6d0ec6f201db2842");
  ("kernel/device/acpi/aml/parser.go:Parser.parseDeferredBlocks", "67a9cd707250c1cc");
  ("kernel/device/acpi/aml/parser.go:Parser.parseFieldElements", "78c8875bd00a37c5");
  ("kernel/device/acpi/aml/parser.go:Parser.parseNamePathOrMethodCall", "c07a431b0ff938b3");
  ("kernel/device/acpi/aml/parser.go:Parser.parseNameString", "d7e724be131a7c63");
  ("kernel/device/acpi/aml/parser.go:Parser.parseNextObject", "3fbb1103d0124257");
  ("kernel/device/acpi/aml/parser.go:Parser.parseNumConstant", "518b21d29b702e16");
  ("kernel/device/acpi/aml/parser.go:Parser.parseObjectArgs", "1daf2fa7c646af5a");
  ("kernel/device/acpi/aml/parser.go:Parser.parseObjectList", "ae1405af5af0da9a");
  ("kernel/device/acpi/aml/parser.go:Parser.parsePkgLength", "c8f75243bc570dfc");
  ("kernel/device/acpi/aml/parser.go:Parser.parseSimpleArg", "d7ac463976b965f1");
  ("kernel/device/acpi/aml/parser.go:Parser.parseStrictTermArg", "26869292c83ee471");
  ("kernel/device/acpi/aml/parser.go:Parser.parseString", "4a6dc0105107abf3");
  ("kernel/device/acpi/aml/parser.go:Parser.parseTarget", "c5ea3a4978243832");
  ("kernel/device/acpi/aml/parser.go:Parser.peekNextOpcode", "2933adff38a6600b");
  ("kernel/device/acpi/aml/parser.go:Parser.popPkgEnd", "80222b12ac55ef18");
  ("kernel/device/acpi/aml/parser.go:Parser.pushPkgEnd", "a8f545c257f3494f");
  ("kernel/device/acpi/aml/parser.go:Parser.relocateNamedObjects", "b227f879ddf2a355");
  ("kernel/device/acpi/aml/parser.go:Parser.resetState", "ad87f5d45d7fe0f8");
  ("kernel/device/acpi/aml/parser.go:Parser.resolveMethodCalls", "d92df5bc206153ef");
  ("kernel/device/acpi/aml/parser.go:Parser.scopeCurrent", "cf686c6bcae8617c");
  ("kernel/device/acpi/aml/parser.go:Parser.scopeEnter", "41152332a6eda701");
  ("kernel/device/acpi/aml/parser.go:Parser.scopeExit", "46db645f6109b097");
  ("kernel/device/acpi/aml/parser_opcode_table.go:<declarations>", "b025ee9b091d0da2");
  ("kernel/device/acpi/aml/parser_opcode_table.go:makeArg0", "4660ceae984574c5");
  ("kernel/device/acpi/aml/parser_opcode_table.go:makeArg1", "96e74b028bba4ac7");
  ("kernel/device/acpi/aml/parser_opcode_table.go:makeArg2", "7e9f22cf640a0b6e");
  ("kernel/device/acpi/aml/parser_opcode_table.go:makeArg3", "0c0a1e99e342501a");
  ("kernel/device/acpi/aml/parser_opcode_table.go:makeArg4", "3a335c4978084aa8");
  ("kernel/device/acpi/aml/parser_opcode_table.go:makeArg5", "4e5f4be1ba6f99f5");
  ("kernel/device/acpi/aml/parser_opcode_table.go:makeArg6", "f79fa958b21da5f9");
  ("kernel/device/acpi/aml/parser_opcode_table.go:makeArg7", "151916a22f1d1a46");
  ("kernel/device/acpi/aml/parser_opcode_table.go:pOpArgTypeList.arg", "e6ab0fd95c446311");
  ("kernel/device/acpi/aml/parser_opcode_table.go:pOpArgTypeList.argCount", "3c7e909d40922185");
  ("kernel/device/acpi/aml/parser_opcode_table.go:pOpIsArg", "4c6c305b4ee38949");
  ("kernel/device/acpi/aml/parser_opcode_table.go:pOpIsDataObject", "cea9dbf781a02313");
  ("kernel/device/acpi/aml/parser_opcode_table.go:pOpIsLocalArg", "b69f5892aadb818d");
  ("kernel/device/acpi/aml/parser_opcode_table.go:pOpIsMethodArg", "7cfd35cdb1267d8c");
  ("kernel/device/acpi/aml/parser_opcode_table.go:pOpIsType2", "aa10f029f72d8136");
  ("kernel/device/acpi/aml/parser_opcode_table.go:pOpcodeName", "f4a16274bf78c459");
  ("kernel/device/acpi/aml/parser_opcode_table.go:pOpcodeTableIndex", "344d330ead94edb8");
  ("kernel/device/acpi/aml/stream_reader.go:<declarations>", "3eb9e90ab8d3b0a0");
  ("kernel/device/acpi/aml/stream_reader.go:amlStreamReader.DataPtr", "a5ce7e9a62e1c48e");
  ("kernel/device/acpi/aml/stream_reader.go:amlStreamReader.EOF", "da34afdaf9a1c538");
  ("kernel/device/acpi/aml/stream_reader.go:amlStreamReader.Init", "2b27538623a2024a");
  ("kernel/device/acpi/aml/stream_reader.go:amlStreamReader.LastByte", "f2189c95524a6498");
  ("kernel/device/acpi/aml/stream_reader.go:amlStreamReader.Offset", "28c9a0d9cfccdd79");
  ("kernel/device/acpi/aml/stream_reader.go:amlStreamReader.PeekByte", "94a44aa4f0ba698b");
  ("kernel/device/acpi/aml/stream_reader.go:amlStreamReader.ReadByte", "c1301bebf22b9f7e");
  ("kernel/device/acpi/aml/stream_reader.go:amlStreamReader.SetOffset", "e1ad6b35e6b2581d");
  ("kernel/device/acpi/aml/stream_reader.go:amlStreamReader.SetPkgEnd", "2359c7d95a33c49f");
  ("kernel/device/acpi/aml/stream_reader.go:amlStreamReader.UnreadByte", "df67b56402d7f37f")
].

Theorem C11_source_pinned : pins_C11 = expected_pins_C11.
Proof. reflexivity. Qed.
Print Assumptions C11_source_pinned.
