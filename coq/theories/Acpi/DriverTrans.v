(** The hand-written model of the ACPI driver (Acpi/Model.v: [validTable], [locateRSDT], ... - the functions the C14
    theorems are about) IS the Gallina translation that gen/gotrans regenerates from kernel/device/acpi/acpi.go on every
    run (Gen/Trans_acpi_driver.v; config gen/gotrans/acpi_driver.json, feature "acpi" of gen/gotrans/ext_acpi.go).

    The translation reads memory through an oracle [ld : bytes -> address -> option value]; [ld_of m] is the oracle of the
    model's firmware memory [m] (a partial map address -> byte): a little-endian read of consecutive bytes, [None] when a
    byte is missing - the translated code then reports GPanic where the model says [Fault a] / [PStray a].
    Struct fields are loads at the offsets the Go compiler gives (Gen/Consts_device_acpi.v).  The seams mapFn / unmapFn
    are calls recorded on the trace of the synthetic record [world]; what mapFn returns is an oracle on the trace. *)
From Coq Require Import NArith ZArith Lia List Bool String.
From Coq Require Import ZifyBool ZifyN ZifyNat.
From FF Require Import Lib.Word Lib.GoOps Lib.GoOpsProofs Lib.GoStruct Gen.Consts_device_acpi Acpi.TransEnv Gen.Trans_acpi_driver.
From FF Require Import Acpi.Model Acpi.Spec Acpi.BytesProofs Acpi.ProbeProofs.
Import ListNotations.
Local Open Scope N_scope.
Ltac Zify.zify_post_hook ::= Z.div_mod_to_equations.

(** ---- the memory oracle of a firmware image ---- *)
Definition ld_of (m : mem) (n a : N) : option N :=
  match rdle m a (N.to_nat n) with Got v => Some v | Fault _ => None end.

Lemma gw8_w8 x : gw 8 x = w8 x.
Proof. reflexivity. Qed.

Lemma gw32_w32 x : gw 32 x = w32 x.
Proof. reflexivity. Qed.

Lemma gload1 m a : gload (ld_of m) 1 a = match m a with Some b => Some (w8 b) | None => None end.
Proof.
  unfold gload, ld_of. change (N.to_nat 1) with 1%nat. cbn [rdle].
  destruct (m a) as [b|]; [|reflexivity]. f_equal. change (8 * 1) with 8. rewrite gw8_w8. f_equal. lia.
Qed.

(** a read of [n] bytes returns a value below 256^n *)
Lemma rdle_lt m : bytes_ok m -> forall n a v, rdle m a n = Got v -> v < 256 ^ N.of_nat n.
Proof.
  intros Hok n a v H. apply rdle_spec in H. destruct H as (bs & Hl & Hb & ->).
  rewrite <- Hl. eapply le_bytes_lt; eauto.
Qed.

Lemma gload_rdle m : bytes_ok m -> forall n a,
  gload (ld_of m) n a = match rdle m a (N.to_nat n) with Got v => Some v | Fault _ => None end.
Proof.
  intros Hok n a. unfold gload, ld_of. destruct (rdle m a (N.to_nat n)) as [v|x] eqn:E; [|reflexivity].
  f_equal. unfold gw. apply N.mod_small. pose proof (rdle_lt m Hok _ _ _ E) as Hv.
  rewrite N2Nat.id in Hv. replace (2 ^ (8 * n)) with (256 ^ n); [exact Hv|].
  change 256 with (2 ^ 8). rewrite <- N.pow_mul_r. reflexivity.
Qed.

(** ---- model loops ([iter_N]) against translated loops ([gloop]) ---- *)
Definition fin {G Rr : Type} (x : gres (gctl G Rr)) : option (gres (G + Rr)) :=
  match x with
  | GOk (GNext _) => None
  | GOk (GBreak g') => Some (GOk (inl g'))
  | GOk (GRet r) => Some (GOk (inr r))
  | GPanic => Some GPanic
  | GFuel => Some GFuel
  end.

Lemma gloop_fin {G Rr} (gstep : G -> gres (gctl G Rr)) g res f :
  fin (gstep g) = Some res -> gloop (S f) gstep g = res.
Proof.
  cbn [gloop]. destruct (gstep g) as [[g'|g'|r]| |]; cbn [fin]; intros H; inversion H; reflexivity.
Qed.

Lemma gloop_next {G Rr} (gstep : G -> gres (gctl G Rr)) g g' f :
  gstep g = GOk (GNext g') -> gloop (S f) gstep g = gloop f gstep g'.
Proof. cbn [gloop]. intros ->. reflexivity. Qed.

Section Sim.
  Context {S E G Rr : Type} (step : S -> S + E) (gstep : G -> gres (gctl G Rr)).
  Variable Rel : N -> S -> G -> Prop.
  Variable Q : E -> gres (G + Rr) -> Prop.
  Variable n0 : N.
  Hypothesis Hstep : forall k s g, k < n0 -> Rel k s g ->
    match step s with
    | inl s' => exists g', gstep g = GOk (GNext g') /\ Rel (k + 1) s' g'
    | inr e => exists res, fin (gstep g) = Some res /\ Q e res
    end.

  Lemma iter_gloop : forall n k s g fuel, k + n <= n0 -> Rel k s g -> (N.to_nat n <= fuel)%nat ->
    match iter_N step n s with
    | inl s' => exists g', Rel (k + n) s' g' /\ gloop fuel gstep g = gloop (fuel - N.to_nat n) gstep g'
    | inr e => Q e (gloop fuel gstep g)
    end.
  Proof.
    induction n as [|n IH] using N.peano_ind; intros k s g fuel Hk HR Hf.
    - rewrite iter_N_0. exists g. split; [rewrite N.add_0_r; exact HR|]. f_equal. cbn. lia.
    - rewrite iter_N_succ. destruct fuel as [|fuel]; [lia|].
      pose proof (Hstep k s g ltac:(lia) HR) as Hs.
      destruct (step s) as [s'|e]; cbn [bindS].
      + destruct Hs as (g' & Hg & HR'). rewrite (gloop_next _ _ _ _ Hg).
        specialize (IH (k + 1) s' g' fuel ltac:(lia) HR' ltac:(lia)).
        destruct (iter_N step n s') as [s''|e].
        * destruct IH as (g'' & HR'' & Hl). exists g''. split.
          -- replace (k + N.succ n) with (k + 1 + n) by lia. exact HR''.
          -- rewrite Hl. f_equal. lia.
        * exact IH.
      + destruct Hs as (res & Hfin & HQ). rewrite (gloop_fin _ _ _ _ Hfin). exact HQ.
  Qed.
End Sim.

(** ---- validTable ---- *)
Theorem validTable_is_translation : forall (m : mem) (tr0 : list gcall) (ptr len : N) (fuel : nat),
  ptr < two64 -> len < two32 -> (N.to_nat len < fuel)%nat ->
  go_acpi_validTable fuel (mk_go_acpi_world tr0) ptr len (ld_of m) =
  match validTable m ptr len with
  | Got b => GOk (mk_go_acpi_world tr0, b)
  | Fault _ => GPanic
  end.
Proof.
  intros m tr0 ptr len fuel Hp Hl Hf. unfold go_acpi_validTable, validTable.
  set (w := mk_go_acpi_world tr0).
  match goal with |- context [gloop ?fu ?f ?i] => set (gstep := f) end.
  pose (Rel := fun (k : N) (s : N * N) (g : go_acpi_world * N * N) =>
                 g = (w, k, snd s) /\ fst s = w64 (ptr + k)).
  pose (Q := fun (_ : N) (r : gres (go_acpi_world * N * N + go_acpi_world * bool)) => r = GPanic).
  assert (Hstep : forall k s g, k < len -> Rel k s g ->
    match sum_step m s with
    | inl s' => exists g', gstep g = GOk (GNext g') /\ Rel (k + 1) s' g'
    | inr e => exists res, fin (gstep g) = Some res /\ Q e res
    end).
  { intros k [a s] g Hk [-> Ha]. cbn [fst snd] in *. unfold sum_step, gstep. cbv beta iota.
    destruct (N.ltb_spec k len) as [_|]; [|lia].
    assert (Ek : gw 64 k = k) by (apply gw64_small; unfold two64, two32 in *; lia).
    rewrite Ek. change (gw 64 (ptr + k)) with (w64 (ptr + k)). rewrite <- Ha, gload1.
    destruct (m a) as [b|].
    - eexists. split; [reflexivity|]. split.
      + cbn [snd]. f_equal; [f_equal|].
        * rewrite gw32_w32. apply w32_small. lia.
        * rewrite gw8_w8. unfold w8, two8. rewrite N.add_mod_idemp_r by discriminate. reflexivity.
      + cbn [fst]. rewrite Ha. apply w64_add_add.
    - eexists. split; [reflexivity|]. reflexivity. }
  pose proof (iter_gloop (sum_step m) gstep Rel Q len Hstep len 0 (ptr, 0) (w, gw 32 0, 0) fuel
                ltac:(lia) ltac:(split; [reflexivity|cbn [fst]; rewrite N.add_0_r, w64_small by exact Hp; reflexivity])
                ltac:(lia)) as H.
  destruct (iter_N (sum_step m) len (ptr, 0)) as [[a s]|e].
  - destruct H as (g' & [-> _] & ->). cbn [snd].
    destruct (fuel - N.to_nat len)%nat as [|f] eqn:Ef; [lia|].
    rewrite (gloop_fin gstep _ (GOk (inl (w, 0 + len, s)))).
    + reflexivity.
    + unfold gstep. destruct (N.ltb_spec (0 + len) len); [lia|]. reflexivity.
  - unfold Q in H. rewrite H. reflexivity.
Qed.

(** ---- locateRSDT: the translated loops in structured form ---- *)
Definition Rres : Type := (go_acpi_world * (N * bool * option string))%type.
Definition W (tr : list gcall) : go_acpi_world := mk_go_acpi_world tr.

(** [for i, b := range rsdpSignature { if rsdp.Signature[i] != b { continue checkNextBlock } }]
    (the labelled continue is `flag = true; break`, see gen/gotrans/ext_acpi.go) *)
Definition sig_gstep (ld : N -> N -> option N) (rsdp : N)
  : go_acpi_world * bool * N -> gres (gctl (go_acpi_world * bool * N) Rres) :=
  fun st => let '(v_world, flag, rng) := st in
  if rng <? glen acpi_rsdpSignature then
    match gidx acpi_rsdpSignature rng with None => GPanic | Some t1 =>
    match gfldidx ld 8 rsdp acpi_off_RSDP_Signature rng with None => GPanic | Some t2 =>
      if negb (t2 =? t1) then GOk (GBreak (v_world, true, rng))
      else GOk (GNext (v_world, flag, rng + 1)) end end
  else GOk (GBreak (v_world, flag, rng)).

(** body of [for curPtr := rsdpLocationLow; curPtr < rsdpLocationHi; curPtr += rsdpAlignment] *)
Definition scan_gstep (fuel : nat) (ld : N -> N -> option N) (align hi : N)
  : go_acpi_world * N * N * N -> gres (gctl (go_acpi_world * N * N * N) Rres) :=
  fun st => let '(v_world, v_curPtr, v_rsdp, v_rsdp2) := st in
  if v_curPtr <? hi then
    let v_rsdp := v_curPtr in
    match gloop fuel (sig_gstep ld v_rsdp) (v_world, false, 0) with
    | GPanic => GPanic | GFuel => GFuel
    | GOk (inr r) => GOk (GRet r)
    | GOk (inl st) => let '(v_world, flag, _) := st in
      if flag then GOk (GNext (v_world, gw 64 (v_curPtr + align), v_rsdp, v_rsdp2))
      else
      match gfld ld 1 v_rsdp acpi_off_RSDP_Revision with None => GPanic | Some t3 =>
      if t3 =? acpi_acpiRev1 then
        match go_acpi_validTable fuel v_world v_curPtr (gw 32 acpi_sizeof_RSDPDescriptor) ld with
        | GPanic => GPanic | GFuel => GFuel
        | GOk (v_world, t4) =>
          if negb t4 then GOk (GNext (v_world, gw 64 (v_curPtr + align), v_rsdp, v_rsdp2))
          else match gfld ld 4 v_rsdp acpi_off_RSDP_RSDTAddr with None => GPanic | Some t5 =>
               GOk (GRet (v_world, (gw 64 t5, false, None))) end
        end
      else
        let v_rsdp2 := v_curPtr in
        match go_acpi_validTable fuel v_world v_curPtr acpi_extRSDPLength ld with
        | GPanic => GPanic | GFuel => GFuel
        | GOk (v_world, t6) =>
          if negb t6 then GOk (GNext (v_world, gw 64 (v_curPtr + align), v_rsdp, v_rsdp2))
          else match gfld ld 8 v_rsdp2 acpi_off_ExtRSDP_XSDTAddr with None => GPanic | Some t7 =>
               GOk (GRet (v_world, (gw 64 t7, true, None))) end
        end
      end
    end
  else GOk (GBreak (v_world, v_curPtr, v_rsdp, v_rsdp2)).

(** body of the loop that identity-maps the search window page by page *)
Definition map_gstep (hi : N) (o_mapFn : list gcall -> option string)
  : go_acpi_world * N -> gres (gctl (go_acpi_world * N) Rres) :=
  fun st => let '(v_world, v_curPage) := st in
  if v_curPage <=? go_mm_PageFromAddress hi then
    let v_world := set_f_world_trace v_world
      (GCall "mapFn" [GNum v_curPage; GNum (gw 64 v_curPage); GNum acpi_vmm_FlagPresent] :: f_world_trace v_world) in
    let v_err := o_mapFn (f_world_trace v_world) in
    if negb (gerr_eqb v_err None) then GOk (GRet (v_world, (gw 64 0, false, v_err)))
    else GOk (GNext (v_world, gw 64 (v_curPage + 1)))
  else GOk (GBreak (v_world, v_curPage)).

(** body of the deferred loop that unmaps the window again *)
Definition unmap_gstep (hi : N) : go_acpi_world * N -> gres (gctl (go_acpi_world * N) (go_acpi_world * unit)) :=
  fun st => let '(v_world, v_curPage) := st in
  if v_curPage <=? go_mm_PageFromAddress hi then
    let v_world := set_f_world_trace v_world (GCall "unmapFn" [GNum v_curPage] :: f_world_trace v_world) in
    GOk (GNext (v_world, gw 64 (v_curPage + 1)))
  else GOk (GBreak (v_world, v_curPage)).

Definition body_form (fuel : nat) (w : go_acpi_world) (ld : N -> N -> option N) (align hi low : N)
  (o_mapFn : list gcall -> option string) : gres Rres :=
  match gloop fuel (map_gstep hi o_mapFn) (w, go_mm_PageFromAddress low) with
  | GPanic => GPanic | GFuel => GFuel
  | GOk (inr r) => GOk r
  | GOk (inl st) => let '(v_world, _) := st in
    match gloop fuel (scan_gstep fuel ld align hi) (v_world, low, 0, 0) with
    | GPanic => GPanic | GFuel => GFuel
    | GOk (inr r) => GOk r
    | GOk (inl st) => let '(v_world, _, _, _) := st in
      GOk (v_world, (gw 64 0, false, Some "errMissingRSDP"%string))
    end
  end.

(** the regenerated functions ARE these forms (checked by conversion: any change of the generated text that is not
    a renaming breaks this lemma) *)
Lemma body_unfold fuel w ld align hi low o :
  go_acpi_locateRSDT_body fuel w ld align hi low o = body_form fuel w ld align hi low o.
Proof. reflexivity. Qed.

Lemma deferred_unfold fuel w hi low :
  go_acpi_locateRSDT_deferred fuel w hi low =
  match gloop fuel (unmap_gstep hi) (w, go_mm_PageFromAddress low) with
  | GPanic => GPanic | GFuel => GFuel
  | GOk (inr r) => GOk r
  | GOk (inl st) => let '(v_world, _) := st in GOk (v_world, tt)
  end.
Proof. reflexivity. Qed.

Lemma locate_unfold fuel w ld align hi low o :
  go_acpi_locateRSDT fuel w ld align hi low o =
  match go_acpi_locateRSDT_body fuel w ld align hi low o with
  | GPanic => GPanic | GFuel => GFuel
  | GOk (w1, (a, b, c)) =>
    match go_acpi_locateRSDT_deferred fuel w1 hi low with
    | GPanic => GPanic | GFuel => GFuel
    | GOk (w2, _) => GOk (w2, (a, b, c))
    end
  end.
Proof. reflexivity. Qed.

(** ---- the signature loop = [sig_match] ---- *)
Lemma skipn_cons_nth {A} : forall (l : list A) j c r, skipn j l = c :: r -> nth_error l j = Some c /\ skipn (S j) l = r.
Proof.
  induction l as [|x l IH]; intros j c r H.
  - destruct j; discriminate.
  - destruct j as [|j]; cbn [skipn nth_error] in *.
    + inversion H; subst. split; reflexivity.
    + apply IH. exact H.
Qed.

Lemma w8_byte m : bytes_ok m -> forall a b, m a = Some b -> w8 b = b.
Proof. intros Hok a b H. unfold w8, two8. apply N.mod_small. exact (Hok a b H). Qed.

Lemma sig_loop m w cur : bytes_ok m ->
  forall rest j flag fuel, skipn j acpi_rsdpSignature = rest -> (j + List.length rest = 8)%nat -> (List.length rest < fuel)%nat ->
  match sig_match m (w64 (w64 (cur + acpi_off_RSDP_Signature) + N.of_nat j)) rest with
  | Got true => gloop fuel (sig_gstep (ld_of m) cur) (w, flag, N.of_nat j) = GOk (inl (w, flag, 8))
  | Got false => exists j', gloop fuel (sig_gstep (ld_of m) cur) (w, flag, N.of_nat j) = GOk (inl (w, true, j'))
  | Fault _ => gloop fuel (sig_gstep (ld_of m) cur) (w, flag, N.of_nat j) = GPanic
  end.
Proof.
  intros Hok rest. induction rest as [|c rest IH]; intros j flag fuel Hs Hj Hf.
  - cbn [sig_match]. destruct fuel as [|f]; [cbn in Hf; lia|].
    cbn [List.length] in Hj. replace j with 8%nat by lia.
    apply gloop_fin. reflexivity.
  - cbn [sig_match List.length] in *. destruct fuel as [|f]; [lia|].
    destruct (skipn_cons_nth _ _ _ _ Hs) as [Hn Hs'].
    set (a := w64 (w64 (cur + acpi_off_RSDP_Signature) + N.of_nat j)).
    assert (Hstep : sig_gstep (ld_of m) cur (w, flag, N.of_nat j) =
              match m a with
              | None => GPanic
              | Some b => if negb (w8 b =? c) then GOk (GBreak (w, true, N.of_nat j))
                          else GOk (GNext (w, flag, N.of_nat j + 1))
              end).
    { unfold sig_gstep. change (glen acpi_rsdpSignature) with 8.
      destruct (N.ltb_spec (N.of_nat j) 8) as [_|]; [|lia].
      unfold gidx. rewrite Nat2N.id, Hn. unfold gfldidx, gisneg.
      destruct (N.leb_spec (2 ^ (64 - 1)) (N.of_nat j)) as [Hbig|_].
      { exfalso. change (2 ^ (64 - 1)) with 9223372036854775808 in Hbig. lia. }
      destruct (N.ltb_spec (N.of_nat j) 8) as [_|]; [|lia].
      change (gw 64 (gw 64 (cur + acpi_off_RSDP_Signature) + N.of_nat j)) with a.
      rewrite gload1. destruct (m a); reflexivity. }
    assert (Ha' : w64 (a + 1) = w64 (w64 (cur + acpi_off_RSDP_Signature) + N.of_nat (S j))).
    { unfold a. rewrite w64_add_add. f_equal. lia. }
    destruct (m a) as [b|] eqn:Hm.
    + rewrite (w8_byte m Hok a b Hm) in Hstep.
      destruct (N.eqb_spec b c) as [->|Hne]; cbn [negb] in Hstep.
      * rewrite (gloop_next _ _ _ _ Hstep). rewrite Ha'.
        replace (N.of_nat j + 1) with (N.of_nat (S j)) by lia.
        apply IH; [exact Hs'|lia|lia].
      * exists (N.of_nat j). apply gloop_fin. rewrite Hstep. reflexivity.
    + apply gloop_fin. rewrite Hstep. reflexivity.
Qed.

(** ---- one slot of the scan = [check_slot] ---- *)
Lemma gfld_rdle m : bytes_ok m -> forall n p off,
  gfld (ld_of m) n p off = match rdle m (w64 (p + off)) (N.to_nat n) with Got v => Some v | Fault _ => None end.
Proof. intros Hok n p off. unfold gfld. rewrite gload_rdle by exact Hok. reflexivity. Qed.

Lemma gfld1 m p off : gfld (ld_of m) 1 p off = match m (w64 (p + off)) with Some b => Some (w8 b) | None => None end.
Proof. unfold gfld. rewrite gload1. reflexivity. Qed.

Definition slot_fuel : N := 8 + acpi_sizeof_RSDPDescriptor + acpi_extRSDPLength.

Lemma slot_is_translation m tr cur r r2 align hi fuel : bytes_ok m -> cur < two64 -> cur < hi ->
  (N.to_nat slot_fuel < fuel)%nat ->
  match check_slot m cur with
  | SAccept p x => scan_gstep fuel (ld_of m) align hi (W tr, cur, r, r2) = GOk (GRet (W tr, (p, x, None)))
  | SReject => exists r' r2', scan_gstep fuel (ld_of m) align hi (W tr, cur, r, r2) =
                              GOk (GNext (W tr, w64 (cur + align), r', r2'))
  | SStray _ => scan_gstep fuel (ld_of m) align hi (W tr, cur, r, r2) = GPanic
  end.
Proof.
  intros Hok Hc Hlt Hf. unfold slot_fuel in Hf.
  assert (Hf8 : (8 < fuel)%nat) by lia.
  assert (Hf20 : (N.to_nat acpi_sizeof_RSDPDescriptor < fuel)%nat) by lia.
  assert (Hf36 : (N.to_nat acpi_extRSDPLength < fuel)%nat) by lia.
  unfold scan_gstep, check_slot. cbv beta iota zeta.
  destruct (N.ltb_spec cur hi) as [_|]; [|lia].
  pose proof (sig_loop m (W tr) cur Hok acpi_rsdpSignature 0 false fuel eq_refl eq_refl Hf8) as Hsig.
  change (N.of_nat 0) with 0 in Hsig.
  replace (w64 (w64 (cur + acpi_off_RSDP_Signature) + 0)) with (w64 (cur + acpi_off_RSDP_Signature)) in Hsig
    by (rewrite w64_add_add; f_equal; lia).
  destruct (sig_match m (w64 (cur + acpi_off_RSDP_Signature)) acpi_rsdpSignature) as [[|]|x].
  2:{ destruct Hsig as (j' & ->). cbv beta iota. eexists _, _. reflexivity. }
  2:{ rewrite Hsig. reflexivity. }
  rewrite Hsig. cbv beta iota. rewrite gfld1. unfold rd8.
  destruct (m (w64 (cur + acpi_off_RSDP_Revision))) as [rev|] eqn:Hrev; [|reflexivity].
  rewrite (w8_byte m Hok _ _ Hrev).
  destruct (rev =? acpi_acpiRev1).
  - change (gw 32 acpi_sizeof_RSDPDescriptor) with acpi_sizeof_RSDPDescriptor.
    unfold W. rewrite validTable_is_translation by (try exact Hc; try exact Hf20; reflexivity).
    destruct (validTable m cur acpi_sizeof_RSDPDescriptor) as [[|]|x]; cbn [negb].
    + rewrite gfld_rdle by exact Hok. change (N.to_nat 4) with (N.to_nat acpi_sizeof_RSDP_RSDTAddr).
      destruct (rdle m (w64 (cur + acpi_off_RSDP_RSDTAddr)) (N.to_nat acpi_sizeof_RSDP_RSDTAddr)) as [p|x] eqn:Hp; [|reflexivity].
      rewrite gw64_small; [reflexivity|].
      pose proof (rdle_lt m Hok _ _ _ Hp) as Hv. rewrite N2Nat.id in Hv.
      change (256 ^ acpi_sizeof_RSDP_RSDTAddr) with 4294967296 in Hv. unfold two64. lia.
    + eexists _, _. rewrite gw64. reflexivity.
    + reflexivity.
  - unfold W. rewrite validTable_is_translation by (try exact Hc; try exact Hf36; reflexivity).
    destruct (validTable m cur acpi_extRSDPLength) as [[|]|x]; cbn [negb].
    + rewrite gfld_rdle by exact Hok. change (N.to_nat 8) with (N.to_nat acpi_sizeof_ExtRSDP_XSDTAddr).
      destruct (rdle m (w64 (cur + acpi_off_ExtRSDP_XSDTAddr)) (N.to_nat acpi_sizeof_ExtRSDP_XSDTAddr)) as [p|x] eqn:Hp; [|reflexivity].
      rewrite gw64_small; [reflexivity|].
      pose proof (rdle_lt m Hok _ _ _ Hp) as Hv. rewrite N2Nat.id in Hv. exact Hv.
    + eexists _, _. rewrite gw64. reflexivity.
    + reflexivity.
Qed.

(** ---- the scan loop = [scan] ---- *)
Lemma scan_is_translation m tr low hi align fuel : bytes_ok m -> low < two64 -> 0 < align -> hi + align <= two64 ->
  (N.to_nat ((hi - low) / align + 2) <= fuel)%nat -> (N.to_nat slot_fuel < fuel)%nat ->
  match scan m low hi align with
  | PFound p x => gloop fuel (scan_gstep fuel (ld_of m) align hi) (W tr, low, 0, 0) = GOk (inr (W tr, (p, x, None)))
  | PMissing => exists c r r2, gloop fuel (scan_gstep fuel (ld_of m) align hi) (W tr, low, 0, 0) = GOk (inl (W tr, c, r, r2))
  | PStray _ => gloop fuel (scan_gstep fuel (ld_of m) align hi) (W tr, low, 0, 0) = GPanic
  | PMapErr | PFuel => False
  end.
Proof.
  intros Hok Hlow Hal Hhi Hf Hsf.
  set (gstep := scan_gstep fuel (ld_of m) align hi).
  pose (Rel := fun (_ : N) (cur : N) (g : go_acpi_world * N * N * N) =>
                 cur < two64 /\ exists r r2, g = (W tr, cur, r, r2)).
  pose (Q := fun (e : probe_res) (res : gres (go_acpi_world * N * N * N + Rres)) =>
               match e with
               | PFound p x => res = GOk (inr (W tr, (p, x, None)))
               | PMissing => exists c r r2, res = GOk (inl (W tr, c, r, r2))
               | PStray _ => res = GPanic
               | PMapErr | PFuel => False
               end).
  set (n := (hi - low) / align + 2) in *.
  assert (Hstep : forall k s g, k < n -> Rel k s g ->
    match scan_step m hi align s with
    | inl s' => exists g', gstep g = GOk (GNext g') /\ Rel (k + 1) s' g'
    | inr e => exists res, fin (gstep g) = Some res /\ Q e res
    end).
  { intros k cur g _ (Hc & r & r2 & ->). unfold scan_step.
    destruct (N.ltb_spec cur hi) as [Hlt|Hge].
    - pose proof (slot_is_translation m tr cur r r2 align hi fuel Hok Hc Hlt Hsf) as Hs. fold gstep in Hs.
      destruct (check_slot m cur) as [p x| |a].
      + exists (GOk (inr (W tr, (p, x, None)))). rewrite Hs. split; reflexivity.
      + destruct Hs as (r' & r2' & ->). eexists. split; [reflexivity|]. split; [apply w64_lt|]. eexists _, _. reflexivity.
      + exists GPanic. rewrite Hs. split; reflexivity.
    - eexists. split.
      + unfold gstep, scan_gstep. cbv beta iota. destruct (N.ltb_spec cur hi) as [|_]; [lia|]. reflexivity.
      + cbn. eexists _, _, _. reflexivity. }
  pose proof (iter_gloop (scan_step m hi align) gstep Rel Q n Hstep n 0 low (W tr, low, 0, 0) fuel
                ltac:(lia) ltac:(split; [exact Hlow|eexists _, _; reflexivity]) Hf) as H.
  unfold scan. fold n.
  destruct (scan_total m hi align Hal Hhi n low) as (r & Hi & _).
  { unfold n. lia. }
  { unfold n. pose proof (N.div_mod (hi - low) align ltac:(lia)) as Hdm.
    pose proof (N.mod_lt (hi - low) align ltac:(lia)) as Hml.
    set (q := (hi - low) / align) in *. set (r0 := (hi - low) mod align) in *. clearbody q r0. nia. }
  rewrite Hi in H |- *. exact H.
Qed.

(** ---- the page loops ---- *)
Definition ev_mapfn (p : N) : gcall := GCall "mapFn" [GNum p; GNum p; GNum acpi_vmm_FlagPresent].
Definition ev_unmapfn (p : N) : gcall := GCall "unmapFn" [GNum p].

(** the events for pages first+i .. first+i+n-1, most recent first *)
Definition evs (mk : N -> gcall) (first : N) (i n : nat) : list gcall :=
  rev (map (fun j => mk (first + N.of_nat j)) (seq i n)).

Lemma evs_S mk first i n : evs mk first i (S n) = evs mk first (S i) n ++ [mk (first + N.of_nat i)].
Proof. unfold evs. cbn [seq map rev]. reflexivity. Qed.

(** a mapFn that fails at its call number [fail] (0-based), counted from a trace of length [base] *)
Definition o_map (fail : option N) (base : nat) (tr : list gcall) : option string :=
  match fail with
  | Some k => if N.of_nat (List.length tr) =? N.of_nat base + k + 1 then Some "errMap"%string else None
  | None => None
  end.

Definition npages_of (low hi : N) : N :=
  if page_of low <=? page_of hi then page_of hi - page_of low + 1 else 0.

Lemma page_of_trans a : a < two64 -> go_mm_PageFromAddress a = page_of a.
Proof.
  intros Ha. unfold go_mm_PageFromAddress, page_of, PageSize, PageShift.
  assert (E: gw 64 (gsub 64 acpi_mm_PageSize 1) = acpi_mm_PageSize - 1) by reflexivity.
  rewrite E, land_gnot64 by (try exact Ha; reflexivity).
  assert (H: N.shiftr (N.ldiff a (acpi_mm_PageSize - 1)) acpi_mm_PageShift < two64).
  { rewrite N.shiftr_div_pow2.
    assert (H1: N.ldiff a (acpi_mm_PageSize - 1) <= a).
    { change (acpi_mm_PageSize - 1) with (2 ^ 12 - 1). fold (andnot a (2 ^ 12 - 1)). rewrite andnot_pow2. lia. }
    change (2 ^ acpi_mm_PageShift) with 4096. lia. }
  rewrite gw64_small by exact H. unfold andnot. reflexivity.
Qed.

Lemma page_of_small a : a < two64 -> page_of a < 4503599627370496.
Proof.
  intros Ha. unfold page_of, PageSize, PageShift. rewrite N.shiftr_div_pow2.
  change (acpi_mm_PageSize - 1) with (2 ^ 12 - 1). rewrite andnot_pow2.
  change (2 ^ acpi_mm_PageShift) with 4096. change (2 ^ 12) with 4096. unfold two64 in Ha. lia.
Qed.

Lemma npages_cases low hi :
  (page_of low <= page_of hi /\ npages_of low hi = page_of hi - page_of low + 1) \/
  (page_of hi < page_of low /\ npages_of low hi = 0).
Proof. unfold npages_of. destruct (N.leb_spec (page_of low) (page_of hi)); [left|right]; split; auto. Qed.

Lemma unmap_loop low hi : hi < two64 ->
  forall n i tr fu, (i + n = N.to_nat (npages_of low hi))%nat -> (n < fu)%nat ->
    gloop fu (unmap_gstep hi) (W tr, page_of low + N.of_nat i) =
    GOk (inl (W (evs ev_unmapfn (page_of low) i n ++ tr), page_of low + npages_of low hi)).
Proof.
  intros Hhi. pose proof (page_of_small hi Hhi) as Hsm.
  induction n as [|n IH]; intros i tr fu Hin Hfu; (destruct fu as [|fu]; [lia|]).
  - apply gloop_fin. unfold unmap_gstep. cbv beta iota. rewrite page_of_trans by exact Hhi.
    destruct (npages_cases low hi) as [[Hle Hn]|[Hgt Hn]]; rewrite Hn in *;
      (destruct (N.leb_spec (page_of low + N.of_nat i) (page_of hi)); [lia|]);
      cbn [fin evs seq map rev app]; do 4 f_equal; lia.
  - assert (Hstep : unmap_gstep hi (W tr, page_of low + N.of_nat i) =
                    GOk (GNext (W (ev_unmapfn (page_of low + N.of_nat i) :: tr), page_of low + N.of_nat (S i)))).
    { unfold unmap_gstep. cbv beta iota zeta. rewrite page_of_trans by exact Hhi.
      destruct (npages_cases low hi) as [[Hle Hn]|[Hgt Hn]]; rewrite Hn in *; [|lia].
      destruct (N.leb_spec (page_of low + N.of_nat i) (page_of hi)); [|lia].
      cbn [set_f_world_trace f_world_trace W]. rewrite gw64_small by (unfold two64; lia).
      do 3 f_equal. lia. }
    rewrite (gloop_next _ _ _ _ Hstep). rewrite IH by lia.
    rewrite evs_S, <- app_assoc. reflexivity.
Qed.

Lemma map_loop low hi pfail base : hi < two64 ->
  forall n i tr fu, (i + n = N.to_nat (npages_of low hi))%nat -> List.length tr = (base + i)%nat -> (n < fu)%nat ->
    gloop fu (map_gstep hi (o_map pfail base)) (W tr, page_of low + N.of_nat i) =
    if match pfail with Some k => (N.of_nat i <=? k) && (k <? npages_of low hi) | None => false end
    then GOk (inr (W (evs ev_mapfn (page_of low) i (N.to_nat (match pfail with Some k => k | None => 0 end) + 1 - i) ++ tr),
                   (0, false, Some "errMap"%string)))
    else GOk (inl (W (evs ev_mapfn (page_of low) i n ++ tr), page_of low + npages_of low hi)).
Proof.
  intros Hhi. pose proof (page_of_small hi Hhi) as Hsm.
  induction n as [|n IH]; intros i tr fu Hin Hlen Hfu; (destruct fu as [|fu]; [lia|]).
  - replace (match pfail with Some k => (N.of_nat i <=? k) && (k <? npages_of low hi) | None => false end) with false
      by (destruct pfail as [k|]; [|reflexivity]; destruct (N.leb_spec (N.of_nat i) k); destruct (N.ltb_spec k (npages_of low hi)); cbn [andb]; try reflexivity; lia).
    apply gloop_fin. unfold map_gstep. cbv beta iota. rewrite page_of_trans by exact Hhi.
    destruct (npages_cases low hi) as [[Hle Hn]|[Hgt Hn]]; rewrite Hn in *;
      (destruct (N.leb_spec (page_of low + N.of_nat i) (page_of hi)); [lia|]);
      cbn [fin evs seq map rev app]; do 4 f_equal; lia.
  - destruct (npages_cases low hi) as [[Hle Hn]|[Hgt Hn]]; [|rewrite Hn in Hin; lia].
    set (p := page_of low + N.of_nat i).
    assert (Hp : p <= page_of hi) by (unfold p; lia).
    assert (Hstep : map_gstep hi (o_map pfail base) (W tr, p) =
              if negb (gerr_eqb (o_map pfail base (ev_mapfn p :: tr)) None)
              then GOk (GRet (W (ev_mapfn p :: tr), (0, false, o_map pfail base (ev_mapfn p :: tr))))
              else GOk (GNext (W (ev_mapfn p :: tr), page_of low + N.of_nat (S i)))).
    { unfold map_gstep. cbv beta iota zeta. rewrite page_of_trans by exact Hhi.
      destruct (N.leb_spec p (page_of hi)); [|lia].
      cbn [set_f_world_trace f_world_trace W]. rewrite !gw64_small by (unfold two64, p in *; lia).
      unfold ev_mapfn. replace (p + 1) with (page_of low + N.of_nat (S i)) by (unfold p; lia). reflexivity. }
    assert (Ho : o_map pfail base (ev_mapfn p :: tr) =
                 match pfail with
                 | Some k => if N.of_nat (S (base + i)) =? N.of_nat base + k + 1 then Some "errMap"%string else None
                 | None => None
                 end).
    { unfold o_map. cbn [List.length]. rewrite Hlen. reflexivity. }
    rewrite Ho in Hstep. clear Ho.
    destruct pfail as [k|].
    + destruct (N.eqb_spec (N.of_nat (S (base + i))) (N.of_nat base + k + 1)) as [Heq|Hne].
      * assert (Hk : k = N.of_nat i) by lia. subst k. cbn [gerr_eqb negb] in Hstep.
        destruct (N.leb_spec (N.of_nat i) (N.of_nat i)); [|lia].
        destruct (N.ltb_spec (N.of_nat i) (npages_of low hi)); [|lia]. cbn [andb].
        apply gloop_fin. rewrite Hstep. cbn [fin]. rewrite Nat2N.id.
        replace (i + 1 - i)%nat with 1%nat by lia. reflexivity.
      * cbn [gerr_eqb negb] in Hstep. rewrite (gloop_next _ _ _ _ Hstep).
        rewrite IH by (cbn [List.length]; lia).
        replace ((N.of_nat (S i) <=? k) && (k <? npages_of low hi)) with ((N.of_nat i <=? k) && (k <? npages_of low hi))
          by (destruct (N.leb_spec (N.of_nat i) k); destruct (N.leb_spec (N.of_nat (S i)) k); try reflexivity; lia).
        destruct ((N.of_nat i <=? k) && (k <? npages_of low hi)) eqn:Hc.
        -- assert (Hik : N.of_nat i < k) by (apply andb_prop in Hc; destruct Hc as [H1 _]; apply N.leb_le in H1; lia).
           replace (N.to_nat k + 1 - i)%nat with (S (N.to_nat k + 1 - S i)) by lia.
           rewrite evs_S, <- app_assoc. reflexivity.
        -- rewrite evs_S, <- app_assoc. reflexivity.
    + cbn [gerr_eqb negb] in Hstep. rewrite (gloop_next _ _ _ _ Hstep).
      rewrite IH by (cbn [List.length]; lia). rewrite evs_S, <- app_assoc. reflexivity.
Qed.

(** ---- locateRSDT ---- *)
Definition locate_fuel (low hi align : N) : N := npages_of low hi + (hi - low) / align + slot_fuel + 2.

Definition locate_result (tr0 : list gcall) (low : N) (r : probe_res * N * N) : gres Rres :=
  let '(pr, nmap, nunmap) := r in
  let tr := evs ev_unmapfn (page_of low) 0 (N.to_nat nunmap) ++ evs ev_mapfn (page_of low) 0 (N.to_nat nmap) ++ tr0 in
  match pr with
  | PFound root x => GOk (W tr, (root, x, None))
  | PMissing => GOk (W tr, (0, false, Some "errMissingRSDP"%string))
  | PMapErr => GOk (W tr, (0, false, Some "errMap"%string))
  | PStray _ => GPanic
  | PFuel => GFuel
  end.

Lemma deferred_is_translation low hi tr fuel : low < two64 -> hi < two64 ->
  (N.to_nat (npages_of low hi) < fuel)%nat ->
  go_acpi_locateRSDT_deferred fuel (W tr) hi low =
  GOk (W (evs ev_unmapfn (page_of low) 0 (N.to_nat (npages_of low hi)) ++ tr), tt).
Proof.
  intros Hlow Hhi Hf. rewrite deferred_unfold, page_of_trans by exact Hlow.
  replace (page_of low) with (page_of low + N.of_nat 0) at 1 by (cbn; lia).
  rewrite (unmap_loop low hi Hhi (N.to_nat (npages_of low hi)) 0 tr fuel) by lia. reflexivity.
Qed.

Theorem locateRSDT_is_translation : forall (m : mem) (low hi align : N) (pfail : option N) (tr0 : list gcall) (fuel : nat),
  bytes_ok m -> low < two64 -> 0 < align -> hi + align <= two64 ->
  (N.to_nat (locate_fuel low hi align) < fuel)%nat ->
  go_acpi_locateRSDT fuel (W tr0) (ld_of m) align hi low (o_map pfail (List.length tr0)) =
  locate_result tr0 low (locateRSDT m low hi align pfail).
Proof.
  intros m low hi align pfail tr0 fuel Hok Hlow Hal Hhi Hf. unfold locate_fuel in Hf.
  assert (Hhi' : hi < two64) by lia.
  assert (Hf3 : (N.to_nat (npages_of low hi) < fuel)%nat /\ (N.to_nat ((hi - low) / align + 2) <= fuel)%nat /\
                (N.to_nat slot_fuel < fuel)%nat).
  { revert Hf. generalize (npages_of low hi) ((hi - low) / align) slot_fuel. intros a b c Hf. lia. }
  destruct Hf3 as (Hf_np & Hf_scan & Hf_slot). clear Hf.
  set (np := npages_of low hi) in *.
  assert (Hdef : forall tr, go_acpi_locateRSDT_deferred fuel (W tr) hi low =
                            GOk (W (evs ev_unmapfn (page_of low) 0 (N.to_nat np) ++ tr), tt)).
  { intros tr. apply deferred_is_translation; [exact Hlow|exact Hhi'|exact Hf_np]. }
  rewrite locate_unfold, body_unfold. unfold body_form.
  rewrite page_of_trans by exact Hlow.
  replace (page_of low) with (page_of low + N.of_nat 0) at 1 by (cbn; lia).
  rewrite (map_loop low hi pfail (List.length tr0) Hhi' (N.to_nat np) 0 tr0 fuel) by (try exact Hf_np; reflexivity || (cbn; lia)).
  fold np. unfold locateRSDT. fold (npages_of low hi). fold np. change (N.of_nat 0) with 0.
  assert (Hscan : forall (k0 : option N),
    match
      match gloop fuel (scan_gstep fuel (ld_of m) align hi) (W (evs ev_mapfn (page_of low) 0 (N.to_nat np) ++ tr0), low, 0, 0) with
      | GPanic => GPanic | GFuel => GFuel
      | GOk (inr r) => GOk r
      | GOk (inl st) => let '(v_world, _, _, _) := st in GOk (v_world, (gw 64 0, false, Some "errMissingRSDP"%string))
      end
    with
    | GPanic => GPanic | GFuel => GFuel
    | GOk (w1, (a, b, c)) =>
      match go_acpi_locateRSDT_deferred fuel w1 hi low with
      | GPanic => GPanic | GFuel => GFuel
      | GOk (w2, _) => GOk (w2, (a, b, c))
      end
    end = locate_result tr0 low (scan m low hi align, np, np)).
  { intros _.
    pose proof (scan_is_translation m (evs ev_mapfn (page_of low) 0 (N.to_nat np) ++ tr0) low hi align fuel
                  Hok Hlow Hal Hhi Hf_scan Hf_slot) as Hs.
    unfold locate_result.
    destruct (scan m low hi align) as [p x| | |a|].
    - rewrite Hs. rewrite Hdef. reflexivity.
    - destruct Hs as (c & r & r2 & ->). cbv beta iota. rewrite Hdef. reflexivity.
    - destruct Hs.
    - rewrite Hs. reflexivity.
    - destruct Hs. }
  destruct pfail as [k|].
  - destruct (N.ltb_spec k np) as [Hk|Hk].
    + destruct (N.leb_spec 0 k); [|lia]. cbn [andb]. cbv beta iota.
      rewrite Hdef. unfold locate_result.
      replace (N.to_nat k + 1 - 0)%nat with (N.to_nat (k + 1)) by lia. reflexivity.
    + rewrite andb_false_r. cbv beta iota. apply (Hscan None).
  - cbv beta iota. apply (Hscan None).
Qed.

(** validTable, declaratively (with BytesProofs.validTable_true / validTable_false) *)
Theorem validTable_trans_spec : forall (m : mem) (tr0 : list gcall) (ptr len : N) (fuel : nat),
  ptr < two64 -> len < two32 -> (N.to_nat len < fuel)%nat ->
  (go_acpi_validTable fuel (mk_go_acpi_world tr0) ptr len (ld_of m) = GOk (mk_go_acpi_world tr0, true)
     <-> sums_to_zero m ptr len) /\
  (go_acpi_validTable fuel (mk_go_acpi_world tr0) ptr len (ld_of m) = GOk (mk_go_acpi_world tr0, false)
     <-> sums_to_nonzero m ptr len).
Proof.
  intros m tr0 ptr len fuel Hp Hl Hf. rewrite validTable_is_translation by assumption.
  rewrite <- validTable_true, <- validTable_false.
  destruct (validTable m ptr len) as [[|]|a]; split; split; intros H; try reflexivity; try discriminate H; inversion H.
Qed.

(** ---- mapACPITable ---- *)
Definition ev_idmap (c : idcall) : gcall := let '(f, sz, fl) := c in GCall "identityMapFn" [GNum f; GNum sz; GNum fl].

Definition is_idmap (c : gcall) : bool := match c with GCall n _ => String.eqb n "identityMapFn" end.
Definition n_idmap (tr : list gcall) : N := N.of_nat (List.length (filter is_idmap tr)).

(** the identityMapFn of the model's environment: returns the page of the frame it is given (identity mapping) and fails
    at the calls [fail] selects (numbered from 0 over the identityMapFn calls on the trace) *)
Definition o_idmap (fail : N -> bool) (tr : list gcall) : N * option string :=
  match tr with
  | GCall _ (GNum f :: _) :: _ => (f, if fail (n_idmap tr - 1) then Some "errMap"%string else None)
  | _ => (0, None)
  end.

Definition map_result (tr0 : list gcall) (s0 : seam) (r : seam * map_res) : gres (go_acpi_world * (N * N * option string)) :=
  let '(s', res) := r in
  let tr := map ev_idmap (firstn (N.to_nat (sk s' - sk s0)) (scalls s')) ++ tr0 in
  match res with
  | MOk hdr _ => GOk (W tr, (hdr, acpi_sizeof_SDTHeader, None))
  | MMismatch hdr _ => GOk (W tr, (hdr, acpi_sizeof_SDTHeader, Some "errTableChecksumMismatch"%string))
  | MErr => GOk (W tr, (0, acpi_sizeof_SDTHeader, Some "errMap"%string))
  | MStray _ => GPanic
  end.

Lemma frame_of_trans a : a < two64 -> go_mm_FrameFromAddress a = page_of a.
Proof. exact (page_of_trans a). Qed.

Lemma n_idmap_cons c tr : n_idmap (ev_idmap c :: tr) = n_idmap tr + 1.
Proof. destruct c as [[f sz] fl]. unfold n_idmap. cbn [ev_idmap filter is_idmap String.eqb Ascii.eqb Bool.eqb List.length]. lia. Qed.

Lemma o_idmap_cons fail f sz fl tr :
  o_idmap fail (GCall "identityMapFn" [GNum f; GNum sz; GNum fl] :: tr) =
  (f, if fail (n_idmap tr) then Some "errMap"%string else None).
Proof.
  change (GCall "identityMapFn" [GNum f; GNum sz; GNum fl]) with (ev_idmap (f, sz, fl)).
  unfold o_idmap. cbn [ev_idmap]. change (GCall "identityMapFn" [GNum f; GNum sz; GNum fl]) with (ev_idmap (f, sz, fl)).
  rewrite n_idmap_cons. replace (n_idmap tr + 1 - 1) with (n_idmap tr) by lia. reflexivity.
Qed.

Theorem mapACPITable_is_translation : forall (m : mem) (fail : N -> bool) (s : seam) (tr0 : list gcall) (addr : N) (fuel : nat),
  bytes_ok m -> addr < two64 -> sk s = n_idmap tr0 -> (N.to_nat two32 <= fuel)%nat ->
  go_acpi_mapACPITable fuel (W tr0) addr (ld_of m) (o_idmap fail) = map_result tr0 s (mapACPITable m fail s addr).
Proof.
  intros m fail s tr0 addr fuel Hok Ha Hsk Hf.
  unfold go_acpi_mapACPITable, mapACPITable, map_result, idmap. cbv zeta.
  rewrite (frame_of_trans addr Ha).
  cbn [set_f_world_trace f_world_trace W]. rewrite o_idmap_cons, <- Hsk.
  destruct (fail (sk s)) eqn:Hf1; cbn [negb gerr_eqb sk scalls].
  { replace (sk s + 1 - sk s) with 1 by lia. reflexivity. }
  set (hpa := w64 (w64 (N.shiftl (page_of addr) PageShift) + N.land addr acpi_vmm_PageOffsetMask)).
  replace (gw 64 (go_mm_Page_Address (page_of addr) + acpi_vmm_PageOffset addr)) with hpa.
  2:{ unfold hpa, go_mm_Page_Address, acpi_vmm_PageOffset, PageShift. change (gw 64) with w64.
      unfold w64. rewrite N.mod_mod by discriminate. reflexivity. }
  rewrite gfld_rdle by exact Hok. change (N.to_nat 4) with (N.to_nat acpi_sizeof_SDT_Length).
  destruct (rdle m (w64 (hpa + acpi_off_SDT_Length)) (N.to_nat acpi_sizeof_SDT_Length)) as [len|x] eqn:Hlen; [|reflexivity].
  assert (Hl : len < two32).
  { pose proof (rdle_lt m Hok _ _ _ Hlen) as Hv. rewrite N2Nat.id in Hv. exact Hv. }
  rewrite gw64_small by (unfold two64, two32 in *; lia).
  rewrite o_idmap_cons. cbn [negb].
  change (GCall "identityMapFn" [GNum (page_of addr); GNum acpi_sizeof_SDTHeader; GNum acpi_vmm_FlagPresent])
    with (ev_idmap (page_of addr, acpi_sizeof_SDTHeader, acpi_vmm_FlagPresent)).
  rewrite n_idmap_cons, <- Hsk.
  destruct (fail (sk s + 1)) eqn:Hf2; cbn [negb gerr_eqb sk scalls].
  { replace (sk s + 1 + 1 - sk s) with 2 by lia. reflexivity. }
  unfold W. rewrite validTable_is_translation; [|apply w64_lt|exact Hl|unfold two32 in *; lia].
  destruct (validTable m hpa len) as [[|]|x]; cbn [sk scalls]; try replace (sk s + 1 + 1 - sk s) with 2 by lia; reflexivity.
Qed.

(** ---- enumerateTables: the translated loops in structured form ---- *)
Definition Eres : Type := (go_acpi_world * option string)%type.
Definition Vst : Type := (go_acpi_world * option string * N * N)%type.     (* world, err, header, hidden range index *)

Definition mismatch_fmt : list N :=
  [37; 115; 32; 97; 116; 32; 48; 120; 37; 49; 54; 120; 32; 37; 54; 120; 32; 91; 99; 104; 101; 99; 107; 115; 117; 109; 32;
   109; 105; 115; 109; 97; 116; 99; 104; 59; 32; 115; 107; 105; 112; 112; 105; 110; 103; 93; 10].
   (* "%s at 0x%16x %6x [checksum mismatch; skipping]\n" *)

Definition push (w : go_acpi_world) (c : gcall) : go_acpi_world := set_f_world_trace w (c :: f_world_trace w).

(** after a failed mapACPITable: report a checksum mismatch and go on with the next entry, or return the error *)
Definition report_or_ret (ld : N -> N -> option N) (w : go_acpi_world) (err : option string) (header rng : N)
  : gres (gctl Vst Eres) :=
  if gerr_eqb err (Some "errTableChecksumMismatch"%string) then
    match gfld ld 4 header acpi_off_SDT_Signature with None => GPanic | Some sg =>
    match gfld ld 4 header acpi_off_SDT_Length with None => GPanic | Some len =>
      GOk (GNext (push w (GCall "Fprintf" [GBytes mismatch_fmt; GNum sg; GNum header; GNum len]), err, header, rng + 1))
    end end
  else GOk (GRet (w, err)).

(** the DSDT step after a FADT *)
Definition dsdt_gstep (fuel : nat) (ld : N -> N -> option N) (o : list gcall -> N * option string)
  (w : go_acpi_world) (dsdt rng : N) : gres (gctl Vst Eres) :=
  match go_acpi_mapACPITable fuel w dsdt ld o with
  | GPanic => GPanic | GFuel => GFuel
  | GOk (w, (h, _, e)) =>
    if negb (gerr_eqb e None) then report_or_ret ld w e h rng
    else match gfld ld 4 h acpi_off_SDT_Signature with None => GPanic | Some sg =>
         GOk (GNext (push w (GCall "tableMap.set" [GNum sg; GNum h]), e, h, rng + 1)) end
  end.

(** body of [for _, addr := range sdtAddresses] *)
Definition visit_gstep (fuel : nat) (ld : N -> N -> option N) (o : list gcall -> N * option string)
  (acpiRev : N) (addrs : list N) : Vst -> gres (gctl Vst Eres) :=
  fun st => let '(w, err, header, rng) := st in
  if rng <? glen addrs then
    match gidx addrs rng with None => GPanic | Some addr =>
    match go_acpi_mapACPITable fuel w addr ld o with
    | GPanic => GPanic | GFuel => GFuel
    | GOk (w, (h, _, e)) =>
      if negb (gerr_eqb e None) then report_or_ret ld w e h rng
      else match gfld ld 4 h acpi_off_SDT_Signature with None => GPanic | Some sg =>
        let w := push w (GCall "tableMap.set" [GNum sg; GNum h]) in
        if sg =? acpi_fadtSignature then
          match gfld ld 4 h acpi_off_FADT_Dsdt with None => GPanic | Some d32 =>
          if acpi_acpiRev2Plus <=? acpiRev then
            match gfld ld 8 h acpi_off_FADT_Ext_Dsdt with None => GPanic | Some d64 =>
            dsdt_gstep fuel ld o w (gw 64 d64) rng end
          else dsdt_gstep fuel ld o w (gw 64 d32) rng
          end
        else GOk (GNext (w, e, h, rng + 1))
        end
    end end
  else GOk (GBreak (w, err, header, rng)).

(** body of the loop that reads the root table's entries ([wd] = 8 or 4 bytes each) *)
Definition entries_gstep (ld : N -> N -> option N) (wd : N)
  : go_acpi_world * N * N * list N -> gres (gctl (go_acpi_world * N * N * list N) Eres) :=
  fun st => let '(w, curPtr, i, lst) := st in
  if gslt 64 i (glen lst) then
    match gload ld wd curPtr with None => GPanic | Some v =>
    match gsets 64 lst i (gw 64 v) with None => GPanic | Some lst' =>
      GOk (GNext (w, gw 64 (curPtr + wd), gw 64 (i + 1), lst')) end end
  else GOk (GBreak (w, curPtr, i, lst)).

Definition walk_form (fuel : nat) (ld : N -> N -> option N) (o : list gcall -> N * option string)
  (w : go_acpi_world) (rsdt sizeofHeader acpiRev wd count : N) (err : option string) (header : N) : gres Eres :=
  match gmake count with None => GPanic | Some zeros =>
  match gloop fuel (entries_gstep ld wd) (w, gw 64 (rsdt + sizeofHeader), gw 64 0, zeros) with
  | GPanic => GPanic | GFuel => GFuel
  | GOk (inr r) => GOk r
  | GOk (inl st) => let '(w, _, _, addrs) := st in
    match gloop fuel (visit_gstep fuel ld o acpiRev addrs) (w, err, header, 0) with
    | GPanic => GPanic | GFuel => GFuel
    | GOk (inr r) => GOk r
    | GOk (inl st) => let '(w, _, _, _) := st in GOk (w, None)
    end
  end end.

Definition enum_form (fuel : nat) (w : go_acpi_world) (rsdt : N) (useXSDT : bool) (ld : N -> N -> option N)
  (o : list gcall -> N * option string) : gres Eres :=
  match go_acpi_mapACPITable fuel w rsdt ld o with
  | GPanic => GPanic | GFuel => GFuel
  | GOk (w, (header, sizeofHeader, err)) =>
    if negb (gerr_eqb err None) then GOk (w, err)
    else
      let w := push w (GCall "tableMap.make" []) in
      match gfld ld 1 header acpi_off_SDT_Revision with None => GPanic | Some acpiRev =>
      match gfld ld 4 header acpi_off_SDT_Length with None => GPanic | Some len =>
        let payload := gsub 32 len (gw 32 sizeofHeader) in
        if Bool.eqb useXSDT true
        then walk_form fuel ld o w rsdt sizeofHeader acpiRev 8 (N.shiftr payload 3) err header
        else walk_form fuel ld o w rsdt sizeofHeader acpiRev 4 (N.shiftr payload 2) err header
      end end
  end.

(** the regenerated enumerateTables IS this form (conversion) *)
Lemma enum_unfold fuel w rsdt useXSDT ld o :
  go_acpi_acpiDriver_enumerateTables fuel w rsdt useXSDT ld o = enum_form fuel w rsdt useXSDT ld o.
Proof. reflexivity. Qed.

(** ---- the model state a trace stands for ---- *)
Definition abs_step (c : gcall) (s : state) : state :=
  match c with
  | GCall n args =>
    if String.eqb n "identityMapFn" then
      match args with
      | [GNum f; GNum sz; GNum fl] => with_seam s (mkSeam (sk (st_seam s) + 1) ((f, sz, fl) :: scalls (st_seam s)))
      | _ => s
      end
    else if String.eqb n "Fprintf" then
      match args with
      | [GBytes _; GNum sg; GNum a; GNum len] => log s (EvMismatch sg a len)
      | _ => s
      end
    else if String.eqb n "tableMap.set" then
      match args with
      | [GNum k; GNum x] => register s k x
      | _ => s
      end
    else if String.eqb n "tableMap.make" then mkState (st_seam s) (st_events s) []
    else s
  end.

(** traces are most-recent-first: the oldest call acts first *)
Definition abs (tr : list gcall) : state := fold_right abs_step state0 tr.

Definition Inv (tr : list gcall) (s : state) : Prop := abs tr = s /\ sk (st_seam s) = n_idmap tr.

Lemma abs_cons c tr : abs (c :: tr) = abs_step c (abs tr).
Proof. reflexivity. Qed.

Lemma n_idmap_other n args tr : String.eqb n "identityMapFn" = false -> n_idmap (GCall n args :: tr) = n_idmap tr.
Proof. intros H. unfold n_idmap. cbn [filter is_idmap]. rewrite H. reflexivity. Qed.

Lemma Inv_idmap tr s c : Inv tr s ->
  Inv (ev_idmap c :: tr) (with_seam s (mkSeam (sk (st_seam s) + 1) (c :: scalls (st_seam s)))).
Proof.
  intros [Ha Hn]. destruct c as [[f sz] fl]. split.
  - rewrite abs_cons, Ha. reflexivity.
  - rewrite n_idmap_cons, <- Hn. reflexivity.
Qed.

Lemma Inv_log tr s fmt sg a len : Inv tr s ->
  Inv (GCall "Fprintf" [GBytes fmt; GNum sg; GNum a; GNum len] :: tr) (log s (EvMismatch sg a len)).
Proof.
  intros [Ha Hn]. split.
  - rewrite abs_cons, Ha. reflexivity.
  - rewrite n_idmap_other by reflexivity. exact Hn.
Qed.

Lemma Inv_register tr s k x : Inv tr s -> Inv (GCall "tableMap.set" [GNum k; GNum x] :: tr) (register s k x).
Proof.
  intros [Ha Hn]. split.
  - rewrite abs_cons, Ha. reflexivity.
  - rewrite n_idmap_other by reflexivity. exact Hn.
Qed.

Lemma Inv_make tr s : Inv tr s -> st_tmap s = [] -> Inv (GCall "tableMap.make" [] :: tr) s.
Proof.
  intros [Ha Hn] Ht. split.
  - rewrite abs_cons, Ha. destruct s as [sm ev tm]. cbn in Ht. subst tm. reflexivity.
  - rewrite n_idmap_other by reflexivity. exact Hn.
Qed.

(** ---- one mapACPITable call, in terms of the invariant ---- *)
Definition gmap (m : mem) (fail : N -> bool) (fuel : nat) (tr : list gcall) (addr : N) :=
  go_acpi_mapACPITable fuel (W tr) addr (ld_of m) (o_idmap fail).

Lemma map_step m fail fuel tr s addr : bytes_ok m -> addr < two64 -> (N.to_nat two32 <= fuel)%nat -> Inv tr s ->
  match mapACPITable m fail (st_seam s) addr with
  | (sm, MStray _) => gmap m fail fuel tr addr = GPanic
  | (sm, MErr) => exists tr', gmap m fail fuel tr addr = GOk (W tr', (0, acpi_sizeof_SDTHeader, Some "errMap"%string)) /\
                              Inv tr' (with_seam s sm)
  | (sm, MOk hdr len) =>
      exists tr', gmap m fail fuel tr addr = GOk (W tr', (hdr, acpi_sizeof_SDTHeader, None)) /\ Inv tr' (with_seam s sm) /\
                  hdr < two64 /\ rdle m (w64 (hdr + acpi_off_SDT_Length)) (N.to_nat acpi_sizeof_SDT_Length) = Got len
  | (sm, MMismatch hdr len) =>
      exists tr', gmap m fail fuel tr addr = GOk (W tr', (hdr, acpi_sizeof_SDTHeader, Some "errTableChecksumMismatch"%string)) /\
                  Inv tr' (with_seam s sm) /\
                  hdr < two64 /\ rdle m (w64 (hdr + acpi_off_SDT_Length)) (N.to_nat acpi_sizeof_SDT_Length) = Got len
  end.
Proof.
  intros Hok Ha Hf HI. unfold gmap.
  rewrite (mapACPITable_is_translation m fail (st_seam s) tr addr fuel Hok Ha (proj2 HI) Hf).
  unfold mapACPITable, idmap, map_result.
  set (c1 := (page_of addr, acpi_sizeof_SDTHeader, acpi_vmm_FlagPresent)).
  pose proof (Inv_idmap tr s c1 HI) as HI1.
  cbv beta iota zeta. cbn [sk scalls].
  destruct (fail (sk (st_seam s))); cbn [negb]; cbv beta iota.
  { cbn [sk scalls]. replace (sk (st_seam s) + 1 - sk (st_seam s)) with 1 by lia.
    eexists. split; [reflexivity|]. exact HI1. }
  set (hpa := w64 (w64 (N.shiftl (page_of addr) PageShift) + N.land addr acpi_vmm_PageOffsetMask)).
  destruct (rdle m (w64 (hpa + acpi_off_SDT_Length)) (N.to_nat acpi_sizeof_SDT_Length)) as [len|x] eqn:Hlen; [|reflexivity].
  set (c2 := (page_of addr, len, acpi_vmm_FlagPresent)).
  pose proof (Inv_idmap _ _ c2 HI1) as HI2. cbn [st_seam with_seam sk scalls] in HI2.
  destruct (fail (sk (st_seam s) + 1)); cbn [negb]; cbv beta iota.
  { cbn [sk scalls]. replace (sk (st_seam s) + 1 + 1 - sk (st_seam s)) with 2 by lia.
    eexists. split; [reflexivity|]. destruct s; exact HI2. }
  assert (Hh : hpa < two64) by apply w64_lt.
  destruct (validTable m hpa len) as [[|]|x]; cbv beta iota; cbn [sk scalls];
    try (replace (sk (st_seam s) + 1 + 1 - sk (st_seam s)) with 2 by lia;
         eexists; split; [reflexivity|]; split; [destruct s; exact HI2|]; split; [exact Hh|exact Hlen]).
  reflexivity.
Qed.

(** ---- one iteration of the walk ---- *)
(** what a translated loop step must be, given what the model's step says *)
Definition step_ok (res : gres (gctl Vst Eres)) (rng : N) (r : state * option init_res) : Prop :=
  match r with
  | (s1, None) => exists tr' e h, res = GOk (GNext (W tr', e, h, rng + 1)) /\ Inv tr' s1
  | (s1, Some IErrMap) => exists tr', res = GOk (GRet (W tr', Some "errMap"%string)) /\ Inv tr' s1
  | (s1, Some (IStray _)) => res = GPanic
  | (s1, Some _) => False
  end.

Lemma sig_fld m hdr : bytes_ok m ->
  gfld (ld_of m) 4 hdr acpi_off_SDT_Signature = match sig_of m hdr with Got v => Some v | Fault _ => None end.
Proof. intros Hok. rewrite gfld_rdle by exact Hok. reflexivity. Qed.

Lemma report_mismatch m tr s hdr len rng : bytes_ok m -> Inv tr s ->
  rdle m (w64 (hdr + acpi_off_SDT_Length)) (N.to_nat acpi_sizeof_SDT_Length) = Got len ->
  step_ok (report_or_ret (ld_of m) (W tr) (Some "errTableChecksumMismatch"%string) hdr rng) rng
          (match sig_of m hdr with Fault a => (s, Some (IStray a)) | Got sg => (log s (EvMismatch sg hdr len), None) end).
Proof.
  intros Hok HI Hlen. unfold report_or_ret. cbn [gerr_eqb String.eqb Ascii.eqb Bool.eqb].
  rewrite sig_fld by exact Hok. destruct (sig_of m hdr) as [sg|a]; [|reflexivity].
  rewrite gfld_rdle by exact Hok. change (N.to_nat 4) with (N.to_nat acpi_sizeof_SDT_Length). rewrite Hlen.
  cbn [step_ok]. eexists _, _, _. split; [reflexivity|]. apply Inv_log. exact HI.
Qed.

Lemma report_err m tr s h rng : Inv tr s ->
  step_ok (report_or_ret (ld_of m) (W tr) (Some "errMap"%string) h rng) rng (s, Some IErrMap).
Proof. intros HI. unfold report_or_ret. cbn. eexists. split; [reflexivity|exact HI]. Qed.

Lemma dsdt_step m fail fuel tr s d rng : bytes_ok m -> d < two64 -> (N.to_nat two32 <= fuel)%nat -> Inv tr s ->
  step_ok (dsdt_gstep fuel (ld_of m) (o_idmap fail) (W tr) d rng) rng
          (let '(s2, e, _) := map_and_register m fail s d in (s2, e)).
Proof.
  intros Hok Hd Hf HI. unfold dsdt_gstep, map_and_register.
  pose proof (map_step m fail fuel tr s d Hok Hd Hf HI) as Hm. unfold gmap in Hm.
  destruct (mapACPITable m fail (st_seam s) d) as [sm [hdr len|hdr len| |a]].
  - destruct Hm as (tr' & -> & HI' & Hh & Hlen). cbn [negb gerr_eqb].
    rewrite sig_fld by exact Hok. destruct (sig_of m hdr) as [sg|a]; [|reflexivity].
    cbn [step_ok]. eexists _, _, _. split; [reflexivity|]. apply Inv_register. exact HI'.
  - destruct Hm as (tr' & -> & HI' & Hh & Hlen). cbn [negb gerr_eqb].
    pose proof (report_mismatch m tr' (with_seam s sm) hdr len rng Hok HI' Hlen) as Hr.
    destruct (sig_of m hdr); exact Hr.
  - destruct Hm as (tr' & -> & HI'). cbn [negb gerr_eqb]. apply report_err. exact HI'.
  - rewrite Hm. reflexivity.
Qed.

Lemma rdle_lt64 m n a v : bytes_ok m -> (n <= 8)%nat -> rdle m a n = Got v -> v < two64.
Proof.
  intros Hok Hn H. pose proof (rdle_lt m Hok _ _ _ H) as Hv.
  assert (256 ^ N.of_nat n <= 256 ^ 8) by (apply N.pow_le_mono_r; lia).
  change (256 ^ 8) with two64 in *. lia.
Qed.

Lemma visit_step m fail fuel tr s acpiRev addrs addr err header rng :
  bytes_ok m -> addr < two64 -> (N.to_nat two32 <= fuel)%nat -> Inv tr s ->
  rng < glen addrs -> gidx addrs rng = Some addr ->
  step_ok (visit_gstep fuel (ld_of m) (o_idmap fail) acpiRev addrs (W tr, err, header, rng)) rng
          (visit m fail acpiRev s addr).
Proof.
  intros Hok Ha Hf HI Hr Hg. unfold visit_gstep. cbv beta iota.
  destruct (N.ltb_spec rng (glen addrs)) as [_|]; [|lia]. rewrite Hg.
  unfold visit, map_and_register.
  pose proof (map_step m fail fuel tr s addr Hok Ha Hf HI) as Hm. unfold gmap in Hm.
  destruct (mapACPITable m fail (st_seam s) addr) as [sm [hdr len|hdr len| |a]].
  - destruct Hm as (tr' & -> & HI' & Hh & Hlen). cbn [negb gerr_eqb].
    rewrite sig_fld by exact Hok. destruct (sig_of m hdr) as [sg|a]; [|reflexivity].
    cbv zeta.
    pose proof (Inv_register tr' _ sg hdr HI') as HI''.
    destruct (sg =? acpi_fadtSignature).
    + unfold dsdt_pointer. rewrite gfld_rdle by exact Hok. change (N.to_nat 4) with (N.to_nat acpi_sizeof_FADT_Dsdt).
      destruct (rdle m (w64 (hdr + acpi_off_FADT_Dsdt)) (N.to_nat acpi_sizeof_FADT_Dsdt)) as [d32|a] eqn:Hd32; [|reflexivity].
      destruct (acpi_acpiRev2Plus <=? acpiRev).
      * rewrite gfld_rdle by exact Hok. change (N.to_nat 8) with (N.to_nat acpi_sizeof_FADT_Ext_Dsdt).
        destruct (rdle m (w64 (hdr + acpi_off_FADT_Ext_Dsdt)) (N.to_nat acpi_sizeof_FADT_Ext_Dsdt)) as [d64|a] eqn:Hd64; [|reflexivity].
        assert (Hd : d64 < two64) by (eapply rdle_lt64; [exact Hok| |exact Hd64]; vm_compute; lia).
        rewrite gw64_small by exact Hd.
        apply (dsdt_step m fail fuel _ _ d64 rng Hok Hd Hf HI'').
      * assert (Hd : d32 < two64) by (eapply rdle_lt64; [exact Hok| |exact Hd32]; vm_compute; lia).
        rewrite gw64_small by exact Hd.
        apply (dsdt_step m fail fuel _ _ d32 rng Hok Hd Hf HI'').
    + cbn [step_ok]. eexists _, _, _. split; [reflexivity|exact HI''].
  - destruct Hm as (tr' & -> & HI' & Hh & Hlen). cbn [negb gerr_eqb].
    pose proof (report_mismatch m tr' (with_seam s sm) hdr len rng Hok HI' Hlen) as Hrep.
    destruct (sig_of m hdr); exact Hrep.
  - destruct Hm as (tr' & -> & HI'). cbn [negb gerr_eqb]. apply report_err. exact HI'.
  - rewrite Hm. reflexivity.
Qed.

(** ---- the walk over the entries = [visit_all] ---- *)
Lemma visit_loop m fail fuel acpiRev addrs : bytes_ok m -> (N.to_nat two32 <= fuel)%nat ->
  Forall (fun a => a < two64) addrs ->
  forall rest j tr s err header fu, skipn j addrs = rest -> (j + List.length rest = List.length addrs)%nat ->
    Inv tr s -> (List.length rest < fu)%nat ->
    match visit_all m fail acpiRev s rest with
    | (s', IOk) => exists tr' e h,
        gloop fu (visit_gstep fuel (ld_of m) (o_idmap fail) acpiRev addrs) (W tr, err, header, N.of_nat j) =
        GOk (inl (W tr', e, h, N.of_nat (List.length addrs))) /\ Inv tr' s'
    | (s', IErrMap) => exists tr',
        gloop fu (visit_gstep fuel (ld_of m) (o_idmap fail) acpiRev addrs) (W tr, err, header, N.of_nat j) =
        GOk (inr (W tr', Some "errMap"%string)) /\ Inv tr' s'
    | (s', IStray _) =>
        gloop fu (visit_gstep fuel (ld_of m) (o_idmap fail) acpiRev addrs) (W tr, err, header, N.of_nat j) = GPanic
    | (s', IErrChecksum) => False
    end.
Proof.
  intros Hok Hf Hall rest. induction rest as [|a rest IH]; intros j tr s err header fu Hs Hj HI Hfu;
    (destruct fu as [|fu]; [cbn in Hfu; lia|]).
  - cbn [visit_all]. cbn [List.length] in Hj. replace j with (List.length addrs) by lia.
    eexists _, _, _. split; [|exact HI]. apply gloop_fin.
    unfold visit_gstep. cbv beta iota. unfold glen. rewrite N.ltb_irrefl. reflexivity.
  - cbn [visit_all List.length] in *. destruct (skipn_cons_nth _ _ _ _ Hs) as [Hn Hs'].
    assert (Ha : a < two64).
    { rewrite Forall_forall in Hall. apply Hall. eapply nth_error_In. exact Hn. }
    pose proof (visit_step m fail fuel tr s acpiRev addrs a err header (N.of_nat j) Hok Ha Hf HI
                  ltac:(unfold glen; lia) ltac:(unfold gidx; rewrite Nat2N.id; exact Hn)) as Hst.
    destruct (visit m fail acpiRev s a) as [s1 [e|]]; cbn [step_ok] in Hst.
    + destruct e as [| | |x]; try contradiction.
      * destruct Hst as (tr' & Hr & HI'). exists tr'. split; [|exact HI']. apply gloop_fin. rewrite Hr. reflexivity.
      * apply gloop_fin. rewrite Hst. reflexivity.
    + destruct Hst as (tr' & e & h & Hr & HI'). rewrite (gloop_next _ _ _ _ Hr).
      replace (N.of_nat j + 1) with (N.of_nat (S j)) by lia.
      apply IH; [exact Hs'|lia|exact HI'|lia].
Qed.

(** ---- reading the entries = [read_entries] ---- *)
Lemma gslt_small a b : a < 9223372036854775808 -> b < 9223372036854775808 -> gslt 64 a b = (a <? b).
Proof.
  intros Ha Hb. unfold gslt, gsbias. change (2 ^ (64 - 1)) with 9223372036854775808.
  change (2 ^ 64) with 18446744073709551616. rewrite !N.mod_small by lia.
  destruct (N.ltb_spec (a + 9223372036854775808) (b + 9223372036854775808)); destruct (N.ltb_spec a b); try reflexivity; lia.
Qed.

Lemma entries_loop m tr start w count fuel : bytes_ok m -> start < two64 -> (w = 4 \/ w = 8)%nat ->
  count < two32 -> (N.to_nat count < fuel)%nat ->
  match read_entries m start w count with
  | Got addrs => exists p, gloop fuel (entries_gstep (ld_of m) (N.of_nat w)) (W tr, start, gw 64 0, repeat 0 (N.to_nat count)) =
                           GOk (inl (W tr, p, count, addrs)) /\ Forall (fun a => a < two64) addrs /\
                           List.length addrs = N.to_nat count
  | Fault _ => gloop fuel (entries_gstep (ld_of m) (N.of_nat w)) (W tr, start, gw 64 0, repeat 0 (N.to_nat count)) = GPanic
  end.
Proof.
  intros Hok Hst Hw Hc Hf.
  set (gstep := entries_gstep (ld_of m) (N.of_nat w)).
  pose (Rel := fun (k : N) (s : N * list N) (g : go_acpi_world * N * N * list N) =>
                 fst s < two64 /\ List.length (snd s) = N.to_nat k /\ Forall (fun a => a < two64) (snd s) /\
                 g = (W tr, fst s, k, rev (snd s) ++ repeat 0 (N.to_nat (count - k)))).
  pose (Q := fun (_ : N) (r : gres (go_acpi_world * N * N * list N + Eres)) => r = GPanic).
  assert (Hstep : forall k s g, k < count -> Rel k s g ->
    match entry_step m w s with
    | inl s' => exists g', gstep g = GOk (GNext g') /\ Rel (k + 1) s' g'
    | inr e => exists res, fin (gstep g) = Some res /\ Q e res
    end).
  { intros k [p acc] g Hk (Hp & Hl & Hacc & ->). cbn [fst snd] in *. unfold entry_step, gstep, entries_gstep. cbv beta iota.
    assert (Hglen : glen (rev acc ++ repeat 0 (N.to_nat (count - k))) = count).
    { unfold glen. rewrite app_length, rev_length, repeat_length, Hl. lia. }
    rewrite Hglen, gslt_small by (unfold two32 in *; lia).
    destruct (N.ltb_spec k count) as [_|]; [|lia].
    rewrite gload_rdle by exact Hok. rewrite Nat2N.id.
    destruct (rdle m p w) as [v|a] eqn:Hv.
    - assert (Hv64 : v < two64) by (eapply rdle_lt64; [exact Hok| |exact Hv]; lia).
      rewrite gw64_small by exact Hv64.
      unfold gsets, gisneg. change (2 ^ (64 - 1)) with 9223372036854775808.
      destruct (N.leb_spec 9223372036854775808 k) as [Hbig|_]; [unfold two32 in *; lia|].
      unfold gset. rewrite Hglen. destruct (N.ltb_spec k count) as [_|]; [|lia].
      eexists. split; [reflexivity|]. unfold Rel. cbn [fst snd]. split; [apply w64_lt|]. split; [cbn [List.length]; lia|].
      split; [constructor; assumption|].
      change (gw 64 (p + N.of_nat w)) with (w64 (p + N.of_nat w)).
      rewrite (gw64_small (k + 1)) by (unfold two64, two32 in *; lia).
      f_equal.
      assert (Hk' : List.length (rev acc) = N.to_nat k) by (rewrite rev_length; exact Hl).
      rewrite firstn_app, <- Hk', firstn_all, Nat.sub_diag. cbn [firstn]. rewrite app_nil_r.
      rewrite skipn_app. replace (S (List.length (rev acc)) - List.length (rev acc))%nat with 1%nat by lia.
      rewrite skipn_all2 by lia. cbn [app rev].
      replace (N.to_nat (count - k)) with (S (N.to_nat (count - (k + 1)))) by lia.
      cbn [repeat skipn]. rewrite <- app_assoc. reflexivity.
    - eexists. split; reflexivity. }
  pose proof (iter_gloop (entry_step m w) gstep Rel Q count Hstep count 0 (start, []) (W tr, start, gw 64 0, repeat 0 (N.to_nat count)) fuel
                ltac:(lia)
                ltac:(cbn [fst snd]; split; [exact Hst|]; split; [reflexivity|]; split; [constructor|]; rewrite N.sub_0_r; reflexivity)
                ltac:(lia)) as H.
  unfold read_entries.
  destruct (iter_N (entry_step m w) count (start, [])) as [[p acc]|e].
  - destruct H as (g' & (Hp & Hl & Hacc & ->) & ->). cbn [fst snd] in *.
    exists p. split; [|split; [apply Forall_rev; exact Hacc|rewrite rev_length, Hl; lia]].
    destruct (fuel - N.to_nat count)%nat as [|f] eqn:Ef; [lia|].
    apply gloop_fin. unfold gstep, entries_gstep. cbv beta iota.
    replace (N.to_nat (count - (0 + count))) with 0%nat by lia. cbn [repeat]. rewrite app_nil_r.
    assert (Hglen : glen (rev acc) = count) by (unfold glen; rewrite rev_length, Hl; lia).
    rewrite Hglen, gslt_small by (unfold two32 in *; lia).
    rewrite N.add_0_l, N.ltb_irrefl. reflexivity.
  - unfold Q in H. exact H.
Qed.

(** ---- enumerateTables ---- *)
Definition err_of (r : init_res) : option string :=
  match r with
  | IOk | IStray _ => None
  | IErrChecksum => Some "errTableChecksumMismatch"%string
  | IErrMap => Some "errMap"%string
  end.

Definition enum_ok (res : gres Eres) (r : state * init_res) : Prop :=
  match r with
  | (_, IStray _) => res = GPanic
  | (s, r) => exists tr, res = GOk (W tr, err_of r) /\ abs tr = s
  end.

Lemma walk_is_translation m fail fuel tr s rsdt acpiRev w count err header :
  bytes_ok m -> (N.to_nat two32 <= fuel)%nat -> Inv tr s -> (w = 4 \/ w = 8)%nat -> count < two32 ->
  match read_entries m (w64 (rsdt + acpi_sizeof_SDTHeader)) w count with
  | Fault a => walk_form fuel (ld_of m) (o_idmap fail) (W tr) rsdt acpi_sizeof_SDTHeader acpiRev (N.of_nat w) count err header = GPanic
  | Got addrs =>
      match visit_all m fail acpiRev s addrs with
      | (_, IErrChecksum) => False
      | r => enum_ok (walk_form fuel (ld_of m) (o_idmap fail) (W tr) rsdt acpi_sizeof_SDTHeader acpiRev (N.of_nat w) count err header) r
      end
  end.
Proof.
  intros Hok Hf HI Hw Hc. unfold walk_form.
  unfold gmake. destruct (N.ltb_spec count (2 ^ 63)) as [_|Hbig].
  2:{ change (2 ^ 63) with 9223372036854775808 in Hbig. unfold two32 in Hc. lia. }
  change (gw 64 (rsdt + acpi_sizeof_SDTHeader)) with (w64 (rsdt + acpi_sizeof_SDTHeader)).
  pose proof (entries_loop m tr (w64 (rsdt + acpi_sizeof_SDTHeader)) w count fuel Hok (w64_lt _) Hw Hc
                ltac:(unfold two32 in *; lia)) as He.
  destruct (read_entries m (w64 (rsdt + acpi_sizeof_SDTHeader)) w count) as [addrs|a].
  2:{ rewrite He. reflexivity. }
  destruct He as (p & -> & Hall & Hlen). cbv beta iota.
  pose proof (visit_loop m fail fuel acpiRev addrs Hok Hf Hall addrs 0 tr s err header fuel eq_refl eq_refl HI
                ltac:(unfold two32 in *; lia)) as Hv.
  change (N.of_nat 0) with 0 in Hv.
  destruct (visit_all m fail acpiRev s addrs) as [s' [| | |x]].
  - destruct Hv as (tr' & e & h & -> & HI'). cbv beta iota. exists tr'. split; [reflexivity|exact (proj1 HI')].
  - exact Hv.
  - destruct Hv as (tr' & -> & HI'). exists tr'. split; [reflexivity|exact (proj1 HI')].
  - cbn [enum_ok]. rewrite Hv. reflexivity.
Qed.

(** from any trace that stands for the initial state (e.g. one holding only the probe's mapFn / unmapFn calls) *)
Theorem enumerateTables_is_translation_from : forall (m : mem) (fail : N -> bool) (rsdt : N) (useXSDT : bool) (fuel : nat) (tr0 : list gcall),
  bytes_ok m -> rsdt < two64 -> (N.to_nat two32 <= fuel)%nat -> Inv tr0 state0 ->
  enum_ok (go_acpi_acpiDriver_enumerateTables fuel (W tr0) rsdt useXSDT (ld_of m) (o_idmap fail))
          (enumerateTables m fail rsdt useXSDT).
Proof.
  intros m fail rsdt useXSDT fuel tr0 Hok Hr Hf HI0. rewrite enum_unfold. unfold enum_form, enumerateTables.
  pose proof (map_step m fail fuel tr0 state0 rsdt Hok Hr Hf HI0) as Hm. unfold gmap in Hm.
  destruct (mapACPITable m fail (st_seam state0) rsdt) as [sm [hdr len|hdr len| |a]].
  - destruct Hm as (tr' & -> & HI' & Hh & Hlen). cbn [negb gerr_eqb].
    assert (HI1 : Inv (GCall "tableMap.make" [] :: tr') (with_seam state0 sm)) by (apply Inv_make; [exact HI'|reflexivity]).
    change (push (W tr') (GCall "tableMap.make" [])) with (W (GCall "tableMap.make" [] :: tr')).
    rewrite gfld1. unfold rd8.
    destruct (m (w64 (hdr + acpi_off_SDT_Revision))) as [rev|] eqn:Hrev; [|reflexivity].
    rewrite (w8_byte m Hok _ _ Hrev).
    rewrite gfld_rdle by exact Hok. change (N.to_nat 4) with (N.to_nat acpi_sizeof_SDT_Length). rewrite Hlen.
    change (gsub 32 len (gw 32 acpi_sizeof_SDTHeader)) with (sub32 len acpi_sizeof_SDTHeader).
    set (payload := sub32 len acpi_sizeof_SDTHeader).
    assert (Hp : payload < two32) by apply w32_lt.
    destruct useXSDT; cbn [Bool.eqb].
    + assert (Hc : N.shiftr payload 3 < two32).
      { rewrite N.shiftr_div_pow2. change (2 ^ 3) with 8. unfold two32 in *. lia. }
      pose proof (walk_is_translation m fail fuel _ _ rsdt rev 8%nat (N.shiftr payload 3) None hdr Hok Hf HI1
                    (or_intror eq_refl) Hc) as Hw.
      change (N.of_nat 8) with 8 in Hw.
      destruct (read_entries m (w64 (rsdt + acpi_sizeof_SDTHeader)) 8 (N.shiftr payload 3)) as [addrs|a].
      * destruct (visit_all m fail rev (with_seam state0 sm) addrs) as [s' [| | |x]]; try exact Hw. contradiction.
      * cbn [enum_ok]. exact Hw.
    + assert (Hc : N.shiftr payload 2 < two32).
      { rewrite N.shiftr_div_pow2. change (2 ^ 2) with 4. unfold two32 in *. lia. }
      pose proof (walk_is_translation m fail fuel _ _ rsdt rev 4%nat (N.shiftr payload 2) None hdr Hok Hf HI1
                    (or_introl eq_refl) Hc) as Hw.
      change (N.of_nat 4) with 4 in Hw.
      destruct (read_entries m (w64 (rsdt + acpi_sizeof_SDTHeader)) 4 (N.shiftr payload 2)) as [addrs|a].
      * destruct (visit_all m fail rev (with_seam state0 sm) addrs) as [s' [| | |x]]; try exact Hw. contradiction.
      * cbn [enum_ok]. exact Hw.
  - destruct Hm as (tr' & -> & HI' & _). cbn [negb gerr_eqb]. exists tr'. split; [reflexivity|exact (proj1 HI')].
  - destruct Hm as (tr' & -> & HI'). cbn [negb gerr_eqb]. exists tr'. split; [reflexivity|exact (proj1 HI')].
  - cbn [enum_ok]. rewrite Hm. reflexivity.
Qed.

Theorem enumerateTables_is_translation : forall (m : mem) (fail : N -> bool) (rsdt : N) (useXSDT : bool) (fuel : nat),
  bytes_ok m -> rsdt < two64 -> (N.to_nat two32 <= fuel)%nat ->
  enum_ok (go_acpi_acpiDriver_enumerateTables fuel (W []) rsdt useXSDT (ld_of m) (o_idmap fail))
          (enumerateTables m fail rsdt useXSDT).
Proof.
  intros m fail rsdt useXSDT fuel Hok Hr Hf.
  apply enumerateTables_is_translation_from; try assumption. split; reflexivity.
Qed.

(** ---- probeForACPI ---- *)
(** the driver value [&acpiDriver{rsdtAddr, useXSDT}] / nil is (true, rsdtAddr, useXSDT) / (false, 0, false) *)
Definition probe_result (tr0 : list gcall) (low : N) (r : probe_res * N * N) : gres (go_acpi_world * (bool * N * bool)) :=
  let '(pr, nmap, nunmap) := r in
  let tr := evs ev_unmapfn (page_of low) 0 (N.to_nat nunmap) ++ evs ev_mapfn (page_of low) 0 (N.to_nat nmap) ++ tr0 in
  match pr with
  | PFound root x => GOk (W tr, (true, root, x))
  | PMissing | PMapErr => GOk (W tr, (false, 0, false))
  | PStray _ => GPanic
  | PFuel => GFuel
  end.

Theorem probe_is_translation : forall (m : mem) (low hi align : N) (pfail : option N) (tr0 : list gcall) (fuel : nat),
  bytes_ok m -> low < two64 -> 0 < align -> hi + align <= two64 ->
  (N.to_nat (locate_fuel low hi align) < fuel)%nat ->
  go_acpi_probeForACPI fuel (W tr0) (ld_of m) align hi low (o_map pfail (List.length tr0)) =
  probe_result tr0 low (locateRSDT m low hi align pfail).
Proof.
  intros m low hi align pfail tr0 fuel Hok Hlow Hal Hhi Hf. unfold go_acpi_probeForACPI.
  rewrite (locateRSDT_is_translation m low hi align pfail tr0 fuel Hok Hlow Hal Hhi Hf).
  unfold locate_result, probe_result.
  destruct (locateRSDT m low hi align pfail) as [[pr nmap] nunmap]. destruct pr; reflexivity.
Qed.

(** ---- DriverInit ---- *)
Definition ev_print : gcall := GCall "printTableInfo" [].

(** printTableInfo is a seam: the translation records the call; what it prints (and whether reading the registered headers
    strays, the model's [info_lines]) lies behind it *)
Definition init_ok (res : gres Eres) (r : state * init_res * list event) : Prop :=
  match r with
  | (s, IOk, _) => exists tr, res = GOk (W (ev_print :: tr), None) /\ abs tr = s
  | (s, IStray _, _) => res = GPanic \/ exists tr, res = GOk (W (ev_print :: tr), None) /\ abs tr = s
  | (s, r, _) => exists tr, res = GOk (W tr, err_of r) /\ abs tr = s
  end.

Theorem driverInit_is_translation_from : forall (m : mem) (fail : N -> bool) (rsdt : N) (useXSDT : bool) (fuel : nat) (tr0 : list gcall),
  bytes_ok m -> rsdt < two64 -> (N.to_nat two32 <= fuel)%nat -> Inv tr0 state0 ->
  init_ok (go_acpi_acpiDriver_DriverInit fuel (W tr0) rsdt useXSDT (ld_of m) (o_idmap fail))
          (driverInit m fail rsdt useXSDT).
Proof.
  intros m fail rsdt useXSDT fuel tr0 Hok Hr Hf HI0. unfold go_acpi_acpiDriver_DriverInit, driverInit.
  pose proof (enumerateTables_is_translation_from m fail rsdt useXSDT fuel tr0 Hok Hr Hf HI0) as He.
  destruct (enumerateTables m fail rsdt useXSDT) as [s [| | |a]]; cbn [enum_ok err_of] in He.
  - destruct He as (tr & -> & Ha). cbn [negb gerr_eqb].
    destruct (info_lines m (canon (st_tmap s))) as [es|a]; cbn [init_ok].
    + exists tr. split; [reflexivity|exact Ha].
    + right. exists tr. split; [reflexivity|exact Ha].
  - destruct He as (tr & -> & Ha). cbn. exists tr. split; [reflexivity|exact Ha].
  - destruct He as (tr & -> & Ha). cbn. exists tr. split; [reflexivity|exact Ha].
  - cbn [init_ok]. left. rewrite He. reflexivity.
Qed.

Theorem driverInit_is_translation : forall (m : mem) (fail : N -> bool) (rsdt : N) (useXSDT : bool) (fuel : nat),
  bytes_ok m -> rsdt < two64 -> (N.to_nat two32 <= fuel)%nat ->
  init_ok (go_acpi_acpiDriver_DriverInit fuel (W []) rsdt useXSDT (ld_of m) (o_idmap fail))
          (driverInit m fail rsdt useXSDT).
Proof.
  intros m fail rsdt useXSDT fuel Hok Hr Hf.
  apply driverInit_is_translation_from; try assumption. split; reflexivity.
Qed.

(** ---- probe, then DriverInit on the driver it returns (what device detection does) ---- *)
Definition probe_then_init (fuel : nat) (tr0 : list gcall) (ld : N -> N -> option N) (align hi low : N)
  (o_mapFn : list gcall -> option string) (o_idFn : list gcall -> N * option string)
  : gres (go_acpi_world * (bool * option string)) :=
  match go_acpi_probeForACPI fuel (W tr0) ld align hi low o_mapFn with
  | GPanic => GPanic | GFuel => GFuel
  | GOk (w, (false, _, _)) => GOk (w, (false, None))               (* no driver: nothing to initialise *)
  | GOk (w, (true, rsdtAddr, useXSDT)) =>
      match go_acpi_acpiDriver_DriverInit fuel w rsdtAddr useXSDT ld o_idFn with
      | GPanic => GPanic | GFuel => GFuel
      | GOk (w', e) => GOk (w', (true, e))
      end
  end.

Lemma check_slot_accept_lt m cur p x : bytes_ok m -> check_slot m cur = SAccept p x -> p < two64.
Proof.
  intros Hok. unfold check_slot.
  destruct (sig_match m (w64 (cur + acpi_off_RSDP_Signature)) acpi_rsdpSignature) as [[|]|a]; try discriminate.
  destruct (rd8 m (w64 (cur + acpi_off_RSDP_Revision))) as [rev|a]; try discriminate.
  destruct (rev =? acpi_acpiRev1).
  - destruct (validTable m cur acpi_sizeof_RSDPDescriptor) as [[|]|a]; try discriminate.
    destruct (rdle m (w64 (cur + acpi_off_RSDP_RSDTAddr)) (N.to_nat acpi_sizeof_RSDP_RSDTAddr)) as [v|a] eqn:Hv; try discriminate.
    intros H. inversion H; subst. eapply rdle_lt64; [exact Hok| |exact Hv]. vm_compute. lia.
  - destruct (validTable m cur acpi_extRSDPLength) as [[|]|a]; try discriminate.
    destruct (rdle m (w64 (cur + acpi_off_ExtRSDP_XSDTAddr)) (N.to_nat acpi_sizeof_ExtRSDP_XSDTAddr)) as [v|a] eqn:Hv; try discriminate.
    intros H. inversion H; subst. eapply rdle_lt64; [exact Hok| |exact Hv]. vm_compute. lia.
Qed.

Lemma scan_rel_found_lt m hi align : bytes_ok m -> forall cur r, scan_rel m hi align cur r ->
  forall p x, r = PFound p x -> p < two64.
Proof.
  intros Hok cur r H. induction H; intros p' x' E; try discriminate.
  - inversion E; subst. eapply check_slot_accept_lt; eassumption.
  - eapply IHscan_rel. exact E.
Qed.

Lemma locate_found_lt m low hi align pfail root x nm nu : bytes_ok m -> 0 < align -> hi + align <= two64 ->
  locateRSDT m low hi align pfail = (PFound root x, nm, nu) -> root < two64.
Proof.
  intros Hok Hal Hhi H. unfold locateRSDT in H.
  assert (Hs : scan m low hi align = PFound root x).
  { destruct pfail as [k|]; [destruct (k <? _)|]; inversion H; reflexivity. }
  eapply scan_rel_found_lt; [exact Hok|apply (scan_is_rel m low hi align Hal Hhi)|exact Hs].
Qed.

(** calls that are neither identityMapFn nor one of the driver's own events leave the model state alone *)
Definition other_call (c : gcall) : Prop := (forall s, abs_step c s = s) /\ is_idmap c = false.

Lemma Inv_app_other l tr s : Forall other_call l -> Inv tr s -> Inv (l ++ tr) s.
Proof.
  induction 1 as [|c l [Hc Hi] _ IH]; intros HI; [exact HI|].
  specialize (IH HI). destruct IH as [Ha Hn]. cbn [app]. split.
  - rewrite abs_cons, Ha. apply Hc.
  - destruct c as [n a]. unfold n_idmap in *. cbn [filter]. cbn [is_idmap] in Hi. change (is_idmap (GCall n a)) with (String.eqb n "identityMapFn"). rewrite Hi. exact Hn.
Qed.

Lemma evs_other mk first i n : (forall p, other_call (mk p)) -> Forall other_call (evs mk first i n).
Proof.
  intros H. unfold evs. apply Forall_rev. rewrite Forall_forall. intros c Hin.
  apply in_map_iff in Hin. destruct Hin as (j & <- & _). apply H.
Qed.

Definition pti_ok (res : gres (go_acpi_world * (bool * option string))) (m : mem) (fail : N -> bool)
  (r : probe_res * N * N) : Prop :=
  match r with
  | (PFound root x, _, _) =>
      match driverInit m fail root x with
      | (s, IOk, _) => exists tr, res = GOk (W (ev_print :: tr), (true, None)) /\ abs tr = s
      | (s, IStray _, _) => res = GPanic \/ exists tr, res = GOk (W (ev_print :: tr), (true, None)) /\ abs tr = s
      | (s, r, _) => exists tr, res = GOk (W tr, (true, err_of r)) /\ abs tr = s
      end
  | (PMissing, _, _) | (PMapErr, _, _) => exists tr, res = GOk (W tr, (false, None)) /\ abs tr = state0
  | (PStray _, _, _) => res = GPanic
  | (PFuel, _, _) => False
  end.

Theorem probe_then_init_is_translation :
  forall (m : mem) (low hi align : N) (pfail : option N) (fail : N -> bool) (fuel : nat),
  bytes_ok m -> low < two64 -> 0 < align -> hi + align <= two64 ->
  (N.to_nat (locate_fuel low hi align) < fuel)%nat -> (N.to_nat two32 <= fuel)%nat ->
  pti_ok (probe_then_init fuel [] (ld_of m) align hi low (o_map pfail 0) (o_idmap fail)) m fail
         (locateRSDT m low hi align pfail).
Proof.
  intros m low hi align pfail fail fuel Hok Hlow Hal Hhi Hf1 Hf2. unfold probe_then_init.
  change (o_map pfail 0) with (o_map pfail (List.length (@nil gcall))).
  rewrite (probe_is_translation m low hi align pfail [] fuel Hok Hlow Hal Hhi Hf1).
  destruct (locateRSDT m low hi align pfail) as [[pr nmap] nunmap] eqn:Hl. unfold probe_result.
  set (tr := evs ev_unmapfn (page_of low) 0 (N.to_nat nunmap) ++ evs ev_mapfn (page_of low) 0 (N.to_nat nmap) ++ []).
  assert (HI : Inv tr state0).
  { unfold tr. apply Inv_app_other; [apply evs_other; intros p; split; [intros s|]; reflexivity|].
    apply Inv_app_other; [apply evs_other; intros p; split; [intros s|]; reflexivity|]. split; reflexivity. }
  destruct pr as [root x| | |a|]; cbn [pti_ok].
  - assert (Hroot : root < two64) by (eapply locate_found_lt; eassumption).
    pose proof (driverInit_is_translation_from m fail root x fuel tr Hok Hroot Hf2 HI) as Hd.
    destruct (driverInit m fail root x) as [[s r] info]. destruct r as [| | |a]; cbn [init_ok] in Hd.
    + destruct Hd as (tr' & -> & Ha). exists tr'. split; [reflexivity|exact Ha].
    + destruct Hd as (tr' & -> & Ha). exists tr'. split; [reflexivity|exact Ha].
    + destruct Hd as (tr' & -> & Ha). exists tr'. split; [reflexivity|exact Ha].
    + destruct Hd as [->|(tr' & -> & Ha)]; [left; reflexivity|right; exists tr'; split; [reflexivity|exact Ha]].
  - exists tr. split; [reflexivity|exact (proj1 HI)].
  - exists tr. split; [reflexivity|exact (proj1 HI)].
  - reflexivity.
  - (* PFuel is impossible under the hypotheses *)
    pose proof (scan_is_translation m [] low hi align fuel Hok Hlow Hal Hhi) as Hs.
    unfold locateRSDT in Hl.
    assert (Hsc : scan m low hi align = PFuel) by (destruct pfail as [k|]; [destruct (k <? _)|]; inversion Hl; reflexivity).
    unfold locate_fuel in Hf1. rewrite Hsc in Hs. apply Hs.
    + revert Hf1. generalize (npages_of low hi) ((hi - low) / align) slot_fuel. intros; lia.
    + revert Hf1. generalize (npages_of low hi) ((hi - low) / align) slot_fuel. intros; lia.
Qed.
