(** The hand-written model of the ACPI driver (Acpi/Model.v: [validTable], [locateRSDT], ... - the functions the C14
    theorems are about) IS the Gallina translation that gen/gotrans regenerates from kernel/device/acpi/acpi.go on every
    run (Gen/Trans_acpi_driver.v; config gen/gotrans/acpi_driver.json, feature "acpi" of gen/gotrans/ext_acpi.go).

    The translation reads memory through an oracle [ld : bytes -> address -> option value]; [ld_of m] is the oracle of the
    model's firmware memory [m] (a partial map address -> byte): a little-endian read of consecutive bytes, [None] when a
    byte is missing - the translated code then reports GPanic where the model says [Fault a] / [PStray a].
    Struct fields are loads at the offsets the Go compiler gives (Gen/Consts_device_acpi.v).  The seams mapFn / unmapFn
    are calls recorded on the trace of the synthetic record [world]; what mapFn returns is an oracle on the trace. *)
From Coq Require Import NArith ZArith Lia List Bool String.
From Coq Require Import ZifyBool ZifyN ZifyNat.
From FF Require Import Lib.Word Lib.GoOps Lib.GoOpsProofs Lib.GoStruct Gen.Consts_device_acpi Gen.Trans_acpi_driver.
From FF Require Import Acpi.Model Acpi.Spec Acpi.BytesProofs Acpi.ProbeProofs.
Import ListNotations.
Local Open Scope N_scope.
Ltac Zify.zify_post_hook ::= Z.div_mod_to_equations.

(** ---- the memory oracle of a firmware image ---- *)
Definition ld_of (m : mem) (n a : N) : option N :=
  match rdle m a (N.to_nat n) with Got v => Some v | Fault _ => None end.

Lemma gw8_w8 x : gw 8 x = w8 x.
Proof. reflexivity. Qed.

Lemma gw32_w32 x : gw 32 x = w32 x.
Proof. reflexivity. Qed.

Lemma gload1 m a : gload (ld_of m) 1 a = match m a with Some b => Some (w8 b) | None => None end.
Proof.
  unfold gload, ld_of. change (N.to_nat 1) with 1%nat. cbn [rdle].
  destruct (m a) as [b|]; [|reflexivity]. f_equal. change (8 * 1) with 8. rewrite gw8_w8. f_equal. lia.
Qed.

(** a read of [n] bytes returns a value below 256^n *)
Lemma rdle_lt m : bytes_ok m -> forall n a v, rdle m a n = Got v -> v < 256 ^ N.of_nat n.
Proof.
  intros Hok n a v H. apply rdle_spec in H. destruct H as (bs & Hl & Hb & ->).
  rewrite <- Hl. eapply le_bytes_lt; eauto.
Qed.

Lemma gload_rdle m : bytes_ok m -> forall n a,
  gload (ld_of m) n a = match rdle m a (N.to_nat n) with Got v => Some v | Fault _ => None end.
Proof.
  intros Hok n a. unfold gload, ld_of. destruct (rdle m a (N.to_nat n)) as [v|x] eqn:E; [|reflexivity].
  f_equal. unfold gw. apply N.mod_small. pose proof (rdle_lt m Hok _ _ _ E) as Hv.
  rewrite N2Nat.id in Hv. replace (2 ^ (8 * n)) with (256 ^ n); [exact Hv|].
  change 256 with (2 ^ 8). rewrite <- N.pow_mul_r. reflexivity.
Qed.

(** ---- model loops ([iter_N]) against translated loops ([gloop]) ---- *)
Definition fin {G Rr : Type} (x : gres (gctl G Rr)) : option (gres (G + Rr)) :=
  match x with
  | GOk (GNext _) => None
  | GOk (GBreak g') => Some (GOk (inl g'))
  | GOk (GRet r) => Some (GOk (inr r))
  | GPanic => Some GPanic
  | GFuel => Some GFuel
  end.

Lemma gloop_fin {G Rr} (gstep : G -> gres (gctl G Rr)) g res f :
  fin (gstep g) = Some res -> gloop (S f) gstep g = res.
Proof.
  cbn [gloop]. destruct (gstep g) as [[g'|g'|r]| |]; cbn [fin]; intros H; inversion H; reflexivity.
Qed.

Lemma gloop_next {G Rr} (gstep : G -> gres (gctl G Rr)) g g' f :
  gstep g = GOk (GNext g') -> gloop (S f) gstep g = gloop f gstep g'.
Proof. cbn [gloop]. intros ->. reflexivity. Qed.

Section Sim.
  Context {S E G Rr : Type} (step : S -> S + E) (gstep : G -> gres (gctl G Rr)).
  Variable Rel : N -> S -> G -> Prop.
  Variable Q : E -> gres (G + Rr) -> Prop.
  Variable n0 : N.
  Hypothesis Hstep : forall k s g, k < n0 -> Rel k s g ->
    match step s with
    | inl s' => exists g', gstep g = GOk (GNext g') /\ Rel (k + 1) s' g'
    | inr e => exists res, fin (gstep g) = Some res /\ Q e res
    end.

  Lemma iter_gloop : forall n k s g fuel, k + n <= n0 -> Rel k s g -> (N.to_nat n <= fuel)%nat ->
    match iter_N step n s with
    | inl s' => exists g', Rel (k + n) s' g' /\ gloop fuel gstep g = gloop (fuel - N.to_nat n) gstep g'
    | inr e => Q e (gloop fuel gstep g)
    end.
  Proof.
    induction n as [|n IH] using N.peano_ind; intros k s g fuel Hk HR Hf.
    - rewrite iter_N_0. exists g. split; [rewrite N.add_0_r; exact HR|]. f_equal. cbn. lia.
    - rewrite iter_N_succ. destruct fuel as [|fuel]; [lia|].
      pose proof (Hstep k s g ltac:(lia) HR) as Hs.
      destruct (step s) as [s'|e]; cbn [bindS].
      + destruct Hs as (g' & Hg & HR'). rewrite (gloop_next _ _ _ _ Hg).
        specialize (IH (k + 1) s' g' fuel ltac:(lia) HR' ltac:(lia)).
        destruct (iter_N step n s') as [s''|e].
        * destruct IH as (g'' & HR'' & Hl). exists g''. split.
          -- replace (k + N.succ n) with (k + 1 + n) by lia. exact HR''.
          -- rewrite Hl. f_equal. lia.
        * exact IH.
      + destruct Hs as (res & Hfin & HQ). rewrite (gloop_fin _ _ _ _ Hfin). exact HQ.
  Qed.
End Sim.

(** ---- validTable ---- *)
Theorem validTable_is_translation : forall (m : mem) (tr0 : list gcall) (ptr len : N) (fuel : nat),
  ptr < two64 -> len < two32 -> (N.to_nat len < fuel)%nat ->
  go_acpi_validTable fuel (mk_go_acpi_world tr0) ptr len (ld_of m) =
  match validTable m ptr len with
  | Got b => GOk (mk_go_acpi_world tr0, b)
  | Fault _ => GPanic
  end.
Proof.
  intros m tr0 ptr len fuel Hp Hl Hf. unfold go_acpi_validTable, validTable.
  set (w := mk_go_acpi_world tr0).
  match goal with |- context [gloop ?fu ?f ?i] => set (gstep := f) end.
  pose (Rel := fun (k : N) (s : N * N) (g : go_acpi_world * N * N) =>
                 g = (w, k, snd s) /\ fst s = w64 (ptr + k)).
  pose (Q := fun (_ : N) (r : gres (go_acpi_world * N * N + go_acpi_world * bool)) => r = GPanic).
  assert (Hstep : forall k s g, k < len -> Rel k s g ->
    match sum_step m s with
    | inl s' => exists g', gstep g = GOk (GNext g') /\ Rel (k + 1) s' g'
    | inr e => exists res, fin (gstep g) = Some res /\ Q e res
    end).
  { intros k [a s] g Hk [-> Ha]. cbn [fst snd] in *. unfold sum_step, gstep. cbv beta iota.
    destruct (N.ltb_spec k len) as [_|]; [|lia].
    assert (Ek : gw 64 k = k) by (apply gw64_small; unfold two64, two32 in *; lia).
    rewrite Ek. change (gw 64 (ptr + k)) with (w64 (ptr + k)). rewrite <- Ha, gload1.
    destruct (m a) as [b|].
    - eexists. split; [reflexivity|]. split.
      + cbn [snd]. f_equal; [f_equal|].
        * rewrite gw32_w32. apply w32_small. lia.
        * rewrite gw8_w8. unfold w8, two8. rewrite N.add_mod_idemp_r by discriminate. reflexivity.
      + cbn [fst]. rewrite Ha. apply w64_add_add.
    - eexists. split; [reflexivity|]. reflexivity. }
  pose proof (iter_gloop (sum_step m) gstep Rel Q len Hstep len 0 (ptr, 0) (w, gw 32 0, 0) fuel
                ltac:(lia) ltac:(split; [reflexivity|cbn [fst]; rewrite N.add_0_r, w64_small by exact Hp; reflexivity])
                ltac:(lia)) as H.
  destruct (iter_N (sum_step m) len (ptr, 0)) as [[a s]|e].
  - destruct H as (g' & [-> _] & ->). cbn [snd].
    destruct (fuel - N.to_nat len)%nat as [|f] eqn:Ef; [lia|].
    rewrite (gloop_fin gstep _ (GOk (inl (w, 0 + len, s)))).
    + reflexivity.
    + unfold gstep. destruct (N.ltb_spec (0 + len) len); [lia|]. reflexivity.
  - unfold Q in H. rewrite H. reflexivity.
Qed.

(** ---- locateRSDT: the translated loops in structured form ---- *)
Definition Rres : Type := (go_acpi_world * (N * bool * option string))%type.
Definition W (tr : list gcall) : go_acpi_world := mk_go_acpi_world tr.

(** [for i, b := range rsdpSignature { if rsdp.Signature[i] != b { continue checkNextBlock } }]
    (the labelled continue is `flag = true; break`, see gen/gotrans/ext_acpi.go) *)
Definition sig_gstep (ld : N -> N -> option N) (rsdp : N)
  : go_acpi_world * bool * N -> gres (gctl (go_acpi_world * bool * N) Rres) :=
  fun st => let '(v_world, flag, rng) := st in
  if rng <? glen acpi_rsdpSignature then
    match gidx acpi_rsdpSignature rng with None => GPanic | Some t1 =>
    match gfldidx ld 8 rsdp acpi_off_RSDP_Signature rng with None => GPanic | Some t2 =>
      if negb (t2 =? t1) then GOk (GBreak (v_world, true, rng))
      else GOk (GNext (v_world, flag, rng + 1)) end end
  else GOk (GBreak (v_world, flag, rng)).

(** body of [for curPtr := rsdpLocationLow; curPtr < rsdpLocationHi; curPtr += rsdpAlignment] *)
Definition scan_gstep (fuel : nat) (ld : N -> N -> option N) (align hi : N)
  : go_acpi_world * N * N * N -> gres (gctl (go_acpi_world * N * N * N) Rres) :=
  fun st => let '(v_world, v_curPtr, v_rsdp, v_rsdp2) := st in
  if v_curPtr <? hi then
    let v_rsdp := v_curPtr in
    match gloop fuel (sig_gstep ld v_rsdp) (v_world, false, 0) with
    | GPanic => GPanic | GFuel => GFuel
    | GOk (inr r) => GOk (GRet r)
    | GOk (inl st) => let '(v_world, flag, _) := st in
      if flag then GOk (GNext (v_world, gw 64 (v_curPtr + align), v_rsdp, v_rsdp2))
      else
      match gfld ld 1 v_rsdp acpi_off_RSDP_Revision with None => GPanic | Some t3 =>
      if t3 =? acpi_acpiRev1 then
        match go_acpi_validTable fuel v_world v_curPtr (gw 32 acpi_sizeof_RSDPDescriptor) ld with
        | GPanic => GPanic | GFuel => GFuel
        | GOk (v_world, t4) =>
          if negb t4 then GOk (GNext (v_world, gw 64 (v_curPtr + align), v_rsdp, v_rsdp2))
          else match gfld ld 4 v_rsdp acpi_off_RSDP_RSDTAddr with None => GPanic | Some t5 =>
               GOk (GRet (v_world, (gw 64 t5, false, None))) end
        end
      else
        let v_rsdp2 := v_curPtr in
        match go_acpi_validTable fuel v_world v_curPtr acpi_extRSDPLength ld with
        | GPanic => GPanic | GFuel => GFuel
        | GOk (v_world, t6) =>
          if negb t6 then GOk (GNext (v_world, gw 64 (v_curPtr + align), v_rsdp, v_rsdp2))
          else match gfld ld 8 v_rsdp2 acpi_off_ExtRSDP_XSDTAddr with None => GPanic | Some t7 =>
               GOk (GRet (v_world, (gw 64 t7, true, None))) end
        end
      end
    end
  else GOk (GBreak (v_world, v_curPtr, v_rsdp, v_rsdp2)).

(** body of the loop that identity-maps the search window page by page *)
Definition map_gstep (hi : N) (o_mapFn : list gcall -> option string)
  : go_acpi_world * N -> gres (gctl (go_acpi_world * N) Rres) :=
  fun st => let '(v_world, v_curPage) := st in
  if v_curPage <=? go_mm_PageFromAddress hi then
    let v_world := set_f_world_trace v_world
      (GCall "mapFn" [GNum v_curPage; GNum (gw 64 v_curPage); GNum acpi_vmm_FlagPresent] :: f_world_trace v_world) in
    let v_err := o_mapFn (f_world_trace v_world) in
    if negb (gerr_eqb v_err None) then GOk (GRet (v_world, (gw 64 0, false, v_err)))
    else GOk (GNext (v_world, gw 64 (v_curPage + 1)))
  else GOk (GBreak (v_world, v_curPage)).

(** body of the deferred loop that unmaps the window again *)
Definition unmap_gstep (hi : N) : go_acpi_world * N -> gres (gctl (go_acpi_world * N) (go_acpi_world * unit)) :=
  fun st => let '(v_world, v_curPage) := st in
  if v_curPage <=? go_mm_PageFromAddress hi then
    let v_world := set_f_world_trace v_world (GCall "unmapFn" [GNum v_curPage] :: f_world_trace v_world) in
    GOk (GNext (v_world, gw 64 (v_curPage + 1)))
  else GOk (GBreak (v_world, v_curPage)).

Definition body_form (fuel : nat) (w : go_acpi_world) (ld : N -> N -> option N) (align hi low : N)
  (o_mapFn : list gcall -> option string) : gres Rres :=
  match gloop fuel (map_gstep hi o_mapFn) (w, go_mm_PageFromAddress low) with
  | GPanic => GPanic | GFuel => GFuel
  | GOk (inr r) => GOk r
  | GOk (inl st) => let '(v_world, _) := st in
    match gloop fuel (scan_gstep fuel ld align hi) (v_world, low, 0, 0) with
    | GPanic => GPanic | GFuel => GFuel
    | GOk (inr r) => GOk r
    | GOk (inl st) => let '(v_world, _, _, _) := st in
      GOk (v_world, (gw 64 0, false, Some "errMissingRSDP"%string))
    end
  end.

(** the regenerated functions ARE these forms (checked by conversion: any change of the generated text that is not
    a renaming breaks this lemma) *)
Lemma body_unfold fuel w ld align hi low o :
  go_acpi_locateRSDT_body fuel w ld align hi low o = body_form fuel w ld align hi low o.
Proof. reflexivity. Qed.

Lemma deferred_unfold fuel w hi low :
  go_acpi_locateRSDT_deferred fuel w hi low =
  match gloop fuel (unmap_gstep hi) (w, go_mm_PageFromAddress low) with
  | GPanic => GPanic | GFuel => GFuel
  | GOk (inr r) => GOk r
  | GOk (inl st) => let '(v_world, _) := st in GOk (v_world, tt)
  end.
Proof. reflexivity. Qed.

Lemma locate_unfold fuel w ld align hi low o :
  go_acpi_locateRSDT fuel w ld align hi low o =
  match go_acpi_locateRSDT_body fuel w ld align hi low o with
  | GPanic => GPanic | GFuel => GFuel
  | GOk (w1, (a, b, c)) =>
    match go_acpi_locateRSDT_deferred fuel w1 hi low with
    | GPanic => GPanic | GFuel => GFuel
    | GOk (w2, _) => GOk (w2, (a, b, c))
    end
  end.
Proof. reflexivity. Qed.

(** ---- the signature loop = [sig_match] ---- *)
Lemma skipn_cons_nth {A} : forall (l : list A) j c r, skipn j l = c :: r -> nth_error l j = Some c /\ skipn (S j) l = r.
Proof.
  induction l as [|x l IH]; intros j c r H.
  - destruct j; discriminate.
  - destruct j as [|j]; cbn [skipn nth_error] in *.
    + inversion H; subst. split; reflexivity.
    + apply IH. exact H.
Qed.

Lemma w8_byte m : bytes_ok m -> forall a b, m a = Some b -> w8 b = b.
Proof. intros Hok a b H. unfold w8, two8. apply N.mod_small. exact (Hok a b H). Qed.

Lemma sig_loop m w cur : bytes_ok m ->
  forall rest j flag fuel, skipn j acpi_rsdpSignature = rest -> (j + List.length rest = 8)%nat -> (List.length rest < fuel)%nat ->
  match sig_match m (w64 (w64 (cur + acpi_off_RSDP_Signature) + N.of_nat j)) rest with
  | Got true => gloop fuel (sig_gstep (ld_of m) cur) (w, flag, N.of_nat j) = GOk (inl (w, flag, 8))
  | Got false => exists j', gloop fuel (sig_gstep (ld_of m) cur) (w, flag, N.of_nat j) = GOk (inl (w, true, j'))
  | Fault _ => gloop fuel (sig_gstep (ld_of m) cur) (w, flag, N.of_nat j) = GPanic
  end.
Proof.
  intros Hok rest. induction rest as [|c rest IH]; intros j flag fuel Hs Hj Hf.
  - cbn [sig_match]. destruct fuel as [|f]; [cbn in Hf; lia|].
    cbn [List.length] in Hj. replace j with 8%nat by lia.
    apply gloop_fin. reflexivity.
  - cbn [sig_match List.length] in *. destruct fuel as [|f]; [lia|].
    destruct (skipn_cons_nth _ _ _ _ Hs) as [Hn Hs'].
    set (a := w64 (w64 (cur + acpi_off_RSDP_Signature) + N.of_nat j)).
    assert (Hstep : sig_gstep (ld_of m) cur (w, flag, N.of_nat j) =
              match m a with
              | None => GPanic
              | Some b => if negb (w8 b =? c) then GOk (GBreak (w, true, N.of_nat j))
                          else GOk (GNext (w, flag, N.of_nat j + 1))
              end).
    { unfold sig_gstep. change (glen acpi_rsdpSignature) with 8.
      destruct (N.ltb_spec (N.of_nat j) 8) as [_|]; [|lia].
      unfold gidx. rewrite Nat2N.id, Hn. unfold gfldidx, gisneg.
      destruct (N.leb_spec (2 ^ (64 - 1)) (N.of_nat j)) as [Hbig|_].
      { exfalso. change (2 ^ (64 - 1)) with 9223372036854775808 in Hbig. lia. }
      destruct (N.ltb_spec (N.of_nat j) 8) as [_|]; [|lia].
      change (gw 64 (gw 64 (cur + acpi_off_RSDP_Signature) + N.of_nat j)) with a.
      rewrite gload1. destruct (m a); reflexivity. }
    assert (Ha' : w64 (a + 1) = w64 (w64 (cur + acpi_off_RSDP_Signature) + N.of_nat (S j))).
    { unfold a. rewrite w64_add_add. f_equal. lia. }
    destruct (m a) as [b|] eqn:Hm.
    + rewrite (w8_byte m Hok a b Hm) in Hstep.
      destruct (N.eqb_spec b c) as [->|Hne]; cbn [negb] in Hstep.
      * rewrite (gloop_next _ _ _ _ Hstep). rewrite Ha'.
        replace (N.of_nat j + 1) with (N.of_nat (S j)) by lia.
        apply IH; [exact Hs'|lia|lia].
      * exists (N.of_nat j). apply gloop_fin. rewrite Hstep. reflexivity.
    + apply gloop_fin. rewrite Hstep. reflexivity.
Qed.

(** ---- one slot of the scan = [check_slot] ---- *)
Lemma gfld_rdle m : bytes_ok m -> forall n p off,
  gfld (ld_of m) n p off = match rdle m (w64 (p + off)) (N.to_nat n) with Got v => Some v | Fault _ => None end.
Proof. intros Hok n p off. unfold gfld. rewrite gload_rdle by exact Hok. reflexivity. Qed.

Lemma gfld1 m p off : gfld (ld_of m) 1 p off = match m (w64 (p + off)) with Some b => Some (w8 b) | None => None end.
Proof. unfold gfld. rewrite gload1. reflexivity. Qed.

Definition slot_fuel : N := 8 + acpi_sizeof_RSDPDescriptor + acpi_extRSDPLength.

Lemma slot_is_translation m tr cur r r2 align hi fuel : bytes_ok m -> cur < two64 -> cur < hi ->
  (N.to_nat slot_fuel < fuel)%nat ->
  match check_slot m cur with
  | SAccept p x => scan_gstep fuel (ld_of m) align hi (W tr, cur, r, r2) = GOk (GRet (W tr, (p, x, None)))
  | SReject => exists r' r2', scan_gstep fuel (ld_of m) align hi (W tr, cur, r, r2) =
                              GOk (GNext (W tr, w64 (cur + align), r', r2'))
  | SStray _ => scan_gstep fuel (ld_of m) align hi (W tr, cur, r, r2) = GPanic
  end.
Proof.
  intros Hok Hc Hlt Hf. unfold slot_fuel in Hf.
  assert (Hf8 : (8 < fuel)%nat) by lia.
  assert (Hf20 : (N.to_nat acpi_sizeof_RSDPDescriptor < fuel)%nat) by lia.
  assert (Hf36 : (N.to_nat acpi_extRSDPLength < fuel)%nat) by lia.
  unfold scan_gstep, check_slot. cbv beta iota zeta.
  destruct (N.ltb_spec cur hi) as [_|]; [|lia].
  pose proof (sig_loop m (W tr) cur Hok acpi_rsdpSignature 0 false fuel eq_refl eq_refl Hf8) as Hsig.
  change (N.of_nat 0) with 0 in Hsig.
  replace (w64 (w64 (cur + acpi_off_RSDP_Signature) + 0)) with (w64 (cur + acpi_off_RSDP_Signature)) in Hsig
    by (rewrite w64_add_add; f_equal; lia).
  destruct (sig_match m (w64 (cur + acpi_off_RSDP_Signature)) acpi_rsdpSignature) as [[|]|x].
  2:{ destruct Hsig as (j' & ->). cbv beta iota. eexists _, _. reflexivity. }
  2:{ rewrite Hsig. reflexivity. }
  rewrite Hsig. cbv beta iota. rewrite gfld1. unfold rd8.
  destruct (m (w64 (cur + acpi_off_RSDP_Revision))) as [rev|] eqn:Hrev; [|reflexivity].
  rewrite (w8_byte m Hok _ _ Hrev).
  destruct (rev =? acpi_acpiRev1).
  - change (gw 32 acpi_sizeof_RSDPDescriptor) with acpi_sizeof_RSDPDescriptor.
    unfold W. rewrite validTable_is_translation by (try exact Hc; try exact Hf20; reflexivity).
    destruct (validTable m cur acpi_sizeof_RSDPDescriptor) as [[|]|x]; cbn [negb].
    + rewrite gfld_rdle by exact Hok. change (N.to_nat 4) with (N.to_nat acpi_sizeof_RSDP_RSDTAddr).
      destruct (rdle m (w64 (cur + acpi_off_RSDP_RSDTAddr)) (N.to_nat acpi_sizeof_RSDP_RSDTAddr)) as [p|x] eqn:Hp; [|reflexivity].
      rewrite gw64_small; [reflexivity|].
      pose proof (rdle_lt m Hok _ _ _ Hp) as Hv. rewrite N2Nat.id in Hv.
      change (256 ^ acpi_sizeof_RSDP_RSDTAddr) with 4294967296 in Hv. unfold two64. lia.
    + eexists _, _. rewrite gw64. reflexivity.
    + reflexivity.
  - unfold W. rewrite validTable_is_translation by (try exact Hc; try exact Hf36; reflexivity).
    destruct (validTable m cur acpi_extRSDPLength) as [[|]|x]; cbn [negb].
    + rewrite gfld_rdle by exact Hok. change (N.to_nat 8) with (N.to_nat acpi_sizeof_ExtRSDP_XSDTAddr).
      destruct (rdle m (w64 (cur + acpi_off_ExtRSDP_XSDTAddr)) (N.to_nat acpi_sizeof_ExtRSDP_XSDTAddr)) as [p|x] eqn:Hp; [|reflexivity].
      rewrite gw64_small; [reflexivity|].
      pose proof (rdle_lt m Hok _ _ _ Hp) as Hv. rewrite N2Nat.id in Hv. exact Hv.
    + eexists _, _. rewrite gw64. reflexivity.
    + reflexivity.
Qed.

(** ---- the scan loop = [scan] ---- *)
Lemma scan_is_translation m tr low hi align fuel : bytes_ok m -> low < two64 -> 0 < align -> hi + align <= two64 ->
  (N.to_nat ((hi - low) / align + 2) <= fuel)%nat -> (N.to_nat slot_fuel < fuel)%nat ->
  match scan m low hi align with
  | PFound p x => gloop fuel (scan_gstep fuel (ld_of m) align hi) (W tr, low, 0, 0) = GOk (inr (W tr, (p, x, None)))
  | PMissing => exists c r r2, gloop fuel (scan_gstep fuel (ld_of m) align hi) (W tr, low, 0, 0) = GOk (inl (W tr, c, r, r2))
  | PStray _ => gloop fuel (scan_gstep fuel (ld_of m) align hi) (W tr, low, 0, 0) = GPanic
  | PMapErr | PFuel => False
  end.
Proof.
  intros Hok Hlow Hal Hhi Hf Hsf.
  set (gstep := scan_gstep fuel (ld_of m) align hi).
  pose (Rel := fun (_ : N) (cur : N) (g : go_acpi_world * N * N * N) =>
                 cur < two64 /\ exists r r2, g = (W tr, cur, r, r2)).
  pose (Q := fun (e : probe_res) (res : gres (go_acpi_world * N * N * N + Rres)) =>
               match e with
               | PFound p x => res = GOk (inr (W tr, (p, x, None)))
               | PMissing => exists c r r2, res = GOk (inl (W tr, c, r, r2))
               | PStray _ => res = GPanic
               | PMapErr | PFuel => False
               end).
  set (n := (hi - low) / align + 2) in *.
  assert (Hstep : forall k s g, k < n -> Rel k s g ->
    match scan_step m hi align s with
    | inl s' => exists g', gstep g = GOk (GNext g') /\ Rel (k + 1) s' g'
    | inr e => exists res, fin (gstep g) = Some res /\ Q e res
    end).
  { intros k cur g _ (Hc & r & r2 & ->). unfold scan_step.
    destruct (N.ltb_spec cur hi) as [Hlt|Hge].
    - pose proof (slot_is_translation m tr cur r r2 align hi fuel Hok Hc Hlt Hsf) as Hs. fold gstep in Hs.
      destruct (check_slot m cur) as [p x| |a].
      + exists (GOk (inr (W tr, (p, x, None)))). rewrite Hs. split; reflexivity.
      + destruct Hs as (r' & r2' & ->). eexists. split; [reflexivity|]. split; [apply w64_lt|]. eexists _, _. reflexivity.
      + exists GPanic. rewrite Hs. split; reflexivity.
    - eexists. split.
      + unfold gstep, scan_gstep. cbv beta iota. destruct (N.ltb_spec cur hi) as [|_]; [lia|]. reflexivity.
      + cbn. eexists _, _, _. reflexivity. }
  pose proof (iter_gloop (scan_step m hi align) gstep Rel Q n Hstep n 0 low (W tr, low, 0, 0) fuel
                ltac:(lia) ltac:(split; [exact Hlow|eexists _, _; reflexivity]) Hf) as H.
  unfold scan. fold n.
  destruct (scan_total m hi align Hal Hhi n low) as (r & Hi & _).
  { unfold n. lia. }
  { unfold n. pose proof (N.div_mod (hi - low) align ltac:(lia)) as Hdm.
    pose proof (N.mod_lt (hi - low) align ltac:(lia)) as Hml.
    set (q := (hi - low) / align) in *. set (r0 := (hi - low) mod align) in *. clearbody q r0. nia. }
  rewrite Hi in H |- *. exact H.
Qed.

(** ---- the page loops ---- *)
Definition ev_mapfn (p : N) : gcall := GCall "mapFn" [GNum p; GNum p; GNum acpi_vmm_FlagPresent].
Definition ev_unmapfn (p : N) : gcall := GCall "unmapFn" [GNum p].

(** the events for pages first+i .. first+i+n-1, most recent first *)
Definition evs (mk : N -> gcall) (first : N) (i n : nat) : list gcall :=
  rev (map (fun j => mk (first + N.of_nat j)) (seq i n)).

Lemma evs_S mk first i n : evs mk first i (S n) = evs mk first (S i) n ++ [mk (first + N.of_nat i)].
Proof. unfold evs. cbn [seq map rev]. reflexivity. Qed.

(** a mapFn that fails at its call number [fail] (0-based), counted from a trace of length [base] *)
Definition o_map (fail : option N) (base : nat) (tr : list gcall) : option string :=
  match fail with
  | Some k => if N.of_nat (List.length tr) =? N.of_nat base + k + 1 then Some "errMap"%string else None
  | None => None
  end.

Definition npages_of (low hi : N) : N :=
  if page_of low <=? page_of hi then page_of hi - page_of low + 1 else 0.

Lemma page_of_trans a : a < two64 -> go_mm_PageFromAddress a = page_of a.
Proof.
  intros Ha. unfold go_mm_PageFromAddress, page_of, PageSize, PageShift.
  assert (E: gw 64 (gsub 64 acpi_mm_PageSize 1) = acpi_mm_PageSize - 1) by reflexivity.
  rewrite E, land_gnot64 by (try exact Ha; reflexivity).
  assert (H: N.shiftr (N.ldiff a (acpi_mm_PageSize - 1)) acpi_mm_PageShift < two64).
  { rewrite N.shiftr_div_pow2.
    assert (H1: N.ldiff a (acpi_mm_PageSize - 1) <= a).
    { change (acpi_mm_PageSize - 1) with (2 ^ 12 - 1). fold (andnot a (2 ^ 12 - 1)). rewrite andnot_pow2. lia. }
    change (2 ^ acpi_mm_PageShift) with 4096. lia. }
  rewrite gw64_small by exact H. unfold andnot. reflexivity.
Qed.

Lemma page_of_small a : a < two64 -> page_of a < 4503599627370496.
Proof.
  intros Ha. unfold page_of, PageSize, PageShift. rewrite N.shiftr_div_pow2.
  change (acpi_mm_PageSize - 1) with (2 ^ 12 - 1). rewrite andnot_pow2.
  change (2 ^ acpi_mm_PageShift) with 4096. change (2 ^ 12) with 4096. unfold two64 in Ha. lia.
Qed.

Lemma npages_cases low hi :
  (page_of low <= page_of hi /\ npages_of low hi = page_of hi - page_of low + 1) \/
  (page_of hi < page_of low /\ npages_of low hi = 0).
Proof. unfold npages_of. destruct (N.leb_spec (page_of low) (page_of hi)); [left|right]; split; auto. Qed.

Lemma unmap_loop low hi : hi < two64 ->
  forall n i tr fu, (i + n = N.to_nat (npages_of low hi))%nat -> (n < fu)%nat ->
    gloop fu (unmap_gstep hi) (W tr, page_of low + N.of_nat i) =
    GOk (inl (W (evs ev_unmapfn (page_of low) i n ++ tr), page_of low + npages_of low hi)).
Proof.
  intros Hhi. pose proof (page_of_small hi Hhi) as Hsm.
  induction n as [|n IH]; intros i tr fu Hin Hfu; (destruct fu as [|fu]; [lia|]).
  - apply gloop_fin. unfold unmap_gstep. cbv beta iota. rewrite page_of_trans by exact Hhi.
    destruct (npages_cases low hi) as [[Hle Hn]|[Hgt Hn]]; rewrite Hn in *;
      (destruct (N.leb_spec (page_of low + N.of_nat i) (page_of hi)); [lia|]);
      cbn [fin evs seq map rev app]; do 4 f_equal; lia.
  - assert (Hstep : unmap_gstep hi (W tr, page_of low + N.of_nat i) =
                    GOk (GNext (W (ev_unmapfn (page_of low + N.of_nat i) :: tr), page_of low + N.of_nat (S i)))).
    { unfold unmap_gstep. cbv beta iota zeta. rewrite page_of_trans by exact Hhi.
      destruct (npages_cases low hi) as [[Hle Hn]|[Hgt Hn]]; rewrite Hn in *; [|lia].
      destruct (N.leb_spec (page_of low + N.of_nat i) (page_of hi)); [|lia].
      cbn [set_f_world_trace f_world_trace W]. rewrite gw64_small by (unfold two64; lia).
      do 3 f_equal. lia. }
    rewrite (gloop_next _ _ _ _ Hstep). rewrite IH by lia.
    rewrite evs_S, <- app_assoc. reflexivity.
Qed.

Lemma map_loop low hi pfail base : hi < two64 ->
  forall n i tr fu, (i + n = N.to_nat (npages_of low hi))%nat -> List.length tr = (base + i)%nat -> (n < fu)%nat ->
    gloop fu (map_gstep hi (o_map pfail base)) (W tr, page_of low + N.of_nat i) =
    if match pfail with Some k => (N.of_nat i <=? k) && (k <? npages_of low hi) | None => false end
    then GOk (inr (W (evs ev_mapfn (page_of low) i (N.to_nat (match pfail with Some k => k | None => 0 end) + 1 - i) ++ tr),
                   (0, false, Some "errMap"%string)))
    else GOk (inl (W (evs ev_mapfn (page_of low) i n ++ tr), page_of low + npages_of low hi)).
Proof.
  intros Hhi. pose proof (page_of_small hi Hhi) as Hsm.
  induction n as [|n IH]; intros i tr fu Hin Hlen Hfu; (destruct fu as [|fu]; [lia|]).
  - replace (match pfail with Some k => (N.of_nat i <=? k) && (k <? npages_of low hi) | None => false end) with false
      by (destruct pfail as [k|]; [|reflexivity]; destruct (N.leb_spec (N.of_nat i) k); destruct (N.ltb_spec k (npages_of low hi)); cbn [andb]; try reflexivity; lia).
    apply gloop_fin. unfold map_gstep. cbv beta iota. rewrite page_of_trans by exact Hhi.
    destruct (npages_cases low hi) as [[Hle Hn]|[Hgt Hn]]; rewrite Hn in *;
      (destruct (N.leb_spec (page_of low + N.of_nat i) (page_of hi)); [lia|]);
      cbn [fin evs seq map rev app]; do 4 f_equal; lia.
  - destruct (npages_cases low hi) as [[Hle Hn]|[Hgt Hn]]; [|rewrite Hn in Hin; lia].
    set (p := page_of low + N.of_nat i).
    assert (Hp : p <= page_of hi) by (unfold p; lia).
    assert (Hstep : map_gstep hi (o_map pfail base) (W tr, p) =
              if negb (gerr_eqb (o_map pfail base (ev_mapfn p :: tr)) None)
              then GOk (GRet (W (ev_mapfn p :: tr), (0, false, o_map pfail base (ev_mapfn p :: tr))))
              else GOk (GNext (W (ev_mapfn p :: tr), page_of low + N.of_nat (S i)))).
    { unfold map_gstep. cbv beta iota zeta. rewrite page_of_trans by exact Hhi.
      destruct (N.leb_spec p (page_of hi)); [|lia].
      cbn [set_f_world_trace f_world_trace W]. rewrite !gw64_small by (unfold two64, p in *; lia).
      unfold ev_mapfn. replace (p + 1) with (page_of low + N.of_nat (S i)) by (unfold p; lia). reflexivity. }
    assert (Ho : o_map pfail base (ev_mapfn p :: tr) =
                 match pfail with
                 | Some k => if N.of_nat (S (base + i)) =? N.of_nat base + k + 1 then Some "errMap"%string else None
                 | None => None
                 end).
    { unfold o_map. cbn [List.length]. rewrite Hlen. reflexivity. }
    rewrite Ho in Hstep. clear Ho.
    destruct pfail as [k|].
    + destruct (N.eqb_spec (N.of_nat (S (base + i))) (N.of_nat base + k + 1)) as [Heq|Hne].
      * assert (Hk : k = N.of_nat i) by lia. subst k. cbn [gerr_eqb negb] in Hstep.
        destruct (N.leb_spec (N.of_nat i) (N.of_nat i)); [|lia].
        destruct (N.ltb_spec (N.of_nat i) (npages_of low hi)); [|lia]. cbn [andb].
        apply gloop_fin. rewrite Hstep. cbn [fin]. rewrite Nat2N.id.
        replace (i + 1 - i)%nat with 1%nat by lia. reflexivity.
      * cbn [gerr_eqb negb] in Hstep. rewrite (gloop_next _ _ _ _ Hstep).
        rewrite IH by (cbn [List.length]; lia).
        replace ((N.of_nat (S i) <=? k) && (k <? npages_of low hi)) with ((N.of_nat i <=? k) && (k <? npages_of low hi))
          by (destruct (N.leb_spec (N.of_nat i) k); destruct (N.leb_spec (N.of_nat (S i)) k); try reflexivity; lia).
        destruct ((N.of_nat i <=? k) && (k <? npages_of low hi)) eqn:Hc.
        -- assert (Hik : N.of_nat i < k) by (apply andb_prop in Hc; destruct Hc as [H1 _]; apply N.leb_le in H1; lia).
           replace (N.to_nat k + 1 - i)%nat with (S (N.to_nat k + 1 - S i)) by lia.
           rewrite evs_S, <- app_assoc. reflexivity.
        -- rewrite evs_S, <- app_assoc. reflexivity.
    + cbn [gerr_eqb negb] in Hstep. rewrite (gloop_next _ _ _ _ Hstep).
      rewrite IH by (cbn [List.length]; lia). rewrite evs_S, <- app_assoc. reflexivity.
Qed.

(** ---- locateRSDT ---- *)
Definition locate_fuel (low hi align : N) : N := npages_of low hi + (hi - low) / align + slot_fuel + 2.

Definition locate_result (tr0 : list gcall) (low : N) (r : probe_res * N * N) : gres Rres :=
  let '(pr, nmap, nunmap) := r in
  let tr := evs ev_unmapfn (page_of low) 0 (N.to_nat nunmap) ++ evs ev_mapfn (page_of low) 0 (N.to_nat nmap) ++ tr0 in
  match pr with
  | PFound root x => GOk (W tr, (root, x, None))
  | PMissing => GOk (W tr, (0, false, Some "errMissingRSDP"%string))
  | PMapErr => GOk (W tr, (0, false, Some "errMap"%string))
  | PStray _ => GPanic
  | PFuel => GFuel
  end.

Lemma deferred_is_translation low hi tr fuel : low < two64 -> hi < two64 ->
  (N.to_nat (npages_of low hi) < fuel)%nat ->
  go_acpi_locateRSDT_deferred fuel (W tr) hi low =
  GOk (W (evs ev_unmapfn (page_of low) 0 (N.to_nat (npages_of low hi)) ++ tr), tt).
Proof.
  intros Hlow Hhi Hf. rewrite deferred_unfold, page_of_trans by exact Hlow.
  replace (page_of low) with (page_of low + N.of_nat 0) at 1 by (cbn; lia).
  rewrite (unmap_loop low hi Hhi (N.to_nat (npages_of low hi)) 0 tr fuel) by lia. reflexivity.
Qed.

Theorem locateRSDT_is_translation : forall (m : mem) (low hi align : N) (pfail : option N) (tr0 : list gcall) (fuel : nat),
  bytes_ok m -> low < two64 -> 0 < align -> hi + align <= two64 ->
  (N.to_nat (locate_fuel low hi align) < fuel)%nat ->
  go_acpi_locateRSDT fuel (W tr0) (ld_of m) align hi low (o_map pfail (List.length tr0)) =
  locate_result tr0 low (locateRSDT m low hi align pfail).
Proof.
  intros m low hi align pfail tr0 fuel Hok Hlow Hal Hhi Hf. unfold locate_fuel in Hf.
  assert (Hhi' : hi < two64) by lia.
  assert (Hf3 : (N.to_nat (npages_of low hi) < fuel)%nat /\ (N.to_nat ((hi - low) / align + 2) <= fuel)%nat /\
                (N.to_nat slot_fuel < fuel)%nat).
  { revert Hf. generalize (npages_of low hi) ((hi - low) / align) slot_fuel. intros a b c Hf. lia. }
  destruct Hf3 as (Hf_np & Hf_scan & Hf_slot). clear Hf.
  set (np := npages_of low hi) in *.
  assert (Hdef : forall tr, go_acpi_locateRSDT_deferred fuel (W tr) hi low =
                            GOk (W (evs ev_unmapfn (page_of low) 0 (N.to_nat np) ++ tr), tt)).
  { intros tr. apply deferred_is_translation; [exact Hlow|exact Hhi'|exact Hf_np]. }
  rewrite locate_unfold, body_unfold. unfold body_form.
  rewrite page_of_trans by exact Hlow.
  replace (page_of low) with (page_of low + N.of_nat 0) at 1 by (cbn; lia).
  rewrite (map_loop low hi pfail (List.length tr0) Hhi' (N.to_nat np) 0 tr0 fuel) by (try exact Hf_np; reflexivity || (cbn; lia)).
  fold np. unfold locateRSDT. fold (npages_of low hi). fold np. change (N.of_nat 0) with 0.
  assert (Hscan : forall (k0 : option N),
    match
      match gloop fuel (scan_gstep fuel (ld_of m) align hi) (W (evs ev_mapfn (page_of low) 0 (N.to_nat np) ++ tr0), low, 0, 0) with
      | GPanic => GPanic | GFuel => GFuel
      | GOk (inr r) => GOk r
      | GOk (inl st) => let '(v_world, _, _, _) := st in GOk (v_world, (gw 64 0, false, Some "errMissingRSDP"%string))
      end
    with
    | GPanic => GPanic | GFuel => GFuel
    | GOk (w1, (a, b, c)) =>
      match go_acpi_locateRSDT_deferred fuel w1 hi low with
      | GPanic => GPanic | GFuel => GFuel
      | GOk (w2, _) => GOk (w2, (a, b, c))
      end
    end = locate_result tr0 low (scan m low hi align, np, np)).
  { intros _.
    pose proof (scan_is_translation m (evs ev_mapfn (page_of low) 0 (N.to_nat np) ++ tr0) low hi align fuel
                  Hok Hlow Hal Hhi Hf_scan Hf_slot) as Hs.
    unfold locate_result.
    destruct (scan m low hi align) as [p x| | |a|].
    - rewrite Hs. rewrite Hdef. reflexivity.
    - destruct Hs as (c & r & r2 & ->). cbv beta iota. rewrite Hdef. reflexivity.
    - destruct Hs.
    - rewrite Hs. reflexivity.
    - destruct Hs. }
  destruct pfail as [k|].
  - destruct (N.ltb_spec k np) as [Hk|Hk].
    + destruct (N.leb_spec 0 k); [|lia]. cbn [andb]. cbv beta iota.
      rewrite Hdef. unfold locate_result.
      replace (N.to_nat k + 1 - 0)%nat with (N.to_nat (k + 1)) by lia. reflexivity.
    + rewrite andb_false_r. cbv beta iota. apply (Hscan None).
  - cbv beta iota. apply (Hscan None).
Qed.

(** validTable, declaratively (with BytesProofs.validTable_true / validTable_false) *)
Theorem validTable_trans_spec : forall (m : mem) (tr0 : list gcall) (ptr len : N) (fuel : nat),
  ptr < two64 -> len < two32 -> (N.to_nat len < fuel)%nat ->
  (go_acpi_validTable fuel (mk_go_acpi_world tr0) ptr len (ld_of m) = GOk (mk_go_acpi_world tr0, true)
     <-> sums_to_zero m ptr len) /\
  (go_acpi_validTable fuel (mk_go_acpi_world tr0) ptr len (ld_of m) = GOk (mk_go_acpi_world tr0, false)
     <-> sums_to_nonzero m ptr len).
Proof.
  intros m tr0 ptr len fuel Hp Hl Hf. rewrite validTable_is_translation by assumption.
  rewrite <- validTable_true, <- validTable_false.
  destruct (validTable m ptr len) as [[|]|a]; split; split; intros H; try reflexivity; try discriminate H; inversion H.
Qed.
