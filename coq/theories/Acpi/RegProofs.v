(** Consequences of the walk: what ends up in tableMap, what is reported. *)
From Coq Require Import NArith ZArith Lia List Bool.
From FF Require Import Lib.Word Gen.Consts_device_acpi Acpi.Model Acpi.Spec Acpi.BytesProofs Acpi.EnumProofs.
Import ListNotations.
Local Open Scope N_scope.

Ltac gb := exfalso; match goal with Hg : tbl_good ?m ?t, Hb : tbl_bad ?m ?t ?l |- _ => exact (good_bad_excl m t l Hg Hb) end.

Lemma candidate_cons m rev t0 es t : candidate m rev es t -> candidate m rev (t0 :: es) t.
Proof.
  intros [H | (f & Hf & Hrest)]; [left; right; exact H | right; exists f; split; [right; exact Hf | exact Hrest]].
Qed.

Lemma candidate_inv m rev t0 es t : candidate m rev (t0 :: es) t ->
  t = t0 \/ (tbl_good m t0 /\ tbl_sig m t0 FACP /\ fadt_dsdt m rev t0 t) \/ candidate m rev es t.
Proof.
  intros [[->|H] | (f & [->|Hf] & Hrest)]; auto.
  - right. right. left. exact H.
  - right. right. right. exists f. auto.
Qed.

Lemma FACP_sig m t s : tbl_sig m t FACP -> tbl_sig m t s -> s = FACP.
Proof. intros H1 H2. eapply field_fun; eauto. Qed.

Lemma regs_sound m rev es vs ev regs : walk m rev es vs ev regs ->
  forall s t, In (s, t) regs -> candidate m rev es t /\ tbl_sig m t s /\ tbl_good m t.
Proof.
  intros H. induction H as [| t0 len sg es vs ev regs Hb Hsg Hw IH | t0 sg es vs ev regs Hg Hsg Hne Hw IH
                 | f d sd es vs ev regs Hg Hsg Hd Hgd Hsd Hw IH | f d sd len es vs ev regs Hg Hsg Hd Hbd Hsd Hw IH];
    intros s t Hin.
  - destruct Hin.
  - destruct (IH s t Hin) as (Hc & Hr). split; [apply candidate_cons; exact Hc | exact Hr].
  - destruct Hin as [Heq | Hin].
    + injection Heq as <- <-. split; [left; left; reflexivity | auto].
    + destruct (IH s t Hin) as (Hc & Hr). split; [apply candidate_cons; exact Hc | exact Hr].
  - destruct Hin as [Heq | [Heq | Hin]].
    + injection Heq as <- <-. split; [left; left; reflexivity | auto].
    + injection Heq as <- <-. split; [right; exists f; split; [left; reflexivity | auto] | auto].
    + destruct (IH s t Hin) as (Hc & Hr). split; [apply candidate_cons; exact Hc | exact Hr].
  - destruct Hin as [Heq | Hin].
    + injection Heq as <- <-. split; [left; left; reflexivity | auto].
    + destruct (IH s t Hin) as (Hc & Hr). split; [apply candidate_cons; exact Hc | exact Hr].
Qed.

Lemma regs_complete m rev es vs ev regs : walk m rev es vs ev regs ->
  forall s t, candidate m rev es t -> tbl_sig m t s -> tbl_good m t -> In (s, t) regs.
Proof.
  intros H. induction H as [| t0 len sg es vs ev regs Hb Hsg Hw IH | t0 sg es vs ev regs Hg Hsg Hne Hw IH
                 | f d sd es vs ev regs Hg Hsg Hd Hgd Hsd Hw IH | f d sd len es vs ev regs Hg Hsg Hd Hbd Hsd Hw IH];
    intros s t Hc Hs Hgt.
  - destruct Hc as [[] | (f & [] & _)].
  - apply candidate_inv in Hc. destruct Hc as [-> | [(Hg0 & _) | Hc]].
    + exfalso. exact (good_bad_excl _ _ _ Hgt Hb).
    + exfalso. exact (good_bad_excl _ _ _ Hg0 Hb).
    + eapply IH; eauto.
  - apply candidate_inv in Hc. destruct Hc as [-> | [(_ & Hf & _) | Hc]].
    + left. f_equal. eapply field_fun; eauto.
    + exfalso. apply Hne. eapply FACP_sig; eauto.
    + right. eapply IH; eauto.
  - apply candidate_inv in Hc. destruct Hc as [-> | [(_ & _ & Hd') | Hc]].
    + left. f_equal. symmetry. eapply FACP_sig; eauto.
    + right. left. rewrite (fadt_dsdt_fun _ _ _ _ _ Hd' Hd) in *. f_equal. eapply field_fun; eauto.
    + right. right. eapply IH; eauto.
  - apply candidate_inv in Hc. destruct Hc as [-> | [(_ & _ & Hd') | Hc]].
    + left. f_equal. symmetry. eapply FACP_sig; eauto.
    + exfalso. rewrite (fadt_dsdt_fun _ _ _ _ _ Hd' Hd) in *. eapply good_bad_excl; eauto.
    + right. eapply IH; eauto.
Qed.

Lemma lookup_in s t l : lookup s l = Some t -> In (s, t) l.
Proof.
  induction l as [|[k v] r IH]; simpl; [discriminate|].
  destruct (N.eqb_spec k s) as [->|Hne]; intros H; [injection H as ->; left; reflexivity | right; auto].
Qed.

Lemma in_lookup s t l : (forall t', In (s, t') l -> t' = t) -> In (s, t) l -> lookup s l = Some t.
Proof.
  induction l as [|[k v] r IH]; simpl; intros Hfun Hin; [contradiction|].
  destruct (N.eqb_spec k s) as [->|Hne].
  - f_equal. apply Hfun. left. reflexivity.
  - destruct Hin as [Heq|Hin]; [congruence|]. apply IH; auto.
Qed.

Theorem registered_iff m rev es vs ev regs :
  walk m rev es vs ev regs -> distinct_signatures m rev es ->
  forall s t, lookup s (List.rev regs) = Some t <->
              (candidate m rev es t /\ tbl_sig m t s /\ tbl_good m t).
Proof.
  intros Hw Hd s t. split.
  - intros H. apply lookup_in, in_rev in H. eapply regs_sound; eauto.
  - intros (Hc & Hs & Hg). apply in_lookup.
    + intros t' Hin. apply in_rev in Hin. destruct (regs_sound _ _ _ _ _ _ Hw _ _ Hin) as (Hc' & Hs' & _).
      eapply Hd; eauto.
    + apply -> in_rev. eapply regs_complete; eauto.
Qed.

(** without the distinctness assumption: nothing but checksum-valid candidates is ever registered *)
Theorem registered_only_valid m rev es vs ev regs :
  walk m rev es vs ev regs ->
  forall s t, lookup s (List.rev regs) = Some t -> candidate m rev es t /\ tbl_sig m t s /\ tbl_good m t.
Proof. intros Hw s t H. apply lookup_in, in_rev in H. eapply regs_sound; eauto. Qed.

(** ---- reports ---- *)
Lemma events_sound m rev es vs ev regs : walk m rev es vs ev regs ->
  forall e, In e ev -> exists s len, e = EvMismatch s (ev_addr e) len /\ In (ev_addr e) vs /\
                                      tbl_bad m (ev_addr e) len /\ tbl_sig m (ev_addr e) s.
Proof.
  intros H. induction H as [| t0 len sg es vs ev regs Hb Hsg Hw IH | t0 sg es vs ev regs Hg Hsg Hne Hw IH
                 | f d sd es vs ev regs Hg Hsg Hd Hgd Hsd Hw IH | f d sd len es vs ev regs Hg Hsg Hd Hbd Hsd Hw IH];
    intros e Hin.
  - destruct Hin.
  - destruct Hin as [<- | Hin].
    + exists sg, len. simpl. auto.
    + destruct (IH e Hin) as (s & l & He & Hv & Hr). exists s, l. split; [exact He|]. split; [right; exact Hv | exact Hr].
  - destruct (IH e Hin) as (s & l & He & Hv & Hr). exists s, l. split; [exact He|]. split; [right; exact Hv | exact Hr].
  - destruct (IH e Hin) as (s & l & He & Hv & Hr). exists s, l. split; [exact He|]. split; [right; right; exact Hv | exact Hr].
  - destruct Hin as [<- | Hin].
    + exists sd, len. simpl. auto.
    + destruct (IH e Hin) as (s & l & He & Hv & Hr). exists s, l. split; [exact He|]. split; [right; right; exact Hv | exact Hr].
Qed.

Lemma events_complete m rev es vs ev regs : walk m rev es vs ev regs ->
  forall t len, In t vs -> tbl_bad m t len -> In t (map ev_addr ev).
Proof.
  intros H. induction H as [| t0 len0 sg es vs ev regs Hb Hsg Hw IH | t0 sg es vs ev regs Hg Hsg Hne Hw IH
                 | f d sd es vs ev regs Hg Hsg Hd Hgd Hsd Hw IH | f d sd len0 es vs ev regs Hg Hsg Hd Hbd Hsd Hw IH];
    intros t len Hin Hb'.
  - destruct Hin.
  - destruct Hin as [<- | Hin]; [left; reflexivity | right; eapply IH; eauto].
  - destruct Hin as [<- | Hin]; [gb | eapply IH; eauto].
  - destruct Hin as [<- | [<- | Hin]]; [gb | gb | eapply IH; eauto].
  - destruct Hin as [<- | [<- | Hin]]; [gb | left; reflexivity | right; eapply IH; eauto].
Qed.

Lemma events_addr_visited m rev es vs ev regs : walk m rev es vs ev regs ->
  forall a, In a (map ev_addr ev) -> In a vs.
Proof.
  intros Hw a Hin. apply in_map_iff in Hin. destruct Hin as (e & <- & He).
  destruct (events_sound _ _ _ _ _ _ Hw e He) as (_ & _ & _ & Hv & _). exact Hv.
Qed.

Lemma events_nodup m rev es vs ev regs : walk m rev es vs ev regs ->
  NoDup vs -> NoDup (map ev_addr ev).
Proof.
  intros H. induction H as [| t0 len0 sg es vs ev regs Hb Hsg Hw IH | t0 sg es vs ev regs Hg Hsg Hne Hw IH
                 | f d sd es vs ev regs Hg Hsg Hd Hgd Hsd Hw IH | f d sd len0 es vs ev regs Hg Hsg Hd Hbd Hsd Hw IH];
    intros Hnd.
  - constructor.
  - inversion Hnd; subst. simpl. constructor; [|auto].
    intros Hin. eapply events_addr_visited in Hin; eauto.
  - inversion Hnd; subst. auto.
  - inversion Hnd as [|? ? ? Hnd']; subst. inversion Hnd'; subst. auto.
  - inversion Hnd as [|? ? Hnf Hnd']; subst. inversion Hnd' as [|? ? Hnd0 Hnd'']; subst. simpl. constructor; [|auto].
    intros Hin. eapply events_addr_visited in Hin; eauto.
Qed.

Lemma visited_iff_candidate m rev es vs ev regs : walk m rev es vs ev regs ->
  forall t, In t vs <-> candidate m rev es t.
Proof.
  intros H. induction H as [| t0 len0 sg es vs ev regs Hb Hsg Hw IH | t0 sg es vs ev regs Hg Hsg Hne Hw IH
                 | f d sd es vs ev regs Hg Hsg Hd Hgd Hsd Hw IH | f d sd len0 es vs ev regs Hg Hsg Hd Hbd Hsd Hw IH];
    intros t.
  - split; [intros [] | intros [[] | (f & [] & _)]].
  - split.
    + intros [<- | Hin]; [left; left; reflexivity | apply candidate_cons, IH; exact Hin].
    + intros Hc. apply candidate_inv in Hc. destruct Hc as [-> | [(Hg0 & _) | Hc]];
        [left; reflexivity | gb | right; apply IH; exact Hc].
  - split.
    + intros [<- | Hin]; [left; left; reflexivity | apply candidate_cons, IH; exact Hin].
    + intros Hc. apply candidate_inv in Hc. destruct Hc as [-> | [(_ & Hf & _) | Hc]];
        [left; reflexivity | exfalso; apply Hne; eapply FACP_sig; eauto | right; apply IH; exact Hc].
  - split.
    + intros [<- | [<- | Hin]]; [left; left; reflexivity | right; exists f; split; [left; reflexivity | auto] | apply candidate_cons, IH; exact Hin].
    + intros Hc. apply candidate_inv in Hc. destruct Hc as [-> | [(_ & _ & Hd') | Hc]];
        [left; reflexivity | right; left; eapply fadt_dsdt_fun; eauto | right; right; apply IH; exact Hc].
  - split.
    + intros [<- | [<- | Hin]]; [left; left; reflexivity | right; exists f; split; [left; reflexivity | auto] | apply candidate_cons, IH; exact Hin].
    + intros Hc. apply candidate_inv in Hc. destruct Hc as [-> | [(_ & _ & Hd') | Hc]];
        [left; reflexivity | right; left; eapply fadt_dsdt_fun; eauto | right; right; apply IH; exact Hc].
Qed.

Theorem mismatch_reports m rev es vs ev regs : walk m rev es vs ev regs ->
  (forall t, In t vs <-> candidate m rev es t) /\
  (forall e, In e ev -> exists s len, e = EvMismatch s (ev_addr e) len /\ In (ev_addr e) vs /\
                                       tbl_bad m (ev_addr e) len /\ tbl_sig m (ev_addr e) s) /\
  (forall t len, In t vs -> tbl_bad m t len -> In t (map ev_addr ev)) /\
  (NoDup vs -> NoDup (map ev_addr ev)).
Proof.
  intros Hw. split; [eapply visited_iff_candidate; eauto|]. split; [eapply events_sound; eauto|].
  split; [eapply events_complete; eauto | eapply events_nodup; eauto].
Qed.

(** ---- DriverInit ---- *)
Lemma driverInit_ok m fail root useX s info :
  driverInit m fail root useX = (s, IOk, info) -> enumerateTables m fail root useX = (s, IOk).
Proof.
  unfold driverInit. destruct (enumerateTables m fail root useX) as [s0 r]. destruct r; try (intros H; inversion H; fail).
  destruct (info_lines m (canon (st_tmap s0))); intros H; inversion H. reflexivity.
Qed.

(** a seam failure aborts DriverInit with the mapping error (never IOk) *)
Lemma seam_failure_first_call m fail root useX :
  fail 0 = true -> snd (enumerateTables m fail root useX) = IErrMap.
Proof.
  intros Hf. unfold enumerateTables, mapACPITable, idmap.
  change (sk (st_seam state0)) with 0. rewrite Hf. reflexivity.
Qed.

(** everything the C14 property says about a successful DriverInit, in one statement *)
Theorem driverInit_registered m fail root useX s info :
  bytes_ok m -> root < two64 -> no_seam_failure fail ->
  (forall len, tbl_len m root len -> 36 <= len) ->
  driverInit m fail root useX = (s, IOk, info) ->
  exists len rootRev es vs ev,
    (* the root table is checksum-valid and lists es *)
    tbl_len m root len /\ sums_to_zero m root len /\ m (w64 (root + 8)) = Some rootRev /\
    root_lists m root len useX es /\
    (* registered iff candidate and checksum-valid *)
    (forall sg t, lookup sg (st_tmap s) = Some t -> candidate m rootRev es t /\ tbl_sig m t sg /\ tbl_good m t) /\
    (distinct_signatures m rootRev es ->
       forall sg t, lookup sg (st_tmap s) = Some t <-> (candidate m rootRev es t /\ tbl_sig m t sg /\ tbl_good m t)) /\
    (* every candidate is visited; a report is a bad candidate; every bad candidate is reported; once *)
    st_events s = List.rev ev /\
    (forall t, In t vs <-> candidate m rootRev es t) /\
    (forall e, In e ev -> exists sg len, e = EvMismatch sg (ev_addr e) len /\ In (ev_addr e) vs /\
                                          tbl_bad m (ev_addr e) len /\ tbl_sig m (ev_addr e) sg) /\
    (forall t len, In t vs -> tbl_bad m t len -> In t (map ev_addr ev)) /\
    (NoDup vs -> NoDup (map ev_addr ev)).
Proof.
  intros Hok Hroot Hf H36 Hd. apply driverInit_ok in Hd.
  destruct (enumerate_sound m fail root useX s Hok Hroot Hf Hd) as (len & rv & es & vs & ev & regs & Hl & Hz & Hrv & Hrl & Hw & Hev & Htm).
  exists len, rv, es, vs, ev. rewrite Htm.
  destruct (mismatch_reports m rv es vs ev regs Hw) as (M1 & M2 & M3 & M4).
  split; [exact Hl|]. split; [exact Hz|]. split; [exact Hrv|]. split; [apply Hrl; auto|].
  split; [apply (registered_only_valid m rv es vs ev regs Hw)|].
  split; [intros Hdist; apply (registered_iff m rv es vs ev regs Hw Hdist)|].
  split; [exact Hev|]. split; [exact M1|]. split; [exact M2|]. split; [exact M3 | exact M4].
Qed.

Lemma valid_table_spec (m : mem) (a len : N) :
  (validTable m a len = Got true <-> sums_to_zero m a len) /\
  (validTable m a len = Got false <-> sums_to_nonzero m a len).
Proof. exact (conj (validTable_true m a len) (validTable_false m a len)). Qed.

Lemma layout_constants :
  acpi_rsdpSignature = rsdp_signature /\ acpi_off_RSDP_Revision = 15 /\
  acpi_sizeof_RSDPDescriptor = 20 /\ acpi_extRSDPLength = 36 /\
  acpi_off_RSDP_RSDTAddr = 16 /\ acpi_off_ExtRSDP_XSDTAddr = 24 /\
  acpi_rsdpAlignment = 16 /\ acpi_rsdpLocationLow = 0xe0000 /\ acpi_rsdpLocationHi = 0xfffff /\
  acpi_sizeof_SDTHeader = 36 /\ acpi_off_SDT_Length = 4 /\ acpi_fadtSignature = FACP.
Proof. repeat split; reflexivity. Qed.
