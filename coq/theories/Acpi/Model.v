(** Model of kernel/device/acpi/acpi.go: validTable, locateRSDT / probeForACPI, mapACPITable,
    acpiDriver.enumerateTables, printTableInfo, DriverInit.   Definitions only.

    Firmware memory is a partial map address -> byte; a read of an address that is not in the
    map is the explicit outcome [Fault a] (the Go code dereferences raw pointers: on the machine
    this is a page fault / a read of whatever happens to be there).  The mapping seams
    (mapFn, identityMapFn, unmapFn) are call counters with an injectable failure. *)
From Coq Require Import NArith List Bool FMapPositive.
From FF Require Import Lib.Word Gen.Consts_device_acpi.
Import ListNotations.
Local Open Scope N_scope.

Definition mem : Type := N -> option N.

(** result of code that reads firmware memory *)
Inductive rd (A : Type) : Type :=
| Got (a : A)
| Fault (addr : N).
Arguments Got {A} a.
Arguments Fault {A} addr.

(** ---- bounded iteration with early exit -------------------------------------------------
    [iter_N step n s] runs [step] n times from [s] unless a step exits with [inr e].  The
    recursion is on the binary representation of the count, so counts such as a 32-bit table
    length need no unary fuel, and an exit stops the work. *)
Section Iter.
  Context {S E : Type} (step : S -> S + E).

  Fixpoint iter_pos (p : positive) (s : S) : S + E :=
    match p with
    | xH => step s
    | xO q => match iter_pos q s with inl s' => iter_pos q s' | inr e => inr e end
    | xI q => match step s with
              | inl s1 => match iter_pos q s1 with inl s' => iter_pos q s' | inr e => inr e end
              | inr e => inr e
              end
    end.

  Definition iter_N (n : N) (s : S) : S + E :=
    match n with N0 => inl s | Npos p => iter_pos p s end.
End Iter.

(** ---- raw reads ------------------------------------------------------------------------- *)
Definition rd8 (m : mem) (a : N) : rd N :=
  match m a with Some b => Got b | None => Fault a end.

(** little-endian read of [n] bytes at [a] (one machine load in Go) *)
Fixpoint rdle (m : mem) (a : N) (n : nat) : rd N :=
  match n with
  | O => Got 0
  | S k => match m a with
           | None => Fault a
           | Some b => match rdle m (w64 (a + 1)) k with
                       | Got r => Got (b + r * 256)
                       | Fault x => Fault x
                       end
           end
  end.

(** validTable: [for i = 0; i < tableLength; i++ { sum += *(tablePtr+i) }; return sum == 0] *)
Definition sum_step (m : mem) (st : N * N) : (N * N) + N :=
  let '(a, s) := st in
  match m a with
  | Some b => inl (w64 (a + 1), w8 (s + b))
  | None => inr a
  end.

Definition validTable (m : mem) (ptr len : N) : rd bool :=
  match iter_N (sum_step m) len (ptr, 0) with
  | inl (_, s) => Got (s =? 0)
  | inr a => Fault a
  end.

(** ---- locateRSDT ------------------------------------------------------------------------ *)
Inductive probe_res :=
| PFound (root : N) (useXSDT : bool)
| PMissing                      (* errMissingRSDP *)
| PMapErr                       (* mapFn failed *)
| PStray (a : N)
| PFuel.                        (* the scan loop did not terminate (alignment 0 / wrap-around) *)

(** [for i, b := range rsdpSignature { if rsdp.Signature[i] != b { continue checkNextBlock } }] *)
Fixpoint sig_match (m : mem) (a : N) (sig : list N) : rd bool :=
  match sig with
  | [] => Got true
  | c :: rest =>
      match m a with
      | None => Fault a
      | Some b => if b =? c then sig_match m (w64 (a + 1)) rest else Got false
      end
  end.

Inductive slot_res := SAccept (root : N) (useXSDT : bool) | SReject | SStray (a : N).

Definition check_slot (m : mem) (cur : N) : slot_res :=
  match sig_match m (w64 (cur + acpi_off_RSDP_Signature)) acpi_rsdpSignature with
  | Fault a => SStray a
  | Got false => SReject
  | Got true =>
      match rd8 m (w64 (cur + acpi_off_RSDP_Revision)) with
      | Fault a => SStray a
      | Got rev =>
          if rev =? acpi_acpiRev1 then
            match validTable m cur acpi_sizeof_RSDPDescriptor with
            | Fault a => SStray a
            | Got false => SReject
            | Got true =>
                match rdle m (w64 (cur + acpi_off_RSDP_RSDTAddr)) (N.to_nat acpi_sizeof_RSDP_RSDTAddr) with
                | Fault a => SStray a
                | Got p => SAccept p false
                end
            end
          else
            match validTable m cur acpi_extRSDPLength with
            | Fault a => SStray a
            | Got false => SReject
            | Got true =>
                match rdle m (w64 (cur + acpi_off_ExtRSDP_XSDTAddr)) (N.to_nat acpi_sizeof_ExtRSDP_XSDTAddr) with
                | Fault a => SStray a
                | Got p => SAccept p true
                end
            end
      end
  end.

(** one iteration of [for curPtr := low; curPtr < hi; curPtr += align] *)
Definition scan_step (m : mem) (hi align cur : N) : N + probe_res :=
  if cur <? hi then
    match check_slot m cur with
    | SAccept p x => inr (PFound p x)
    | SStray a => inr (PStray a)
    | SReject => inl (w64 (cur + align))
    end
  else inr PMissing.

Definition scan (m : mem) (low hi align : N) : probe_res :=
  match iter_N (scan_step m hi align) ((hi - low) / align + 2) low with
  | inr r => r
  | inl _ => PFuel
  end.

Definition PageSize : N := acpi_mm_PageSize.
Definition PageShift : N := acpi_mm_PageShift.

(** mm.PageFromAddress / mm.FrameFromAddress *)
Definition page_of (a : N) : N := N.shiftr (andnot a (PageSize - 1)) PageShift.

(** locateRSDT with the mapFn seam failing at call [pfail] (0-based).
    -> result, number of mapFn calls, number of (deferred) unmapFn calls *)
Definition locateRSDT (m : mem) (low hi align : N) (pfail : option N) : probe_res * N * N :=
  let first := page_of low in
  let last := page_of hi in
  let npages := if first <=? last then last - first + 1 else 0 in
  match pfail with
  | Some k => if k <? npages then (PMapErr, k + 1, npages) else (scan m low hi align, npages, npages)
  | None => (scan m low hi align, npages, npages)
  end.

(** ---- mapACPITable ---------------------------------------------------------------------- *)
Definition idcall : Type := (N * N * N)%type.    (* frame, size, flags *)

Record seam := mkSeam { sk : N; scalls : list idcall (* latest first *) }.

Definition idmap (fail : N -> bool) (s : seam) (frame size : N) : seam * bool :=
  (mkSeam (sk s + 1) ((frame, size, acpi_vmm_FlagPresent) :: scalls s), negb (fail (sk s))).

Inductive map_res :=
| MOk (hdr len : N)
| MMismatch (hdr len : N)        (* errTableChecksumMismatch, header still returned *)
| MErr                           (* identityMapFn failed *)
| MStray (a : N).

Definition mapACPITable (m : mem) (fail : N -> bool) (s : seam) (tableAddr : N) : seam * map_res :=
  let frame := page_of tableAddr in
  let '(s1, ok1) := idmap fail s frame acpi_sizeof_SDTHeader in
  if negb ok1 then (s1, MErr) else
  (* headerPage.Address() + vmm.PageOffset(tableAddr), the seam returning mm.Page(frame) *)
  let hpa := w64 (w64 (N.shiftl frame PageShift) + N.land tableAddr acpi_vmm_PageOffsetMask) in
  match rdle m (w64 (hpa + acpi_off_SDT_Length)) (N.to_nat acpi_sizeof_SDT_Length) with
  | Fault a => (s1, MStray a)
  | Got len =>
      let '(s2, ok2) := idmap fail s1 frame len in
      if negb ok2 then (s2, MErr) else
      match validTable m hpa len with
      | Fault a => (s2, MStray a)
      | Got true => (s2, MOk hpa len)
      | Got false => (s2, MMismatch hpa len)
      end
  end.

(** ---- enumerateTables ------------------------------------------------------------------- *)
Inductive event :=
| EvMismatch (sig addr len : N)                  (* "... [checksum mismatch; skipping]" *)
| EvInfo (sig addr len oem oemtab : N).          (* printTableInfo line *)

Record state := mkState {
  st_seam : seam;
  st_events : list event;          (* latest first *)
  st_tmap : list (N * N)           (* tableMap: signature -> header address, latest first *)
}.

Inductive init_res := IOk | IErrChecksum | IErrMap | IStray (a : N).

Definition sig_of (m : mem) (hdr : N) : rd N :=
  rdle m (w64 (hdr + acpi_off_SDT_Signature)) (N.to_nat acpi_sizeof_SDT_Signature).

Fixpoint lookup (k : N) (l : list (N * N)) : option N :=
  match l with
  | [] => None
  | (k', v) :: r => if k' =? k then Some v else lookup k r
  end.

Definition with_seam (s : state) (sm : seam) : state := mkState sm (st_events s) (st_tmap s).
Definition log (s : state) (e : event) : state := mkState (st_seam s) (e :: st_events s) (st_tmap s).
Definition register (s : state) (sig hdr : N) : state := mkState (st_seam s) (st_events s) ((sig, hdr) :: st_tmap s).

(** map one table and register it, or log the mismatch.  [None] = go on with the next entry.
    -> state, abort reason, and the registered (signature, header) if any *)
Definition map_and_register (m : mem) (fail : N -> bool) (s : state) (addr : N)
  : state * option init_res * option (N * N) :=
  let '(sm, r) := mapACPITable m fail (st_seam s) addr in
  let s := with_seam s sm in
  match r with
  | MErr => (s, Some IErrMap, None)
  | MStray a => (s, Some (IStray a), None)
  | MMismatch hdr len =>
      match sig_of m hdr with
      | Fault a => (s, Some (IStray a), None)
      | Got sg => (log s (EvMismatch sg hdr len), None, None)
      end
  | MOk hdr len =>
      match sig_of m hdr with
      | Fault a => (s, Some (IStray a), None)
      | Got sg => (register s sg hdr, None, Some (sg, hdr))
      end
  end.

(** the DSDT pointer the code takes from a FADT at [hdr] *)
Definition dsdt_pointer (m : mem) (acpiRev hdr : N) : rd N :=
  match rdle m (w64 (hdr + acpi_off_FADT_Dsdt)) (N.to_nat acpi_sizeof_FADT_Dsdt) with
  | Fault a => Fault a
  | Got d32 =>
      if acpi_acpiRev2Plus <=? acpiRev
      then rdle m (w64 (hdr + acpi_off_FADT_Ext_Dsdt)) (N.to_nat acpi_sizeof_FADT_Ext_Dsdt)
      else Got d32
  end.

(** body of [for _, addr := range sdtAddresses] *)
Definition visit (m : mem) (fail : N -> bool) (acpiRev : N) (s : state) (addr : N) : state * option init_res :=
  match map_and_register m fail s addr with
  | (s1, Some e, _) => (s1, Some e)
  | (s1, None, None) => (s1, None)
  | (s1, None, Some (sg, hdr)) =>
      if sg =? acpi_fadtSignature then
        match dsdt_pointer m acpiRev hdr with
        | Fault a => (s1, Some (IStray a))
        | Got dsdt => let '(s2, e, _) := map_and_register m fail s1 dsdt in (s2, e)
        end
      else (s1, None)
  end.

Fixpoint visit_all (m : mem) (fail : N -> bool) (acpiRev : N) (s : state) (addrs : list N) : state * init_res :=
  match addrs with
  | [] => (s, IOk)
  | a :: rest =>
      match visit m fail acpiRev s a with
      | (s1, Some e) => (s1, e)
      | (s1, None) => visit_all m fail acpiRev s1 rest
      end
  end.

(** reading the root table's entries ([w] bytes each) *)
Definition entry_step (m : mem) (w : nat) (st : N * list N) : (N * list N) + N :=
  let '(p, acc) := st in
  match rdle m p w with
  | Got v => inl (w64 (p + N.of_nat w), v :: acc)
  | Fault a => inr a
  end.

Definition read_entries (m : mem) (start : N) (w : nat) (count : N) : rd (list N) :=
  match iter_N (entry_step m w) count (start, []) with
  | inl (_, acc) => Got (rev acc)
  | inr a => Fault a
  end.

Definition state0 : state := mkState (mkSeam 0 []) [] [].

Definition enumerateTables (m : mem) (fail : N -> bool) (rsdt : N) (useXSDT : bool) : state * init_res :=
  let '(sm, r) := mapACPITable m fail (st_seam state0) rsdt in
  let s := with_seam state0 sm in
  match r with
  | MErr => (s, IErrMap)
  | MStray a => (s, IStray a)
  | MMismatch _ _ => (s, IErrChecksum)
  | MOk hdr len =>
      match rd8 m (w64 (hdr + acpi_off_SDT_Revision)) with
      | Fault a => (s, IStray a)
      | Got acpiRev =>
          let payload := sub32 len acpi_sizeof_SDTHeader in       (* uint32 subtraction *)
          let w := if useXSDT then 8%nat else 4%nat in
          let count := N.shiftr payload (if useXSDT then 3 else 2) in
          match read_entries m (w64 (rsdt + acpi_sizeof_SDTHeader)) w count with
          | Fault a => (s, IStray a)
          | Got addrs => visit_all m fail acpiRev s addrs
          end
      end
  end.

(** ---- printTableInfo / DriverInit ------------------------------------------------------- *)
(* canonical view of the Go map: one entry per key (the latest), keys ascending *)
Fixpoint tm_insert (k v : N) (l : list (N * N)) : list (N * N) :=
  match l with
  | [] => [(k, v)]
  | (k', v') :: r =>
      if k <? k' then (k, v) :: l
      else if k =? k' then (k, v) :: r
      else (k', v') :: tm_insert k v r
  end.

Definition canon (l : list (N * N)) : list (N * N) :=
  fold_right (fun kv acc => tm_insert (fst kv) (snd kv) acc) [] l.

Definition info_line (m : mem) (kv : N * N) : rd event :=
  let '(name, hdr) := kv in
  match rdle m (w64 (hdr + acpi_off_SDT_Length)) (N.to_nat acpi_sizeof_SDT_Length) with
  | Fault a => Fault a
  | Got len =>
      match rdle m (w64 (hdr + acpi_off_SDT_OEMID)) (N.to_nat acpi_sizeof_SDT_OEMID) with
      | Fault a => Fault a
      | Got oem =>
          match rdle m (w64 (hdr + acpi_off_SDT_OEMTableID)) (N.to_nat acpi_sizeof_SDT_OEMTableID) with
          | Fault a => Fault a
          | Got oemtab => Got (EvInfo name hdr len oem oemtab)
          end
      end
  end.

Fixpoint info_lines (m : mem) (l : list (N * N)) : rd (list event) :=
  match l with
  | [] => Got []
  | kv :: r =>
      match info_line m kv with
      | Fault a => Fault a
      | Got e => match info_lines m r with Got es => Got (e :: es) | Fault a => Fault a end
      end
  end.

(** DriverInit: -> final state, result, printTableInfo lines (in key order; Go prints in map order) *)
Definition driverInit (m : mem) (fail : N -> bool) (rsdt : N) (useXSDT : bool) : state * init_res * list event :=
  match enumerateTables m fail rsdt useXSDT with
  | (s, IOk) =>
      match info_lines m (canon (st_tmap s)) with
      | Got es => (s, IOk, es)
      | Fault a => (s, IStray a, [])
      end
  | (s, e) => (s, e, [])
  end.

(** ---- flat encoding for the correspondence driver ---------------------------------------
    case = low hi align probeFail idFail  nR (start npages fill)*  nS (addr n byte*n)*  [monitor-only tail]
    low = 0: the kernel's own window and alignment.  failcodes: 0 never, k+1 = call k fails. *)
Fixpoint splitN (n : N) (l : list N) : list N * list N :=
  match l with
  | [] => ([], [])
  | x :: r => if n =? 0 then ([], l) else let '(a, b) := splitN (n - 1) r in (x :: a, b)
  end.

Fixpoint dec_ranges (n : N) (fuel : nat) (l : list N) : list (N * N * N) * list N :=
  match fuel with O => ([], l) | S fuel =>
  if n =? 0 then ([], l) else
  match l with
  | s :: np :: f :: rest => let '(rs, tl) := dec_ranges (n - 1) fuel rest in ((s, np, f) :: rs, tl)
  | _ => ([], [])
  end end.

Fixpoint put_bytes (a : N) (bs : list N) (t : PositiveMap.t N) : PositiveMap.t N :=
  match bs with
  | [] => t
  | b :: r => put_bytes (a + 1) r (PositiveMap.add (N.succ_pos a) (w8 b) t)
  end.

Fixpoint dec_segs (n : N) (fuel : nat) (l : list N) (t : PositiveMap.t N) : PositiveMap.t N * list N :=
  match fuel with O => (t, l) | S fuel =>
  if n =? 0 then (t, l) else
  match l with
  | a :: cnt :: rest => let '(bs, tl) := splitN cnt rest in dec_segs (n - 1) fuel tl (put_bytes a bs t)
  | _ => (t, [])
  end end.

Fixpoint in_ranges (rs : list (N * N * N)) (a : N) : option N :=
  match rs with
  | [] => None
  | (s, np, f) :: r => if (s <=? a) && (a <? s + np * PageSize) then Some (w8 f) else in_ranges r a
  end.

Definition mem_of (rs : list (N * N * N)) (t : PositiveMap.t N) : mem :=
  fun a => match PositiveMap.find (N.succ_pos a) t with
           | Some b => Some b
           | None => in_ranges rs a
           end.

Definition dec_fail (c : N) : option N := if c =? 0 then None else Some (c - 1).

Definition enc_calls (l : list idcall) : list N :=
  N.of_nat (length l) :: flat_map (fun c => let '(f, s, fl) := c in [f; s; fl]) l.

Definition enc_mismatches (l : list event) : list N :=
  let ms := flat_map (fun e => match e with EvMismatch s a n => [[s; a; n]] | _ => [] end) l in
  N.of_nat (length ms) :: concat ms.

Definition enc_tmap (l : list (N * N)) : list N :=
  N.of_nat (length l) :: flat_map (fun kv => [fst kv; snd kv]) l.

Definition enc_info (l : list event) : list N :=
  let ms := flat_map (fun e => match e with EvInfo s a n o t => [[s; a; n; o; t]] | _ => [] end) l in
  N.of_nat (length ms) :: concat ms.

Definition run_case (l : list N) : list N :=
  match l with
  | low :: hi :: align :: pf :: idf :: nR :: rest =>
      let '(low, hi, align) :=
        if low =? 0 then (acpi_rsdpLocationLow, acpi_rsdpLocationHi, acpi_rsdpAlignment) else (low, hi, align) in
      let '(rs, rest1) := dec_ranges nR (length rest) rest in
      match rest1 with
      | nS :: rest2 =>
          let '(t, _) := dec_segs nS (length rest2) rest2 (PositiveMap.empty N) in
          let m := mem_of rs t in
          let '(pr, nmap, nunmap) := locateRSDT m low hi align (dec_fail pf) in
          match pr with
          | PFound root x =>
              let fail := match dec_fail idf with Some k => fun i => i =? k | None => fun _ => false end in
              let '(s, r, info) := driverInit m fail root x in
              [1; root; if x then 1 else 0; nmap; nunmap; 1;
               match r with IOk => 0 | IErrChecksum => 1 | IErrMap => 2 | IStray _ => 3 end]
              ++ enc_calls (rev (scalls (st_seam s)))
              ++ enc_mismatches (rev (st_events s))
              ++ enc_tmap (canon (st_tmap s))
              ++ enc_info info
          | _ =>
              [match pr with PStray _ => 2 | PFuel => 3 | _ => 0 end; 0; 0; nmap; nunmap; 1; 9; 0; 0; 0; 0]
          end
      | [] => []
      end
  | _ => []
  end.
