(** mapACPITable / enumerateTables: what DriverInit registers and reports. *)
From Coq Require Import NArith ZArith Lia List Bool.
From Coq Require Import ZifyBool ZifyN ZifyNat.
From FF Require Import Lib.Word Gen.Consts_device_acpi Acpi.Model Acpi.Spec Acpi.BytesProofs.
Import ListNotations.
Local Open Scope N_scope.
Ltac Zify.zify_post_hook ::= Z.div_mod_to_equations.

(** Obligations on the regenerated constants. *)
Lemma consts_sdt :
  acpi_sizeof_SDTHeader = 36 /\ acpi_off_SDT_Signature = 0 /\ acpi_sizeof_SDT_Signature = 4 /\
  acpi_off_SDT_Length = 4 /\ acpi_sizeof_SDT_Length = 4 /\ acpi_off_SDT_Revision = 8 /\
  acpi_fadtSignature = FACP /\ acpi_acpiRev2Plus = 2 /\
  acpi_sizeof_FADT_Dsdt = 4 /\ acpi_sizeof_FADT_Ext_Dsdt = 8 /\
  acpi_mm_PageSize = 2 ^ acpi_mm_PageShift /\ acpi_vmm_PageOffsetMask = acpi_mm_PageSize - 1.
Proof. repeat split; reflexivity. Qed.

(** ---- determinism of the declarative vocabulary ---- *)
Lemma field_fun m a n v1 v2 : field m a n v1 -> field m a n v2 -> v1 = v2.
Proof.
  intros (b1 & L1 & B1 & ->) (b2 & L2 & B2 & ->). f_equal. eapply bytes_at_inj; eauto. congruence.
Qed.

Lemma field_lt m a n v : bytes_ok m -> field m a n v -> v < 256 ^ N.of_nat n.
Proof. intros Hok (bs & <- & Hb & ->). eapply le_bytes_lt; eauto. Qed.

Lemma field4_lt m a v : bytes_ok m -> field m a 4 v -> v < two32.
Proof. intros Hok H. apply (field_lt m a 4 v Hok) in H. exact H. Qed.

Lemma field_lt64 m a n v : bytes_ok m -> (n <= 8)%nat -> field m a n v -> v < two64.
Proof.
  intros Hok Hn H. apply (field_lt m a n v Hok) in H.
  eapply N.lt_le_trans; [exact H|]. change two64 with (256 ^ 8). apply N.pow_le_mono_r; lia.
Qed.

Lemma zero_nonzero_excl m a len : sums_to_zero m a len -> sums_to_nonzero m a len -> False.
Proof.
  intros (b1 & L1 & B1 & S1) (b2 & L2 & B2 & S2).
  assert (b1 = b2) by (eapply bytes_at_inj; eauto; lia). subst. contradiction.
Qed.

Lemma good_bad_excl m t len : tbl_good m t -> tbl_bad m t len -> False.
Proof.
  intros (l0 & Hl0 & Hz) (Hl & Hnz). unfold tbl_len in *.
  rewrite (field_fun _ _ _ _ _ Hl0 Hl) in Hz. eapply zero_nonzero_excl; eauto.
Qed.

Lemma fadt_dsdt_fun m rev f d1 d2 : fadt_dsdt m rev f d1 -> fadt_dsdt m rev f d2 -> d1 = d2.
Proof.
  intros [[H1 F1]|[H1 [_ F1]]] [[H2 F2]|[H2 [_ F2]]]; try lia; eapply field_fun; eauto.
Qed.

Lemma fadt_dsdt_lt m rev f d : bytes_ok m -> fadt_dsdt m rev f d -> d < two64.
Proof.
  intros Hok [[_ F]|[_ [_ F]]]; (eapply field_lt64; [exact Hok | | exact F]; lia).
Qed.

(** ---- mapACPITable ---- *)
Lemma hpa_identity t : t < two64 ->
  w64 (w64 (N.shiftl (page_of t) PageShift) + N.land t acpi_vmm_PageOffsetMask) = t.
Proof.
  intros Ht. unfold page_of, PageSize, PageShift.
  change (acpi_mm_PageSize - 1) with (2 ^ 12 - 1). change acpi_mm_PageShift with 12.
  change acpi_vmm_PageOffsetMask with (2 ^ 12 - 1).
  rewrite andnot_pow2, land_ones_mod, N.shiftr_div_pow2, N.shiftl_mul_pow2.
  change (2 ^ 12) with 4096.
  assert (H1 : (t - t mod 4096) / 4096 * 4096 = t - t mod 4096) by lia.
  rewrite H1. rewrite (w64_small (t - t mod 4096)) by lia.
  replace (t - t mod 4096 + t mod 4096) with t by lia. apply w64_small. exact Ht.
Qed.

Lemma map_sound m fail s t s' r : no_seam_failure fail -> t < two64 ->
  mapACPITable m fail s t = (s', r) ->
  match r with
  | MOk h len => h = t /\ tbl_len m t len /\ sums_to_zero m t len
  | MMismatch h len => h = t /\ tbl_bad m t len
  | MErr => False
  | MStray _ => True
  end.
Proof.
  intros Hf Ht. unfold mapACPITable, idmap. rewrite !Hf. simpl negb. cbv iota.
  rewrite (hpa_identity t Ht).
  change acpi_off_SDT_Length with 4. change (N.to_nat acpi_sizeof_SDT_Length) with 4%nat.
  destruct (rdle m (w64 (t + 4)) 4) as [len|x] eqn:Hl.
  - apply rdle_spec in Hl.
    destruct (validTable m t len) as [[|]|x] eqn:Hv; intros H; injection H as <- <-.
    + apply validTable_true in Hv. auto.
    + apply validTable_false in Hv. unfold tbl_bad. auto.
    + exact I.
  - intros H; injection H as <- <-. exact I.
Qed.

Lemma map_complete_good m fail s t len : no_seam_failure fail -> t < two64 ->
  tbl_len m t len -> sums_to_zero m t len ->
  exists s', mapACPITable m fail s t = (s', MOk t len) /\ sk s' = sk s + 2.
Proof.
  intros Hf Ht Hl Hz. unfold mapACPITable, idmap. rewrite !Hf. simpl negb. cbv iota.
  rewrite (hpa_identity t Ht).
  change acpi_off_SDT_Length with 4. change (N.to_nat acpi_sizeof_SDT_Length) with 4%nat.
  apply rdle_spec in Hl. rewrite Hl. apply validTable_true in Hz. rewrite Hz.
  eexists. split; [reflexivity|]. simpl. lia.
Qed.

Lemma map_complete_bad m fail s t len : no_seam_failure fail -> t < two64 ->
  tbl_bad m t len ->
  exists s', mapACPITable m fail s t = (s', MMismatch t len).
Proof.
  intros Hf Ht [Hl Hz]. unfold mapACPITable, idmap. rewrite !Hf. simpl negb. cbv iota.
  rewrite (hpa_identity t Ht).
  change acpi_off_SDT_Length with 4. change (N.to_nat acpi_sizeof_SDT_Length) with 4%nat.
  apply rdle_spec in Hl. rewrite Hl. apply validTable_false in Hz. rewrite Hz.
  eexists. reflexivity.
Qed.

Lemma sig_of_spec m t s : t < two64 -> (sig_of m t = Got s <-> tbl_sig m t s).
Proof.
  intros Ht. unfold sig_of, tbl_sig. change acpi_off_SDT_Signature with 0.
  change (N.to_nat acpi_sizeof_SDT_Signature) with 4%nat. rewrite w64_add0 by assumption. apply rdle_spec.
Qed.

(** one table: registered, or reported and skipped *)
Inductive mr_outcome (m : mem) (t : N) (s s1 : state) : option (N * N) -> Prop :=
| mr_bad sg len : tbl_bad m t len -> tbl_sig m t sg ->
    st_events s1 = EvMismatch sg t len :: st_events s -> st_tmap s1 = st_tmap s ->
    mr_outcome m t s s1 None
| mr_good sg : tbl_good m t -> tbl_sig m t sg ->
    st_events s1 = st_events s -> st_tmap s1 = (sg, t) :: st_tmap s ->
    mr_outcome m t s s1 (Some (sg, t)).

Lemma mar_sound m fail s t s1 reg : no_seam_failure fail -> t < two64 ->
  map_and_register m fail s t = (s1, None, reg) -> mr_outcome m t s s1 reg.
Proof.
  intros Hf Ht. unfold map_and_register.
  destruct (mapACPITable m fail (st_seam s) t) as [sm r] eqn:Hm.
  pose proof (map_sound m fail _ t sm r Hf Ht Hm) as Hs.
  destruct r as [h len|h len| |x]; try contradiction.
  - destruct Hs as (-> & Hl & Hz).
    destruct (sig_of m t) as [sg|x] eqn:Hsg; intros H; inversion H; subst.
    apply sig_of_spec in Hsg; [|assumption].
    apply mr_good; simpl; auto. exists len. auto.
  - destruct Hs as (-> & Hb).
    destruct (sig_of m t) as [sg|x] eqn:Hsg; intros H; inversion H; subst.
    apply sig_of_spec in Hsg; [|assumption].
    eapply mr_bad; simpl; eauto.
  - intros H; inversion H.
Qed.

Lemma mar_complete_good m fail s t sg : no_seam_failure fail -> t < two64 ->
  tbl_good m t -> tbl_sig m t sg ->
  exists s1, map_and_register m fail s t = (s1, None, Some (sg, t)) /\
             st_events s1 = st_events s /\ st_tmap s1 = (sg, t) :: st_tmap s.
Proof.
  intros Hf Ht (len & Hl & Hz) Hsg. unfold map_and_register.
  destruct (map_complete_good m fail (st_seam s) t len Hf Ht Hl Hz) as (sm & Hm & _). rewrite Hm.
  apply sig_of_spec in Hsg; [|assumption]. rewrite Hsg. eexists. split; [reflexivity|]. simpl. auto.
Qed.

Lemma mar_complete_bad m fail s t sg len : no_seam_failure fail -> t < two64 ->
  tbl_bad m t len -> tbl_sig m t sg ->
  exists s1, map_and_register m fail s t = (s1, None, None) /\
             st_events s1 = EvMismatch sg t len :: st_events s /\ st_tmap s1 = st_tmap s.
Proof.
  intros Hf Ht Hb Hsg. unfold map_and_register.
  destruct (map_complete_bad m fail (st_seam s) t len Hf Ht Hb) as (sm & Hm). rewrite Hm.
  apply sig_of_spec in Hsg; [|assumption]. rewrite Hsg. eexists. split; [reflexivity|]. simpl. auto.
Qed.

Lemma dsdt_pointer_spec m rev f d : f < two64 ->
  (dsdt_pointer m rev f = Got d <-> fadt_dsdt m rev f d).
Proof.
  intros Hf. unfold dsdt_pointer, fadt_dsdt.
  change (N.to_nat acpi_sizeof_FADT_Dsdt) with 4%nat. change (N.to_nat acpi_sizeof_FADT_Ext_Dsdt) with 8%nat.
  change acpi_acpiRev2Plus with 2.
  destruct (rdle m (w64 (f + acpi_off_FADT_Dsdt)) 4) as [d32|x] eqn:H32.
  - apply rdle_spec in H32. destruct (N.leb_spec 2 rev) as [Hr|Hr].
    + rewrite rdle_spec. split.
      * intros H. right. split; [exact Hr|]. split; [exists d32; exact H32 | exact H].
      * intros [[Hlt _]|[_ [_ H]]]; [lia | exact H].
    + split.
      * intros H. injection H as <-. left. auto.
      * intros [[_ H]|[Hge _]]; [|lia]. f_equal. eapply field_fun; eauto.
  - split; [discriminate|].
    assert (Hno : forall v, ~ field m (w64 (f + acpi_off_FADT_Dsdt)) 4 v).
    { intros v Hv. apply rdle_spec in Hv. congruence. }
    intros [[_ H]|[_ [[v H] _]]]; exfalso; eapply Hno; eauto.
Qed.

Lemma mar_not_ok m fail s t s1 e reg : map_and_register m fail s t = (s1, Some e, reg) -> e <> IOk.
Proof.
  unfold map_and_register. destruct (mapACPITable m fail (st_seam s) t) as [sm r].
  destruct r as [h len|h len| |x]; try destruct (sig_of m h); intros H; inversion H; discriminate.
Qed.

(** ---- the walk ---- *)
Lemma visit_all_sound m fail rev : bytes_ok m -> no_seam_failure fail ->
  forall addrs s s', Forall (fun a => a < two64) addrs ->
    visit_all m fail rev s addrs = (s', IOk) ->
    exists vs ev regs, walk m rev addrs vs ev regs /\
      st_events s' = List.rev ev ++ st_events s /\ st_tmap s' = List.rev regs ++ st_tmap s.
Proof.
  intros Hok Hf. induction addrs as [|a rest IH]; intros s s' Hall H.
  - simpl in H. injection H as <-. exists [], [], []. split; [constructor | auto].
  - inversion Hall as [|? ? Ha Hrest]; subst. simpl in H. unfold visit in H.
    destruct (map_and_register m fail s a) as [[s1 e] reg] eqn:Hm.
    destruct e as [e|]. { injection H as _ He. exfalso. eapply mar_not_ok; eauto. }
    pose proof (mar_sound m fail s a s1 reg Hf Ha Hm) as Ho.
    destruct Ho as [sg len Hb Hsg Hev Htm | sg Hg Hsg Hev Htm].
    + destruct (IH s1 s' Hrest H) as (vs & ev & regs & Hw & He & Ht).
      exists (a :: vs), (EvMismatch sg a len :: ev), regs. split; [eapply walk_bad; eauto|].
      simpl. rewrite He, Ht, Hev, Htm, <- app_assoc. auto.
    + change acpi_fadtSignature with FACP in H. destruct (N.eqb_spec sg FACP) as [->|Hne].
      * destruct (dsdt_pointer m rev a) as [d|x] eqn:Hd. 2:{ injection H as _ He. discriminate. }
        apply dsdt_pointer_spec in Hd; [|assumption].
        pose proof (fadt_dsdt_lt m rev a d Hok Hd) as Hdlt.
        destruct (map_and_register m fail s1 d) as [[s2 e2] reg2] eqn:Hm2.
        destruct e2 as [e2|]. { injection H as _ He. exfalso. eapply mar_not_ok; eauto. }
        pose proof (mar_sound m fail s1 d s2 reg2 Hf Hdlt Hm2) as Ho2.
        destruct (IH s2 s' Hrest H) as (vs & ev & regs & Hw & He & Ht).
        destruct Ho2 as [sd len Hb Hsd Hev2 Htm2 | sd Hg2 Hsd Hev2 Htm2].
        -- exists (a :: d :: vs), (EvMismatch sd d len :: ev), ((FACP, a) :: regs).
           split; [eapply walk_fadt_bad; eauto|].
           simpl. rewrite He, Ht, Hev2, Htm2, Hev, Htm, <- !app_assoc. auto.
        -- exists (a :: d :: vs), ev, ((FACP, a) :: (sd, d) :: regs).
           split; [eapply walk_fadt_good; eauto|].
           simpl. rewrite He, Ht, Hev2, Htm2, Hev, Htm, <- !app_assoc. auto.
      * destruct (IH s1 s' Hrest H) as (vs & ev & regs & Hw & He & Ht).
        exists (a :: vs), ev, ((sg, a) :: regs). split; [eapply walk_good; eauto|].
        simpl. rewrite He, Ht, Hev, Htm, <- app_assoc. auto.
Qed.

Lemma walk_addrs_lt m rev es vs ev regs : bytes_ok m -> walk m rev es vs ev regs ->
  Forall (fun a => a < two64) es -> Forall (fun a => a < two64) vs.
Proof.
  intros Hok H. induction H; intros Hall; inversion Hall; subst; repeat constructor; auto.
  all: eapply fadt_dsdt_lt; eauto.
Qed.

Lemma visit_all_complete m fail rev : bytes_ok m -> no_seam_failure fail ->
  forall es vs ev regs, walk m rev es vs ev regs ->
  forall s, Forall (fun a => a < two64) es ->
    exists s', visit_all m fail rev s es = (s', IOk) /\
      st_events s' = List.rev ev ++ st_events s /\ st_tmap s' = List.rev regs ++ st_tmap s.
Proof.
  intros Hok Hf es vs ev regs H.
  induction H as [| t len sg es vs ev regs Hb Hsg Hw IH | t sg es vs ev regs Hg Hsg Hne Hw IH
                 | f d sd es vs ev regs Hg Hsg Hd Hgd Hsd Hw IH | f d sd len es vs ev regs Hg Hsg Hd Hbd Hsd Hw IH];
    intros s Hall.
  - exists s. simpl. auto.
  - inversion Hall as [|? ? Ht Hrest]; subst.
    destruct (mar_complete_bad m fail s t sg len Hf Ht Hb Hsg) as (s1 & Hm & Hev & Htm).
    destruct (IH s1 Hrest) as (s' & Hv & He & Htt).
    exists s'. simpl. unfold visit. rewrite Hm, Hv. split; [reflexivity|].
    simpl. rewrite He, Htt, Hev, Htm, <- app_assoc. auto.
  - inversion Hall as [|? ? Ht Hrest]; subst.
    destruct (mar_complete_good m fail s t sg Hf Ht Hg Hsg) as (s1 & Hm & Hev & Htm).
    destruct (IH s1 Hrest) as (s' & Hv & He & Htt).
    exists s'. simpl. unfold visit. rewrite Hm. change acpi_fadtSignature with FACP.
    destruct (N.eqb_spec sg FACP) as [|_]; [contradiction|]. rewrite Hv. split; [reflexivity|].
    simpl. rewrite He, Htt, Hev, Htm, <- app_assoc. auto.
  - inversion Hall as [|? ? Ht Hrest]; subst.
    destruct (mar_complete_good m fail s f FACP Hf Ht Hg Hsg) as (s1 & Hm & Hev & Htm).
    pose proof (fadt_dsdt_lt m rev f d Hok Hd) as Hdlt.
    destruct (mar_complete_good m fail s1 d sd Hf Hdlt Hgd Hsd) as (s2 & Hm2 & Hev2 & Htm2).
    destruct (IH s2 Hrest) as (s' & Hv & He & Htt).
    exists s'. simpl. unfold visit. rewrite Hm. change acpi_fadtSignature with FACP. rewrite N.eqb_refl.
    apply dsdt_pointer_spec in Hd; [|assumption]. rewrite Hd, Hm2, Hv. split; [reflexivity|].
    simpl. rewrite He, Htt, Hev2, Htm2, Hev, Htm, <- !app_assoc. auto.
  - inversion Hall as [|? ? Ht Hrest]; subst.
    destruct (mar_complete_good m fail s f FACP Hf Ht Hg Hsg) as (s1 & Hm & Hev & Htm).
    pose proof (fadt_dsdt_lt m rev f d Hok Hd) as Hdlt.
    destruct (mar_complete_bad m fail s1 d sd len Hf Hdlt Hbd Hsd) as (s2 & Hm2 & Hev2 & Htm2).
    destruct (IH s2 Hrest) as (s' & Hv & He & Htt).
    exists s'. simpl. unfold visit. rewrite Hm. change acpi_fadtSignature with FACP. rewrite N.eqb_refl.
    apply dsdt_pointer_spec in Hd; [|assumption]. rewrite Hd, Hm2, Hv. split; [reflexivity|].
    simpl. rewrite He, Htt, Hev2, Htm2, Hev, Htm, <- !app_assoc. auto.
Qed.

(** ---- the root table's entries ---- *)
Lemma entries_iter_sound m w : forall n p acc p' acc',
  iter_N (entry_step m w) n (p, acc) = inl (p', acc') ->
  exists es, acc' = List.rev es ++ acc /\ N.of_nat (length es) = n /\ entries_at m p w es.
Proof.
  induction n as [|n IH] using N.peano_ind; intros p acc p' acc' H.
  - simpl in H. injection H as <- <-. exists []. simpl. auto.
  - rewrite iter_N_succ in H. unfold entry_step at 1 in H.
    destruct (rdle m p w) as [v|x] eqn:Hv; simpl in H; [|discriminate].
    apply rdle_spec in Hv. destruct (IH _ _ _ _ H) as (es & -> & Hl & He).
    exists (v :: es). simpl. rewrite <- app_assoc. simpl. split; [reflexivity|]. split; [lia | auto].
Qed.

Lemma entries_iter_complete m w : forall es p acc, entries_at m p w es ->
  exists p', iter_N (entry_step m w) (N.of_nat (length es)) (p, acc) = inl (p', List.rev es ++ acc).
Proof.
  induction es as [|e r IH]; intros p acc H.
  - exists p. reflexivity.
  - simpl in H. destruct H as [He Hr].
    change (length (e :: r)) with (S (length r)). rewrite Nat2N.inj_succ, iter_N_succ.
    unfold entry_step at 1. apply rdle_spec in He. rewrite He. simpl bindS.
    destruct (IH _ (e :: acc) Hr) as (p' & Hi). exists p'. rewrite Hi. simpl. rewrite <- app_assoc. reflexivity.
Qed.

Lemma entries_lt m w : bytes_ok m -> (w <= 8)%nat -> forall es p, entries_at m p w es ->
  Forall (fun a => a < two64) es.
Proof.
  intros Hok Hw. induction es as [|e r IH]; intros p H; constructor; simpl in H; destruct H as [He Hr].
  - eapply field_lt64; eauto.
  - eapply IH; eauto.
Qed.

Lemma entry_count len (useX : bool) : 36 <= len -> len < two32 ->
  N.shiftr (sub32 len acpi_sizeof_SDTHeader) (if useX then 3 else 2) = (len - 36) / N.of_nat (entry_width useX).
Proof.
  intros H1 H2. change acpi_sizeof_SDTHeader with 36. unfold sub32, w32.
  rewrite (N.mod_small 36) by (unfold two32; lia).
  replace ((len + two32 - 36) mod two32) with (len - 36).
  2:{ unfold two32 in *. lia. }
  rewrite N.shiftr_div_pow2. destruct useX; reflexivity.
Qed.

Lemma entry_width_nat (useX : bool) : (if useX then 8%nat else 4%nat) = entry_width useX.
Proof. reflexivity. Qed.

Theorem enumerate_sound m fail root useX s :
  bytes_ok m -> root < two64 -> no_seam_failure fail ->
  enumerateTables m fail root useX = (s, IOk) ->
  exists len rootRev es vs ev regs,
    tbl_len m root len /\ sums_to_zero m root len /\ m (w64 (root + 8)) = Some rootRev /\
    (36 <= len -> root_lists m root len useX es) /\
    walk m rootRev es vs ev regs /\
    st_events s = List.rev ev /\ st_tmap s = List.rev regs.
Proof.
  intros Hok Hroot Hf. unfold enumerateTables.
  destruct (mapACPITable m fail (st_seam state0) root) as [sm r] eqn:Hm.
  pose proof (map_sound m fail _ root sm r Hf Hroot Hm) as Hs.
  destruct r as [h len|h len| |x]; try contradiction; try discriminate.
  destruct Hs as (-> & Hl & Hz). change acpi_off_SDT_Revision with 8.
  destruct (rd8 m (w64 (root + 8))) as [rv|x] eqn:Hrv; [|discriminate]. apply rd8_spec in Hrv.
  rewrite entry_width_nat.
  destruct (read_entries _ _ _ _) as [es0|x] eqn:He; [|discriminate].
  intros Hv. unfold read_entries in He.
  destruct (iter_N _ _ _) as [[p' acc']|x] eqn:Hi; [|discriminate]. injection He as <-.
  destruct (entries_iter_sound _ _ _ _ _ _ _ Hi) as (es & -> & Hlen & Hent).
  change acpi_sizeof_SDTHeader with 36 in Hent.
  rewrite app_nil_r, rev_involutive in Hv.
  assert (Hlt : Forall (fun a => a < two64) es).
  { eapply (entries_lt m (entry_width useX) Hok); [destruct useX; simpl; lia | exact Hent]. }
  destruct (visit_all_sound m fail rv Hok Hf es _ s Hlt Hv) as (vs & ev & regs & Hw & Hev & Htm).
  exists len, rv, es, vs, ev, regs. simpl in Hev, Htm. rewrite app_nil_r in Hev, Htm.
  repeat split; auto.
  rewrite Hlen. apply entry_count; [assumption|]. eapply field4_lt; eauto.
Qed.

Theorem enumerate_complete m fail root useX len rootRev es vs ev regs :
  bytes_ok m -> root < two64 -> no_seam_failure fail ->
  tbl_len m root len -> sums_to_zero m root len -> 36 <= len ->
  m (w64 (root + 8)) = Some rootRev ->
  root_lists m root len useX es -> walk m rootRev es vs ev regs ->
  exists s, enumerateTables m fail root useX = (s, IOk) /\
            st_events s = List.rev ev /\ st_tmap s = List.rev regs.
Proof.
  intros Hok Hroot Hf Hl Hz H36 Hrv [Hcnt Hent] Hw. unfold enumerateTables.
  destruct (map_complete_good m fail (st_seam state0) root len Hf Hroot Hl Hz) as (sm & Hm & _). rewrite Hm.
  change acpi_off_SDT_Revision with 8. apply rd8_spec in Hrv. rewrite Hrv.
  rewrite entry_width_nat, entry_count; [|assumption|eapply field4_lt; eauto].
  unfold read_entries. rewrite <- Hcnt. change acpi_sizeof_SDTHeader with 36.
  destruct (entries_iter_complete m (entry_width useX) es _ [] Hent) as (p' & Hi). rewrite Hi.
  rewrite app_nil_r, rev_involutive.
  assert (Hlt : Forall (fun a => a < two64) es).
  { eapply (entries_lt m (entry_width useX) Hok); [destruct useX; simpl; lia | exact Hent]. }
  destruct (visit_all_complete m fail rootRev Hok Hf es vs ev regs Hw (with_seam state0 sm) Hlt) as (s' & Hv & He & Ht).
  exists s'. rewrite Hv. simpl in He, Ht. rewrite app_nil_r in He, Ht. auto.
Qed.
