(** locateRSDT: the scan returns the first aligned slot that holds a checksum-valid root pointer. *)
From Coq Require Import NArith ZArith Lia List Bool.
From Coq Require Import ZifyBool ZifyN ZifyNat.
From FF Require Import Lib.Word Gen.Consts_device_acpi Acpi.Model Acpi.Spec Acpi.BytesProofs.
Import ListNotations.
Local Open Scope N_scope.
Ltac Zify.zify_post_hook ::= Z.div_mod_to_equations.

(** Obligations on the regenerated constants: the kernel's structs and lengths are the ACPI ones. *)
Lemma consts_rsdp :
  acpi_rsdpSignature = rsdp_signature /\ acpi_off_RSDP_Signature = 0 /\ acpi_off_RSDP_Revision = 15 /\
  acpi_acpiRev1 = 0 /\ acpi_sizeof_RSDPDescriptor = 20 /\ acpi_extRSDPLength = 36 /\
  acpi_off_RSDP_RSDTAddr = 16 /\ acpi_sizeof_RSDP_RSDTAddr = 4 /\
  acpi_off_ExtRSDP_XSDTAddr = 24 /\ acpi_sizeof_ExtRSDP_XSDTAddr = 8.
Proof. repeat split; reflexivity. Qed.

Lemma sig_match_true m : forall sig a, sig_match m a sig = Got true <-> bytes_at m a sig.
Proof.
  induction sig as [|c r IH]; intros a; simpl. { tauto. }
  destruct (m a) as [b|] eqn:Hb.
  - destruct (N.eqb_spec b c) as [->|Hne].
    + rewrite IH. split; [intros; split; auto | tauto].
    + split; [discriminate | intros [H _]; congruence].
  - split; [discriminate | intros [H _]; discriminate].
Qed.

Lemma sig_match_false m : forall sig a, a < two64 ->
  (sig_match m a sig = Got false <->
   exists i b, (i < length sig)%nat /\ bytes_at m a (firstn i sig) /\
               m (w64 (a + N.of_nat i)) = Some b /\ b <> nth i sig 0).
Proof.
  induction sig as [|c r IH]; intros a Ha; simpl.
  - split; [discriminate | intros (i & b & Hi & _); lia].
  - destruct (m a) as [b|] eqn:Hb.
    + destruct (N.eqb_spec b c) as [->|Hne].
      * rewrite (IH _ (w64_lt _)). split.
        -- intros (i & b & Hi & Hp & Hm & Hn). exists (S i), b. simpl. repeat split; auto; try lia.
           rewrite w64_add_add in Hm. replace (a + N.pos (Pos.of_succ_nat i)) with (a + (1 + N.of_nat i)) by lia. exact Hm.
        -- intros (i & b & Hi & Hp & Hm & Hn). destruct i as [|i].
           ++ simpl in Hm. rewrite w64_add0 in Hm by assumption. simpl in Hn. congruence.
           ++ exists i, b. simpl in Hp, Hn. destruct Hp as [_ Hp]. repeat split; auto; try lia.
              rewrite w64_add_add. replace (a + (1 + N.of_nat i)) with (a + N.of_nat (S i)) by lia. exact Hm.
      * split; [intros _ | reflexivity]. exists 0%nat, b. simpl. rewrite w64_add0 by assumption.
        repeat split; auto. lia.
    + split; [discriminate|]. intros (i & b & Hi & Hp & Hm & Hn). destruct i as [|i].
      * simpl in Hm. rewrite w64_add0 in Hm by assumption. congruence.
      * simpl in Hp. destruct Hp as [Hp _]. congruence.
Qed.

Lemma firstn_skipn_len {A} (l : list A) i n : (i + n <= length l)%nat -> length (firstn n (skipn i l)) = n.
Proof. intros H. rewrite firstn_length, skipn_length. lia. Qed.

(** a field inside a block of bytes *)
Lemma field_in_block m a bs i n v : a < two64 -> bytes_at m a bs -> (i + n <= length bs)%nat ->
  (field m (w64 (a + N.of_nat i)) n v <-> v = le_bytes (firstn n (skipn i bs))).
Proof.
  intros Ha Hbs Hl. unfold field.
  assert (Hsub : bytes_at m (w64 (a + N.of_nat i)) (firstn n (skipn i bs))).
  { apply bytes_at_firstn, bytes_at_skipn; assumption. }
  split.
  - intros (bs' & Hl' & Hbs' & ->). f_equal. eapply bytes_at_inj; eauto.
    rewrite firstn_skipn_len; lia.
  - intros ->. eexists. repeat split; eauto. apply firstn_skipn_len. exact Hl.
Qed.

Lemma rsdp_len_cases rev : (rev = 0 /\ rsdp_len rev = 20%nat) \/ (rev <> 0 /\ rsdp_len rev = 36%nat).
Proof. unfold rsdp_len. destruct (N.eqb_spec rev 0); auto. Qed.

Lemma check_slot_accept m a p x : a < two64 ->
  (check_slot m a = SAccept p x <-> rsdp_accepted m a p x).
Proof.
  intros Ha. unfold check_slot, rsdp_accepted.
  change acpi_rsdpSignature with rsdp_signature. change acpi_off_RSDP_Signature with 0.
  change acpi_off_RSDP_Revision with 15. change acpi_acpiRev1 with 0.
  change acpi_sizeof_RSDPDescriptor with 20. change acpi_extRSDPLength with 36.
  change acpi_off_RSDP_RSDTAddr with 16. change (N.to_nat acpi_sizeof_RSDP_RSDTAddr) with 4%nat.
  change acpi_off_ExtRSDP_XSDTAddr with 24. change (N.to_nat acpi_sizeof_ExtRSDP_XSDTAddr) with 8%nat.
  rewrite w64_add0 by assumption.
  split.
  - destruct (sig_match m a rsdp_signature) as [[|]|] eqn:Hs; try discriminate.
    apply sig_match_true in Hs.
    destruct (rd8 m (w64 (a + 15))) as [rev|] eqn:Hr; try discriminate. apply rd8_spec in Hr.
    destruct (N.eqb_spec rev 0) as [->|Hrev].
    + destruct (validTable m a 20) as [[|]|] eqn:Hv; try discriminate.
      apply validTable_true in Hv. destruct Hv as (bs & Hl & Hbs & Hsum).
      destruct (rdle m (w64 (a + 16)) 4) as [p'|] eqn:Hp; try discriminate.
      intros H. injection H as <- <-. apply rdle_spec in Hp.
      assert (Hlen : length bs = 20%nat) by lia.
      assert (H15 : nth 15 bs 0 = 0).
      { pose proof (bytes_at_nth m bs a Hbs Ha 15 ltac:(lia)) as Hn. change (N.of_nat 15) with 15 in Hn. congruence. }
      exists bs. rewrite H15. repeat split; auto.
      * symmetry. rewrite (bytes_at_prefix m rsdp_signature bs a Hs Hbs) by (simpl; lia). reflexivity.
      * change (w64 (a + 16)) with (w64 (a + N.of_nat 16)) in Hp.
        apply (field_in_block m a bs 16 4 p' Ha Hbs) in Hp; [exact Hp | lia].
    + destruct (validTable m a 36) as [[|]|] eqn:Hv; try discriminate.
      apply validTable_true in Hv. destruct Hv as (bs & Hl & Hbs & Hsum).
      destruct (rdle m (w64 (a + 24)) 8) as [p'|] eqn:Hp; try discriminate.
      intros H. injection H as <- <-. apply rdle_spec in Hp.
      assert (Hlen : length bs = 36%nat) by lia.
      assert (H15 : nth 15 bs 0 = rev).
      { pose proof (bytes_at_nth m bs a Hbs Ha 15 ltac:(lia)) as Hn. change (N.of_nat 15) with 15 in Hn. congruence. }
      exists bs. rewrite H15. unfold rsdp_len. destruct (N.eqb_spec rev 0) as [|_]; [contradiction|].
      repeat split; auto.
      * symmetry. rewrite (bytes_at_prefix m rsdp_signature bs a Hs Hbs) by (simpl; lia). reflexivity.
      * change (w64 (a + 24)) with (w64 (a + N.of_nat 24)) in Hp.
        apply (field_in_block m a bs 24 8 p' Ha Hbs) in Hp; [exact Hp | lia].
  - intros (bs & Hbs & Hsig & Hlen & Hsum & Hsel).
    assert (Hs : sig_match m a rsdp_signature = Got true).
    { apply sig_match_true. rewrite <- Hsig. apply bytes_at_firstn. exact Hbs. }
    rewrite Hs.
    assert (Hl15 : (15 < length bs)%nat) by (destruct (rsdp_len_cases (nth 15 bs 0)) as [[_ H]|[_ H]]; lia).
    pose proof (bytes_at_nth m bs a Hbs Ha 15 Hl15) as Hn. change (N.of_nat 15) with 15 in Hn.
    apply rd8_spec in Hn. rewrite Hn.
    unfold rsdp_len in Hlen. destruct (N.eqb_spec (nth 15 bs 0) 0) as [Hz|Hnz].
    + destruct Hsel as [-> ->].
      assert (Hv : validTable m a 20 = Got true).
      { apply validTable_true. exists bs. repeat split; auto. lia. }
      rewrite Hv.
      assert (Hp : rdle m (w64 (a + 16)) 4 = Got (le_bytes (firstn 4 (skipn 16 bs)))).
      { apply rdle_spec. change (w64 (a + 16)) with (w64 (a + N.of_nat 16)).
        apply (field_in_block m a bs 16 4 _ Ha Hbs); [lia | reflexivity]. }
      rewrite Hp. reflexivity.
    + destruct Hsel as [-> ->].
      assert (Hv : validTable m a 36 = Got true).
      { apply validTable_true. exists bs. repeat split; auto. lia. }
      rewrite Hv.
      assert (Hp : rdle m (w64 (a + 24)) 8 = Got (le_bytes (firstn 8 (skipn 24 bs)))).
      { apply rdle_spec. change (w64 (a + 24)) with (w64 (a + N.of_nat 24)).
        apply (field_in_block m a bs 24 8 _ Ha Hbs); [lia | reflexivity]. }
      rewrite Hp. reflexivity.
Qed.

Lemma check_slot_reject m a : a < two64 -> (check_slot m a = SReject <-> rsdp_rejected m a).
Proof.
  intros Ha. unfold check_slot, rsdp_rejected.
  change acpi_rsdpSignature with rsdp_signature. change acpi_off_RSDP_Signature with 0.
  change acpi_off_RSDP_Revision with 15. change acpi_acpiRev1 with 0.
  change acpi_sizeof_RSDPDescriptor with 20. change acpi_extRSDPLength with 36.
  rewrite w64_add0 by assumption.
  split.
  - destruct (sig_match m a rsdp_signature) as [[|]|] eqn:Hs; try discriminate.
    + apply sig_match_true in Hs. intros H. right.
      destruct (rd8 m (w64 (a + 15))) as [rev|] eqn:Hr; try discriminate. apply rd8_spec in Hr.
      assert (Hgen : forall n, (15 < n)%nat -> rsdp_len rev = n -> validTable m a (N.of_nat n) = Got false ->
                exists bs, bytes_at m a bs /\ firstn 8 bs = rsdp_signature /\
                           length bs = rsdp_len (nth 15 bs 0) /\ sum8 bs mod 256 <> 0).
      { intros n Hn Hrl Hv. apply validTable_false in Hv. destruct Hv as (bs & Hl & Hbs & Hsum).
        assert (Hlen : length bs = n) by lia.
        assert (H15 : nth 15 bs 0 = rev).
        { pose proof (bytes_at_nth m bs a Hbs Ha 15 ltac:(lia)) as Hn'. change (N.of_nat 15) with 15 in Hn'. congruence. }
        exists bs. rewrite H15. repeat split; auto; try lia.
        symmetry. rewrite (bytes_at_prefix m rsdp_signature bs a Hs Hbs) by (simpl; lia). reflexivity. }
      destruct (N.eqb_spec rev 0) as [->|Hrev].
      * destruct (validTable m a 20) as [[|]|] eqn:Hv; try discriminate.
        { destruct (rdle m (w64 (a + acpi_off_RSDP_RSDTAddr)) (N.to_nat acpi_sizeof_RSDP_RSDTAddr)); discriminate. }
        apply (Hgen 20%nat); auto. lia.
      * destruct (validTable m a 36) as [[|]|] eqn:Hv; try discriminate.
        { destruct (rdle m (w64 (a + acpi_off_ExtRSDP_XSDTAddr)) (N.to_nat acpi_sizeof_ExtRSDP_XSDTAddr)); discriminate. }
        apply (Hgen 36%nat); auto. { lia. } unfold rsdp_len. destruct (N.eqb_spec rev 0); [contradiction | reflexivity].
    + intros _. left. apply (sig_match_false m rsdp_signature a Ha) in Hs.
      destruct Hs as (i & b & Hi & Hrest). exists i, b. split; [exact Hi | exact Hrest].
  - intros [(i & b & Hi & Hp & Hm & Hn) | (bs & Hbs & Hsig & Hlen & Hsum)].
    + assert (Hs : sig_match m a rsdp_signature = Got false).
      { apply (sig_match_false m rsdp_signature a Ha). exists i, b. repeat split; auto. }
      rewrite Hs. reflexivity.
    + assert (Hs : sig_match m a rsdp_signature = Got true).
      { apply sig_match_true. rewrite <- Hsig. apply bytes_at_firstn. exact Hbs. }
      rewrite Hs.
      assert (Hl15 : (15 < length bs)%nat) by (destruct (rsdp_len_cases (nth 15 bs 0)) as [[_ H]|[_ H]]; lia).
      pose proof (bytes_at_nth m bs a Hbs Ha 15 Hl15) as Hn. change (N.of_nat 15) with 15 in Hn.
      apply rd8_spec in Hn. rewrite Hn.
      unfold rsdp_len in Hlen. destruct (N.eqb_spec (nth 15 bs 0) 0) as [Hz|Hnz].
      * assert (Hv : validTable m a 20 = Got false).
        { apply validTable_false. exists bs. repeat split; auto. lia. }
        rewrite Hv. reflexivity.
      * assert (Hv : validTable m a 36 = Got false).
        { apply validTable_false. exists bs. repeat split; auto. lia. }
        rewrite Hv. reflexivity.
Qed.

(** ---- the scan ---- *)
Inductive scan_rel (m : mem) (hi align : N) : N -> probe_res -> Prop :=
| sr_end cur : hi <= cur -> scan_rel m hi align cur PMissing
| sr_acc cur p x : cur < hi -> check_slot m cur = SAccept p x -> scan_rel m hi align cur (PFound p x)
| sr_stray cur a : cur < hi -> check_slot m cur = SStray a -> scan_rel m hi align cur (PStray a)
| sr_rej cur r : cur < hi -> check_slot m cur = SReject ->
                 scan_rel m hi align (cur + align) r -> scan_rel m hi align cur r.

Lemma scan_total m hi align : 0 < align -> hi + align <= two64 ->
  forall n cur, 0 < n -> hi + align <= cur + n * align ->
    exists r, iter_N (scan_step m hi align) n cur = inr r /\ scan_rel m hi align cur r.
Proof.
  intros Hal Hhi. induction n as [|n IH] using N.peano_ind; intros cur Hpos Hn.
  - lia.
  - rewrite N.mul_succ_l in Hn. rewrite iter_N_succ. unfold scan_step at 1.
    destruct (N.ltb_spec cur hi) as [Hlt|Hge].
    + destruct (check_slot m cur) as [p x| |a] eqn:Hc; simpl bindS.
      * eexists. split; [reflexivity|]. apply sr_acc; assumption.
      * rewrite w64_small by lia.
        destruct (IH (cur + align) ltac:(nia) ltac:(lia)) as (r & Hi & Hr).
        exists r. split; [exact Hi|]. apply sr_rej; assumption.
      * eexists. split; [reflexivity|]. apply sr_stray; assumption.
    + simpl. eexists. split; [reflexivity|]. apply sr_end. lia.
Qed.

Lemma scan_is_rel m low hi align : 0 < align -> hi + align <= two64 ->
  scan_rel m hi align low (scan m low hi align).
Proof.
  intros Hal Hhi. unfold scan.
  destruct (scan_total m hi align Hal Hhi ((hi - low) / align + 2) low) as (r & Hi & Hr).
  { apply N.add_pos_r. reflexivity. }
  { pose proof (N.div_mod (hi - low) align ltac:(lia)) as Hdm.
    pose proof (N.mod_lt (hi - low) align ltac:(lia)) as Hml.
    set (q := (hi - low) / align) in *. set (r0 := (hi - low) mod align) in *.
    clearbody q r0. nia. }
  rewrite Hi. exact Hr.
Qed.

Definition slots_before_rejected (m : mem) (low hi align a : N) : Prop :=
  forall a', in_window low hi align a' -> a' < a -> check_slot m a' = SReject.

Lemma in_window_step low hi align a : 0 < align -> low < hi ->
  in_window low hi align a <-> a = low \/ in_window (low + align) hi align a.
Proof.
  intros Hal Hlt. unfold in_window. split.
  - intros (k & -> & Hk). destruct (N.eq_dec k 0) as [->|Hk0]; [left; lia|].
    right. exists (k - 1). split; [nia | exact Hk].
  - intros [-> | (k & -> & Hk)]; [exists 0; lia | exists (k + 1); split; [nia | exact Hk]].
Qed.

Lemma scan_rel_char m hi align : 0 < align -> forall cur r, scan_rel m hi align cur r ->
  match r with
  | PFound p x => exists a, in_window cur hi align a /\ check_slot m a = SAccept p x /\
                            slots_before_rejected m cur hi align a
  | PStray x => exists a, in_window cur hi align a /\ check_slot m a = SStray x /\
                          slots_before_rejected m cur hi align a
  | PMissing => forall a, in_window cur hi align a -> check_slot m a = SReject
  | _ => False
  end.
Proof.
  intros Hal cur r H. induction H as [cur Hge | cur p x Hlt Hc | cur a Hlt Hc | cur r Hlt Hc Hrel IH].
  - intros a (k & -> & Hk). nia.
  - exists cur. split; [exists 0; split; [lia | exact Hlt]|]. split; [exact Hc|].
    intros a' (k & -> & _) Hlt'. nia.
  - exists cur. split; [exists 0; split; [lia | exact Hlt]|]. split; [exact Hc|].
    intros a' (k & -> & _) Hlt'. nia.
  - assert (Hstep := fun a => in_window_step cur hi align a Hal Hlt).
    destruct r as [p x| | |x|]; try contradiction.
    + destruct IH as (a & Hin & Hacc & Hbef). exists a. split; [apply Hstep; right; exact Hin|]. split; [exact Hacc|].
      intros a' Hin' Hlt'. apply Hstep in Hin'. destruct Hin' as [->|Hin']; [exact Hc | apply Hbef; assumption].
    + intros a Hin. apply Hstep in Hin. destruct Hin as [->|Hin]; [exact Hc | apply IH; exact Hin].
    + destruct IH as (a & Hin & Hacc & Hbef). exists a. split; [apply Hstep; right; exact Hin|]. split; [exact Hacc|].
      intros a' Hin' Hlt'. apply Hstep in Hin'. destruct Hin' as [->|Hin']; [exact Hc | apply Hbef; assumption].
Qed.

(** the scan's verdict determines and is determined by the classification of the slots *)
Lemma scan_rel_fun m hi align cur r1 r2 :
  scan_rel m hi align cur r1 -> scan_rel m hi align cur r2 -> r1 = r2.
Proof.
  intros H1. revert r2. induction H1; intros r2 H2; inversion H2; subst; try congruence; try lia.
  apply IHscan_rel. assumption.
Qed.

Lemma scan_complete_found m hi align : 0 < align -> forall cur r, scan_rel m hi align cur r ->
  forall a p x, in_window cur hi align a -> check_slot m a = SAccept p x ->
    slots_before_rejected m cur hi align a -> r = PFound p x.
Proof.
  intros Hal cur r H. induction H as [cur Hge | cur p x Hlt Hc | cur a Hlt Hc | cur r Hlt Hc Hrel IH];
    intros a0 p0 x0 Hin Hacc Hbef.
  - destruct Hin as (k & -> & Hk). nia.
  - destruct (N.eq_dec a0 cur) as [->|Hne]; [congruence|].
    assert (Hrej : check_slot m cur = SReject).
    { apply Hbef; [exists 0; split; [lia|exact Hlt]|]. destruct Hin as (k & -> & _). nia. }
    congruence.
  - destruct (N.eq_dec a0 cur) as [->|Hne]; [congruence|].
    assert (Hrej : check_slot m cur = SReject).
    { apply Hbef; [exists 0; split; [lia|exact Hlt]|]. destruct Hin as (k & -> & _). nia. }
    congruence.
  - apply (in_window_step cur hi align a0 Hal Hlt) in Hin. destruct Hin as [->|Hin]; [congruence|].
    apply (IH a0 p0 x0 Hin Hacc). intros a' Hin' Hlt'. apply Hbef; [|exact Hlt'].
    apply (in_window_step cur hi align a' Hal Hlt). right. exact Hin'.
Qed.

Lemma scan_complete_missing m hi align : 0 < align -> forall cur r, scan_rel m hi align cur r ->
  (forall a, in_window cur hi align a -> check_slot m a = SReject) -> r = PMissing.
Proof.
  intros Hal cur r H. induction H as [cur Hge | cur p x Hlt Hc | cur a Hlt Hc | cur r Hlt Hc Hrel IH]; intros Hall.
  - reflexivity.
  - rewrite Hall in Hc; [discriminate | exists 0; split; [lia|exact Hlt]].
  - rewrite Hall in Hc; [discriminate | exists 0; split; [lia|exact Hlt]].
  - apply IH. intros a Hin. apply Hall. apply (in_window_step cur hi align a Hal Hlt). right. exact Hin.
Qed.

Lemma in_window_lt low hi align a : hi + align <= two64 -> in_window low hi align a -> a < two64.
Proof. intros Hhi (k & -> & Hk). lia. Qed.

(** ---- the theorems of Props/C14.v about the probe ---- *)
Lemma locate_no_fail m low hi align :
  fst (fst (locateRSDT m low hi align None)) = scan m low hi align.
Proof. reflexivity. Qed.

Theorem rsdp_found_sound m low hi align : 0 < align -> hi + align <= two64 ->
  match fst (fst (locateRSDT m low hi align None)) with
  | PFound root x =>
      exists a, in_window low hi align a /\ rsdp_accepted m a root x /\
                forall a', in_window low hi align a' -> a' < a -> rsdp_rejected m a'
  | PMissing => forall a, in_window low hi align a -> rsdp_rejected m a
  | PStray _ =>
      exists a, in_window low hi align a /\
                ~ rsdp_rejected m a /\ (forall root x, ~ rsdp_accepted m a root x) /\
                forall a', in_window low hi align a' -> a' < a -> rsdp_rejected m a'
  | PMapErr | PFuel => False
  end.
Proof.
  intros Hal Hhi. rewrite locate_no_fail.
  pose proof (scan_rel_char m hi align Hal low _ (scan_is_rel m low hi align Hal Hhi)) as H.
  destruct (scan m low hi align) as [p x| | |y|]; try contradiction.
  - destruct H as (a & Hin & Hacc & Hbef). exists a. split; [exact Hin|].
    pose proof (in_window_lt _ _ _ _ Hhi Hin) as Ha. split; [apply check_slot_accept; assumption|].
    intros a' Hin' Hlt'. apply check_slot_reject; [eapply in_window_lt; eauto|]. apply Hbef; assumption.
  - intros a Hin. apply check_slot_reject; [eapply in_window_lt; eauto|]. apply H. exact Hin.
  - destruct H as (a & Hin & Hacc & Hbef). exists a. split; [exact Hin|].
    pose proof (in_window_lt _ _ _ _ Hhi Hin) as Ha. split.
    { intros Hr. apply check_slot_reject in Hr; [congruence | exact Ha]. }
    split.
    { intros root x Hr. apply check_slot_accept in Hr; [congruence | exact Ha]. }
    intros a' Hin' Hlt'. apply check_slot_reject; [eapply in_window_lt; eauto|]. apply Hbef; assumption.
Qed.

Theorem rsdp_found_complete m low hi align : 0 < align -> hi + align <= two64 ->
  (forall a root x, in_window low hi align a -> rsdp_accepted m a root x ->
      (forall a', in_window low hi align a' -> a' < a -> rsdp_rejected m a') ->
      fst (fst (locateRSDT m low hi align None)) = PFound root x) /\
  ((forall a, in_window low hi align a -> rsdp_rejected m a) ->
      fst (fst (locateRSDT m low hi align None)) = PMissing).
Proof.
  intros Hal Hhi. rewrite locate_no_fail.
  pose proof (scan_is_rel m low hi align Hal Hhi) as Hrel. split.
  - intros a root x Hin Hacc Hbef.
    pose proof (in_window_lt _ _ _ _ Hhi Hin) as Ha.
    eapply (scan_complete_found m hi align Hal low _ Hrel a); [exact Hin | apply check_slot_accept; assumption|].
    intros a' Hin' Hlt'. apply check_slot_reject; [eapply in_window_lt; eauto|]. apply Hbef; assumption.
  - intros Hall. eapply (scan_complete_missing m hi align Hal low _ Hrel).
    intros a Hin. apply check_slot_reject; [eapply in_window_lt; eauto|]. apply Hall. exact Hin.
Qed.
