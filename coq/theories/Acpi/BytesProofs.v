(** Lemmas about the iteration combinator, raw reads and validTable of Acpi/Model.v. *)
From Coq Require Import NArith ZArith Lia List Bool.
From Coq Require Import ZifyBool ZifyN ZifyNat.
From FF Require Import Lib.Word Gen.Consts_device_acpi Acpi.Model Acpi.Spec.
Import ListNotations.
Local Open Scope N_scope.
Ltac Zify.zify_post_hook ::= Z.div_mod_to_equations.

(** ---- iter_N ---- *)
Section IterFacts.
  Context {S E : Type} (step : S -> S + E).

  Definition bindS (r : S + E) (f : S -> S + E) : S + E :=
    match r with inl s => f s | inr e => inr e end.

  Lemma bindS_ext r f g : (forall s, f s = g s) -> bindS r f = bindS r g.
  Proof. intros H; destruct r; simpl; auto. Qed.

  Lemma bindS_assoc r f g : bindS (bindS r f) g = bindS r (fun s => bindS (f s) g).
  Proof. destruct r; reflexivity. Qed.

  Lemma iter_pos_xO q s : iter_pos step (xO q) s = bindS (iter_pos step q s) (iter_pos step q).
  Proof. reflexivity. Qed.

  Lemma iter_pos_xI q s : iter_pos step (xI q) s = bindS (step s) (iter_pos step (xO q)).
  Proof. simpl. destruct (step s); reflexivity. Qed.

  Lemma swap_xO q :
    (forall s, bindS (iter_pos step q s) step = bindS (step s) (iter_pos step q)) ->
    forall s, bindS (iter_pos step (xO q) s) step = bindS (step s) (iter_pos step (xO q)).
  Proof.
    intros IH s. rewrite iter_pos_xO, bindS_assoc.
    rewrite (bindS_ext _ _ (fun s' => bindS (step s') (iter_pos step q))) by (intros; apply IH).
    rewrite <- bindS_assoc, IH, bindS_assoc. apply bindS_ext. intros s1. reflexivity.
  Qed.

  Lemma iter_pos_swap p : forall s, bindS (iter_pos step p s) step = bindS (step s) (iter_pos step p).
  Proof.
    induction p as [q IH | q IH | ]; intros s.
    - rewrite iter_pos_xI, bindS_assoc.
      rewrite (bindS_ext _ _ (fun s1 => bindS (step s1) (iter_pos step (xO q)))) by (intros; apply swap_xO, IH).
      apply bindS_ext. intros s1. rewrite iter_pos_xI. reflexivity.
    - apply swap_xO, IH.
    - reflexivity.
  Qed.

  Lemma iter_pos_succ p : forall s, iter_pos step (Pos.succ p) s = bindS (step s) (iter_pos step p).
  Proof.
    induction p as [q IH | q IH | ]; intros s.
    - (* succ (xI q) = xO (succ q) *)
      change (Pos.succ (xI q)) with (xO (Pos.succ q)).
      rewrite iter_pos_xO, IH, bindS_assoc.
      rewrite (bindS_ext _ _ (fun s1 => bindS (step s1) (iter_pos step (xO q)))).
      + apply bindS_ext. intros s1. rewrite iter_pos_xI. reflexivity.
      + intros s1.
        rewrite (bindS_ext _ _ (fun s' => bindS (step s') (iter_pos step q))) by (intros; apply IH).
        rewrite <- bindS_assoc, (iter_pos_swap q s1), bindS_assoc. reflexivity.
    - change (Pos.succ (xO q)) with (xI q). apply iter_pos_xI.
    - reflexivity.
  Qed.

  Lemma iter_N_0 s : iter_N step 0 s = inl s.
  Proof. reflexivity. Qed.

  Lemma iter_N_succ n s : iter_N step (N.succ n) s = bindS (step s) (iter_N step n).
  Proof.
    destruct n as [|p]; simpl.
    - destruct (step s); reflexivity.
    - apply iter_pos_succ.
  Qed.
End IterFacts.

(** ---- addresses and bytes ---- *)
Lemma w64_add_add a i j : w64 (w64 (a + i) + j) = w64 (a + (i + j)).
Proof. unfold w64. rewrite N.add_mod_idemp_l by (unfold two64; lia). f_equal. lia. Qed.

Lemma w64_id a : a < two64 -> w64 a = a.
Proof. apply w64_small. Qed.

Lemma w64_add0 a : a < two64 -> w64 (a + 0) = a.
Proof. intros. rewrite N.add_0_r. apply w64_small; assumption. Qed.

Lemma bytes_at_nth m : forall bs a, bytes_at m a bs -> a < two64 ->
  forall i, (i < length bs)%nat -> m (w64 (a + N.of_nat i)) = Some (nth i bs 0).
Proof.
  induction bs as [|b r IH]; intros a H Ha i Hi; simpl in *. { lia. }
  destruct H as [H0 H1]. destruct i as [|i].
  - simpl. rewrite w64_add0 by assumption. assumption.
  - specialize (IH _ H1 (w64_lt _) i ltac:(lia)). rewrite w64_add_add in IH.
    replace (a + N.of_nat (S i)) with (a + (1 + N.of_nat i)) by lia. exact IH.
Qed.

Lemma bytes_at_skipn m : forall k bs a, bytes_at m a bs -> a < two64 ->
  bytes_at m (w64 (a + N.of_nat k)) (skipn k bs).
Proof.
  induction k as [|k IH]; intros bs a H Ha.
  - simpl. rewrite w64_add0 by assumption. assumption.
  - destruct bs as [|b r]; simpl. { exact I. }
    destruct H as [_ H1]. specialize (IH _ _ H1 (w64_lt _)). rewrite w64_add_add in IH.
    replace (a + N.pos (Pos.of_succ_nat k)) with (a + (1 + N.of_nat k)) by lia. exact IH.
Qed.

Lemma bytes_at_firstn m : forall k bs a, bytes_at m a bs -> bytes_at m a (firstn k bs).
Proof.
  induction k as [|k IH]; intros bs a H; simpl. { exact I. }
  destruct bs as [|b r]; simpl in *. { exact I. }
  destruct H as [H0 H1]. split; auto.
Qed.

Lemma bytes_at_prefix m : forall l1 l2 a, bytes_at m a l1 -> bytes_at m a l2 ->
  (length l1 <= length l2)%nat -> l1 = firstn (length l1) l2.
Proof.
  induction l1 as [|b r IH]; intros l2 a H1 H2 Hl; simpl in *. { reflexivity. }
  destruct l2 as [|b2 r2]; simpl in *. { lia. }
  destruct H1 as [Ha Hr], H2 as [Ha2 Hr2]. rewrite Ha in Ha2. injection Ha2 as <-.
  f_equal. eapply IH; eauto. lia.
Qed.

Lemma bytes_at_inj m l1 l2 a : bytes_at m a l1 -> bytes_at m a l2 -> length l1 = length l2 -> l1 = l2.
Proof.
  intros H1 H2 Hl. rewrite (bytes_at_prefix m l1 l2 a H1 H2) by lia.
  rewrite Hl. apply firstn_all.
Qed.

Lemma bytes_at_app m : forall l1 l2 a, a < two64 ->
  bytes_at m a (l1 ++ l2) <-> bytes_at m a l1 /\ bytes_at m (w64 (a + N.of_nat (length l1))) l2.
Proof.
  induction l1 as [|b r IH]; intros l2 a Ha; simpl.
  - rewrite w64_add0 by assumption. tauto.
  - rewrite (IH l2 (w64 (a + 1)) (w64_lt _)), w64_add_add.
    replace (a + N.pos (Pos.of_succ_nat (length r))) with (a + (1 + N.of_nat (length r))) by lia. tauto.
Qed.

Lemma le_bytes_lt m : bytes_ok m -> forall bs a, bytes_at m a bs -> le_bytes bs < 256 ^ N.of_nat (length bs).
Proof.
  intros Hok. induction bs as [|b r IH]; intros a H. { simpl. lia. }
  destruct H as [H0 H1]. specialize (IH _ H1). apply Hok in H0.
  change (length (b :: r)) with (S (length r)). rewrite Nat2N.inj_succ, N.pow_succ_r'.
  change (le_bytes (b :: r)) with (b + le_bytes r * 256). lia.
Qed.

(** ---- rdle ---- *)
Lemma rdle_spec m : forall n a v, rdle m a n = Got v <-> field m a n v.
Proof.
  unfold field. induction n as [|n IH]; intros a v; simpl.
  - split.
    + intros H. injection H as <-. exists []. simpl. auto.
    + intros (bs & Hl & _ & ->). destruct bs; simpl in *; [reflexivity | lia].
  - destruct (m a) as [b|] eqn:Hb.
    + destruct (rdle m (w64 (a + 1)) n) as [r|x] eqn:Hr.
      * apply IH in Hr. destruct Hr as (bs & Hl & Hbs & ->). split.
        -- intros H. injection H as <-. exists (b :: bs). simpl. auto.
        -- intros (bs' & Hl' & Hbs' & ->). destruct bs' as [|b' r']; simpl in *; [lia|].
           destruct Hbs' as [Hb' Hr']. rewrite Hb in Hb'. injection Hb' as <-.
           rewrite (bytes_at_inj m bs r' _ Hbs Hr') by lia. reflexivity.
      * split; [discriminate|]. intros (bs' & Hl' & Hbs' & ->).
        destruct bs' as [|b' r']; simpl in *; [lia|]. destruct Hbs' as [_ Hr'].
        assert (Hx : rdle m (w64 (a + 1)) n = Got (le_bytes r')) by (apply IH; exists r'; auto with arith).
        rewrite Hr in Hx. discriminate.
    + split; [discriminate|]. intros (bs' & Hl' & Hbs' & ->).
      destruct bs' as [|b' r']; simpl in *; [lia|]. destruct Hbs' as [Hb' _]. rewrite Hb in Hb'. discriminate.
Qed.

Lemma rd8_spec m a v : rd8 m a = Got v <-> m a = Some v.
Proof. unfold rd8. destruct (m a); split; intros H; inversion H; reflexivity. Qed.

(** ---- validTable ---- *)
Lemma w8_add_idem s b : w8 (w8 s + b) = w8 (s + b).
Proof. unfold w8. apply N.add_mod_idemp_l. unfold two8. lia. Qed.

Lemma w8_lt x : w8 x < 256.
Proof. unfold w8, two8. apply N.mod_lt. lia. Qed.

Lemma sum_iter_ok m : forall bs a s, s < 256 -> bytes_at m a bs ->
  exists a', iter_N (sum_step m) (N.of_nat (length bs)) (a, s) = inl (a', w8 (s + sum8 bs)).
Proof.
  induction bs as [|b r IH]; intros a s Hs H.
  - exists a. simpl. rewrite N.add_0_r. unfold w8, two8. rewrite N.mod_small by lia. reflexivity.
  - simpl in H. destruct H as [H0 H1].
    change (length (b :: r)) with (S (length r)). rewrite Nat2N.inj_succ.
    rewrite iter_N_succ. unfold sum_step at 1. rewrite H0. simpl bindS.
    destruct (IH (w64 (a + 1)) (w8 (s + b)) (w8_lt _) H1) as (a' & Hi).
    exists a'. rewrite Hi. f_equal. f_equal. rewrite w8_add_idem.
    change (sum8 (b :: r)) with (b + sum8 r). f_equal. lia.
Qed.

Lemma sum_iter_ok0 m bs a : bytes_at m a bs ->
  exists a', iter_N (sum_step m) (N.of_nat (length bs)) (a, 0) = inl (a', w8 (sum8 bs)).
Proof. intros H. apply (sum_iter_ok m bs a 0); [lia | exact H]. Qed.

Lemma sum_iter_inv m : forall n a s a' s', iter_N (sum_step m) n (a, s) = inl (a', s') ->
  exists bs, N.of_nat (length bs) = n /\ bytes_at m a bs.
Proof.
  induction n as [|n IH] using N.peano_ind; intros a s a' s' H.
  - exists []. simpl. auto.
  - rewrite iter_N_succ in H. unfold sum_step at 1 in H. destruct (m a) as [b|] eqn:Hb; simpl in H; [|discriminate].
    destruct (IH _ _ _ _ H) as (bs & Hl & Hbs). exists (b :: bs). simpl. split; [lia | auto].
Qed.

Lemma validTable_got m a len v :
  validTable m a len = Got v <->
  exists bs, N.of_nat (length bs) = len /\ bytes_at m a bs /\ v = (sum8 bs mod 256 =? 0).
Proof.
  unfold validTable. split.
  - destruct (iter_N (sum_step m) len (a, 0)) as [[a' s']|x] eqn:Hi; [|discriminate].
    intros H. injection H as <-.
    destruct (sum_iter_inv _ _ _ _ _ _ Hi) as (bs & Hl & Hbs). exists bs. repeat split; auto.
    destruct (sum_iter_ok0 m bs a Hbs) as (a'' & Hi'). rewrite Hl, Hi in Hi'. injection Hi' as _ ->. reflexivity.
  - intros (bs & Hl & Hbs & ->). destruct (sum_iter_ok0 m bs a Hbs) as (a'' & Hi'). rewrite Hl in Hi'. rewrite Hi'. reflexivity.
Qed.

Lemma validTable_true m a len : validTable m a len = Got true <-> sums_to_zero m a len.
Proof.
  rewrite validTable_got. unfold sums_to_zero. split; intros (bs & Hl & Hbs & H); exists bs; repeat split; auto.
  - symmetry in H. apply N.eqb_eq in H. exact H.
  - symmetry. apply N.eqb_eq. exact H.
Qed.

Lemma validTable_false m a len : validTable m a len = Got false <-> sums_to_nonzero m a len.
Proof.
  rewrite validTable_got. unfold sums_to_nonzero. split; intros (bs & Hl & Hbs & H); exists bs; repeat split; auto.
  - symmetry in H. apply N.eqb_neq in H. exact H.
  - symmetry. apply N.eqb_neq. exact H.
Qed.
