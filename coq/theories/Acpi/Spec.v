(** Declarative vocabulary for the C14 theorems: what a firmware image contains, independent of
    how acpi.go walks it.  Definitions only. *)
From Coq Require Import NArith List Bool.
From FF Require Import Lib.Word Gen.Consts_device_acpi Acpi.Model.
Import ListNotations.
Local Open Scope N_scope.

(** every byte of the image is a byte *)
Definition bytes_ok (m : mem) : Prop := forall a b, m a = Some b -> b < 256.

(** the image holds the bytes [bs] at addresses a, a+1, ... (64-bit address arithmetic) *)
Fixpoint bytes_at (m : mem) (a : N) (bs : list N) : Prop :=
  match bs with
  | [] => True
  | b :: r => m a = Some b /\ bytes_at m (w64 (a + 1)) r
  end.

Definition sum8 (bs : list N) : N := fold_right N.add 0 bs.
Definition le_bytes (bs : list N) : N := fold_right (fun b r => b + r * 256) 0 bs.

(** the [len] bytes starting at [a] are all there and sum to 0 / not to 0 modulo 256 *)
Definition sums_to_zero (m : mem) (a len : N) : Prop :=
  exists bs, N.of_nat (length bs) = len /\ bytes_at m a bs /\ sum8 bs mod 256 = 0.
Definition sums_to_nonzero (m : mem) (a len : N) : Prop :=
  exists bs, N.of_nat (length bs) = len /\ bytes_at m a bs /\ sum8 bs mod 256 <> 0.

(** a little-endian field of [n] bytes at [a] has value [v] *)
Definition field (m : mem) (a : N) (n : nat) (v : N) : Prop :=
  exists bs, length bs = n /\ bytes_at m a bs /\ v = le_bytes bs.

(** ---- the root pointer (ACPI: "RSD PTR ", revision at 15, RsdtAddress at 16, XsdtAddress at 24;
    20 bytes for revision 0, 36 bytes otherwise) ---- *)
Definition rsdp_signature : list N := [82; 83; 68; 32; 80; 84; 82; 32].   (* "RSD PTR " *)
Definition rsdp_len (rev : N) : nat := if rev =? 0 then 20%nat else 36%nat.

(** the structure at [a] is a root pointer the probe must accept, naming [root] / [useXSDT] *)
Definition rsdp_accepted (m : mem) (a root : N) (useXSDT : bool) : Prop :=
  exists bs,
    bytes_at m a bs /\ firstn 8 bs = rsdp_signature /\
    length bs = rsdp_len (nth 15 bs 0) /\
    sum8 bs mod 256 = 0 /\
    (if nth 15 bs 0 =? 0
     then useXSDT = false /\ root = le_bytes (firstn 4 (skipn 16 bs))
     else useXSDT = true /\ root = le_bytes (firstn 8 (skipn 24 bs))).

(** the aligned slot at [a] is readable and is not a root pointer: the signature differs at some
    byte (the bytes before it match), or the signature matches and the checksum over the length its
    revision dictates is not 0 *)
Definition rsdp_rejected (m : mem) (a : N) : Prop :=
  (exists i b, (i < 8)%nat /\ bytes_at m a (firstn i rsdp_signature) /\
               m (w64 (a + N.of_nat i)) = Some b /\ b <> nth i rsdp_signature 0)
  \/
  (exists bs, bytes_at m a bs /\ firstn 8 bs = rsdp_signature /\
              length bs = rsdp_len (nth 15 bs 0) /\ sum8 bs mod 256 <> 0).

(** [a] is one of the addresses low, low+align, low+2*align, ... below hi *)
Definition in_window (low hi align a : N) : Prop := exists k, a = low + k * align /\ a < hi.

(** ---- tables ---- *)
Definition tbl_len (m : mem) (t len : N) : Prop := field m (w64 (t + 4)) 4 len.     (* header.Length *)
Definition tbl_sig (m : mem) (t s : N) : Prop := field m t 4 s.                     (* header.Signature *)
(** the bytes of the table at [t] sum to zero / do not *)
Definition tbl_good (m : mem) (t : N) : Prop := exists len, tbl_len m t len /\ sums_to_zero m t len.
Definition tbl_bad (m : mem) (t len : N) : Prop := tbl_len m t len /\ sums_to_nonzero m t len.

(** the root table at [root] (length [len]) lists [es]: consecutive [w]-byte entries after the header *)
Fixpoint entries_at (m : mem) (p : N) (w : nat) (es : list N) : Prop :=
  match es with
  | [] => True
  | e :: r => field m p w e /\ entries_at m (w64 (p + N.of_nat w)) w r
  end.

Definition entry_width (useXSDT : bool) : nat := if useXSDT then 8%nat else 4%nat.

Definition root_lists (m : mem) (root len : N) (useXSDT : bool) (es : list N) : Prop :=
  N.of_nat (length es) = (len - 36) / N.of_nat (entry_width useXSDT) /\
  entries_at m (w64 (root + 36)) (entry_width useXSDT) es.

(** the DSDT pointer of the FADT at [f], as the kernel's table.FADT lays the structure out and as
    enumerateTables selects it: the 64-bit Ext.Dsdt when the root table's revision is >= 2, else Dsdt *)
Definition fadt_dsdt (m : mem) (rootRev f d : N) : Prop :=
  (rootRev < 2 /\ field m (w64 (f + acpi_off_FADT_Dsdt)) 4 d) \/
  (2 <= rootRev /\ (exists d32, field m (w64 (f + acpi_off_FADT_Dsdt)) 4 d32) /\
   field m (w64 (f + acpi_off_FADT_Ext_Dsdt)) 8 d).

Definition FACP : N := 0x50434146.   (* "FACP" *)

(** [walk m rootRev es visited events regs]: going through the listed tables [es] in order visits
    [visited] (each listed table, and after a checksum-valid FADT the DSDT it points to), reports
    [events] and registers [regs] (both oldest first).  A bad table costs one report and nothing else. *)
Inductive walk (m : mem) (rootRev : N) : list N -> list N -> list event -> list (N * N) -> Prop :=
| walk_nil : walk m rootRev [] [] [] []
| walk_bad t len s es vs ev regs :
    tbl_bad m t len -> tbl_sig m t s ->
    walk m rootRev es vs ev regs ->
    walk m rootRev (t :: es) (t :: vs) (EvMismatch s t len :: ev) regs
| walk_good t s es vs ev regs :
    tbl_good m t -> tbl_sig m t s -> s <> FACP ->
    walk m rootRev es vs ev regs ->
    walk m rootRev (t :: es) (t :: vs) ev ((s, t) :: regs)
| walk_fadt_good f d sd es vs ev regs :
    tbl_good m f -> tbl_sig m f FACP ->
    fadt_dsdt m rootRev f d -> tbl_good m d -> tbl_sig m d sd ->
    walk m rootRev es vs ev regs ->
    walk m rootRev (f :: es) (f :: d :: vs) ev ((FACP, f) :: (sd, d) :: regs)
| walk_fadt_bad f d sd len es vs ev regs :
    tbl_good m f -> tbl_sig m f FACP ->
    fadt_dsdt m rootRev f d -> tbl_bad m d len -> tbl_sig m d sd ->
    walk m rootRev es vs ev regs ->
    walk m rootRev (f :: es) (f :: d :: vs) (EvMismatch sd d len :: ev) ((FACP, f) :: regs).

(** candidates for registration: the listed tables and the DSDT a checksum-valid FADT points to *)
Definition candidate (m : mem) (rootRev : N) (es : list N) (t : N) : Prop :=
  In t es \/ exists f, In f es /\ tbl_good m f /\ tbl_sig m f FACP /\ fadt_dsdt m rootRev f t.

Definition distinct_signatures (m : mem) (rootRev : N) (es : list N) : Prop :=
  forall t1 t2 s, candidate m rootRev es t1 -> candidate m rootRev es t2 ->
                  tbl_sig m t1 s -> tbl_sig m t2 s -> t1 = t2.

Definition ev_addr (e : event) : N :=
  match e with EvMismatch _ a _ => a | EvInfo _ a _ _ _ => a end.

Definition no_seam_failure (fail : N -> bool) : Prop := forall k, fail k = false.
