(** Mapping-seam failures abort the enumeration at the first failing call; the mismatch reports in
    enumeration order. *)
From Coq Require Import NArith ZArith Lia List Bool.
From FF Require Import Lib.Word Gen.Consts_device_acpi Acpi.Model Acpi.Spec Acpi.BytesProofs Acpi.EnumProofs Acpi.RegProofs.
Import ListNotations.
Local Open Scope N_scope.

(** no identityMapFn call made so far failed / the last call made is the first one that failed *)
Definition seam_ok (fail : N -> bool) (s : seam) : Prop := forall j, j < sk s -> fail j = false.
Definition seam_failed (fail : N -> bool) (s : seam) : Prop :=
  exists k, fail k = true /\ sk s = k + 1 /\ forall j, j < k -> fail j = false.

Lemma seam_ok_step fail s : seam_ok fail s -> fail (sk s) = false ->
  forall j, j < sk s + 1 -> fail j = false.
Proof. intros Hok F j Hj. destruct (N.eq_dec j (sk s)) as [->|Hne]; [exact F | apply Hok; lia]. Qed.

Lemma map_gen m fail s t s' r : t < two64 -> seam_ok fail s ->
  mapACPITable m fail s t = (s', r) ->
  match r with
  | MOk h len => h = t /\ tbl_len m t len /\ sums_to_zero m t len /\ seam_ok fail s'
  | MMismatch h len => h = t /\ tbl_bad m t len /\ seam_ok fail s'
  | MErr => seam_failed fail s'
  | MStray _ => seam_ok fail s'
  end.
Proof.
  intros Ht Hok. unfold mapACPITable, idmap.
  destruct (fail (sk s)) eqn:F1; simpl negb; cbv beta iota.
  - intros H. injection H as <- <-. exists (sk s). simpl. split; [exact F1|]. split; [reflexivity | exact Hok].
  - rewrite (hpa_identity t Ht).
    change acpi_off_SDT_Length with 4. change (N.to_nat acpi_sizeof_SDT_Length) with 4%nat.
    pose proof (seam_ok_step fail s Hok F1) as Hok1.
    destruct (rdle m (w64 (t + 4)) 4) as [len|x] eqn:Hl.
    + apply rdle_spec in Hl. cbn [sk].
      destruct (fail (sk s + 1)) eqn:F2; simpl negb; cbv beta iota.
      * intros H. injection H as <- <-. exists (sk s + 1). simpl. split; [exact F2|]. split; [reflexivity | exact Hok1].
      * assert (Hok2 : forall j, j < sk s + 1 + 1 -> fail j = false).
        { intros j Hj. destruct (N.eq_dec j (sk s + 1)) as [->|Hne]; [exact F2 | apply Hok1; lia]. }
        destruct (validTable m t len) as [[|]|x] eqn:Hv; intros H; injection H as <- <-.
        -- apply validTable_true in Hv. repeat split; auto.
        -- apply validTable_false in Hv. unfold tbl_bad. repeat split; auto.
        -- exact Hok2.
    + intros H. injection H as <- <-. exact Hok1.
Qed.

Lemma mar_gen m fail s t s1 e reg : t < two64 -> seam_ok fail (st_seam s) ->
  map_and_register m fail s t = (s1, e, reg) ->
  match e with
  | None => mr_outcome m t s s1 reg /\ seam_ok fail (st_seam s1)
  | Some IErrMap => seam_failed fail (st_seam s1) /\ st_events s1 = st_events s /\ st_tmap s1 = st_tmap s /\ reg = None
  | Some (IStray _) => True
  | Some _ => False
  end.
Proof.
  intros Ht Hok. unfold map_and_register.
  destruct (mapACPITable m fail (st_seam s) t) as [sm r] eqn:Hm.
  pose proof (map_gen m fail _ t sm r Ht Hok Hm) as Hs.
  destruct r as [h len|h len| |x].
  - destruct Hs as (-> & Hl & Hz & Hok').
    destruct (sig_of m t) as [sg|x] eqn:Hsg; intros H; inversion H; subst; [|exact I].
    apply sig_of_spec in Hsg; [|assumption]. split; [|exact Hok'].
    apply mr_good; simpl; auto. exists len. auto.
  - destruct Hs as (-> & Hb & Hok').
    destruct (sig_of m t) as [sg|x] eqn:Hsg; intros H; inversion H; subst; [|exact I].
    apply sig_of_spec in Hsg; [|assumption]. split; [|exact Hok'].
    eapply mr_bad; simpl; eauto.
  - intros H; inversion H; subst. simpl. auto.
  - intros H; inversion H; subst. exact I.
Qed.

(** how an enumeration that ends in a mapping error looks: a walk over the entries before the
    failing one, and at the failing entry either nothing, or the FADT registered and its DSDT not *)
Definition aborted_at (m : mem) (rev t : N) (extra : list (N * N)) : Prop :=
  extra = [] \/
  (extra = [(FACP, t)] /\ tbl_good m t /\ tbl_sig m t FACP /\ exists d, fadt_dsdt m rev t d).

Lemma visit_all_err m fail rev : bytes_ok m ->
  forall addrs s s', Forall (fun a => a < two64) addrs -> seam_ok fail (st_seam s) ->
    visit_all m fail rev s addrs = (s', IErrMap) ->
    seam_failed fail (st_seam s') /\
    exists pre t post vs ev regs extra,
      addrs = pre ++ t :: post /\ walk m rev pre vs ev regs /\ aborted_at m rev t extra /\
      st_events s' = List.rev ev ++ st_events s /\ st_tmap s' = List.rev (regs ++ extra) ++ st_tmap s.
Proof.
  intros Hbok. induction addrs as [|a rest IH]; intros s s' Hall Hok H.
  - simpl in H. discriminate.
  - inversion Hall as [|? ? Ha Hrest]; subst. simpl in H. unfold visit in H.
    destruct (map_and_register m fail s a) as [[s1 e] reg] eqn:Hm.
    pose proof (mar_gen m fail s a s1 e reg Ha Hok Hm) as Hg.
    destruct e as [e|].
    { injection H as -> ->. destruct Hg as (Hf & Hev & Htm & _). split; [exact Hf|].
      exists [], a, rest, [], [], [], []. simpl. repeat split; auto. constructor. left. reflexivity. }
    destruct Hg as [Ho Hok1].
    destruct Ho as [sg len Hb Hsg Hev Htm | sg Hgd Hsg Hev Htm].
    + destruct (IH s1 s' Hrest Hok1 H) as (Hf & pre & t & post & vs & ev & regs & extra & -> & Hw & Hab & He & Ht).
      split; [exact Hf|].
      exists (a :: pre), t, post, (a :: vs), (EvMismatch sg a len :: ev), regs, extra.
      split; [reflexivity|]. split; [eapply walk_bad; eauto|]. split; [exact Hab|].
      simpl. rewrite He, Ht, Hev, Htm, <- app_assoc. auto.
    + change acpi_fadtSignature with FACP in H. destruct (N.eqb_spec sg FACP) as [->|Hne].
      * destruct (dsdt_pointer m rev a) as [d|x] eqn:Hd. 2:{ discriminate. }
        apply dsdt_pointer_spec in Hd; [|assumption].
        pose proof (fadt_dsdt_lt m rev a d Hbok Hd) as Hdlt.
        destruct (map_and_register m fail s1 d) as [[s2 e2] reg2] eqn:Hm2.
        pose proof (mar_gen m fail s1 d s2 e2 reg2 Hdlt Hok1 Hm2) as Hg2.
        destruct e2 as [e2|].
        { injection H as -> ->. destruct Hg2 as (Hf & Hev2 & Htm2 & _). split; [exact Hf|].
          exists [], a, rest, [], [], [], [(FACP, a)]. simpl.
          split; [reflexivity|]. split; [constructor|].
          split; [right; split; [reflexivity|]; split; [exact Hgd|]; split; [exact Hsg | exists d; exact Hd]|].
          rewrite Hev2, Htm2, Hev, Htm. auto. }
        destruct Hg2 as [Ho2 Hok2].
        destruct (IH s2 s' Hrest Hok2 H) as (Hf & pre & t & post & vs & ev & regs & extra & -> & Hw & Hab & He & Ht).
        split; [exact Hf|].
        destruct Ho2 as [sd len Hb Hsd Hev2 Htm2 | sd Hg2 Hsd Hev2 Htm2].
        -- exists (a :: pre), t, post, (a :: d :: vs), (EvMismatch sd d len :: ev), ((FACP, a) :: regs), extra.
           split; [reflexivity|]. split; [eapply walk_fadt_bad; eauto|]. split; [exact Hab|].
           simpl. rewrite He, Ht, Hev2, Htm2, Hev, Htm, <- !app_assoc. auto.
        -- exists (a :: pre), t, post, (a :: d :: vs), ev, ((FACP, a) :: (sd, d) :: regs), extra.
           split; [reflexivity|]. split; [eapply walk_fadt_good; eauto|]. split; [exact Hab|].
           simpl. rewrite He, Ht, Hev2, Htm2, Hev, Htm, <- !app_assoc. auto.
      * destruct (IH s1 s' Hrest Hok1 H) as (Hf & pre & t & post & vs & ev & regs & extra & -> & Hw & Hab & He & Ht).
        split; [exact Hf|].
        exists (a :: pre), t, post, (a :: vs), ev, ((sg, a) :: regs), extra.
        split; [reflexivity|]. split; [eapply walk_good; eauto|]. split; [exact Hab|].
        simpl. rewrite He, Ht, Hev, Htm, <- app_assoc. auto.
Qed.

(** success means that no call that was made failed *)
Lemma visit_all_ok_seam m fail rev : bytes_ok m ->
  forall addrs s s', Forall (fun a => a < two64) addrs -> seam_ok fail (st_seam s) ->
    visit_all m fail rev s addrs = (s', IOk) -> seam_ok fail (st_seam s').
Proof.
  intros Hbok. induction addrs as [|a rest IH]; intros s s' Hall Hok H.
  - simpl in H. injection H as <-. exact Hok.
  - inversion Hall as [|? ? Ha Hrest]; subst. simpl in H. unfold visit in H.
    destruct (map_and_register m fail s a) as [[s1 e] reg] eqn:Hm.
    pose proof (mar_gen m fail s a s1 e reg Ha Hok Hm) as Hg.
    destruct e as [e|]. { injection H as _ ->. contradiction. }
    destruct Hg as [Ho Hok1].
    destruct Ho as [sg len Hb Hsg Hev Htm | sg Hgd Hsg Hev Htm].
    + eapply IH; eauto.
    + change acpi_fadtSignature with FACP in H. destruct (N.eqb_spec sg FACP) as [->|Hne].
      * destruct (dsdt_pointer m rev a) as [d|x] eqn:Hd. 2:{ discriminate. }
        apply dsdt_pointer_spec in Hd; [|assumption].
        pose proof (fadt_dsdt_lt m rev a d Hbok Hd) as Hdlt.
        destruct (map_and_register m fail s1 d) as [[s2 e2] reg2] eqn:Hm2.
        pose proof (mar_gen m fail s1 d s2 e2 reg2 Hdlt Hok1 Hm2) as Hg2.
        destruct e2 as [e2|]. { injection H as _ ->. contradiction. }
        destruct Hg2 as [_ Hok2]. eapply IH; eauto.
      * eapply IH; eauto.
Qed.

Lemma seam_ok_0 fail : seam_ok fail (st_seam state0).
Proof. intros j Hj. simpl in Hj. lia. Qed.

Theorem map_error_aborts m fail root useX s :
  bytes_ok m -> root < two64 ->
  enumerateTables m fail root useX = (s, IErrMap) ->
  (* the last identityMapFn call is the first one that failed *)
  seam_failed fail (st_seam s) /\
  ( (* at the root table: nothing registered, nothing reported *)
    (st_tmap s = [] /\ st_events s = [])
    \/
    (* at entry t (or at the DSDT of the FADT t): the entries before t were walked as usual *)
    exists len rootRev es pre t post vs ev regs extra,
      tbl_len m root len /\ sums_to_zero m root len /\ m (w64 (root + 8)) = Some rootRev /\
      (36 <= len -> root_lists m root len useX es) /\
      es = pre ++ t :: post /\ walk m rootRev pre vs ev regs /\ aborted_at m rootRev t extra /\
      st_events s = List.rev ev /\ st_tmap s = List.rev (regs ++ extra) ).
Proof.
  intros Hok Hroot. unfold enumerateTables.
  destruct (mapACPITable m fail (st_seam state0) root) as [sm r] eqn:Hm.
  pose proof (map_gen m fail _ root sm r Hroot (seam_ok_0 fail) Hm) as Hs.
  destruct r as [h len|h len| |x]; try discriminate.
  2:{ intros H. injection H as <-. simpl. split; [exact Hs | left; auto]. }
  destruct Hs as (-> & Hl & Hz & Hoks). change acpi_off_SDT_Revision with 8.
  destruct (rd8 m (w64 (root + 8))) as [rv|x] eqn:Hrv; [|discriminate]. apply rd8_spec in Hrv.
  rewrite entry_width_nat.
  destruct (read_entries _ _ _ _) as [es0|x] eqn:He; [|discriminate].
  intros Hv. unfold read_entries in He.
  destruct (iter_N _ _ _) as [[p' acc']|x] eqn:Hi; [|discriminate]. injection He as <-.
  destruct (entries_iter_sound _ _ _ _ _ _ _ Hi) as (es & -> & Hlen & Hent).
  change acpi_sizeof_SDTHeader with 36 in Hent.
  rewrite app_nil_r, rev_involutive in Hv.
  assert (Hlt : Forall (fun a => a < two64) es).
  { eapply (entries_lt m (entry_width useX) Hok); [destruct useX; simpl; lia | exact Hent]. }
  destruct (visit_all_err m fail rv Hok es (with_seam state0 sm) s Hlt Hoks Hv)
    as (Hf & pre & t & post & vs & ev & regs & extra & Hes & Hw & Hab & Hev & Htm).
  split; [exact Hf|]. right.
  exists len, rv, es, pre, t, post, vs, ev, regs, extra. simpl in Hev, Htm. rewrite app_nil_r in Hev, Htm.
  split; [exact Hl|]. split; [exact Hz|]. split; [exact Hrv|].
  split. { intros H36. split; [|exact Hent]. rewrite Hlen. apply entry_count; [assumption|]. eapply field4_lt; eauto. }
  repeat split; auto.
Qed.

Theorem success_no_seam_failure m fail root useX s :
  bytes_ok m -> root < two64 ->
  enumerateTables m fail root useX = (s, IOk) -> seam_ok fail (st_seam s).
Proof.
  intros Hok Hroot. unfold enumerateTables.
  destruct (mapACPITable m fail (st_seam state0) root) as [sm r] eqn:Hm.
  pose proof (map_gen m fail _ root sm r Hroot (seam_ok_0 fail) Hm) as Hs.
  destruct r as [h len|h len| |x]; try discriminate.
  destruct Hs as (-> & Hl & Hz & Hoks). change acpi_off_SDT_Revision with 8.
  destruct (rd8 m (w64 (root + 8))) as [rv|x] eqn:Hrv; [|discriminate].
  rewrite entry_width_nat.
  destruct (read_entries _ _ _ _) as [es0|x] eqn:He; [|discriminate].
  intros Hv. unfold read_entries in He.
  destruct (iter_N _ _ _) as [[p' acc']|x] eqn:Hi; [|discriminate]. injection He as <-.
  destruct (entries_iter_sound _ _ _ _ _ _ _ Hi) as (es & -> & Hlen & Hent).
  rewrite app_nil_r, rev_involutive in Hv.
  assert (Hlt : Forall (fun a => a < two64) es).
  { eapply (entries_lt m (entry_width useX) Hok); [destruct useX; simpl; lia | exact Hent]. }
  exact (visit_all_ok_seam m fail rv Hok es (with_seam state0 sm) s Hlt Hoks Hv).
Qed.

(** DriverInit hands the error through (printTableInfo is not reached) *)
Lemma driverInit_err m fail root useX s info :
  driverInit m fail root useX = (s, IErrMap, info) ->
  enumerateTables m fail root useX = (s, IErrMap) /\ info = [].
Proof.
  unfold driverInit. destruct (enumerateTables m fail root useX) as [s0 r].
  destruct r; try (intros H; inversion H; subst; auto; fail).
  destruct (info_lines m (canon (st_tmap s0))); intros H; inversion H.
Qed.

Theorem driverInit_map_error m fail root useX s info :
  bytes_ok m -> root < two64 ->
  driverInit m fail root useX = (s, IErrMap, info) ->
  info = [] /\ seam_failed fail (st_seam s) /\
  ( (st_tmap s = [] /\ st_events s = [])
    \/
    exists len rootRev es pre t post vs ev regs extra,
      tbl_len m root len /\ sums_to_zero m root len /\ m (w64 (root + 8)) = Some rootRev /\
      (36 <= len -> root_lists m root len useX es) /\
      es = pre ++ t :: post /\ walk m rootRev pre vs ev regs /\ aborted_at m rootRev t extra /\
      st_events s = List.rev ev /\ st_tmap s = List.rev (regs ++ extra) ).
Proof.
  intros Hok Hroot H. apply driverInit_err in H. destruct H as [He ->].
  split; [reflexivity|]. exact (map_error_aborts m fail root useX s Hok Hroot He).
Qed.

(** ---- the reports, in enumeration order ---- *)
(** the tables visited: the listed entries in order, the DSDT right after its checksum-valid FADT *)
Inductive visits (m : mem) (rev : N) : list N -> list N -> Prop :=
| vis_nil : visits m rev [] []
| vis_bad t len es vs : tbl_bad m t len -> visits m rev es vs -> visits m rev (t :: es) (t :: vs)
| vis_good t s es vs : tbl_good m t -> tbl_sig m t s -> s <> FACP -> visits m rev es vs -> visits m rev (t :: es) (t :: vs)
| vis_fadt f d es vs : tbl_good m f -> tbl_sig m f FACP -> fadt_dsdt m rev f d ->
    visits m rev es vs -> visits m rev (f :: es) (f :: d :: vs).

(** the reports a list of visited tables produces: one line per table whose bytes do not sum to 0,
    in order, carrying the table's signature, address and length field (what the log line
    "%s at 0x%16x %6x [checksum mismatch; skipping]" prints); nothing for the others *)
Inductive reports (m : mem) : list N -> list event -> Prop :=
| rep_nil : reports m [] []
| rep_bad t s len vs ev : tbl_bad m t len -> tbl_sig m t s -> reports m vs ev ->
    reports m (t :: vs) (EvMismatch s t len :: ev)
| rep_good t vs ev : tbl_good m t -> reports m vs ev -> reports m (t :: vs) ev.

Lemma walk_visits_reports m rev es vs ev regs : walk m rev es vs ev regs ->
  visits m rev es vs /\ reports m vs ev.
Proof.
  intros H. induction H as [| t0 len0 sg es vs ev regs Hb Hsg Hw [IH1 IH2] | t0 sg es vs ev regs Hg Hsg Hne Hw [IH1 IH2]
                 | f d sd es vs ev regs Hg Hsg Hd Hgd Hsd Hw [IH1 IH2] | f d sd len0 es vs ev regs Hg Hsg Hd Hbd Hsd Hw [IH1 IH2]].
  - split; constructor.
  - split; [eapply vis_bad; eauto | eapply rep_bad; eauto].
  - split; [eapply vis_good; eauto | eapply rep_good; eauto].
  - split; [eapply vis_fadt; eauto | apply rep_good; [exact Hg|]; apply rep_good; [exact Hgd | exact IH2]].
  - split; [eapply vis_fadt; eauto | apply rep_good; [exact Hg|]; eapply rep_bad; eauto].
Qed.

Lemma tbl_bad_len_fun m t l1 l2 : tbl_bad m t l1 -> tbl_bad m t l2 -> l1 = l2.
Proof. intros [H1 _] [H2 _]. eapply field_fun; eauto. Qed.

Lemma reports_fun m : forall vs ev1 ev2, reports m vs ev1 -> reports m vs ev2 -> ev1 = ev2.
Proof.
  intros vs ev1 ev2 H1. revert ev2.
  induction H1 as [| t s len vs ev Hb Hs Hr IH | t vs ev Hg Hr IH]; intros ev2 H2; inversion H2; subst.
  - reflexivity.
  - f_equal; [|apply IH; assumption].
    match goal with Hb' : tbl_bad m t ?l, Hs' : tbl_sig m t ?s' |- _ =>
      rewrite (tbl_bad_len_fun m t _ _ Hb Hb'), (field_fun _ _ _ _ _ Hs Hs') end. reflexivity.
  - exfalso. eapply good_bad_excl; eauto.
  - exfalso. eapply good_bad_excl; eauto.
  - apply IH. assumption.
Qed.

Lemma visits_fun m rev : forall es vs1 vs2, visits m rev es vs1 -> visits m rev es vs2 -> vs1 = vs2.
Proof.
  intros es vs1 vs2 H1. revert vs2.
  induction H1 as [| t len es vs Hb Hv IH | t s es vs Hg Hs Hne Hv IH | f d es vs Hg Hs Hd Hv IH];
    intros vs2 H2; inversion H2; subst; try reflexivity;
    try (f_equal; apply IH; assumption);
    try (exfalso; eapply good_bad_excl; eauto; fail).
  - exfalso. apply Hne. eapply FACP_sig; eauto.
  - exfalso. match goal with Hn : _ <> FACP |- _ => apply Hn end. eapply FACP_sig; eauto.
  - match goal with Hd' : fadt_dsdt m rev f ?d' |- _ => rewrite (fadt_dsdt_fun _ _ _ _ _ Hd Hd') end.
    f_equal. f_equal. apply IH. assumption.
Qed.

Theorem reports_in_order m fail root useX s info :
  bytes_ok m -> root < two64 -> no_seam_failure fail ->
  driverInit m fail root useX = (s, IOk, info) ->
  exists rootRev es vs ev,
    m (w64 (root + 8)) = Some rootRev /\
    (forall len, tbl_len m root len -> 36 <= len -> root_lists m root len useX es) /\
    visits m rootRev es vs /\ reports m vs ev /\ st_events s = List.rev ev /\
    (forall vs', visits m rootRev es vs' -> vs' = vs) /\
    (forall ev', reports m vs ev' -> ev' = ev).
Proof.
  intros Hok Hroot Hf Hd. apply driverInit_ok in Hd.
  destruct (enumerate_sound m fail root useX s Hok Hroot Hf Hd) as (len & rv & es & vs & ev & regs & Hl & Hz & Hrv & Hrl & Hw & Hev & Htm).
  destruct (walk_visits_reports m rv es vs ev regs Hw) as [Hv Hr].
  exists rv, es, vs, ev. split; [exact Hrv|]. split.
  { intros len' Hl' H36. unfold tbl_len in *. rewrite (field_fun _ _ _ _ _ Hl' Hl) in *. apply Hrl. exact H36. }
  split; [exact Hv|]. split; [exact Hr|]. split; [exact Hev|]. split.
  - intros vs' Hv'. eapply visits_fun; eauto.
  - intros ev' Hr'. eapply reports_fun; eauto.
Qed.
