From Coq Require Import NArith List.
From Coq Require Extraction.
From Coq Require Import ExtrOcamlBasic.
From FF Require Import Goruntime.Boot.
Extraction Language OCaml.
Extraction "model.ml" run_case.
