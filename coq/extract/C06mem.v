From Coq Require Import NArith List.
From Coq Require Extraction.
From Coq Require Import ExtrOcamlBasic.
From FF Require Import Kernel.MemUtil.
Extraction Language OCaml.
Extraction "model.ml" run_case.
