"""Source fingerprints (gen/srcpin): Gen/Pin_Cxx.v regenerated on every run; the committed
coq/theories/Pins/Cxx.v holds the fingerprints of the source the model was validated against and the
obligation  Cxx_source_pinned : pins_Cxx = expected  (by reflexivity)."""
import os, re, json
import vlib


def _build():
    tool_src = os.path.join(vlib.ROOT, 'gen/srcpin/main.go')
    bindir = vlib.ensure_dir(os.path.join(vlib.WORK, 'bin'))
    exe = os.path.join(bindir, 'srcpin')
    stamp = os.path.join(bindir, 'srcpin.stamp')
    key = vlib.hash_files([tool_src])
    if not (os.path.exists(exe) and os.path.exists(stamp) and open(stamp).read() == key):
        rc, out, _ = vlib.sh(['go', 'build', '-o', exe, 'main.go'], cwd=os.path.dirname(tool_src),
                             env=dict(vlib.GOENV, GOFLAGS='', GO111MODULE='off'), timeout=300)
        if rc != 0:
            raise RuntimeError('srcpin build failed: ' + out[-2000:])
        open(stamp, 'w').write(key)
    return exe


def scope(prop):
    return json.load(open(os.path.join(vlib.ROOT, 'gen/srcpin/scope.json'))).get(prop, [])


def current_pins(prop):
    exe = _build()
    rc, out, _ = vlib.sh([exe, vlib.REPO, prop] + scope(prop), timeout=60)
    if rc != 0:
        raise RuntimeError('srcpin failed: ' + out[-1000:])
    return out


def parse_pins(text):
    return dict(re.findall(r'\("([^"]+)", "([^"]+)"\)', text))


def make_translator(prop):
    def run(gen_dir, force):
        target = os.path.join(gen_dir, 'Pin_%s.v' % prop)
        return {target: vlib.write_if_changed(target, current_pins(prop))}
    run.__name__ = 'srcpin_' + prop
    return run


_reg = {}


def register(prop):
    if prop not in _reg and scope(prop):
        _reg[prop] = make_translator(prop)
        vlib.EXTRA_TRANSLATORS.append(_reg[prop])


def pins_file(prop):
    return os.path.join(vlib.THEORIES, 'Pins', prop + '.v')


def repin(prop):
    """write coq/theories/Pins/<prop>.v from the CURRENT source tree (to be done only after the model has
    been re-validated against it: thorough correspondence run)"""
    pins = parse_pins(current_pins(prop))
    items = ';\n  '.join('("%s", "%s")' % kv for kv in sorted(pins.items()))
    txt = '''(** Fingerprints of the source the %(p)s model was validated against (function by function, comments and
    formatting ignored; written by `bin/repin %(p)s` after a thorough correspondence run). Gen/Pin_%(p)s.v is
    regenerated from the current tree on every run; if a pinned function changed, this obligation no
    longer checks: the model is then no longer known to describe the code, and the check searches for
    a failing input (and reports no-failing-input-found if it finds none). *)
From Coq Require Import String List.
From FF Require Import Gen.Pin_%(p)s.
Import ListNotations.
Local Open Scope string_scope.

Definition expected_pins_%(p)s : list (string * string) := [
  %(items)s
].

Theorem %(p)s_source_pinned : pins_%(p)s = expected_pins_%(p)s.
Proof. reflexivity. Qed.
Print Assumptions %(p)s_source_pinned.
''' % dict(p=prop, items=items)
    vlib.write_if_changed(pins_file(prop), txt)


def diff(prop):
    """-> list of human-readable differences between the committed and the current pins"""
    try:
        exp = parse_pins(open(pins_file(prop)).read().split('expected_pins_')[1])
        cur = parse_pins(current_pins(prop))
    except Exception as ex:
        return ['could not compare pins: %s' % ex]
    out = []
    for k in sorted(set(exp) | set(cur)):
        if exp.get(k) != cur.get(k):
            out.append('%s: %s' % (k, 'changed' if k in exp and k in cur else ('new' if k in cur else 'removed')))
    return out
