"""Go -> Gallina translator front end (gen/gotrans): regenerates Gen/Trans_*.v from the current sources."""
import os, json
import vlib


def _build():
    tool_src = os.path.join(vlib.ROOT, 'gen/gotrans/main.go')
    bindir = vlib.ensure_dir(os.path.join(vlib.WORK, 'bin'))
    exe = os.path.join(bindir, 'gotrans')
    stamp = os.path.join(bindir, 'gotrans.stamp')
    # main.go plus the extension files ext_*.go of the same package (one per feature area)
    exts = sorted(f for f in os.listdir(os.path.dirname(tool_src)) if f.startswith('ext_') and f.endswith('.go'))
    key = vlib.hash_files([tool_src] + [os.path.join(os.path.dirname(tool_src), f) for f in exts])
    if not (os.path.exists(exe) and os.path.exists(stamp) and open(stamp).read() == key):
        rc, out, _ = vlib.sh(['go', 'build', '-o', exe, 'main.go'] + exts, cwd=os.path.dirname(tool_src),
                             env=dict(vlib.GOENV, GOFLAGS='', GO111MODULE='off'), timeout=300)
        if rc != 0:
            raise RuntimeError('gotrans build failed: ' + out[-2000:])
        open(stamp, 'w').write(key)
    return exe


def make_translator(config_name):
    def run(gen_dir, force):
        exe = _build()
        cfg = json.load(open(os.path.join(vlib.ROOT, 'gen/gotrans', config_name)))
        cfg['repo'] = vlib.REPO
        tmp = os.path.join(vlib.ensure_dir(os.path.join(vlib.WORK, 'gen')), config_name)
        json.dump(cfg, open(tmp, 'w'))
        rc, out, _ = vlib.sh([exe, tmp] + cfg.get('imports', []), timeout=60)
        target = os.path.join(gen_dir, cfg['out'])
        if rc != 0:
            # an unsupported construct: the tie is broken; leave a file that does not compile so that the
            # obligation that depends on it fails with a message naming the reason
            msg = out.strip().replace('*)', '* )')[-600:]
            return {target: vlib.write_if_changed(target, '(* gotrans failed on the current source: %s *)\nTranslation failed.\n' % msg)}
        return {target: vlib.write_if_changed(target, out)}
    run.__name__ = 'gotrans_' + config_name
    return run


_registered = {}


def register(config_name):
    if config_name not in _registered:
        _registered[config_name] = make_translator(config_name)
        vlib.EXTRA_TRANSLATORS.append(_registered[config_name])
