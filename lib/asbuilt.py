#!/usr/bin/env python3
"""Prints markdown fragments for DESIGN.md section 11 from the files on disk (theorem names, partial lists,
known findings)."""
import os, sys, re, json, glob, importlib.util
sys.path.insert(0, os.path.dirname(os.path.abspath(__file__)))
import vlib
ROOT = vlib.ROOT
props = [json.loads(l) for l in open(os.path.join(ROOT, 'properties.jsonl'))]
print('### Theorems per property (Props/Cxx.v)\n')
for p in props:
    i = p['id']
    f = os.path.join(ROOT, 'coq/theories/Props/%s.v' % i)
    extra = sorted(glob.glob(os.path.join(ROOT, 'coq/theories/Props/%s_*.v' % i)))
    if not os.path.exists(f):
        print('* **%s** - no Props file yet' % i)
        continue
    names = []
    for ff in [f] + [e for e in extra if not e.endswith('_examples.v')]:
        names += re.findall(r'^\s*(?:Theorem|Corollary)\s+([\w\']+)', open(ff).read(), flags=re.M)
    ex = []
    for e in extra:
        if e.endswith('_examples.v'):
            ex = re.findall(r'^\s*Example\s+([\w\']+)', open(e).read(), flags=re.M)
    spec = None
    try:
        sp = importlib.util.spec_from_file_location('check_' + i, os.path.join(ROOT, 'checks', i + '.py'))
        m = importlib.util.module_from_spec(sp); sp.loader.exec_module(m)
        for v in vars(m).values():
            if isinstance(v, type) and getattr(v, 'prop', None) == i:
                spec = v
    except Exception as exn:
        pass
    print('* **%s** (%d theorems, %d examples): %s' % (i, len(names), len(ex), ', '.join('`%s`' % n for n in names)))
    if spec is not None and getattr(spec, 'partial', None):
        for q in spec.partial:
            print('  * partial / not proved: %s' % q)
print('\n### Findings (known_findings.json)\n')
kf = json.load(open(os.path.join(ROOT, 'known_findings.json')))['findings']
for e in kf:
    print('* %s **%s** `%s`%s - %s' % (e['property'], e['status'], e['signature'], (' (commit %s)' % e['commit']) if e.get('commit') else '', e['what']))
