#!/usr/bin/env python3
"""Full build: import every checks/Cxx.py (registers translators), regen, make all, build all models."""
import os, sys, glob, importlib.util, time
sys.path.insert(0, os.path.dirname(os.path.abspath(__file__)))
import vlib

t0 = time.time()
specs = []
for p in sorted(glob.glob(os.path.join(vlib.ROOT, 'checks', 'C*.py'))):
    name = os.path.basename(p)[:-3]
    sp = importlib.util.spec_from_file_location('check_' + name, p)
    m = importlib.util.module_from_spec(sp)
    sp.loader.exec_module(m)
    specs.append(name)
vlib.regen(force=True)
if '--clean' in sys.argv:
    vlib.coq_prepare()
    vlib.sh(['make', 'clean'], cwd=vlib.COQ)
vlib.coq_prepare()
files = [f[:-2] + '.vo' for f in vlib._coq_files()]
r = vlib.coq_build(files, timeout=3000)
if not r['ok']:
    print(r['log'][-5000:])
    sys.exit(1)
hits = vlib.forbidden_scan()
if hits:
    print('forbidden constructs:', hits)
    sys.exit(1)
for name in specs:
    if os.path.exists(os.path.join(vlib.COQ, 'extract', name + '.v')):
        vlib.model_binary(name)
print('setup ok: %d coq files, %d checks, %.1fs' % (len(files), len(specs), time.time() - t0))
