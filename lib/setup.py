#!/usr/bin/env python3
"""Full build: import every checks/Cxx.py (registers translators), regen, make all, build all models."""
import os, sys, glob, importlib.util, time
sys.path.insert(0, os.path.dirname(os.path.abspath(__file__)))
import vlib, gen_pins

t0 = time.time()
specs = []
for p in sorted(glob.glob(os.path.join(vlib.ROOT, 'checks', 'C*.py'))):
    name = os.path.basename(p)[:-3]
    sp = importlib.util.spec_from_file_location('check_' + name, p)
    m = importlib.util.module_from_spec(sp)
    sp.loader.exec_module(m)
    specs.append(name)
    gen_pins.register(name)
vlib.regen(force=True)
if '--clean' in sys.argv:
    vlib.coq_prepare()
    vlib.sh(['make', 'clean'], cwd=vlib.COQ)
vlib.coq_prepare()
files = [f[:-2] + '.vo' for f in vlib._coq_files()]
r = vlib.coq_build(files, timeout=3000)
failed = []
if not r['ok']:
    # a file that does not build is reported by the check of the property it belongs to; setup itself
    # only fails when nothing could be built at all
    print(r['log'][-5000:])
    failed = [f for f in files if not os.path.exists(os.path.join(vlib.COQ, f))]
    print('WARNING: %d of %d coq files did not build: %s' % (len(failed), len(files), ' '.join(failed)))
    if len(failed) == len(files):
        sys.exit(1)
hits = vlib.forbidden_scan()
if hits:
    print('WARNING forbidden constructs:', hits)
for name in specs:
    if os.path.exists(os.path.join(vlib.COQ, 'extract', name + '.v')):
        try:
            vlib.model_binary(name)
        except Exception as ex:
            print('WARNING: model for %s not built: %s' % (name, str(ex)[-500:]))
print('setup ok: %d coq files, %d checks, %.1fs' % (len(files), len(specs), time.time() - t0))
