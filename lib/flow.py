#!/usr/bin/env python3
"""The standard check flow shared by all properties (DESIGN.md section 2, steps 1-8)."""
import os, sys, json, time, random, re, traceback
import vlib, gen_pins
from vlib import log


class Spec:
    prop = None
    title = ''
    props_files = []          # e.g. ['theories/Props/C07.v', 'theories/Props/C07_examples.v']
    model_targets = []        # .vo that must build for the executable model (Model.v closure)
    module = 'kernel'
    pkg = None
    harness = []              # files under /verif/harness
    test = None               # go test -run regex
    extra_overlay = None
    partial = []              # what is not proved (strings)
    assumptions = []          # trusted base / assumptions (strings)
    go_timeout = 600
    rule = ''
    model = True              # has an extracted executable model
    go_extra_env = None

    def gen_cases(self, rng, tier):
        """-> list of (nums, note)"""
        raise NotImplementedError

    def corpus(self):
        d = os.path.join(vlib.ROOT, 'corpus', self.prop)
        out = []
        if os.path.isdir(d):
            for fn in sorted(os.listdir(d)):
                if fn.endswith('.case'):
                    for line in open(os.path.join(d, fn)):
                        line = line.split('#')[0].strip()
                        if line:
                            out.append(([int(x, 16) for x in line.split()], 'corpus:' + fn))
        return out

    def explain(self, nums):
        return None

    def nontrivial(self, nums, obs):
        return True

    def shrink_candidates(self, nums):
        return []

    def classify(self, nums, note):
        """bucket name for the input-distribution histogram"""
        return note.split(':')[0] if note else 'case'

    def extra_checks(self, ctx):
        """property-specific additional checks; return list of (sig, msg, replay_obj)"""
        return []

    def overlay(self):
        return self.extra_overlay


def _run_impl(spec, wd, cases, tag, timeout=None):
    cpath = os.path.join(wd, 'cases_%s.txt' % tag)
    opath = os.path.join(wd, 'go_%s.out' % tag)
    vlib.write_cases(cpath, [c[0] for c in cases])
    rc, out, secs = vlib.run_go(wd, spec.module, spec.pkg, spec.harness, spec.test, cases_path=cpath, out_path=opath,
                                timeout=timeout or spec.go_timeout, extra_overlay=spec.overlay(), extra_env=spec.go_extra_env)
    obs, mons, info = vlib.parse_out(opath)
    return dict(rc=rc, log=out, secs=secs, obs=obs, mons=mons, info=info, cases_path=cpath)


def _run_model(spec, wd, cases, tag):
    cpath = os.path.join(wd, 'cases_%s.txt' % tag)
    opath = os.path.join(wd, 'model_%s.out' % tag)
    secs = vlib.run_model(spec.prop, cpath, opath)
    obs, _, _ = vlib.parse_out(opath)
    return obs, secs


def _shrink(spec, wd, nums, sig):
    """greedy shrinking: keep any candidate on which the monitor still fails with the same signature"""
    cur = list(nums)
    for rnd in range(25):
        cands = []
        for c in spec.shrink_candidates(cur):
            if c != cur and c not in cands:
                cands.append(c)
            if len(cands) >= 200:
                break
        if not cands:
            break
        r = _run_impl(spec, wd, [(c, 'shrink') for c in cands], 'shrink', timeout=120)
        hit = None
        failing = {}
        for (i, s, m) in r['mons']:
            if s == sig:
                failing.setdefault(i, m)
        for i in sorted(failing, key=lambda i: len(cands[i])):
            hit = i
            break
        if hit is None:
            break
        cur = cands[hit]
    return cur


def standard_check(spec, argv):
    t0 = time.time()
    prop = spec.prop
    tier = vlib.tier_from_args(argv)
    seed = vlib.seed_from_env()
    # one scratch directory per property AND tier, so that a quick and a thorough run of the same property
    # can go on at the same time without overwriting each other's case files
    wd = vlib.ensure_dir(os.path.join(vlib.WORK, prop, 'replay' if '--replay' in argv else tier))
    if '--replay' in argv:
        return replay(spec, argv[argv.index('--replay') + 1], wd)
    rng = random.Random(seed * 1000003 + sum(map(ord, prop)))
    violations = []       # (line suffix, replay path)
    known_seen = {}
    notes = []

    # ---- 0. source pins: the model is pinned to the source it was validated against --------
    props_files = list(spec.props_files)
    if os.path.exists(gen_pins.pins_file(prop)):
        gen_pins.register(prop)
        props_files.append('theories/Pins/%s.v' % prop)

    # ---- 1. translators ----------------------------------------------------------------
    try:
        changed = vlib.regen()
    except Exception as ex:
        changed = {}
        notes.append('translator failed: %s' % str(ex)[:500])
        rp = vlib.write_replay(prop, 'translator', dict(property=prop, kind='tie-broken', what='translator could not run on the current tree',
                                                       detail=str(ex)[-3000:]))
        violations.append((rp, 'no-failing-input-found'))

    # ---- 2. proofs ----------------------------------------------------------------------
    targets = [f[:-2] + '.vo' for f in props_files] + list(spec.model_targets)
    b = vlib.coq_build(targets)
    scan = vlib.forbidden_scan(list(props_files) + [t[:-3] + '.v' for t in spec.model_targets])
    rep = dict(theorems=[], assumptions={}, bad_axioms=[], ok=False, log='')
    if b['ok']:
        rep = vlib.props_report(props_files)
    n_obl = 0
    for f in props_files:
        n_obl += len(re.findall(r'^\s*(?:Theorem|Corollary|Example)\s+[\w\']+', open(os.path.join(vlib.COQ, f)).read(), flags=re.M))
    proof_ok = b['ok'] and rep['ok'] and not scan
    broken = None
    if not proof_ok:
        if scan:
            broken = 'forbidden construct: ' + '; '.join(scan[:5])
        elif not b['ok']:
            broken = 'proof obligation no longer checks: %s (in %s line %s): %s' % (b['failed_lemma'], b['failed_file'], b['failed_line'], (b['error'] or '')[:400])
            if b.get('failed_file') and b['failed_file'].startswith('theories/Pins/'):
                broken = ('source changed since the model was validated against it (obligation %s_source_pinned): %s'
                          % (prop, '; '.join(gen_pins.diff(prop)[:12])))
            # the other obligations that no longer check in the same build (e.g. a *_is_translation proof over the
            # regenerated term next to the source pin): all of them are named, not only the first
            others = [f for f in b.get('failures', []) if f['file'] != b.get('failed_file')]
            if others:
                broken += ' || also broken: ' + ' | '.join('%s (in %s line %s): %s' % (f['lemma'], f['file'], f['line'], (f['error'] or '')[:160].replace('\n', ' '))
                                                          for f in others[:6])
        else:
            broken = 'assumptions: ' + '; '.join(rep['bad_axioms'][:5]) + rep['log'][-400:]
        log(broken)

    chk = None
    if tier == 'thorough' and proof_ok:
        chk = vlib.coqchk([f for f in props_files])
        if not chk['ok']:
            proof_ok = False
            broken = 'coqchk rejected the compiled development: ' + chk['summary'][-600:]
            log(broken)

    # ---- 3-6. correspondence --------------------------------------------------------------
    n_cases = 0
    cases = spec.corpus() + spec.gen_cases(rng, tier)
    n_cases = len(cases)
    hist = {}
    for nums, note in cases:
        k = spec.classify(nums, note)
        hist[k] = hist.get(k, 0) + 1
    impl = _run_impl(spec, wd, cases, 'main')
    impl_died = impl['rc'] != 0
    model_obs, model_secs, model_err = {}, 0.0, None
    if spec.model:
        try:
            model_obs, model_secs = _run_model(spec, wd, cases, 'main')
        except Exception as ex:
            model_err = str(ex)[-1500:]
            log('model failed:', model_err)
    mismatches = []
    if spec.model and model_err is None:
        for i in range(n_cases):
            if impl['obs'].get(i) != model_obs.get(i):
                mismatches.append(i)
    if impl_died:
        log('go harness exited with', impl['rc'])
        log(impl['log'][-3000:])

    # ---- monitors --------------------------------------------------------------------------
    known = vlib.known_findings(prop)
    mon_by_sig = {}
    for (i, sig, msg) in impl['mons']:
        mon_by_sig.setdefault(sig, []).append((i, msg))
    extra = []
    try:
        extra = spec.extra_checks(dict(tier=tier, seed=seed, wd=wd, impl=impl, rng=rng, cases=cases, model_obs=model_obs, proof_broken=broken)) or []
    except Exception as ex:
        extra = [('extra-check-error', 'extra check raised: ' + str(ex)[-800:], None)]
    unknown_fail = False
    for sig, lst in sorted(mon_by_sig.items()):
        if sig in known:
            known_seen[sig] = len(lst)
            print('KNOWN-FINDING: property=%s %s (%s; %d case(s) this run, e.g. case %d: %s)' % (
                prop, known[sig]['what'], sig, len(lst), lst[0][0], lst[0][1][:200]))
            continue
        unknown_fail = True
        i, msg = min(lst, key=lambda t: len(cases[t[0]][0]) if t[0] < n_cases else 1 << 30)
        nums = cases[i][0] if i < n_cases else []
        small = nums
        try:
            small = _shrink(spec, wd, nums, sig)
        except Exception as ex:
            log('shrink failed', ex)
        rp = vlib.write_replay(prop, 'monitor-' + re.sub(r'\W+', '_', sig)[:40], dict(
            property=prop, kind='monitor', signature=sig, message=msg, case=['%x' % v for v in small],
            original_case=['%x' % v for v in nums], note=cases[i][1] if i < n_cases else '', explain=spec.explain(small),
            failing_cases_this_run=len(lst), seed=seed, tier=tier,
            replay='bin/check %s --replay <this file>' % prop))
        violations.append((rp, ''))
    for (sig, msg, obj) in extra:
        if sig in known:
            known_seen[sig] = known_seen.get(sig, 0) + 1
            print('KNOWN-FINDING: property=%s %s (%s)' % (prop, known[sig]['what'], sig))
            continue
        unknown_fail = True
        robj = dict(property=prop, kind='extra', signature=sig, message=msg, detail=obj)
        if isinstance(obj, dict) and obj.get('case'):
            robj['case'] = obj['case']
        rp = vlib.write_replay(prop, 'extra-' + re.sub(r'\W+', '_', sig)[:40], robj)
        violations.append((rp, 'no-failing-input-found' if (obj is None or (isinstance(obj, dict) and obj.get('no_failing_input'))) else ''))

    # ---- tie broken without a monitor failure: search, then report ------------------------------
    tie_broken = []
    if broken:
        tie_broken.append(broken)
    if model_err:
        tie_broken.append('model could not be built/run: ' + model_err[-400:])
    if mismatches:
        i = mismatches[0]
        tie_broken.append('correspondence: model and implementation differ on %d of %d cases, first case %d' % (len(mismatches), n_cases, i))
    if impl_died and not impl['mons']:
        tie_broken.append('implementation harness did not complete (rc=%s): %s' % (impl['rc'], impl['log'][-600:]))
    searched = 0
    if tie_broken and not unknown_fail:
        # extended search for a concrete failing input with the independent monitor
        found = None
        for k in range(3 if tier == 'quick' else 8):
            rng2 = random.Random(seed * 7919 + k + 17)
            sc = spec.gen_cases(rng2, 'search')
            searched += len(sc)
            r = _run_impl(spec, wd, sc, 'search')
            bad = [(i, s, m) for (i, s, m) in r['mons'] if s not in known]
            if bad:
                i, s, m = min(bad, key=lambda t: len(sc[t[0]][0]))
                small = sc[i][0]
                try:
                    small = _shrink(spec, wd, small, s)
                except Exception as ex:
                    log('shrink failed', ex)
                found = vlib.write_replay(prop, 'search-' + re.sub(r'\W+', '_', s)[:40], dict(
                    property=prop, kind='monitor', signature=s, message=m, case=['%x' % v for v in small],
                    explain=spec.explain(small), tie_broken=tie_broken, seed=seed, tier=tier,
                    replay='bin/check %s --replay <this file>' % prop))
                break
        if found:
            violations.append((found, ''))
        else:
            obj = dict(property=prop, kind='tie-broken', what=tie_broken, searched_cases=searched + n_cases, seed=seed, tier=tier)
            if mismatches:
                i = mismatches[0]
                obj['first_mismatch'] = dict(case=['%x' % v for v in cases[i][0]], note=cases[i][1], explain=spec.explain(cases[i][0]),
                                             implementation=impl['obs'].get(i), model=model_obs.get(i))
                obj['replay'] = 'bin/check %s --replay <this file>' % prop
                obj['case'] = obj['first_mismatch']['case']
            if broken:
                obj['theorem'] = b.get('failed_lemma')
                obj['coq_error'] = b.get('error')
            rp = vlib.write_replay(prop, 'tie', obj)
            violations.append((rp, 'no-failing-input-found'))

    # ---- evidence ---------------------------------------------------------------------------
    distinct = set()
    for i, (nums, note) in enumerate(cases):
        o = impl['obs'].get(i)
        if o is not None and spec.nontrivial(nums, o):
            distinct.add(tuple(nums))
    samples = []
    for i in list(range(min(3, n_cases))) + ([n_cases - 1] if n_cases > 3 else []):
        samples.append(dict(case=' '.join('%x' % v for v in cases[i][0])[:600], note=cases[i][1], explain=spec.explain(cases[i][0]),
                            implementation=' '.join(impl['obs'].get(i, ['<none>']))[:400]))
    tb = ['Coq 8.16.1 kernel (coqc); vm_compute used, native_compute not used',
          'axioms per Print Assumptions: ' + ('none (all theorems closed under the global context)' if rep['assumptions'] and all(v.startswith('Closed') for v in rep['assumptions'].values()) else json.dumps(rep['assumptions'])[:1500]),
          'extraction: ExtrOcamlBasic only (Extract Inductive bool/option/unit/list/prod/sumbool/sumor from that library; no Extract Constant), OCaml 4.13.1, generic driver in lib/vlib.py',
          'translators: lib/vlib.py regen (constants evaluated by the Go compiler in an in-package dump); source pins: gen/srcpin -> Gen/Pin_%s.v (obligation %s_source_pinned)' % (prop, prop),
          'correspondence harness: ' + ', '.join(os.path.relpath(h, vlib.ROOT) for h in spec.harness) + ' injected with go test -overlay, Go toolchain as installed'
          + ('; further overlay files (shims): ' + ', '.join(os.path.relpath(v, vlib.ROOT) for v in (spec.overlay() or {}).values()) if spec.overlay() else ''),
          ] + list(spec.assumptions)
    cov = dict(
        obligations=n_obl, discharged=(n_obl if proof_ok else 0),
        checker_cmd='make -C coq -j%d %s ; coqc on %s (Print Assumptions)' % (vlib.NPROC, ' '.join(targets), ' '.join(props_files)),
        trusted_base=tb,
        theorems=rep['theorems'],
        partial=spec.partial,
        evaluations=n_cases + searched, distinct_nontrivial=len(distinct),
        rule=spec.rule,
        samples=samples,
        correspondence=dict(cases=n_cases, mismatches=len(mismatches), distribution=hist, impl_seconds=round(impl['secs'], 2),
                            model_seconds=round(model_secs, 2), info={k: v[:5] for k, v in impl['info'].items()}),
        monitor=dict(failures={k: len(v) for k, v in mon_by_sig.items()}),
        known_findings_seen=known_seen,
        gen_changed=[os.path.basename(k) for k, v in changed.items() if v],
        notes=notes,
        coq_build_seconds=round(b['seconds'], 1),
        coqchk=chk,
    )
    for attr in ('ring_info', 'mem_info', 'extra_info'):
        if getattr(spec, attr, None):
            cov.setdefault('additional_correspondences', {})[attr] = getattr(spec, attr)
    vlib.write_evidence(prop, tier, seed, cov, spec.assumptions, time.time() - t0, len(violations))
    for rp, suffix in violations:
        print(('VIOLATION property=%s replay=%s %s' % (prop, rp, suffix)).rstrip())
    if violations:
        return 1
    print('OK property=%s tier=%s theorems=%d cases=%d mismatches=0 known=%s wall=%.1fs' % (
        prop, tier, n_obl, n_cases, sorted(known_seen), time.time() - t0))
    return 0


def replay(spec, path, wd):
    obj = json.load(open(path))
    case = obj.get('case')
    if not case:
        print(json.dumps(obj, indent=1))
        print('replay file names a broken theorem/tie, no concrete case to run')
        return 0
    nums = [int(x, 16) for x in case]
    vlib.regen()
    vlib.coq_build(list(spec.model_targets))
    impl = _run_impl(spec, wd, [(nums, 'replay')], 'replay')
    print('case       :', ' '.join(case))
    print('explain    :', spec.explain(nums))
    print('impl obs   :', ' '.join(impl['obs'].get(0, ['<none>'])))
    for (i, s, m) in impl['mons']:
        print('impl MONITOR-FAIL:', s, m)
    if impl['rc'] != 0:
        print(impl['log'][-2000:])
    if spec.model:
        mo, _ = _run_model(spec, wd, [(nums, 'replay')], 'replay')
        print('model obs  :', ' '.join(mo.get(0, ['<none>'])))
    return 1 if impl['mons'] else 0
