#!/usr/bin/env python3
"""lib/seedconfirm.py <seed out dir> <seed id, e.g. C05-7> [round] [--also Cyy ...]

Confirms a seeded change written by a seeding sub-agent (patch.diff, demo file(s), meta.json) in a scratch worktree of
/repo (never /repo itself): the patch applies, the module's existing suite is green with it, the demonstration fails with
it and passes without it.  Only then is it copied to /verif/seeded/<id>/ and the property's quick check run against it
with bin/mutant-run (scratch copies again); the outcome goes to seeded/<id>/verif_result.json.
"""
import json, os, re, shutil, subprocess, sys, glob

ENV = dict(os.environ, GOFLAGS='-mod=mod', GOPROXY='off', GOSUMDB='off', GOTOOLCHAIN='local', GO111MODULE='on', GOWORK='off')
ROOT = os.path.dirname(os.path.dirname(os.path.abspath(__file__)))


def sh(cmd, cwd=None, timeout=1800):
    p = subprocess.run(cmd, shell=True, cwd=cwd, env=ENV, stdout=subprocess.PIPE, stderr=subprocess.STDOUT, text=True, timeout=timeout)
    return p.returncode, p.stdout


def main():
    src, sid = sys.argv[1], sys.argv[2]
    rest = sys.argv[3:]
    also = []
    if '--also' in rest:
        k = rest.index('--also')
        also = rest[k + 1:]
        rest = rest[:k]
    rnd = int(rest[0]) if rest else 4
    prop = sid.split('-')[0]
    meta = json.load(open(os.path.join(src, 'meta.json')))
    demo_dir = meta.get('demo_dir', '')
    demos = [f for f in os.listdir(src) if f.endswith('_test.go') or (f.endswith('.go') and f != 'patch.diff')]
    wt = '/tmp/sc_%s_%d' % (sid, os.getpid())
    sh('git -C /repo worktree add --detach %s HEAD' % wt)
    res = {'patch_applies': False, 'demo_passes_without_patch': False, 'demo_fails_with_patch': False, 'existing_suite_green_with_patch': False}
    log = []
    try:
        module = 'kbuild' if demo_dir.startswith('kbuild') or any(f.startswith('kbuild') for f in meta.get('files_changed', [])) else 'kernel'
        pkgs = "$(go list ./... | grep -v -e /goruntime -e /kmain -e /main$)" if module == 'kernel' else './...'
        rc, out = sh('git apply %s' % os.path.abspath(os.path.join(src, 'patch.diff')), cwd=wt)
        res['patch_applies'] = rc == 0
        log.append(('apply', rc, out[-500:]))
        if rc == 0:
            rc, out = sh('go test -vet=off -count=1 %s' % pkgs, cwd=os.path.join(wt, module))
            res['existing_suite_green_with_patch'] = rc == 0
            log.append(('suite+patch', rc, out[-1500:]))
            for f in demos:
                shutil.copy(os.path.join(src, f), os.path.join(wt, demo_dir, f))
            names = []
            for f in demos:
                names += re.findall(r'^func (Test\w+)\(', open(os.path.join(src, f)).read(), re.M)
            run = '-run "^(%s)$"' % '|'.join(names)
            rc, out = sh('go test -vet=off -count=1 %s .' % run, cwd=os.path.join(wt, demo_dir))
            res['demo_fails_with_patch'] = rc != 0 and ('FAIL' in out)
            log.append(('demo+patch', rc, out[-1500:]))
            sh('git apply -R %s' % os.path.abspath(os.path.join(src, 'patch.diff')), cwd=wt)
            rc, out = sh('go test -vet=off -count=1 %s .' % run, cwd=os.path.join(wt, demo_dir))
            res['demo_passes_without_patch'] = rc == 0 and 'no tests to run' not in out
            log.append(('demo', rc, out[-800:]))
    finally:
        sh('git -C /repo worktree remove --force %s; git -C /repo worktree prune' % wt)
        shutil.rmtree(wt, ignore_errors=True)
    for name, rc, out in log:
        print('--- %s rc=%d\n%s' % (name, rc, out))
    print(json.dumps(res))
    if not all(res.values()):
        print('NOT CONFIRMED')
        sys.exit(2)
    dst = os.path.join(os.environ.get("SEED_DST", os.path.join(ROOT, "seeded")), sid)
    os.makedirs(dst, exist_ok=True)
    shutil.copy(os.path.join(src, 'patch.diff'), dst)
    for f in demos:
        shutil.copy(os.path.join(src, f), dst)
    meta['round'] = rnd
    json.dump(meta, open(os.path.join(dst, 'meta.json'), 'w'), indent=1)
    result = {'confirmed_by_coordinator': res, 'round': rnd}
    for k, p in enumerate([prop] + also):
        rc, out = sh('bin/mutant-run %s %s' % (p, os.path.join(dst, 'patch.diff')), cwd=ROOT, timeout=3600)
        viol = re.findall(r'^VIOLATION property=\S+ replay=\S*?([^/\s]+\.json)(.*)$', out, re.M)
        r = {'exit_code': rc, 'violations': [(a + b).strip() for a, b in viol], 'detected': rc == 1 and bool(viol),
             'concrete_replay': any('no-failing-input-found' not in b for a, b in viol), 'command': 'bin/mutant-run %s seeded/%s/patch.diff' % (p, sid)}
        print('=== %s: rc=%d %s' % (p, rc, r['violations']))
        if k == 0:
            result.update(r)
        else:
            result.setdefault('other_properties', []).append(dict(r, property=p))
    json.dump(result, open(os.path.join(dst, 'verif_result.json'), 'w'), indent=1)


if __name__ == '__main__':
    main()
