#!/usr/bin/env python3
"""Shared machinery for /verif checks (see DESIGN.md section 2).

Everything a check does goes through this file:
  regen()        translators: current /repo sources -> coq/theories/Gen/*.v
  coq_build()    full .vo build (coq_makefile + make -j16) of a target's closure, under flock
  props_report() re-run coqc on Props/Cxx.v, capture Print Assumptions, count theorems
  model_binary() extraction (ExtrOcamlBasic only) + generic OCaml driver -> executable model
  run_go()       the real code: go test -tags verif -overlay ... in /repo's current tree
  run_model()    the extracted model on the same case file
  decide()       diff, monitors, known findings, search, VIOLATION / KNOWN-FINDING protocol
  write_evidence()
"""
import os, sys, json, subprocess, hashlib, time, random, fcntl, re, shutil, glob

ROOT = os.path.dirname(os.path.dirname(os.path.abspath(__file__)))
REPO = os.environ.get('VERIF_REPO', '/repo')
WORK = os.path.join(ROOT, '.work')
COQ = os.path.join(ROOT, 'coq')
THEORIES = os.path.join(COQ, 'theories')
NPROC = os.cpu_count() or 4

# GO111MODULE / GOWORK are pinned too: a caller's shell may carry GO111MODULE=off (the translator tools are built that
# way), which would make `go test` in /repo look for packages in GOPATH
GOENV = dict(GOFLAGS='-mod=mod', GOPROXY='off', GOSUMDB='off', GOTOOLCHAIN='local',
             CGO_ENABLED='0', GO111MODULE='on', GOWORK='off')

AXIOM_WHITELIST = [
    # standard-library axioms that may appear (named in DESIGN.md section 7)
    'functional_extensionality_dep', 'proof_irrelevance', 'JMeq_eq', 'classic',
    'Eqdep.Eq_rect_eq.eq_rect_eq', 'eq_rect_eq',
]

FORBIDDEN = re.compile(r'\b(Admitted|admit|Axiom|Parameter|Conjecture|Abort All)\b|Unset\s+Guard|bypass_check|Admit Obligations|type-in-type|impredicative-set|Unset\s+Universe|Unset\s+Positivity')


def log(*a):
    print('[verif]', *a, file=sys.stderr, flush=True)


def sh(cmd, cwd=None, env=None, timeout=None, check=False, stdin=None):
    e = dict(os.environ)
    if env:
        e.update(env)
    t0 = time.time()
    # own process group, so that a timeout kills grandchildren too (go test -> test binary -> spinning goroutines)
    p = subprocess.Popen(cmd, cwd=cwd, env=e, stdout=subprocess.PIPE, stderr=subprocess.STDOUT,
                         stdin=(subprocess.PIPE if stdin is not None else subprocess.DEVNULL), text=True, errors='replace',
                         start_new_session=True)
    try:
        out, _ = p.communicate(input=stdin, timeout=timeout)
        rc = p.returncode
    except subprocess.TimeoutExpired:
        import signal
        try:
            os.killpg(p.pid, signal.SIGKILL)
        except OSError:
            pass
        try:
            out, _ = p.communicate(timeout=30)
        except Exception:
            out = ''
        rc, out = 124, (out or '') + '\n[timeout after %ss]' % timeout
    if check and rc != 0:
        raise RuntimeError('command failed (%d): %s\n%s' % (rc, cmd, out[-4000:]))
    return rc, out, time.time() - t0


def ensure_dir(d):
    os.makedirs(d, exist_ok=True)
    return d


def write_if_changed(path, content):
    try:
        with open(path) as f:
            if f.read() == content:
                return False
    except FileNotFoundError:
        pass
    ensure_dir(os.path.dirname(path))
    with open(path, 'w') as f:
        f.write(content)
    return True


class Lock:
    def __init__(self, name):
        ensure_dir(WORK)
        self.path = os.path.join(WORK, name + '.lock')

    def __enter__(self):
        self.f = open(self.path, 'w')
        fcntl.flock(self.f, fcntl.LOCK_EX)
        return self

    def __exit__(self, *a):
        fcntl.flock(self.f, fcntl.LOCK_UN)
        self.f.close()


def hash_files(paths):
    h = hashlib.sha256()
    for p in sorted(paths):
        h.update(p.encode())
        try:
            with open(p, 'rb') as f:
                h.update(f.read())
        except FileNotFoundError:
            h.update(b'<missing>')
    return h.hexdigest()


# --------------------------------------------------------------------------------------
# Go side
# --------------------------------------------------------------------------------------

COMMON_GO = '''//go:build verif
// +build verif

package %(pkg)s

import (
	"bufio"
	"fmt"
	"os"
	"strconv"
	"strings"
)

type verifCase struct {
	id   int
	nums []uint64
}

func verifReadCases() []verifCase {
	f, err := os.Open(os.Getenv("VERIF_CASES"))
	if err != nil {
		panic(err)
	}
	defer f.Close()
	var out []verifCase
	sc := bufio.NewScanner(f)
	sc.Buffer(make([]byte, 1<<20), 1<<28)
	for sc.Scan() {
		fs := strings.Fields(sc.Text())
		if len(fs) == 0 {
			continue
		}
		id, _ := strconv.Atoi(fs[0])
		c := verifCase{id: id}
		for _, s := range fs[1:] {
			v, err := strconv.ParseUint(s, 16, 64)
			if err != nil {
				panic(err)
			}
			c.nums = append(c.nums, v)
		}
		out = append(out, c)
	}
	return out
}

type verifOut struct {
	f *os.File
	w *bufio.Writer
}

func verifOpenOut() *verifOut {
	f, err := os.Create(os.Getenv("VERIF_OUT"))
	if err != nil {
		panic(err)
	}
	return &verifOut{f: f, w: bufio.NewWriterSize(f, 1<<20)}
}

func (o *verifOut) Close() { o.w.Flush(); o.f.Close() }
func (o *verifOut) Flush() { o.w.Flush() }

// Obs writes the observation line of a case (compared with the model).
func (o *verifOut) Obs(id int, vals []uint64) {
	fmt.Fprintf(o.w, "O %%d", id)
	for _, v := range vals {
		fmt.Fprintf(o.w, " %%x", v)
	}
	o.w.WriteByte('\\n')
}

// Mon reports that the independent property monitor failed on a case.
func (o *verifOut) Mon(id int, sig string, format string, args ...interface{}) {
	msg := strings.Replace(fmt.Sprintf(format, args...), "\\n", " ", -1)
	fmt.Fprintf(o.w, "M %%d %%s %%s\\n", id, sig, msg)
}

// Info writes a key/value line that ends up in the evidence.
func (o *verifOut) Info(key string, format string, args ...interface{}) {
	fmt.Fprintf(o.w, "I %%s %%s\\n", key, strings.Replace(fmt.Sprintf(format, args...), "\\n", " ", -1))
}

// verifCur is a cursor over a case's numbers.
type verifCur struct {
	n []uint64
	i int
}

func (c *verifCur) Next() uint64 {
	if c.i >= len(c.n) {
		return 0
	}
	v := c.n[c.i]
	c.i++
	return v
}
func (c *verifCur) Done() bool { return c.i >= len(c.n) }
func (c *verifCur) List() []uint64 {
	n := int(c.Next())
	out := make([]uint64, 0, n)
	for i := 0; i < n; i++ {
		out = append(out, c.Next())
	}
	return out
}
'''


def go_pkg_name(module, pkg):
    """package clause name of REPO/module/pkg (read from a non-test .go file)."""
    d = os.path.join(REPO, module, pkg)
    for fn in sorted(os.listdir(d)):
        if fn.endswith('.go') and not fn.endswith('_test.go'):
            with open(os.path.join(d, fn)) as f:
                for line in f:
                    m = re.match(r'\s*package\s+(\w+)', line)
                    if m:
                        return m.group(1)
    raise RuntimeError('no package clause in ' + d)


def run_go(workdir, module, pkg, harness_files, run_regex, cases_path=None, out_path=None,
           extra_env=None, timeout=600, race=False, extra_overlay=None, common=True, gcflags=None):
    """Run the in-package harness against REPO's current sources.

    harness_files: list of paths under /verif/harness/... ; they are overlaid into REPO/module/pkg.
    extra_overlay: dict {path inside REPO: source path} for files in other packages (shims).
    Returns (rc, output, seconds).
    """
    ensure_dir(workdir)
    pkgdir = os.path.join(REPO, module, pkg)
    repl = {}
    for hf in harness_files:
        repl[os.path.join(pkgdir, os.path.basename(hf))] = hf
    if common:
        cpath = os.path.join(workdir, 'zz_verif_common_%s_test.go' % re.sub(r'\W', '_', pkg))
        write_if_changed(cpath, COMMON_GO % dict(pkg=go_pkg_name(module, pkg)))
        repl[os.path.join(pkgdir, 'zz_verif_common_test.go')] = cpath
    for k, v in (extra_overlay or {}).items():
        repl[k] = v
    ov = os.path.join(workdir, 'overlay_%s.json' % re.sub(r'\W', '_', pkg + run_regex)[:60])
    with open(ov, 'w') as f:
        json.dump({'Replace': repl}, f, indent=1)
    env = dict(GOENV)
    if race:
        env['CGO_ENABLED'] = '1'
    if cases_path:
        env['VERIF_CASES'] = cases_path
    if out_path:
        env['VERIF_OUT'] = out_path
        try:
            os.unlink(out_path)
        except FileNotFoundError:
            pass
    env.update(extra_env or {})
    cmd = ['go', 'test', '-tags', 'verif', '-vet=off', '-count=1', '-overlay', ov,
           '-timeout', '%ds' % timeout, '-run', run_regex]
    if race:
        cmd.append('-race')
    if gcflags:
        cmd.append('-gcflags=' + gcflags)
    cmd.append('./' + pkg if pkg else '.')
    return sh(cmd, cwd=os.path.join(REPO, module), env=env, timeout=timeout + 60)


def parse_out(path):
    """-> (obs: {id: [hexstr]}, mons: [(id, sig, msg)], info: {k: [v]})"""
    obs, mons, info = {}, [], {}
    if not os.path.exists(path):
        return obs, mons, info
    with open(path, errors='replace') as f:
        for line in f:
            line = line.rstrip('\n')
            if not line:
                continue
            tag = line[0]
            if tag == 'O':
                fs = line.split()
                obs[int(fs[1])] = fs[2:]
            elif tag == 'M':
                fs = line.split(' ', 3)
                mons.append((int(fs[1]), fs[2], fs[3] if len(fs) > 3 else ''))
            elif tag == 'I':
                fs = line.split(' ', 2)
                info.setdefault(fs[1], []).append(fs[2] if len(fs) > 2 else '')
    return obs, mons, info


def write_cases(path, cases):
    """cases: list of lists of ints; line = '<id> hex hex ...'"""
    with open(path, 'w') as f:
        for i, c in enumerate(cases):
            f.write('%d %s\n' % (i, ' '.join('%x' % v for v in c)))


# --------------------------------------------------------------------------------------
# Translators  (source -> coq/theories/Gen/*.v)
# --------------------------------------------------------------------------------------

# package -> harness file that dumps "name value" lines (value decimal or 0x..)
CONST_DUMPS = [
    # (module, pkg, harness file)
]


def register_const_dump(module, pkg, harness, test='TestVerifDumpConsts', tag=None):
    """tag defaults to the package path with non-word characters replaced by '_' ; the output is
    coq/theories/Gen/Consts_<tag>.v.  Use a distinct test name + tag for a second dump in one package."""
    t = (module, pkg, harness, test, tag or re.sub(r'\W', '_', pkg))
    if t not in CONST_DUMPS:
        CONST_DUMPS.append(t)


def _src_files(module, pkg):
    d = os.path.join(REPO, module, pkg)
    return [os.path.join(d, f) for f in os.listdir(d) if f.endswith(('.go', '.s'))]


def regen(force=False):
    """Run every translator against REPO's working tree. Returns dict(name -> changed?)."""
    ensure_dir(os.path.join(WORK, 'gen'))
    gen_dir = os.path.join(THEORIES, 'Gen')
    ensure_dir(gen_dir)
    changed = {}
    with Lock('gen'):
        # 1. constants: one go test per package (compiled from the current sources)
        for (module, pkg, harness, test, tag) in CONST_DUMPS:
            key = hash_files(_src_files(module, pkg) + [harness])
            stamp = os.path.join(WORK, 'gen', tag + '.stamp')
            target = os.path.join(gen_dir, 'Consts_%s.v' % tag)
            if not force and os.path.exists(stamp) and os.path.exists(target) and open(stamp).read() == key:
                changed[target] = False
                continue
            out = os.path.join(WORK, 'gen', tag + '.out')
            rc, o, _ = run_go(os.path.join(WORK, 'gen'), module, pkg, [harness], test + '$',
                              out_path=out, common=False, timeout=300)
            if rc != 0 or not os.path.exists(out):
                raise RuntimeError('constant dump failed for %s/%s:\n%s' % (module, pkg, o[-3000:]))
            lines = ['(* GENERATED on every run by lib/vlib.py:regen from %s/%s -- do not edit, not committed *)' % (module, pkg),
                     'From Coq Require Import NArith ZArith List String.', 'Import ListNotations.', 'Local Open Scope N_scope.', '']
            for ln in open(out):
                ln = ln.strip()
                if not ln or ln.startswith('#'):
                    continue
                name, kind, val = ln.split(' ', 2)
                if kind == 'N':
                    lines.append('Definition %s : N := %s%%N.' % (name, val))
                elif kind == 'Z':
                    v = int(val, 0)
                    lines.append('Definition %s : Z := (%d)%%Z.' % (name, v))
                elif kind == 'LN':   # list of N
                    vs = val.split()
                    lines.append('Definition %s : list N := [%s]%%N.' % (name, '; '.join(vs)))
                elif kind == 'LLN':  # list of list of N, rows separated by '|'
                    rows = [r.split() for r in val.split('|')] if val.strip() else []
                    lines.append('Definition %s : list (list N) := [%s]%%N.' % (name, '; '.join('[' + '; '.join(r) + ']' for r in rows)))
                elif kind == 'B':
                    lines.append('Definition %s : bool := %s.' % (name, 'true' if val == 'true' else 'false'))
                elif kind == 'RAW':
                    lines.append('Definition %s := %s.' % (name, val))
                else:
                    raise RuntimeError('bad const kind ' + ln)
            changed[target] = write_if_changed(target, '\n'.join(lines) + '\n')
            with open(stamp, 'w') as f:
                f.write(key)
        # 2. other translators register themselves in EXTRA_TRANSLATORS
        for fn in EXTRA_TRANSLATORS:
            changed.update(fn(gen_dir, force) or {})
    return changed


EXTRA_TRANSLATORS = []


# --------------------------------------------------------------------------------------
# Coq side
# --------------------------------------------------------------------------------------

def _coq_files():
    out = []
    for dp, dn, fn in os.walk(THEORIES):
        for f in fn:
            if f.endswith('.v'):
                out.append(os.path.relpath(os.path.join(dp, f), COQ))
    return sorted(out)


def coq_prepare():
    files = _coq_files()
    proj = '-Q theories FF\n-arg -w -arg -notation-overridden,-deprecated-hint-without-locality,-deprecated-instance-without-locality,-deprecated\n' + '\n'.join(files) + '\n'
    ch = write_if_changed(os.path.join(COQ, '_CoqProject'), proj)
    if ch or not os.path.exists(os.path.join(COQ, 'Makefile')):
        sh(['coq_makefile', '-f', '_CoqProject', '-o', 'Makefile'], cwd=COQ, check=True)


def coq_closure(rel_files):
    """transitive closure (paths relative to coq/) of the FF.* modules required by the given files"""
    seen, todo = [], list(rel_files)
    while todo:
        rel = todo.pop()
        if rel in seen:
            continue
        p = os.path.join(COQ, rel)
        if not os.path.exists(p):
            continue
        seen.append(rel)
        txt = re.sub(r'\(\*.*?\*\)', ' ', open(p).read(), flags=re.S)
        for m in re.finditer(r'From\s+FF\s+Require\s+(?:Import\s+|Export\s+)?([^.]*(?:\.[A-Za-z_][\w\']*[^.]*)*)\.(?:\s|$)', txt):
            for mod in m.group(1).split():
                todo.append('theories/' + mod.replace('.', '/') + '.v')
        for m in re.finditer(r'Require\s+(?:Import\s+|Export\s+)?((?:FF\.[\w\.\']+\s*)+)\.(?:\s|$)', txt):
            for mod in m.group(1).split():
                todo.append('theories/' + mod[3:].replace('.', '/') + '.v')
    return sorted(seen)


def forbidden_scan(rel_files=None):
    """grep for Admitted/admit/Axiom/... over the development (or only over the closure of rel_files and
    the extraction files); returns list of hits."""
    hits = []
    if rel_files is None:
        files = _coq_files()
    else:
        files = coq_closure(rel_files)
    for rel in files + [os.path.relpath(p, COQ) for p in glob.glob(os.path.join(COQ, 'extract', '*.v'))]:
        p = os.path.join(COQ, rel)
        try:
            txt = open(p).read()
        except OSError:
            continue
        # strip comments (non-nested approximation is enough: we forbid the words in code)
        txt2 = re.sub(r'\(\*.*?\*\)', lambda m: ' ' * len(m.group(0)), txt, flags=re.S)
        for m in FORBIDDEN.finditer(txt2):
            ln = txt2.count('\n', 0, m.start()) + 1
            hits.append('%s:%d: %s' % (rel, ln, m.group(0)))
        # Variable / Hypothesis / Context outside a Section declare axioms
        depth = 0
        for i, line in enumerate(txt2.split('\n'), 1):
            if re.match(r'\s*Section\s+\w+', line):
                depth += 1
            if depth == 0 and re.match(r'\s*(Variable|Variables|Hypothesis|Hypotheses|Context)\b', line):
                hits.append('%s:%d: section-less %s' % (rel, i, line.strip()[:40]))
            if depth > 0 and re.match(r'\s*End\s+\w+\s*\.', line):
                depth -= 1
    return hits


COQC_FILE_TIMEOUT = int(os.environ.get('VERIF_COQC_TIMEOUT', '600'))


def coq_build(targets, timeout=1500):
    """make -j of the given .vo targets (paths relative to coq/, e.g. theories/Props/C07.vo).
    Returns dict(ok, log, failed_file, failed_line, failed_lemma, seconds)."""
    with Lock('coqbuild'):
        coq_prepare()
        t0 = time.time()
        # every coqc runs under its own time limit, so that one file that does not terminate cannot hold the
        # build lock (and everybody waiting for it) until the overall limit
        mk = ['make', '-j%d' % NPROC, '-k', 'COQC=timeout %d coqc' % COQC_FILE_TIMEOUT]
        rc, out, _ = sh(mk + targets, cwd=COQ, timeout=timeout)
        if rc != 0 and ('No rule to make target' in out or 'No such file' in out):
            # a file listed in _CoqProject vanished (scratch file of a concurrent run): re-list and retry once
            try:
                os.unlink(os.path.join(COQ, 'Makefile'))
            except OSError:
                pass
            coq_prepare()
            rc, out, _ = sh(mk + targets, cwd=COQ, timeout=timeout)
        res = dict(ok=(rc == 0), log=out, seconds=time.time() - t0, failed_file=None, failed_line=None,
                   failed_lemma=None, error=None)
        if rc != 0:
            m = None
            for m in re.finditer(r'File "\./([^"]+)", line (\d+), characters [^\n]*\n(Error:[^\n]*(?:\n[^\n]+){0,6})', out):
                break
            # every failing file of this (make -k) build, not only the first one
            res['failures'] = []
            for m2 in re.finditer(r'File "\./([^"]+)", line (\d+), characters [^\n]*\n(Error:[^\n]*(?:\n[^\n]+){0,6})', out):
                if m2.group(1) not in [f['file'] for f in res['failures']]:
                    res['failures'].append(dict(file=m2.group(1), line=int(m2.group(2)), error=m2.group(3)[:500],
                                                lemma=enclosing_lemma(os.path.join(COQ, m2.group(1)), int(m2.group(2)))))
            for m2 in re.finditer(r'make: \*\*\* \[[^\]]*: (theories/\S+)\.vo\] Error (\d+)', out):
                f = m2.group(1) + '.v'
                if f not in [x['file'] for x in res['failures']]:
                    res['failures'].append(dict(file=f, line=0, lemma=None,
                                                error='coqc ended with status %s (124 = time limit of %d s)' % (m2.group(2), COQC_FILE_TIMEOUT)))
            if m:
                res['failed_file'] = m.group(1)
                res['failed_line'] = int(m.group(2))
                res['error'] = m.group(3)[:800]
                res['failed_lemma'] = enclosing_lemma(os.path.join(COQ, m.group(1)), int(m.group(2)))
            else:
                res['error'] = out[-1500:]
        return res


def enclosing_lemma(path, line):
    try:
        lines = open(path).read().split('\n')
    except OSError:
        return None
    for i in range(min(line, len(lines)) - 1, -1, -1):
        m = re.match(r'\s*(?:Local\s+|Global\s+)?(?:Lemma|Theorem|Corollary|Example|Definition|Fixpoint|Fact|Remark|Proposition|Instance)\s+([\w\']+)', lines[i])
        if m:
            return m.group(1)
    return None


def props_report(prop_files):
    """Re-run coqc on each Props file (they contain only statements closed by exact + Print Assumptions).
    -> dict(theorems=[names], assumptions={thm: text}, closed=bool, bad_axioms=[...], ok=bool, log=str)"""
    theorems, assumptions, bad, logs, ok = [], {}, [], [], True
    for rel in prop_files:
        path = os.path.join(COQ, rel)
        src = open(path).read()
        names = re.findall(r'^\s*(?:Theorem|Corollary)\s+([\w\']+)', src, flags=re.M)
        if 'Print Assumptions' not in src:
            # example files: already compiled by make, nothing to capture
            theorems += names
            if names:
                bad.append('%s: %d theorems but no Print Assumptions' % (rel, len(names)))
            continue
        rc, out, _ = sh(['coqc', '-Q', 'theories', 'FF', '-w', '-notation-overridden,-deprecated', rel], cwd=COQ, timeout=600)
        logs.append(out)
        if rc != 0:
            ok = False
            continue
        theorems += names
        # output: either "Closed under the global context" or "Axioms:\n name : type ..." per Print Assumptions, in order
        chunks = re.split(r'(?=Closed under the global context|Axioms:)', out)
        chunks = [c for c in chunks if c.startswith('Closed under') or c.startswith('Axioms:')]
        pa = [x.rstrip('.') for x in re.findall(r'Print Assumptions\s+([\w\'\.]+)', src)]
        for nm, ch in zip(pa, chunks):
            assumptions[nm] = ch.strip()
            if ch.startswith('Axioms:'):
                for ax in re.findall(r'^([\w\.\']+)\s*:', ch, flags=re.M):
                    if not any(ax.endswith(w) for w in AXIOM_WHITELIST):
                        bad.append('%s depends on %s' % (nm, ax))
        if len(pa) < len(names):
            bad.append('%s: %d theorems but only %d Print Assumptions' % (rel, len(names), len(pa)))
    return dict(theorems=theorems, assumptions=assumptions, bad_axioms=bad, ok=ok and not bad, log='\n'.join(logs))


def coqchk(prop_files, timeout=3000):
    """Independent re-check (coqchk -o) of the compiled Props files and everything they depend on.
    Cached by the hash of the .vo files involved. -> dict(ok, axioms_text, seconds, cached)"""
    mods = ['FF.' + f[len('theories/'):-2].replace('/', '.') for f in prop_files]
    vos = glob.glob(os.path.join(THEORIES, '**', '*.vo'), recursive=True)
    key = hash_files(vos + [os.path.join(COQ, f) for f in prop_files])
    d = ensure_dir(os.path.join(WORK, 'coqchk'))
    cache = os.path.join(d, hashlib.sha256((key + ' '.join(mods)).encode()).hexdigest()[:24] + '.json')
    if os.path.exists(cache):
        r = json.load(open(cache))
        r['cached'] = True
        return r
    with Lock('coqbuild'):
        rc, out, secs = sh(['coqchk', '-silent', '-o', '-Q', 'theories', 'FF'] + mods, cwd=COQ, timeout=timeout)
    m = re.search(r'CONTEXT SUMMARY.*', out, flags=re.S)
    r = dict(ok=(rc == 0), summary=(m.group(0) if m else out[-2000:])[:4000], seconds=round(secs, 1), cached=False)
    if rc == 0:
        with open(cache, 'w') as f:
            json.dump(r, f)
    return r


DRIVER_TAIL = r'''
(* ---- generic driver appended by lib/vlib.py: reads "<id> hex hex ..." lines, prints "O <id> hex ..." ---- *)
let n_of_hex s =
  let acc = ref None in
  String.iter (fun c ->
    let d = match c with
      | '0'..'9' -> Char.code c - 48
      | 'a'..'f' -> Char.code c - 87
      | 'A'..'F' -> Char.code c - 55
      | _ -> failwith ("bad hex " ^ s) in
    for k = 3 downto 0 do
      let b = (d lsr k) land 1 = 1 in
      acc := (match !acc with
        | None -> if b then Some XH else None
        | Some p -> Some (if b then XI p else XO p))
    done) s;
  match !acc with None -> N0 | Some p -> Npos p

let hex_of_n x =
  match x with
  | N0 -> "0"
  | Npos p ->
    let bits = ref [] in   (* lsb first *)
    let rec go p = match p with
      | XH -> bits := true :: !bits
      | XO q -> bits := false :: !bits; go q
      | XI q -> bits := true :: !bits; go q in
    go p;
    (* !bits is msb first now *)
    let l = !bits in
    let n = List.length l in
    let pad = (4 - n mod 4) mod 4 in
    let l = (List.init pad (fun _ -> false)) @ l in
    let buf = Buffer.create 16 in
    let rec emit = function
      | a :: b :: c :: d :: rest ->
        let v = (if a then 8 else 0) + (if b then 4 else 0) + (if c then 2 else 0) + (if d then 1 else 0) in
        Buffer.add_char buf "0123456789abcdef".[v]; emit rest
      | _ -> () in
    emit l; Buffer.contents buf

let () =
  let ic = open_in Sys.argv.(1) in
  let oc = open_out Sys.argv.(2) in
  (try
    while true do
      let line = input_line ic in
      match List.filter (fun s -> s <> "") (String.split_on_char ' ' line) with
      | [] -> ()
      | id :: rest ->
        let nums = List.map n_of_hex rest in
        let res = run_case nums in
        output_string oc ("O " ^ id);
        List.iter (fun x -> output_char oc ' '; output_string oc (hex_of_n x)) res;
        output_char oc '\n'
    done
  with End_of_file -> ());
  close_in ic; close_out oc
'''


def model_binary(prop):
    """Extract coq/extract/<prop>.v (must define run_case : list N -> list N and end with
    Extraction "model.ml" run_case.) and compile with the generic driver. Returns path."""
    d = ensure_dir(os.path.join(WORK, 'model', prop))
    exe = os.path.join(d, 'model.exe')
    src = os.path.join(COQ, 'extract', prop + '.v')
    with Lock('coqbuild'):
        vos = glob.glob(os.path.join(THEORIES, '**', '*.vo'), recursive=True)
        newest = max([os.path.getmtime(p) for p in vos + [src, __file__]] or [0])
        if os.path.exists(exe) and os.path.getmtime(exe) >= newest:
            return exe
        for f in ('model.ml', 'model.mli'):
            try:
                os.unlink(os.path.join(d, f))
            except FileNotFoundError:
                pass
        shutil.copy(src, os.path.join(d, 'Extract_%s.v' % prop))
        rc, out, _ = sh(['coqc', '-Q', os.path.join(COQ, 'theories'), 'FF', '-w', '-extraction-opaque-accessed,-extraction-reserved-identifier,-deprecated',
                         'Extract_%s.v' % prop], cwd=d, timeout=600)
        if rc != 0 or not os.path.exists(os.path.join(d, 'model.ml')):
            raise RuntimeError('extraction failed for %s:\n%s' % (prop, out[-3000:]))
        ml = open(os.path.join(d, 'model.ml')).read()
        with open(os.path.join(d, 'main.ml'), 'w') as f:
            f.write(ml + '\n' + DRIVER_TAIL)
        rc, out, _ = sh(['ocamlfind', 'ocamlopt', '-O3', '-w', '-a', '-o', exe, 'main.ml'], cwd=d, timeout=600)
        if rc != 0:
            rc, out, _ = sh(['ocamlfind', 'ocamlopt', '-w', '-a', '-o', exe, 'main.ml'], cwd=d, timeout=600)
        if rc != 0:
            raise RuntimeError('ocaml build failed for %s:\n%s' % (prop, out[-3000:]))
        return exe


def run_model(prop, cases_path, out_path, timeout=900):
    exe = model_binary(prop)
    rc, out, secs = sh(['bash', '-c', 'ulimit -s unlimited 2>/dev/null; exec "%s" "%s" "%s"' % (exe, cases_path, out_path)],
                       timeout=timeout, env={'OCAMLRUNPARAM': 'l=8G'})
    if rc != 0:
        raise RuntimeError('model run failed (%d): %s' % (rc, out[-2000:]))
    return secs


# --------------------------------------------------------------------------------------
# Known findings
# --------------------------------------------------------------------------------------

def known_findings(prop):
    p = os.path.join(ROOT, 'known_findings.json')
    if not os.path.exists(p):
        return {}
    data = json.load(open(p))
    return {e['signature']: e for e in data.get('findings', []) if e['property'] == prop and e.get('status') == 'known'}


# --------------------------------------------------------------------------------------
# Evidence / reporting
# --------------------------------------------------------------------------------------

def write_evidence(prop, tier, seed, coverage, assumptions, wall_s, violations, level='proof'):
    ensure_dir(os.path.join(ROOT, 'evidence'))
    ev = dict(property_id=prop, tier=tier, seed=seed, level=level, coverage=coverage,
              assumptions=assumptions, wall_s=round(wall_s, 2), violations=violations)
    with open(os.path.join(ROOT, 'evidence', prop + '.json'), 'w') as f:
        json.dump(ev, f, indent=1, default=str)
        f.write('\n')


def write_replay(prop, name, obj):
    d = ensure_dir(os.path.join(WORK, 'replay'))
    p = os.path.join(d, '%s-%s.json' % (prop, name))
    with open(p, 'w') as f:
        json.dump(obj, f, indent=1, default=str)
        f.write('\n')
    return p


def tier_from_args(argv):
    tier = os.environ.get('VERIF_TIER') or 'quick'
    for a in argv:
        if a in ('quick', 'thorough'):
            tier = a
    return tier


def seed_from_env():
    try:
        return int(os.environ.get('VERIF_SEED', '1'))
    except ValueError:
        return 1
