#!/usr/bin/env python3
"""Markdown table of the rounds 2, 3 and 4 (and C04-C06 round 1) seeded changes from seeded/*/verif_result.json + short descriptions."""
import json, glob, os, re
ROOT = os.path.dirname(os.path.dirname(os.path.abspath(__file__)))
DESC = {
 'C01-3': 'early-frame replay looks the pool up only for the first frame (allocator state >= 2 pages and a tiny first region)',
 'C01-4': 'block-wise kernel reservation with tail `(last+1)&63` = 0 (image crossing a bitmap word, last frame at offset 63 mod 64)',
 'C02-3': 'page mask written as the 32-bit literal `0xfffff000` (available region at or above 4 GiB)',
 'C02-4': 'kernel frames masked with `^uint32(...)` (kernel image above 4 GiB)',
 'C03-3': '`poolForFrame` compares in uint32 (free of a managed frame + k*2^32 panics)',
 'C03-4': 'bitmap area sized from the aggregate page count (>= 2 regions, metadata size just above a page multiple)',
 'C04-1': 'inactive `PageDirectoryTable.Map` returns early on allocator failure without restoring slot 511',
 'C04-2': '`Map` skips the store when frame equal and `HasFlags(flags)` (permission downgrade in place)',
 'C04-3': 'recursive slot rebuilt from scratch when borrowed/handed back (extra bits A/G/NX in entry 511 of the active root are lost)',
 'C04-4': '`Map` keeps the old leaf when it differs only in Accessed/Dirty (remap of the same frame dropping A/D)',
 'C05-1': 'error of section k overwritten by a later section that maps fine (allocation failure in a non-last section)',
 'C05-2': '`EarlyReserveRegion` aligns regions >= 2 MiB down to 2 MiB: hole in the reserved range, Init fails',
 'C05-3': '`Translate` rejects present entries with bit 7 at every level (PAT bit in the leaf of a reserved page)',
 'C05-4': 'reservation copy loop interpolates frames between collinear end points (>= 3 reserved pages, interior outlier)',
 'C06-1': '`Map` no longer clears the leaf first (RW survives a remap of the zero frame with Present|CoW)',
 'C06-2': 'fault handler keeps the last present entry of ANY level (read-only upper-level entry with bit 9 set)',
 'C06-3': 'stack-overflow heuristic panics for faults just below `regs.RSP` (copy-on-write page right below the stack pointer)',
 'C06-4': 'page 0 excluded from copy-on-write (needs real memory at address 0)',
 'C07-3': '`MapRegion` page counter in uint32 (sizes >= 2^44)',
 'C07-4': '2 MiB "huge page" fast path when cursor, size and frame are all 2 MiB aligned',
 'C08-3': '`TryToAcquire` as `AddUint32 == 1` (failed tries bump the word; wraps after 2^32-1 of them)',
 'C08-4': 'dirty read widened to 64 bits (`MOVQ`): waiter stuck when the 4 bytes after the lock are non-zero',
 'C09-3': '`Release` twice on the double-free path of `FreeFrame` (double free under contention)',
 'C09-4': 'scan-position cache guarded by a uint16 generation (stale after exactly 65536*k frees)',
 'C10-3': 'command line split on Latin-1 white space only (non-Latin-1 Unicode separators)',
 'C10-4': 'tag type read as 16 bits (vendor tag type >= 0x10000 aliasing a defined one)',
 'C11-1': 'parse mode not reset between tables (earlier table with a deferred block, later table with a forward call)',
 'C11-2': 'progress counters reset at the top of each resolve pass (two-level forward reference between Scope directives)',
 'C11-3': 'same counter reset, found independently (three-step relocation chain in reverse visit order)',
 'C11-4': 'relocation target ScopeBlock taken by position `ArgAt(target,1)` (parent is a Processor or PowerResource)',
 'C12-1': 'byte-list bounds check computed as `offset+dataLen` in uint32 (Connection buffer size >= 2^32-offset)',
 'C12-2': 'unbalanced pkgEnd push/pop for Connection buffers (two zero-PkgLength Connection buffers in one field list: hang)',
 'C12-3': 'same push/pop imbalance, found independently',
 'C12-4': 'EISA-id vendor letters through a 27-entry lookup string (`Name(_HID, dword)` with a letter code 27-31: PrettyPrint panics)',
 'C13-3': 'one-entry lookup memo not invalidated by a middle `appendAfter`',
 'C13-4': 'upward search capped at 128 levels',
 'C14-3': '8-bytes-at-a-time checksum with 16-bit lanes (tables of 1025-2048 heavy bytes)',
 'C14-4': 'per-candidate RSDP state not reset after a rejected revision-2 decoy',
 'C15-3': 'uint32 decimal fast path with limit `<= 1<<32` (magnitude exactly 2^32)',
 'C16-3': 'ring-buffer bulk write sets `rIndex` without the mask (bulk write ending on the last slot after a wrap)',
 'C16-4': '`onConsoleInit` returns after `SetFont` (console with FontSetter + `consoleFont=` + TTY first)',
 'C17-3': '`usedCols uint8` mark: scroll skips columns >= 256',
 'C17-4': 'tab fast path computes `count*3` in uint8 (tab >= 86 on a console wide enough)',
 'C18-3': '`dirtyRows uint64` bitmap: rows >= 65 never redrawn on activation',
 'C18-4': 'text-mode cell index in uint16 (more than 65536 cells)',
 'C19-3': 'scroll range check in pixel units wraps (line counts near k*2^32/glyph height)',
 'C19-4': 'last-glyph cache in `Write` not invalidated by `Scroll`',
 'C20-3': '`bufio.Scanner` pre-scan skips files with a line >= 65536 bytes before the first annotation',
 'C20-4': 'files excluded by `go/build` constraints (`_arm64.go`, `// +build`) are left out',
 'C01-5': '(round 3, dependency) `multiboot.MemoryEntryType` narrowed to uint8: a region of type 0x101 / 0xF0000001 reads as available',
 'C01-6': '(round 3) per-pool bitmap stride in bytes but slice length in blocks: pools alias when an earlier pool has pages % 64 in 1..56 and a later one is drained',
 'C04-5': '(round 3, dependency) `pageTableEntry.Frame()` through `mm.FrameFromAddress` keeps bits 52-63 (Translate of an NX page)',
 'C04-6': '(round 3) inactive `PageDirectoryTable.Map` returns early on failure without restoring slot 511',
 'C06-5': '(round 3, dependency) the same early return in `pdt.go`: the next CoW fault in the active space walks the inactive tables',
 'C06-6': '(round 3) `Map` no longer clears the leaf before SetFrame/SetFlags: remapping the zero frame CoW over a page that was RW leaves RW set',
 'C16-5': '(round 3, dependency) `SetOutputSink` drains through a 64-byte scratch buffer and stops at the first short read (early log that wrapped the ring)',
 'C16-6': '(round 3) `InDetectOrder` never compares the last entry, DetectHardware sorts only when it says unsorted (only the last-registered driver out of place)',
 'C19-5': '(round 3, dependency) constructor computes bytesPerPixel as `bpp >> 3` (15 bpp: 1 instead of 2)',
 'C19-6': '(round 3, dependency) `SetFont` rounds widthInChars up (width not a multiple of the glyph width: phantom last column)',
 'C02-5': '(round 3, dependency) `multiboot.MemoryEntryType` narrowed to uint8 (found independently of C01-5)',
 'C02-6': '(round 3) kernel-hop test `>=` -> `>` on `lastAllocFrame` (kernel exactly one frame into its region)',
 'C05-5': '(round 3, dependency) `Map` clears 512 bytes instead of a page of a new table (dirty frames); own check: tie only, reported concretely by C04 (`c04-new-table-not-empty`)',
 'C05-6': '(round 3) `flags` hoisted out of the section visitor: RW sticks after the first writable section',
 'C07-5': '(round 3, dependency) pmm `setupPoolBitmaps` maps `(bytes+PageSize)>>shift` pages (bookkeeping an exact page multiple); own check: pin only, reported concretely by C03 (`c03-state-outside-reserved-block`)',
 'C07-6': '(round 3, dependency) `sysAlloc` wrap check rewritten as a shift idiom that can never fire (size in the last page before 2^64)',
 'C10-5': '(round 3, dependency) `findTagByType` bounded by totalSize with `>=` for `>` (queried tag directly before the terminator, size a multiple of 8)',
 'C10-6': '(round 3) string-table section header read hoisted out of the loop (EMPTY section table directly before the end of the block)',
 'C13-5': '(round 3) `^NAME` searched upward through the enclosing scopes',
 'C13-6': '(round 3, dependency) parser `attachSiblingsAsArgs` detaches with the first sibling\'s owner (args crossing to the parent\'s siblings); C13\'s own check green - not an ObjectTree defect -, reported by C12 (`c12-tree-links`)',
 'C14-5': '(round 3, dependency) kfmt `%s` ranges over runes (signature byte >= 0x80 in a mismatch report)',
 'C14-6': '(round 3) checksum word-at-a-time with a C-style tail switch (lengths 2 or 3 mod 4)',
 'C15-5': '(round 3) sign handling negates in place (`MinInt64` prints as -0)',
 'C15-6': '(round 3, dependency) ring-buffer `Write` fast path leaves `wIndex = 2048` (early print after a sink was detached); C15\'s own check green (formatter unchanged), reported by C16 (`c16-ring-panic`)',
 'C17-5': '(round 3, dependency) vesa `SetFont` derives the column count from the pitch; C17\'s own check green (terminal vs console-reported size), reported by C19 (`c19-vesa-grid-size`)',
 'C17-6': '(round 3) `lf` scrolls the whole buffer instead of the viewport lines (scrollback > 0, 105 line feeds on 80x25)',
 'C18-5': '(round 3, dependency) vesa `DriverInit` sizes the framebuffer as width*height*bpp (padded pitch)',
 'C18-6': '(round 3) `lf` blanks `cursorY-1` instead of the last viewport line (viewportY > 0)',
 'C20-5': '(round 3) `parser.ParseDir` maps ranged over (several annotated files in one directory, repeated builds)',
 'C20-6': '(round 3, dependency) walk callback skips non-regular files: symlinked .go files vanish from the table',
 'C03-5': '(round 3, dependency) `Memset` doubling loop exact only for powers of two + one Memset over the whole allocator state (state of 3, 5, 6 ... pages on dirty memory)',
 'C03-6': '(round 3) first pass sums bitmap bits and rounds once, second pass word-aligns per pool (>= 2 regions with counts not multiples of 64, total crossing a page)',
 'C08-5': '(round 3, dependency) assembly rewritten to `LOCK CMPXCHG` with a stale AX on the retry path (nil yield hook, waiter losing a race)',
 'C08-6': '(round 3, dependency) `MOVL $1, BX` hoisted and BX not reloaded after `CALL yieldFn` (hook returning with BX = 0 while the holder releases)',
 'C09-5': '(round 3, dependency) spinlock assembly uses `CMPXCHGL` without `LOCK` (two CPUs in the window)',
 'C09-6': '(round 3) `FreeFrame` bit offset `frame&63` (pool start not 64-aligned)',
 'C11-5': '(round 3, dependency) `findRelative` prefix-skip test `>= \'Z\'` (name starting with Z reached through an absolute or multi-segment path)',
 'C11-6': '(round 3) `relocateNamedObjects` returns early when a child needs another pass (forward reference before its multi-segment-named parent)',
 'C12-5': '(round 3, dependency) `PeekByte` bounded by the stream, not the package (NameString at a package end followed by a prefix char: hang)',
 'C12-6': '(round 3, dependency) `findRelative` length guard `segIndex >= exprLen` (1-3 leftover bytes matching a sibling name: index out of range)',

 # ---- round 4: cooperating sites / multi-step histories / faults at a particular point ----
 'C01-7': '(round 4) bit position helper takes the block from the pool-relative frame but the bit from the absolute frame (pool start not 64-aligned)',
 'C01-8': '(round 4, cooperating sites) boot allocator remembers `lastAllocRegion`; the unchanged replay in `reserveEarlyAllocatorFrames` does not reset it (early allocations crossing from one region into a later one)',
 'C03-7': '(round 4, multi-step) scan-position cache rewound with a non-lexicographic test (alloc in pool 1, free in pool 0 word >= 1, free in pool 1 word 0: a frame is lost)',
 'C03-8': '(round 4, cooperating sites) the same `lastAllocRegion` change, found independently (1-frame first region, kernel in the second)',
 'C05-7': '(round 4, cooperating sites) `EarlyReserveRegion` leaves an unmapped guard page between reservations; the copy loop of `setupPDTForKernel` assumes the range is mapped (two or more early reservations)',
 'C05-8': '(round 4) section page count as `size>>12` plus one if start or size is unaligned (start offset + size remainder crossing a page: last page unmapped)',
 'C07-7': '(round 4, cooperating sites + fault) `MapRegion` hands its reservation back with the UNROUNDED size when `mapFn` fails (cursor unaligned for every later reservation)',
 'C07-8': '(round 4, cooperating sites) shared `mm.PageCount` helper returns uint32 (sizes >= 2^44: reserved but nothing mapped)',
 'C08-7': '(round 4, cooperating sites) yield moved into Go, assembly returns the last observed word: a dirty read of 0 on the last permitted attempt is taken for an acquisition (real parallel cores)',
 'C08-8': '(round 4, multi-step) `MOVL $1, BX` hoisted above the retry label (held, spin, released, retry: exchanges 0 and reports success)',
 'C09-7': '(round 4, cooperating sites) ticket lock packed into the 32-bit word, Release as `AddUint32(1)`: the serving half overflows after exactly 65536 acquire/release cycles and the next call blocks forever',
 'C09-8': '(round 4, schedule + unusual input) `AllocFrame` takes the lock late and does not re-check `freeCount` (pool size not a multiple of 64, down to its last frame, a second caller waiting on the lock)',
 'C10-7': '(round 4, cooperating sites) `ElfSectionFlag` narrowed to uint8 (section flags >= 0x100, e.g. .tbss 0x403)',
 'C10-8': '(round 4, cooperating sites) tags indexed once in `SetInfoPtr`, last tag of a type wins (two tags of the same type)',
 'C12-7': '(round 4, cooperating sites) new `amlStreamReader.Skip` checks `offset+count > pkgEnd` in uint32; `parseByteList` relies on it alone (Connection buffer with a DWord size near 2^32)',
 'C12-8': '(round 4, multi-step) `relocateNamedObjects(0)` skipped when the merge pass merged nothing: its counter is never reset and the resolve loop never ends (a relocated prefixed name plus a Scope whose target never resolves: hang)',
 'C14-7': '(round 4, multi-step) checksum length / XSDT choice in locals outside the scan loop, never reset (revision >= 1 decoy with a bad checksum below a valid revision-0 RSDP)',
 'C14-8': '(round 4, cooperating sites) `ChecksumLength()` picks 36 bytes for revision >= 2, `locateRSDT` still follows the XSDT for revision != 0 (revision-1 RSDP)',
 'C16-7': '(round 4, cooperating sites) `SetOutputSink` drains the ring through a 256-byte scratch buffer and stops at the first short read (more than 2048 early bytes)',
 'C16-8': '(round 4, multi-step) `onConsoleInit` guard clause `if !ok { return }` for the font setter also skips the TTY link (console without FontSetter initialised after the TTY)',
 'C17-7': '(round 4, cooperating sites) new `lineOffset` helper adds `viewportY`; `lf` passes absolute lines (scrollback > 0, buffer scroll with viewportY != 0: panic)',
 'C17-8': '(round 4, cooperating sites) end-of-line wrap moved from `doWrite` to `WriteByte`; the tab loop relied on the per-character wrap (tab crossing a line end)',
 'C18-7': '(round 4, cooperating sites) vesa constructor precomputes `rowBytes = (width*bpp+7)>>3`, `Scroll` copies that (15 bpp: the right-most sixteenth of each row is not scrolled)',
 'C18-8': '(round 4, multi-step) `needsRedraw` flag not set by the `lf` branch that only advances `viewportY` (inactive terminal receives only line feeds, then is activated)',
 'C19-7': '(round 4, cooperating sites) `stride = pitch / bytesPerPixel` truncates; `Scroll` block-copies when `stride == width` (padding smaller than one pixel is dragged along)',
 'C19-8': '(round 4) shared `clipSpan` with an inclusive end treats length 0 as a wrap (Fill with width or height 0 paints to the edge; both consoles)',
 'C20-7': '(round 4) `parser.ParseDir` package/file maps ranged over (two or more annotated files in one directory)',
 'C20-8': '(round 4, cooperating sites) `Context.AddRedirect` stores the pointer it is given; `FindRedirects` reuses one struct per function (several annotations on one function)',

 'C02-7': '(round 4, multi-step) cached `regionEndFrame` fast path refreshed in the jump-into-region branch only, not when jumping over the kernel; the hand-over reset in `reserveEarlyAllocatorFrames` does not clear it (kernel at the start of the first region, early allocations crossing into a second one, replay)',
 'C02-8': '(round 4, cooperating sites) new `regionFrameRange` helper computes the last frame as `start + (Length>>12) - 1` (unaligned region start whose fractional parts add up to a page)',
 'C04-7': '(round 4, cooperating sites) `pageTableEntry.Set` clears only the address and low flag bits: bits 52-63 of the old entry survive a re-map (page mapped NoExecute, then mapped again without it)',
 'C04-8': '(round 4, multi-step + fault) `if err := mapFn(..); err != nil { return err }` in `PageDirectoryTable.Map/Unmap`: the early return skips the restore of slot 511 (inactive space, failing inner operation)',
 'C06-7': '(round 4, cooperating sites) fault handler uses `pteForAddress`, which now returns a non-nil entry with `ErrInvalidMapping` for a non-present leaf (CoW page unmapped, then touched: resumed instead of panicking)',
 'C06-8': '(round 4, multi-step) package-level `faultEntry` reset only when the walk reaches the last level (CoW fault resolved, page re-armed, then a fault on an address without page tables retargets the OLD entry)',
 'C11-7': '(round 4, cooperating sites) per-pass counters zeroed at the top of the resolve loop; `mergeScopeDirectives` relied on seeing the previous pass\'s `relocatedObjects` (tables that need three or more passes)',
 'C11-8': '(round 4, multi-step) `newObject` sets `tableHandle` only on fresh pool entries (a first table that frees slots, a second table whose objects land in them are skipped by every pass)',
 'C13-7': '(round 4, cooperating sites) enclosing-scope search moved from `Find` into `findRelative`; the `^` branch relied on its downward-only contract (`^NAME` missing in the target scope but present in an ancestor)',
 'C13-8': '(round 4, multi-step) one-entry lookup memo invalidated in `newObject`/`append`/`detach` but not by a mid-list `appendAfter`',
 'C15-7': '(round 4, multi-step) literal text batched in a package-level buffer that a format ending in `%%` does not flush (the bytes come out at the start of the NEXT call, possibly on another writer)',
 'C15-8': '(round 4) `%s` of a `[]byte` goes through `string(b)`: heap allocation for slices longer than 32 bytes (output unchanged)',
}
def short(vs):
    out = []
    for v in vs:
        v = v.replace('.json', '')
        m = re.match(r'C\d+-(monitor|extra|search)-(.*)', v)
        if m:
            out.append('`' + m.group(2).replace('_', ':', 1).replace('_', '-') + '`')
        elif 'tie' in v:
            out.append('pin / tie only')
    items = list(dict.fromkeys(out))
    txt = ''
    for k, it in enumerate(items):
        if len(txt) + len(it) > 150:
            txt += ', …'
            break
        txt += (', ' if txt else '') + it
    return txt or '-'
print('| Seed | Change (what it needs) | First run | Final run |')
print('|---|---|---|---|')
for d in sorted(glob.glob(os.path.join(ROOT, 'seeded', 'C*'))):
    s = os.path.basename(d)
    if s not in DESC or not os.path.exists(os.path.join(d, 'verif_result.json')):
        continue
    r = json.load(open(os.path.join(d, 'verif_result.json')))
    first = r.get('first_run', {}).get('violations', r['violations'])
    print('| %s | %s | %s | %s |' % (s, DESC[s], short(first), short(r['violations'])))
