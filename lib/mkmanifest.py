#!/usr/bin/env python3
"""Regenerates MANIFEST.json from the table below (one entry per property that has a check)."""
import json, os
ROOT = os.path.dirname(os.path.dirname(os.path.abspath(__file__)))
NA = {}
PIN_NOTE = " Source pins: the model is also pinned, function by function, to fingerprints of the source it was validated against (gen/srcpin -> Gen/Pin_Cxx.v, obligation Cxx_source_pinned in coq/theories/Pins); an edit of a pinned function that neither the monitor nor the correspondence can distinguish is reported as VIOLATION ... no-failing-input-found."
ENGINE = "coq-model+correspondence"
TECH = "Coq theorems over a Gallina model + extracted-model/implementation correspondence"

def load_claimed():
    out = {}
    for fn in sorted(os.listdir(os.path.join(ROOT, 'checks'))):
        if fn.endswith('.json') and os.path.exists(os.path.join(ROOT, 'checks', fn[:-5] + '.py')):
            out[fn[:-5]] = json.load(open(os.path.join(ROOT, 'checks', fn)))
    return out


def merge_known():
    """known_findings/Cxx.json (one per property, edited by hand) -> known_findings.json (the file the checks read)"""
    d = os.path.join(ROOT, 'known_findings')
    allf = []
    for fn in sorted(os.listdir(d)):
        if fn.endswith('.json'):
            allf += json.load(open(os.path.join(d, fn))).get('findings', [])
    with open(os.path.join(ROOT, 'known_findings.json'), 'w') as f:
        json.dump({"_comment": "Committed list of genuine defects of ProjectSerenity/firefly found by the checks (merged from known_findings/Cxx.json by lib/mkmanifest.py). status=known entries are reported as KNOWN-FINDING lines, matched by monitor signature; status=fixed entries suppress nothing. Never written at run time.",
                   "findings": allf}, f, indent=1)
        f.write('\n')


def main():
    CLAIMED = load_claimed()
    merge_known()
    props = [json.loads(l) for l in open(os.path.join(ROOT, 'properties.jsonl'))]
    m = {
     "version": 1,
     "setup_cmd": "bin/setup",
     "hooks": {"guard": "verif",
               "enable": "go test -tags verif -overlay <json>: harness files live under /verif/harness and are injected with -overlay; nothing is added to /repo",
               "baseline_off_cmd": "cd /repo/kernel && GOFLAGS=-mod=mod GOPROXY=off GOSUMDB=off GOTOOLCHAIN=local go test -vet=off -count=1 $(GOFLAGS=-mod=mod GOPROXY=off go list ./... | grep -v /goruntime) && cd /repo/kbuild && GOFLAGS=-mod=mod GOPROXY=off GOSUMDB=off GOTOOLCHAIN=local go test -vet=off -count=1 ./...",
               "source_commits": [], "add_only": True},
     "engines": [{"name": ENGINE, "path": "lib/flow.py", "serves_properties": sorted(CLAIMED),
                  "kind_free_text": "Coq 8.16.1 theorems about hand-written Gallina models (coq/theories); constants/tables regenerated from /repo on every run (Gen/*.v); extracted model (OCaml) run against the real code (in-package Go harness via -overlay) on generated histories; independent monitors give concrete replays"}],
     "checks": [], "notes": "See DESIGN.md. known_findings.json lists repaired and recorded defects of the code base.",
     "not_applicable": []}
    for p in props:
        i = p['id']
        if i in CLAIMED:
            c = CLAIMED[i]
            m['checks'].append({
              "property_id": i, "quick_cmd": "bin/check %s quick" % i, "thorough_cmd": "bin/check %s thorough" % i,
              "evidence_file": "evidence/%s.json" % i, "replay_cmd_template": "bin/check %s --replay {path}" % i,
              "engine": ENGINE,
              "level_claimed": {"category": "proof", "text": c['text'], "design_ref": c['ref']},
              "level_note": c['note'] + PIN_NOTE, "technique": c.get('technique', TECH)})
        else:
            m['not_applicable'].append({"property_id": i, "reason": NA.get(i, "check not built yet (work in progress; design in DESIGN.md section 5)")})
    with open(os.path.join(ROOT, 'MANIFEST.json'), 'w') as f:
        json.dump(m, f, indent=1)
        f.write('\n')

if __name__ == '__main__':
    main()
