#!/usr/bin/env python3
"""Regenerates MANIFEST.json from the table below (one entry per property that has a check)."""
import json, os
ROOT = os.path.dirname(os.path.dirname(os.path.abspath(__file__)))
ENGINE = "coq-model+correspondence"
TECH = "Coq theorems over a Gallina model + extracted-model/implementation correspondence"

CLAIMED = {
 'C07': dict(
   text="Machine-checked Coq theorems (Props/C07.v) over a Gallina model of EarlyReserveRegion/MapRegion/IdentityMapRegion with explicit 64-bit wrap-around: for every history of requests of any 64-bit size every successful reservation is page aligned, large enough, below the temporary-mapping page and below all earlier ones; failure iff the unwrapped rounded size does not fit, reserving nothing; MapRegion/IdentityMapRegion issue exactly ceil(size/4096) consecutive (page,frame) mappings. The model's constants are regenerated from /repo on every run and the extracted model is run against the real functions on generated histories; an independent big-integer monitor produces the concrete replays.",
   note="Trusted: Coq kernel, extraction (ExtrOcamlBasic), the Go harness/monitor and generator, constants dump. The algorithmic model is hand-written and tied by differential testing, not by translation. The mapFn seam stands for Map (C04). goruntime's callers are not exercised (package does not link under go test).",
   ref="DESIGN.md section 5 (C07)"),
}

def main():
    props = [json.loads(l) for l in open(os.path.join(ROOT, 'properties.jsonl'))]
    m = {
     "version": 1,
     "setup_cmd": "bin/setup",
     "hooks": {"guard": "verif",
               "enable": "go test -tags verif -overlay <json>: harness files live under /verif/harness and are injected with -overlay; nothing is added to /repo",
               "baseline_off_cmd": "cd /repo/kernel && GOFLAGS=-mod=mod GOPROXY=off GOSUMDB=off GOTOOLCHAIN=local go test -vet=off -count=1 $(GOFLAGS=-mod=mod GOPROXY=off go list ./... | grep -v /goruntime) && cd /repo/kbuild && GOFLAGS=-mod=mod GOPROXY=off GOSUMDB=off GOTOOLCHAIN=local go test -vet=off -count=1 ./...",
               "source_commits": [], "add_only": True},
     "engines": [{"name": ENGINE, "path": "lib/flow.py", "serves_properties": sorted(CLAIMED),
                  "kind_free_text": "Coq 8.16.1 theorems about hand-written Gallina models (coq/theories); constants/tables regenerated from /repo on every run (Gen/*.v); extracted model (OCaml) run against the real code (in-package Go harness via -overlay) on generated histories; independent monitors give concrete replays"}],
     "checks": [], "notes": "See DESIGN.md. known_findings.json lists repaired and recorded defects of the code base.",
     "not_applicable": []}
    for p in props:
        i = p['id']
        if i in CLAIMED:
            c = CLAIMED[i]
            m['checks'].append({
              "property_id": i, "quick_cmd": "bin/check %s quick" % i, "thorough_cmd": "bin/check %s thorough" % i,
              "evidence_file": "evidence/%s.json" % i, "replay_cmd_template": "bin/check %s --replay {path}" % i,
              "engine": ENGINE,
              "level_claimed": {"category": "proof", "text": c['text'], "design_ref": c['ref']},
              "level_note": c['note'], "technique": c.get('technique', TECH)})
        else:
            m['not_applicable'].append({"property_id": i, "reason": "check not built yet (work in progress; design in DESIGN.md section 5)"})
    with open(os.path.join(ROOT, 'MANIFEST.json'), 'w') as f:
        json.dump(m, f, indent=1)
        f.write('\n')

if __name__ == '__main__':
    main()
