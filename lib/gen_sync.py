"""Translators for C08/C09: spinlock assembly + Go wrappers -> Gen/SpinAsm.v ; lock-call skeleton of the
bitmap allocator -> Gen/LockSkel.v (via gen/lockskel, a go/ast walker)."""
import os, re, json
import vlib


def parse_asm(text):
    """Plan 9 amd64 assembly of archAcquireSpinlock -> (list of coq instr terms, error or None)"""
    lines = []
    for raw in text.split('\n'):
        ln = raw.split('//')[0].strip()
        if not ln or ln.startswith('#include'):
            continue
        lines.append(ln)
    labels, instrs = {}, []
    started = False
    for ln in lines:
        if ln.startswith('TEXT'):
            if started:
                break   # only the first function
            started = 'archAcquireSpinlock' in ln
            continue
        if not started:
            continue
        m = re.match(r'^(\w+):$', ln)
        if m:
            labels[m.group(1)] = len(instrs)
            continue
        instrs.append(ln)
    regs = {'AX': 'AX', 'BX': 'BX', 'CX': 'CX'}
    out = []
    for ln in instrs:
        s = re.sub(r'\s+', ' ', ln)
        m = None
        def M(pat):
            nonlocal m
            m = re.match(pat, s)
            return m
        if M(r'^MOVQ state\+0\(FP\), AX$'):
            out.append('ILoadStatePtr')
        elif M(r'^MOVL attemptsBeforeYielding\+8\(FP\), CX$'):
            out.append('ILoadAttempts')
        elif M(r'^MOVL \$(\d+), (AX|BX|CX)$'):
            out.append('IMovImm %s %s%%N' % (m.group(2), m.group(1)))
        elif M(r'^XCHGL 0\(AX\), BX$') or M(r'^XCHGL BX, 0\(AX\)$'):
            out.append('IXchg')
        elif M(r'^TEST[LQ] (AX|BX|CX), (AX|BX|CX)$') and m.group(1) == m.group(2):
            out.append('ITest %s' % m.group(1))
        elif M(r'^JNZ (\w+)$') or M(r'^JNE (\w+)$'):
            out.append(('IJnz', m.group(1)))
        elif M(r'^JZ (\w+)$') or M(r'^JEQ (\w+)$'):
            out.append(('IJz', m.group(1)))
        elif M(r'^JMP (\w+)$'):
            out.append(('IJmp', m.group(1)))
        elif M(r'^RET$'):
            out.append('IRet')
        elif M(r'^PAUSE$'):
            out.append('IPause')
        elif M(r'^MOVL 0\(AX\), BX$'):
            out.append('ILoad')
        elif M(r'^MOVL BX, 0\(AX\)$'):
            out.append('IStore')
        elif M(r'^DECL (AX|BX|CX)$'):
            out.append('IDec %s' % m.group(1))
        elif M(r'^MOVQ ·yieldFn\+0\(SB\), AX$'):
            out.append('ILoadYield')
        elif M(r'^CALL 0\(AX\)$') or M(r'^CALL AX$'):
            out.append('ICallAX')
        else:
            out.append('IBad (* %s *)' % s.replace('*)', '* )'))
    res = []
    for o in out:
        if isinstance(o, tuple):
            res.append('%s %d' % (o[0], labels[o[1]]) if o[1] in labels else 'IBad')
        else:
            res.append(o)
    return res


def func_body(src, name):
    m = re.search(r'func \(l \*Spinlock\) %s\(\)[^{]*\{(.*?)\n\}' % name, src, flags=re.S)
    if not m:
        return None
    body = re.sub(r'//[^\n]*', '', m.group(1))
    return ' '.join(body.split())


def gen_spin(gen_dir, force):
    asm_p = os.path.join(vlib.REPO, 'kernel/sync/spinlock_amd64.s')
    go_p = os.path.join(vlib.REPO, 'kernel/sync/spinlock.go')
    instrs = parse_asm(open(asm_p).read())
    src = open(go_p).read()
    shape_ok = True
    vals = {}
    b = func_body(src, 'Acquire')
    m = b and re.fullmatch(r'archAcquireSpinlock\(&l\.state, (\d+)\)', b)
    if m:
        vals['acquire_attempts'] = int(m.group(1))
    else:
        shape_ok = False
    b2 = func_body(src, 'TryToAcquire')
    m = b2 and re.fullmatch(r'return atomic\.SwapUint32\(&l\.state, (\d+)\) == (\d+)', b2)
    if m:
        vals['try_swap'] = int(m.group(1)); vals['try_cmp'] = int(m.group(2))
    else:
        shape_ok = False
    b3 = func_body(src, 'Release')
    m = b3 and re.fullmatch(r'atomic\.StoreUint32\(&l\.state, (\d+)\)', b3)
    if m:
        vals['release_store'] = int(m.group(1))
    else:
        shape_ok = False
    lines = ['(* GENERATED on every run by lib/gen_sync.py from kernel/sync/spinlock_amd64.s and spinlock.go *)',
             'From Coq Require Import NArith List.', 'From FF Require Import Sync.Instr.', 'Import ListNotations.', '',
             'Definition acquire_prog : list instr := [', '  ' + ';\n  '.join(instrs), '].', '']
    for k in ('acquire_attempts', 'try_swap', 'try_cmp', 'release_store'):
        lines.append('Definition %s : N := %d%%N.' % (k, vals.get(k, 0xdead)))
    lines.append('(* true iff Acquire/TryToAcquire/Release have the expected one-line shape *)')
    lines.append('Definition go_shape_ok : bool := %s.' % ('true' if shape_ok else 'false'))
    lines.append('(* Acquire: %s *)' % (b or '').replace('*)', '* )'))
    lines.append('(* TryToAcquire: %s *)' % (b2 or '').replace('*)', '* )'))
    lines.append('(* Release: %s *)' % (b3 or '').replace('*)', '* )'))
    target = os.path.join(gen_dir, 'SpinAsm.v')
    return {target: vlib.write_if_changed(target, '\n'.join(lines) + '\n')}


def gen_lockskel(gen_dir, force):
    """go/ast walker (gen/lockskel/main.go, std library only) over bitmap_allocator.go"""
    src = os.path.join(vlib.REPO, 'kernel/mm/pmm/bitmap_allocator.go')
    tool_src = os.path.join(vlib.ROOT, 'gen/lockskel/main.go')
    bindir = vlib.ensure_dir(os.path.join(vlib.WORK, 'bin'))
    exe = os.path.join(bindir, 'lockskel')
    stamp = os.path.join(bindir, 'lockskel.stamp')
    key = vlib.hash_files([tool_src])
    if not (os.path.exists(exe) and os.path.exists(stamp) and open(stamp).read() == key):
        rc, out, _ = vlib.sh(['go', 'build', '-o', exe, 'main.go'], cwd=os.path.dirname(tool_src),
                             env=dict(vlib.GOENV, GOFLAGS='', GO111MODULE='off'), timeout=300)
        if rc != 0:
            raise RuntimeError('lockskel build failed: ' + out[-2000:])
        open(stamp, 'w').write(key)
    rc, out, _ = vlib.sh([exe, src], timeout=60)
    if rc != 0:
        raise RuntimeError('lockskel failed: ' + out[-2000:])
    target = os.path.join(gen_dir, 'LockSkel.v')
    return {target: vlib.write_if_changed(target, out)}


def register(spin=True, skel=False):
    if spin and gen_spin not in vlib.EXTRA_TRANSLATORS:
        vlib.EXTRA_TRANSLATORS.append(gen_spin)
    if skel and gen_lockskel not in vlib.EXTRA_TRANSLATORS:
        vlib.EXTRA_TRANSLATORS.append(gen_lockskel)
