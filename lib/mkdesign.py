#!/usr/bin/env python3
"""Refresh the AUTOGEN blocks of DESIGN.md section 11 from the files on disk."""
import os, re, subprocess, sys
ROOT = os.path.dirname(os.path.dirname(os.path.abspath(__file__)))
out = subprocess.run([sys.executable, os.path.join(ROOT, 'lib', 'asbuilt.py')], capture_output=True, text=True).stdout
thm = out.split('### Findings')[0].split('\n', 2)[2].strip()
fnd = out.split('### Findings (known_findings.json)')[1].strip()
p = os.path.join(ROOT, 'DESIGN.md')
s = open(p).read()
s = re.sub(r'(<!-- AUTOGEN:theorems BEGIN -->).*?(<!-- AUTOGEN:theorems END -->)', lambda m: m.group(1) + '\n' + thm + '\n' + m.group(2), s, flags=re.S)
s = re.sub(r'(<!-- AUTOGEN:findings BEGIN -->).*?(<!-- AUTOGEN:findings END -->)', lambda m: m.group(1) + '\n' + fnd + '\n' + m.group(2), s, flags=re.S)
tab = subprocess.run([sys.executable, os.path.join(ROOT, 'lib', 'seedtable.py')], capture_output=True, text=True).stdout.strip()
s = re.sub(r'(<!-- AUTOGEN:seeds BEGIN -->).*?(<!-- AUTOGEN:seeds END -->)', lambda m: m.group(1) + '\n' + tab + '\n' + m.group(2), s, flags=re.S)
open(p, 'w').write(s)
