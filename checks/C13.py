import os, sys
sys.path.insert(0, os.path.join(os.path.dirname(os.path.abspath(__file__)), '..', 'lib'))
import vlib, flow
import gen_trans
gen_trans.register('aml_tree.json')   # Go -> Gallina translation of the ObjectTree operations of obj_tree.go, pool-pointer mode (Gen/Trans_aml_tree.v, used by Aml/TreeTrans.v)

H = os.path.join(vlib.ROOT, 'harness/kernel/device/acpi/aml')
vlib.register_const_dump('kernel', 'device/acpi/aml', os.path.join(H, 'zz_verif_consts_tree_test.go'),
                         test='TestVerifDumpConstsTree', tag='aml_tree')

INV = 0xffffffff
FREED = 0x1fe
SCOPEBLOCK = 0x1f6
# opcodes that have an opcode-table entry (a sample), pOpScope (0x10) and pOpMethod (0x14) among them
KNOWN_OPS = [0x00, 0x01, 0x06, 0x08, 0x0a, 0x10, 0x11, 0x12, 0x14, 0x70, 0xa0, 0xa2, 0xff + 0x01, 0xff + 0x80, 0xff + 0x81,
             0xff + 0x82, 0xff + 0x83, 0xff + 0x85, SCOPEBLOCK, SCOPEBLOCK, SCOPEBLOCK, 0x1f7, 0x1fb, 0x1fd]
NAMES = [b'AAAA', b'ABCD', b'_SB_', b'PCI0', b'X123', b'_Z9_', b'B___', b'IDE0', b'_ADR', b'_CRS', b'ZZZZ', b'A___', b'Q0Q0', b'____']
ODD_BYTES = [0x5c, 0x5e, 0x2e, 0x2f, 0x00, 0x01, 0x02, 0x03, 0x41, 0x5a, 0x5f, 0x30, 0x39, 0x40, 0x5b, 0x60, 0x61, 0xff, 0x20]

NARGS = {0: 2, 1: 6, 2: 2, 3: 3, 4: 2, 5: 1, 6: 0, 8: 1, 9: 2, 10: 1, 11: 1, 12: 1, 14: 1}


def parse_cmds(nums):
    """flat case -> list of commands (each a list of numbers); stops at the first malformed one"""
    out, i = [], 0
    while i < len(nums):
        t = nums[i]
        if t in (7, 13):
            if i + 3 > len(nums):
                break
            k = 3 + nums[i + 2]
        elif t in NARGS:
            k = 1 + NARGS[t]
        else:
            break
        if i + k > len(nums):
            break
        out.append(nums[i:i + k])
        i += k
    return out


class Sim:
    """the generator's own picture of the tree (so that it can ask for legal operations)"""

    def __init__(self):
        self.alive, self.parent, self.kids, self.name = [], [], [], []
        self.free = []          # LIFO, as the code under test does it (only used to predict slots)
        self.cmds = []
        self.tainted = False

    def live(self):
        return [i for i, a in enumerate(self.alive) if a]

    def n(self):
        return len(self.alive)

    def anc_or_self(self, a, x):
        while x != -1:
            if x == a:
                return True
            x = self.parent[x]
        return False

    def depth(self, x):
        d = 0
        while self.parent[x] != -1:
            x = self.parent[x]
            d += 1
        return d

    def create(self, opc, th, name):
        if self.free:
            i = self.free.pop()
            self.alive[i], self.parent[i], self.kids[i] = True, -1, []
            # an object made by newObject is unnamed also in a reused slot
            self.name[i] = bytes(name) if name is not None else b'\0\0\0\0'
        else:
            i = self.n()
            self.alive.append(True); self.parent.append(-1); self.kids.append([]); self.name.append(bytes(name) if name is not None else b'\0\0\0\0')
        if name is None:
            self.cmds.append([0, opc, th])
        else:
            self.cmds.append([1, opc, th] + list(name))
        return i

    def default_scopes(self, th):
        base = self.n()
        for nm in [b'\\\0\0\0', b'_GPE', b'_PR_', b'_SB_', b'_SI_', b'_TZ_']:
            self.alive.append(True); self.parent.append(-1 if len(self.alive) - 1 == base else base); self.kids.append([]); self.name.append(nm)
        self.kids[base] = list(range(base + 1, base + 6))
        self.cmds.append([12, th])

    def append(self, o, a):
        self.kids[o].append(a); self.parent[a] = o
        self.cmds.append([2, o, a])

    def append_after(self, o, a, nx):
        k = self.kids[o].index(nx)
        self.kids[o].insert(k + 1, a); self.parent[a] = o
        self.cmds.append([3, o, a, nx])

    def detach(self, o, a):
        self.kids[o].remove(a); self.parent[a] = -1
        self.cmds.append([4, o, a])

    def free_(self, a):
        p = self.parent[a]
        if p != -1:
            self.kids[p].remove(a); self.parent[a] = -1
        self.alive[a] = False
        self.free.append(a)
        self.cmds.append([5, a])

    def flat(self):
        return [x for c in self.cmds for x in c]

    def up_path(self, s):
        """the scopes the single-segment search rule visits, in order"""
        out = []
        while s != -1:
            out.append(s)
            s = self.parent[s]
        return out

    def search(self, s, name):
        """-> (answer or None, position in up_path of the scope that holds it)"""
        path = self.up_path(s)
        for k, sc in enumerate(path):
            for c in self.kids[sc]:
                if self.name[c] == name:
                    return c, k
        return None, len(path)

    def fresh_name(self, rng, scope, avoid):
        used = {self.name[k] for k in self.kids[scope]} | {avoid}
        cands = [n for n in NAMES if n not in used]
        if cands:
            return rng.choice(cands)
        while True:
            n = bytes([0x46] + [rng.choice(b'ABCDEFGHIJKLMNOPQRSTUVWXYZ0123456789_') for _ in range(3)])
            if n not in used:
                return n

    def path_down(self, rng, start, maxlen):
        """names along a random downward path from start (possibly empty), and its end"""
        segs, cur = [], start
        for _ in range(rng.randrange(0, maxlen + 1)):
            if not self.kids[cur]:
                break
            cur = rng.choice(self.kids[cur])
            segs.append(self.name[cur])
        return segs, cur


def is_seg(b):
    return len(b) == 4 and (b[0:1].isupper() or b[0:1] == b'_') and all(chr(c).isupper() or chr(c).isdigit() or c == 0x5f for c in b[1:])


def pack(rng, segs):
    """encode a list of segments: plain concatenation, or with the dual / multi name prefix"""
    body = b''.join(segs)
    r = rng.random()
    if len(segs) == 2 and r < 0.4:
        return b'\x2e' + body
    if len(segs) >= 2 and r < 0.6 and len(segs) < 0x41:
        return bytes([0x2f, len(segs)]) + body
    return body


def gen_expr(rng, sim, scope):
    """a lookup expression for a Find from `scope` (mostly meaningful for the current tree)"""
    live = sim.live()
    r = rng.random()
    if r < 0.22:                               # absolute
        segs, _ = sim.path_down(rng, 0, 6) if sim.alive and sim.alive[0] else ([], 0)
        e = b'\\' + pack(rng, segs)
    elif r < 0.42:                             # ^ prefixed
        d = sim.depth(scope)
        ups = rng.choice([1, 1, 2, 2, 3, d, d, d + 1, d + 2, rng.randrange(0, 8)])
        cur = scope
        for _ in range(min(ups, d)):
            cur = sim.parent[cur]
        segs, _ = sim.path_down(rng, cur, 4)
        e = b'^' * ups + pack(rng, segs)
    elif r < 0.62:                             # single segment: search rule
        cands = []
        s = scope
        while s != -1:
            cands += [sim.name[k] for k in sim.kids[s]]
            s = sim.parent[s]
        if cands and rng.random() < 0.7:
            e = rng.choice(cands)
        else:
            e = rng.choice(NAMES + [sim.name[rng.choice(live)]])
    elif r < 0.80:                             # several segments, downward only
        segs, _ = sim.path_down(rng, scope, 6)
        if len(segs) < 2 and rng.random() < 0.7:
            up = sim.parent[scope]
            if up != -1:
                # a path that would only resolve from the parent scope: must NOT be found by search
                segs, _ = sim.path_down(rng, up, 4)
        e = pack(rng, segs)
    elif r < 0.90:                             # arbitrary bytes
        e = bytes(rng.choice(ODD_BYTES + list(b'ABCD_SB_PCI0')) for _ in range(rng.choice([0, 1, 2, 3, 4, 4, 5, 6, 8, 9, 12, 13])))
    else:
        e = rng.choice([b'', b'\\', b'^', b'^^', b'\\\x00', b'FOO', b'^^FOO', b'\\AB', b'\\\x2f\x03?', b'\x2e', b'\x2f', b'\x2f\x02', b'AAAA\x2e', b'\\^AAAA', b'^\\AAAA'])
    # perturbations
    p = rng.random()
    if p < 0.08 and len(e) > 0:
        e = e[:-rng.randrange(1, min(4, len(e)) + 1)]            # too short / truncated
    elif p < 0.14:
        e = e + rng.choice(NAMES)                                 # one segment too many
    elif p < 0.20 and len(e) >= 4:
        k = rng.randrange(0, len(e) - 3)
        e = e[:k] + rng.choice(NAMES) + e[k + 4:]                 # a wrong segment somewhere
    elif p < 0.24 and len(e) > 0:
        k = rng.randrange(0, len(e))
        e = e[:k] + bytes([rng.choice(ODD_BYTES)]) + e[k:]        # an embedded odd byte
    elif p < 0.27:
        e = e + bytes(rng.choice([[0x41], [0x41, 0x42], [0x5f, 0x30, 0x31], [0x2e], [0x2f, 0x01]]))
    return e


def gen_history(rng, kind, size):
    sim = Sim()
    th = rng.randrange(0, 256)
    # start
    if rng.random() < 0.5:
        sim.default_scopes(th)
    else:
        sim.create(SCOPEBLOCK, th, b'\\\0\0\0')
    illegal_at = rng.randrange(2, size + 2) if kind == 'illegal' else None
    find_w = {'edit': 0.12, 'find': 0.45, 'illegal': 0.10, 'memo': 0.0}[kind]
    for step in range(size):
        live = sim.live()
        if not live:
            sim.create(SCOPEBLOCK, th, rng.choice(NAMES))
            continue
        if kind == 'illegal' and step == illegal_at:
            gen_illegal(rng, sim)
            sim.tainted = True
            continue
        if sim.tainted:
            # after an illegal edit: edits with arbitrary operands and dumps only (no traversals)
            n = sim.n()
            pick = lambda: rng.choice([rng.randrange(0, n), rng.randrange(0, n), n, n + 3]) if rng.random() < 0.15 else rng.randrange(0, n)
            r = rng.random()
            if r < 0.25:
                sim.cmds.append([1, rng.choice(KNOWN_OPS), th] + list(rng.choice(NAMES)))
                # the slot is unknown to the simulation: just make the pool picture large enough
                sim.alive.append(True); sim.parent.append(-1); sim.kids.append([]); sim.name.append(b'????')
            elif r < 0.5:
                sim.cmds.append([2, pick(), pick()])
            elif r < 0.65:
                sim.cmds.append([3, pick(), pick(), pick()])
            elif r < 0.8:
                sim.cmds.append([4, pick(), pick()])
            elif r < 0.9:
                sim.cmds.append([5, pick()])
            else:
                sim.cmds.append([6])
            continue
        r = rng.random()
        detached = [i for i in live if sim.parent[i] == -1 and i != 0]
        if r < find_w:
            scope = rng.choice(live)
            e = gen_expr(rng, sim, scope)
            sim.cmds.append([7, scope, len(e)] + list(e))
        elif r < find_w + 0.04:
            x = rng.choice(live)
            q = rng.random()
            if q < 0.3:
                sim.cmds.append([8, x])
            elif q < 0.6:
                sim.cmds.append([9, x, rng.choice([0, 1, 2, len(sim.kids[x]), max(len(sim.kids[x]), 1) - 1, INV])])
            elif q < 0.85:
                sim.cmds.append([10, x])
            else:
                sim.cmds.append([11, rng.choice([x, sim.n(), rng.randrange(0, sim.n() + 1), INV])])
        elif r < find_w + 0.06:
            sim.cmds.append([6])
        elif r < find_w + 0.08 and kind != 'illegal':
            # calls the Go code accepts with a nil / stale argument (agreement only)
            q = rng.random()
            if q < 0.4:
                sim.cmds.append([rng.choice([8, 10]), sim.n() + rng.randrange(0, 3)])
            elif q < 0.6:
                sim.cmds.append([9, sim.n() + 1, rng.randrange(0, 3)])
            else:
                e = gen_expr(rng, sim, rng.choice(live))
                sim.cmds.append([7, INV, len(e)] + list(e))
        elif len(live) < 3 or r < find_w + 0.08 + 0.27 * (1.0 if len(detached) < 3 else 0.4):
            named = rng.random() < 0.85
            opc = rng.choice(KNOWN_OPS) if rng.random() < 0.9 else rng.choice([rng.randrange(0, 0x1fe), 0xff, 0x100, 0x1fd, 0x02])
            nm = rng.choice(NAMES) if rng.random() < 0.93 else bytes(rng.choice(ODD_BYTES + [0x41, 0x42]) for _ in range(4))
            sim.create(opc, rng.choice([th, rng.randrange(0, 256)]), nm if named else None)
        elif detached and r < 0.80:
            a = rng.choice(detached)
            parents = [o for o in live if not sim.anc_or_self(a, o)]
            if not parents:
                continue
            # prefer deep parents sometimes, and parents without a child of that name
            o = rng.choice(parents)
            if rng.random() < 0.5:
                o = max(rng.sample(parents, min(3, len(parents))), key=sim.depth)
            if any(sim.name[k] == sim.name[a] for k in sim.kids[o]) and rng.random() < 0.8:
                o = rng.choice(parents)
            if sim.kids[o] and rng.random() < 0.35:
                sim.append_after(o, a, rng.choice(sim.kids[o]))
            else:
                sim.append(o, a)
        elif r < 0.90:
            ch = [i for i in live if sim.parent[i] != -1]
            if ch:
                a = rng.choice(ch)
                sim.detach(sim.parent[a], a)
        else:
            leaves = [i for i in live if not sim.kids[i] and i != 0]
            if leaves:
                sim.free_(rng.choice(leaves))
    if kind == 'memo':
        for _ in range(rng.randrange(3, 9)):
            memo_round(rng, sim, th)
            # a few ordinary edits between rounds keep the tree moving
            if rng.random() < 0.3:
                live = sim.live()
                detached = [i for i in live if sim.parent[i] == -1 and i != 0]
                if detached:
                    a = rng.choice(detached)
                    parents = [o for o in live if not sim.anc_or_self(a, o)]
                    if parents:
                        sim.append(rng.choice(parents), a)
    if not sim.tainted and kind == 'find':
        live = sim.live()
        for _ in range(rng.randrange(5, 25)):
            if not live:
                break
            scope = rng.choice(live)
            e = gen_expr(rng, sim, scope)
            sim.cmds.append([7, scope, len(e)] + list(e))
    sim.cmds.append([6])
    return sim.flat()


def gen_reuse(rng):
    """slot reuse: named objects are created below scopes of a small tree and freed again; newObject (unnamed) and
    newNamedObject (another name) then reuse the slots, the new objects are attached where the old ones were (or
    elsewhere), and the OLD names are looked up from those scopes and from scopes below them: an unnamed object must
    not answer to the name its slot carried before."""
    sim = Sim()
    th = rng.randrange(0, 256)
    if rng.random() < 0.5:
        sim.default_scopes(th)
    else:
        sim.create(SCOPEBLOCK, th, b'\\\0\0\0')
    # a few nested scopes
    scopes = [0]
    for _ in range(rng.randrange(1, 5)):
        o = rng.choice(scopes)
        a = sim.create(SCOPEBLOCK, th, sim.fresh_name(rng, o, b''))
        sim.append(o, a)
        scopes.append(a)
    for _ in range(rng.randrange(1, 4)):
        victims = []
        for _ in range(rng.randrange(1, 4)):
            o = rng.choice(scopes)
            nm = sim.fresh_name(rng, o, b'')
            a = sim.create(rng.choice(KNOWN_OPS), th, nm)
            if rng.random() < 0.85:
                if sim.kids[o] and rng.random() < 0.3:
                    sim.append_after(o, a, rng.choice(sim.kids[o]))
                else:
                    sim.append(o, a)
            victims.append((a, o, nm))
        for a, o, nm in victims:
            sim.free_(a)
        for a, o, nm in victims:
            named = rng.random() < 0.3
            b = sim.create(rng.choice(KNOWN_OPS), th, sim.fresh_name(rng, o, nm) if named else None)
            where = o if rng.random() < 0.8 else rng.choice(scopes)
            if not sim.anc_or_self(b, where):
                sim.append(where, b)
        for a, o, nm in victims:
            below = [x for x in sim.live() if sim.anc_or_self(o, x)]
            for scope in [o] + rng.sample(below, min(2, len(below))):
                sim.cmds.append([7, scope, 4] + list(nm))
            if rng.random() < 0.5:
                e = b'\\' + bytes(nm) if o == 0 else b'^' + bytes(nm)
                sim.cmds.append([7, rng.choice(scopes), len(e)] + list(e))
    sim.cmds.append([6])
    return sim.flat()


def memo_round(rng, sim, th):
    """a lookup, then edits of ONE kind chosen so that they change (or could change) the answer of that very
    lookup, then the identical lookup again -- lookups must not remember anything across edits"""
    live = sim.live()
    if not live:
        return
    S = max(rng.sample(live, min(3, len(live))), key=sim.depth) if rng.random() < 0.6 else rng.choice(live)
    path = sim.up_path(S)
    single = rng.random() < 0.7
    if single:
        present = [sim.name[k] for sc in path for k in sim.kids[sc] if is_seg(sim.name[k])]
        N = rng.choice(present) if present and rng.random() < 0.6 else rng.choice(NAMES)
        finds = [[7, S, 4] + list(N)]
        ans, k = sim.search(S, N)
    else:
        segs, end = sim.path_down(rng, S, 4)
        N = rng.choice(NAMES)
        miss = not any(sim.name[c] == N for c in sim.kids[end])
        e = rng.choice([b'', b'^' if sim.parent[S] != -1 else b'', b'\\' if S == 0 or not segs else b'']) + pack(rng, segs + [N])
        if e[:1] == b'^' and sim.parent[S] == -1:
            return                          # an odd-byte name that looks like a parent prefix: no round
        if e[:1] == b'^':
            # relative to the parent: use the path from there
            segs, end = sim.path_down(rng, sim.parent[S], 3)
            miss = not any(sim.name[c] == N for c in sim.kids[end])
            e = b'^' + pack(rng, segs + [N])
        elif e[:1] == b'\\' and S != 0:
            e = pack(rng, [N])
            e = e if len(e) > 4 else b'\\' + e
            end, miss = 0, not any(sim.name[c] == N for c in sim.kids[0]) if sim.alive[0] else (0, False)
        finds = [[7, S, len(e)] + list(e)]
        ans, k = (None, 1) if miss else (next((c for c in sim.kids[end] if sim.name[c] == N), None), 0)
        path = [end]
    if rng.random() < 0.3:
        s2 = rng.choice(live)
        e2 = gen_expr(rng, sim, s2)
        finds.append([7, s2, len(e2)] + list(e2))
    before = path[:k]                      # scopes searched before the one that answers
    kind = rng.choice(['insert_mid', 'insert_mid', 'insert_mid', 'insert_tail', 'append', 'detach_ans', 'free_ans', 'create_only', 'detach_scope', 'reattach'])
    if kind in ('insert_mid', 'insert_tail', 'append') and not before:
        kind = rng.choice(['detach_ans', 'free_ans'])
    if kind in ('detach_ans', 'free_ans') and (ans is None or ans == 0 or sim.parent[ans] == -1):
        kind = 'create_only'
    if kind == 'free_ans' and sim.kids[ans]:
        kind = 'detach_ans'
    if kind in ('insert_mid', 'insert_tail', 'append'):
        T = rng.choice(before)
        need = 2 if kind == 'insert_mid' else 1 if kind == 'insert_tail' else 0
        while len(sim.kids[T]) < need:      # fillers go in BEFORE the first lookup
            f = sim.create(SCOPEBLOCK, th, sim.fresh_name(rng, T, N))
            sim.append(T, f)
        sim.cmds += [list(f) for f in finds]
        for rep in range(rng.choice([1, 1, 2])):
            if rep == 1:
                N2 = sim.fresh_name(rng, T, N)
            a = sim.create(rng.choice(KNOWN_OPS), th, N if rep == 0 else N2)
            if kind == 'insert_mid':
                sim.append_after(T, a, rng.choice(sim.kids[T][:-1]))
            elif kind == 'insert_tail':
                sim.append_after(T, a, sim.kids[T][-1])
            else:
                sim.append(T, a)
    elif kind == 'detach_ans':
        sim.cmds += [list(f) for f in finds]
        sim.detach(sim.parent[ans], ans)
    elif kind == 'free_ans':
        sim.cmds += [list(f) for f in finds]
        sim.free_(ans)
    elif kind == 'create_only':
        sim.cmds += [list(f) for f in finds]
        for _ in range(rng.randrange(1, 3)):
            sim.create(rng.choice(KNOWN_OPS), th, N)
    elif kind == 'detach_scope':
        cands = [sc for sc in sim.up_path(S) if sim.parent[sc] != -1 and sc != 0]
        sim.cmds += [list(f) for f in finds]
        if cands:
            sc = rng.choice(cands)
            sim.detach(sim.parent[sc], sc)
    else:                                   # move a detached subtree (with its names) onto the search path
        detached = [i for i in live if sim.parent[i] == -1 and i != 0 and not sim.anc_or_self(i, S)]
        sim.cmds += [list(f) for f in finds]
        if detached and before:
            a = rng.choice(detached)
            T = rng.choice(before)
            if not any(sim.name[c] == sim.name[a] for c in sim.kids[T]):
                if len(sim.kids[T]) >= 2 and rng.random() < 0.6:
                    sim.append_after(T, a, rng.choice(sim.kids[T][:-1]))
                else:
                    sim.append(T, a)
    if all(sim.alive[f[1]] for f in finds):
        sim.cmds += [list(f) for f in finds]


def nm26(prefix, i):
    return bytes([prefix, 0x41 + i // 676 % 26, 0x41 + i // 26 % 26, 0x41 + i % 26])


def gen_deep2(rng, shape):
    """chains of 130-300 nested scopes / scopes with 130-300 children (beyond any plausible fixed cap or 8-bit
    counter in a loop of the lookup code): bare names declared at every height looked up from the bottom,
    '^' runs, long downward paths, NumArgs/ArgAt on wide scopes"""
    sim = Sim()
    sim.cmds.append([14, 0])               # no whole-pool digest after every edit (quadratic); the final dump compares everything
    sim.create(SCOPEBLOCK, 0, b'\\\0\0\0')
    marks = [0, 1, 2, 31, 32, 63, 64, 65, 100, 127, 128, 129, 130, 199, 200, 254, 255, 256, 257, 258, 299]
    if shape == 'chain':
        depth = rng.choice([130, 131, 160, 200, 257, 258, 300])
        chain = [0]
        side = {}
        for d in range(1, depth + 1):
            i = sim.create(rng.choice([SCOPEBLOCK, SCOPEBLOCK, 0x14, 0xff + 0x82]), 0, nm26(0x53, d))
            if rng.random() < 0.15:
                j = sim.create(SCOPEBLOCK, 0, nm26(0x54, d))
                sim.append(chain[-1], j)
                side[d] = j
            sim.append(chain[-1], i)
            chain.append(i)
        for _ in range(rng.randrange(14, 26)):
            s = rng.choice([depth, depth, depth, depth - 1, rng.randrange(1, depth + 1)])
            d = rng.choice(marks + [s, s - 1, rng.randrange(0, s + 1)])
            d = max(0, min(d, s))
            h = s - d + 1                      # nm26('S', h) is declared in chain[h-1], d parents above chain[s]
            scope = chain[s]
            r = rng.random()
            if r < 0.5:
                nm = nm26(0x53, h) if h <= depth else nm26(0x53, depth)
                if side and rng.random() < 0.3:
                    hh = min(side, key=lambda x: abs(x - h))
                    nm = nm26(0x54, hh)
                e = nm
            elif r < 0.6:
                e = rng.choice([nm26(0x51, 1), b'NONE', nm26(0x53, depth + 5)])
            elif r < 0.75:
                e = b'^' * d + (nm26(0x53, s - d + 1) if s - d + 1 <= depth and rng.random() < 0.7 else b'')
            elif r < 0.9:
                n = rng.choice([2, 64, 127, 128, 129, 200, 255, d + 1])
                start = rng.choice([0, 0, rng.randrange(0, depth)])
                n = max(2, min(n, depth - start, 255))
                if depth - start < 2:
                    continue
                body = bytes([0x2f, n]) + b''.join(nm26(0x53, start + k) for k in range(1, n + 1))
                scope, e = (rng.choice(chain), b'\\' + body) if start == 0 else (chain[start], body)
            else:
                start = rng.choice([0, rng.randrange(0, max(1, depth - 130))])
                n = rng.choice([depth - start, 256, 257, 130])
                n = max(2, min(n, depth - start))
                body = b''.join(nm26(0x53, start + k) for k in range(1, n + 1))      # plain concatenation, any length
                scope, e = (rng.choice(chain), b'\\' + body) if start == 0 else (chain[start], body)
            sim.cmds.append([7, scope, len(e)] + list(e))
        # every boundary once, from the innermost scope: name declared d parents up, d parents up by '^'
        for d in marks + [depth - 1, depth, depth + 1]:
            if 0 <= d <= depth:
                h = depth - d + 1
                if h <= depth:
                    sim.cmds.append([7, chain[depth], 4] + list(nm26(0x53, h)))
                e = b'^' * d
                sim.cmds.append([7, chain[depth], len(e)] + list(e))
            elif d == depth + 1:
                e = b'^' * d
                sim.cmds.append([7, chain[depth], len(e)] + list(e))
    else:
        width = rng.choice([130, 200, 256, 257, 300])
        host = sim.create(SCOPEBLOCK, 0, b'WIDE')
        sim.append(0, host)
        kidsl = []
        for d in range(width):
            i = sim.create(SCOPEBLOCK, 0, nm26(0x53, d))
            sim.append(host, i)
            kidsl.append(i)
        leaf = sim.create(SCOPEBLOCK, 0, b'LEAF')
        sim.append(kidsl[-1], leaf)
        for _ in range(rng.randrange(10, 20)):
            d = min(rng.choice(marks + [width - 1, width - 2, rng.randrange(0, width)]), width - 1)
            r = rng.random()
            if r < 0.35:
                sim.cmds.append([7, rng.choice([host, leaf, kidsl[0], kidsl[-1]]), 4] + list(nm26(0x53, d)))
            elif r < 0.55:
                e = b'\\WIDE' + nm26(0x53, d) + (b'LEAF' if d == width - 1 and rng.random() < 0.5 else b'')
                sim.cmds.append([7, rng.choice([0, leaf]), len(e)] + list(e))
            elif r < 0.7:
                sim.cmds.append([8, host])
            elif r < 0.9:
                sim.cmds.append([9, host, rng.choice([d, width - 1, width, 255, 256])])
            else:
                sim.cmds.append([7, leaf, 4] + list(rng.choice([b'WIDE', b'NONE', nm26(0x53, width)])))
        for d in marks + [width - 1]:
            if d < width:
                sim.cmds.append([7, leaf, 4] + list(nm26(0x53, d)))                 # upward search ends in the wide scope
                e = b'\\WIDE' + nm26(0x53, d)
                sim.cmds.append([7, leaf, len(e)] + list(e))
                sim.cmds.append([9, host, d])
        sim.cmds.append([8, host])
    sim.cmds.append([6])
    return sim.flat()


def gen_deep(rng):
    """a chain deeper than 64 levels and multi-name paths whose segment count is 65..95"""
    sim = Sim()
    sim.create(SCOPEBLOCK, 0, b'\\\0\0\0')
    depth = rng.choice([66, 70, 80, 92, 97])
    prev = 0
    chain = [0]
    for d in range(depth):
        i = sim.create(rng.choice(KNOWN_OPS), 0, rng.choice(NAMES))
        sim.append(prev, i)
        if rng.random() < 0.2:
            j = sim.create(SCOPEBLOCK, 0, rng.choice(NAMES))
            if sim.name[j] != sim.name[i]:
                sim.append(prev, j)
        prev = i
        chain.append(i)
    for _ in range(rng.randrange(6, 16)):
        start = rng.choice([0, 0, 0, 1, 2, rng.randrange(0, 20)])
        n = rng.choice([2, 3, 10, 63, 64, 65, 66, 70, 0x5a, 0x5b, 0x5c, 0x5e, 0x5f, 0x60, rng.randrange(2, depth)])
        n = min(n, depth - start)
        if n < 2:
            continue
        segs = [sim.name[chain[start + k]] for k in range(1, n + 1)]
        body = bytes([0x2f, n]) + b''.join(segs)
        r = rng.random()
        if r < 0.5:
            scope, e = rng.choice(chain), (b'\\' + body if start == 0 else None)
            if e is None:
                scope, e = chain[start], body
        elif r < 0.8:
            scope, e = chain[start], body
        else:
            ups = rng.randrange(1, 4)
            scope = chain[min(start + ups, depth)]
            e = b'^' * (chain.index(scope) - start) + body
        if rng.random() < 0.15:
            e = e[:-rng.randrange(1, 4)]
        sim.cmds.append([7, scope, len(e)] + list(e))
    sim.cmds.append([6])
    return sim.flat()


def gen_illegal(rng, sim):
    """one edit outside the property's quantifier"""
    live = sim.live()
    n = sim.n()
    attached = [i for i in live if sim.parent[i] != -1]
    withkids = [i for i in live if sim.kids[i]]
    freed = [i for i in range(n) if not sim.alive[i]]
    r = rng.random()
    x = rng.choice(live)
    if r < 0.12 and attached:
        sim.cmds.append([2, rng.choice(live), rng.choice(attached)])             # append an attached object
    elif r < 0.22 and withkids:
        o = rng.choice(withkids)
        sim.cmds.append([2, rng.choice(sim.kids[o]), o])                          # make a cycle
    elif r < 0.28:
        sim.cmds.append([2, x, x])                                                # append to itself
    elif r < 0.38 and withkids:
        sim.cmds.append([5, rng.choice(withkids)])                                # free with children: panic
    elif r < 0.46 and freed:
        sim.cmds.append(rng.choice([[2, x, rng.choice(freed)], [2, rng.choice(freed), x], [5, rng.choice(freed)], [4, x, rng.choice(freed)]]))
    elif r < 0.56:
        sim.cmds.append(rng.choice([[2, n + 1, x], [2, x, n], [4, n, x], [4, x, n + 2], [5, n], [3, x, x, n], [3, n, x, x]]))  # nil pointers
    elif r < 0.66:
        sim.cmds.append([4, rng.choice(live), rng.choice(live)])                  # detach a non-child (mostly)
    elif r < 0.74:
        sim.cmds.append([3, rng.choice(live), rng.choice(live), rng.choice(live)])  # insert after a non-child (mostly)
    elif r < 0.84:
        sim.cmds.append([0, rng.choice([0x1ff, 0x200, 0xffff, 0x2fe, 0x1fe + 0x100]), 1])  # opcode beyond the opcode maps: panic
    elif r < 0.92:
        sim.cmds.append([0, FREED, 1])                                            # a "live" object that looks freed
        sim.alive.append(True); sim.parent.append(-1); sim.kids.append([]); sim.name.append(b'????')
    else:
        sim.cmds.append([5, 0])                                                   # free the root scope (then absolute lookups have no root)
        sim.cmds.append([11, 0])


class C13(flow.Spec):
    prop = 'C13'
    props_files = ['theories/Props/C13.v', 'theories/Props/C13_examples.v', 'theories/Props/C13_trans.v', 'theories/Props/C13_trans_q.v', 'theories/Props/C13_trans_find.v', 'theories/Props/C13_trans_opcode.v', 'theories/Props/C13_trans_examples.v']
    model_targets = ['theories/Aml/Tree.vo']
    pkg = 'device/acpi/aml'
    harness = [os.path.join(H, 'zz_verif_c13_test.go')]
    test = 'TestVerifC13$'
    rule = ('histories of newObject/newNamedObject/append/appendAfter/detach/free on the real ObjectTree (legal edits from a simulated '
            'tree; a separate stream with one illegal edit followed by arbitrary edits), link digest after every edit and full dumps; '
            'Find from random live scopes on expressions built from the current tree (absolute, ^-prefixed, single segment, multi segment, '
            'dual/multi name prefixes) and perturbed (truncated, extra/wrong segment, odd bytes) plus arbitrary bytes; '
            'slot reuse: named objects freed, their slots reused by newObject / newNamedObject, the old names looked up; memo rounds: a lookup, edits of one kind chosen to change its answer (middle/tail insert-after, append, detach/free of the answer, '
            'creation only, detach of an enclosing scope, re-attachment of a subtree), the identical lookup again; chains of 66-97 and 130-300 nested '
            'scopes and scopes with 130-300 children with lookups at every power-of-two boundary (bare names declared d parents up, ^ runs, long paths, ArgAt); '
            'non-trivial = at least 4 edits and one lookup or dump; distinct = distinct command lists')
    assumptions = ['*Object pointers are modelled as pool positions (objects never move in objPool); a nil pointer is None',
                   'the pool holds fewer than 2^32-1 objects (legal creation requires room below InvalidIndex)',
                   'lookup theorems assume the object in slot 0 (the root scope) is live: freeing the root makes absolute lookups panic (model and code agree); '
                   'C13_history_from_empty shows slot 0 stays live in every history that never frees it',
                   'the reference resolver fixes the treatment of bytes that cannot start a name (skipped before each segment; 0x2f together with the '
                   'following count byte); the Go monitor decides only grammatical name strings and too-short names, other byte strings are agreement + no-crash',
                   'lookups in a scope with two children of the same name return the first one (resolver: find); the Go monitor does not decide such lookups']
    partial = []

    def gen_cases(self, rng, tier):
        n = {'quick': 2500, 'thorough': 40000, 'search': 3000}[tier]
        out = []
        for k in range(n):
            if k % 125 == 7:
                out.append((gen_deep(rng), 'deep'))
                continue
            if k % 250 == 13:
                out.append((gen_deep2(rng, 'chain' if k % 750 != 13 else 'wide'), 'deep2'))
                continue
            if k % 25 == 3:
                out.append((gen_reuse(rng), 'reuse'))
                continue
            r = rng.random()
            kind = 'edit' if r < 0.32 else 'find' if r < 0.68 else 'memo' if r < 0.84 else 'illegal'
            size = rng.choice([4, 8, 12, 20, 30, 45, 60]) if kind not in ('find', 'memo') else rng.choice([10, 20, 30, 40, 60])
            out.append((gen_history(rng, kind, size), kind))
        return out

    def explain(self, nums):
        names = {0: 'new', 1: 'newNamed', 2: 'append', 3: 'appendAfter', 4: 'detach', 5: 'free', 6: 'dump', 7: 'Find', 8: 'NumArgs',
                 9: 'ArgAt', 10: 'ClosestNamedAncestor', 11: 'ObjectAt', 12: 'CreateDefaultScopes', 13: 'findRelative', 14: 'digests'}
        s = []
        for c in parse_cmds(nums):
            if c[0] in (7, 13):
                s.append('%s(%d, %r)' % (names[c[0]], c[1], bytes(x & 0xff for x in c[3:])))
            elif c[0] == 1:
                s.append('newNamed(%#x, %r)' % (c[1], bytes(x & 0xff for x in c[3:7])))
            else:
                s.append('%s(%s)' % (names[c[0]], ', '.join('%#x' % x if x > 999 else str(x) for x in c[1:])))
        return ' ; '.join(s)

    def nontrivial(self, nums, obs):
        cmds = parse_cmds(nums)
        return sum(1 for c in cmds if c[0] in (0, 1, 2, 3, 4, 5, 12)) >= 4 and any(c[0] in (6, 7) for c in cmds)

    def shrink_candidates(self, nums):
        cmds = parse_cmds(nums)
        flat = lambda cs: [x for c in cs for x in c]
        trav = (7, 13, 8, 9, 10, 11, 6)
        # only one lookup (with its verbatim repetitions), all edits
        seen = []
        for c in reversed(cmds):
            if c[0] in (7, 13, 8, 9, 10) and c not in seen:
                seen.append(c)
        for f in seen[:80]:
            yield flat([c for c in cmds if c[0] not in trav or c == f])
        # prefixes
        n = len(cmds)
        for k in sorted({n * 1 // 4, n // 2, n * 3 // 4, n * 7 // 8, n - 8, n - 4, n - 2, n - 1}):
            if 0 < k < n:
                yield flat(cmds[:k])
        # drop one command, from the end
        for j in range(len(cmds) - 1, -1, -1):
            yield flat([c for k, c in enumerate(cmds) if k != j])
        # shorten lookup expressions
        for j, c in enumerate(cmds):
            if c[0] == 7 and c[2] > 0:
                for cut in (c[:3 + c[2] - 1], [c[0], c[1]] + [c[2] - 1] + c[4:]):
                    cc = list(cut)
                    cc[2] = len(cc) - 3
                    yield [x for k, d in enumerate(cmds) for x in (cc if k == j else d)]


if __name__ == '__main__':
    sys.exit(flow.standard_check(C13(), sys.argv[1:]))
