import os, sys
sys.path.insert(0, os.path.join(os.path.dirname(os.path.abspath(__file__)), '..', 'lib'))
sys.path.insert(0, os.path.dirname(os.path.abspath(__file__)))
import vlib, flow
import pmm_common as pc
import gen_trans
gen_trans.register('pmm_boot.json')   # Go -> Gallina translation of BootMemAllocator.init/AllocFrame (Gen/Trans_pmm_boot.v, used by Pmm/BootTrans.v)

H = os.path.join(vlib.ROOT, 'harness/kernel/mm/pmm')
vlib.register_const_dump('kernel', 'mm/pmm', os.path.join(H, 'zz_verif_consts_test.go'))


class C02(flow.Spec):
    prop = 'C02'
    props_files = ['theories/Props/C02.v', 'theories/Props/C02_examples.v', 'theories/Props/C02_trans.v', 'theories/Props/C02_trans_examples.v']
    model_targets = ['theories/Pmm/Boot.vo']
    pkg = 'mm/pmm'
    harness = [os.path.join(H, 'zz_verif_c02_test.go'), os.path.join(H, 'zz_verif_pmm_util_test.go')]
    test = 'TestVerifC02$'
    rule = ('maps start in low memory or around/above 4 GiB, 1 TiB, 16 TiB (frame numbers >= 2^32); memory maps of 1-6 regions (sizes from {<1 page,1,2,63,64,65,127,128,129,200,random<=600 frames}, aligned or with '
            'sub-page offsets at either end, adjacent or separated, types 1 interleaved with 0,2..6,2^32-1,random), kernel image at '
            'start/middle/end/whole/one page/sub-page/trailing partial page of a random available region; the boot allocator is '
            'called to exhaustion (+0..3 calls) or a random shorter number of times, then reset and replayed; ~8% of the cases lie '
            'outside the quantifier (unsorted/overlapping/wrapping maps, kernel outside available RAM or unaligned): agreement only; '
            'non-trivial = at least two frames handed out; distinct = distinct case vectors')
    assumptions = ['memory map delivered through the real multiboot.VisitMemRegions (type normalisation included); region addr+len '
                   'below 2^64-4096 (x86-64 physical addresses are below 2^52)',
                   'the hand-written Gallina model of init/AllocFrame is proved equal to the Gallina term gen/gotrans regenerates from '
                   'bootmem_allocator.go on every run (Props/C02_trans.v), for every allocator state and every region list; trusted for that tie: '
                   'the translator and Lib/GoOps.v + Lib/GoVisit.v (meaning of the operators and of a closure passed to a visitor); the contract of '
                   'multiboot.VisitMemRegions itself (one call per entry in order, stop on false, type normalisation) is NOT part of the tie - it is '
                   'C10\'s subject and is exercised here by the correspondence run through the real function']

    def gen_cases(self, rng, tier):
        n = {'quick': 900, 'thorough': 25000, 'search': 4000}[tier]
        out = []
        for _ in range(n):
            regions = pc.gen_map(rng)
            ks, ke, how = pc.place_kernel(rng, regions)
            note = how
            if rng.random() < 0.04:
                regions = pc.mangle_map(rng, regions)
                note = 'out:map'
            total = pc.avail_frames(regions) if not note.startswith('out:map') else min(2000, sum(l for a, l, t in regions if t == 1) // pc.PAGE)
            r = rng.random()
            if r < 0.75:
                ncalls = total + rng.choice([0, 1, 3])
            else:
                ncalls = rng.randrange(0, total + 2)
            out.append((pc.enc_map(regions) + [ks, ke, min(ncalls, 5000)], note))
        return out

    def classify(self, nums, note):
        return note

    def explain(self, nums):
        regs, rest = pc.dec_map(nums)
        if len(rest) < 3:
            return 'short case'
        return 'map %s ; kernel [%#x,%#x) ; %d calls' % (pc.fmt_map(regs), rest[0], rest[1], rest[2])

    def nontrivial(self, nums, obs):
        return obs[0::2].count('1') >= 2 if obs else False

    def shrink_candidates(self, nums):
        regs, rest = pc.dec_map(nums)
        if len(rest) < 3:
            return
        ks, ke, n = rest[:3]
        for j in range(len(regs)):                       # drop a region
            yield pc.enc_map(regs[:j] + regs[j + 1:]) + [ks, ke, n]
        for m in (n // 2, n - 1):                         # fewer calls
            if 0 <= m < n:
                yield pc.enc_map(regs) + [ks, ke, m]
        for j, (a, l, t) in enumerate(regs):              # shorter regions
            if l > 2 * pc.PAGE:
                yield pc.enc_map(regs[:j] + [(a, l - (l // (2 * pc.PAGE)) * pc.PAGE, t)] + regs[j + 1:]) + [ks, ke, n]


if __name__ == '__main__':
    sys.exit(flow.standard_check(C02(), sys.argv[1:]))
