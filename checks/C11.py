import os, sys
sys.path.insert(0, os.path.join(os.path.dirname(os.path.abspath(__file__)), '..', 'lib'))
sys.path.insert(0, os.path.dirname(os.path.abspath(__file__)))
import vlib, flow
import amlgen

H = os.path.join(vlib.ROOT, 'harness/kernel/device/acpi/aml')
vlib.register_const_dump('kernel', 'device/acpi/aml', os.path.join(H, 'zz_verif_consts_test.go'))
# the object-pool model Aml/Tree.v (C13) needs its own generated constants
vlib.register_const_dump('kernel', 'device/acpi/aml', os.path.join(H, 'zz_verif_consts_tree_test.go'),
                         test='TestVerifDumpConstsTree', tag='aml_tree')


def make_case(prog):
    nums = [prog['features'], len(prog['bytes'])]
    for b in prog['bytes']:
        nums += [len(b)] + list(b)
    nums += amlgen.flat_entries(prog['expected'])
    nums += [len(prog['tables'])]
    for t in prog['tables']:
        nums += amlgen.ser_list(t)
    return nums


def split_case(nums):
    """-> (features, payloads, expected entries, rest = serialised AST)"""
    i = 0
    feat = nums[i]; i += 1
    nt = nums[i]; i += 1
    tabs = []
    for _ in range(nt):
        n = nums[i]; i += 1
        tabs.append(nums[i:i + n]); i += n
    ne = nums[i]; i += 1
    exp = []
    for _ in range(ne):
        n = nums[i]; i += 1
        exp.append(nums[i:i + n]); i += n
    return feat, tabs, exp, nums[i:]


class C11(flow.Spec):
    prop = 'C11'
    props_files = ['theories/Props/C11.v', 'theories/Props/C11_examples.v', 'theories/Props/C11_frag.v', 'theories/Props/C11_frag_examples.v']
    model_targets = ['theories/Aml/RunC11.vo', 'theories/Aml/C11Witness.vo']
    pkg = 'device/acpi/aml'
    harness = [os.path.join(H, 'zz_verif_c11_test.go'), os.path.join(H, 'zz_verif_amlcommon_test.go')]
    test = 'TestVerifC11$'
    go_timeout = 900
    model = os.environ.get('VERIF_C11_NO_MODEL') is None
    rule = ('programs generated from the grammar of Aml/Grammar.v: a planned namespace (devices, processors, power resources, thermal zones '
            'nested up to depth 6; names, methods with 0-7 args, regions with Field/IndexField/BankField, mutexes, events) emitted in one or two '
            'tables through inline bodies, Scope directives (incl. Scope(\\)), parent-prefixed, absolute and multi-segment names, all four PkgLength '
            'widths, forward references, nested calls, deferred Buffer sizes / While bodies / BankField values; bytes produced by the Python '
            'encoder and re-checked against the extracted Coq encode on every case; non-trivial = at least 3 named objects; distinct = distinct programs')
    assumptions = ['kfmt.Fprintf of diagnostics to the error writer is not modelled',
                   'the block extent of If/Else/While is not part of the compared namespace view (the first pass attaches only the predicate and '
                   'the first statement to an If outside a deferred block; the property text does not cover control-flow structure)',
                   'null targets are dropped from the compared view (inside deferred blocks the parser does not represent them)']
    partial = ['C11_lex_roundtrip_* are FULL (PkgLength in all four widths, numbers, strings, every name form, every opcode of the generated maps)',
               'C11_full_parse_encode (the full statement, Props/C11.v) is NOT proved and is in fact FALSE for the current parser: '
               'C11_parse_encode_refuted exhibits one well-formed program per known finding on which the faithful model rejects the table or '
               'builds another namespace. C11_parse_encode_partial / _F1 ... _F7 / _T2 (Props/C11_frag.v) PROVE the statement for fragments F0 (one table, any number of '
               'Name(<single NameSeg>, <integer constant>) declarations) F1/F2 (those, Device blocks and Methods with declaration-only bodies, nested to any depth) and F3 (in addition top-level Scope directives over the predefined scopes), F4..F8 / T2 / TN / TN8 as described in Props/C11_frag.v. '
               'C11_parse_encode_partial_F9 (Props/C11_frag.v) PROVES the statement for fragment F9: ONE table WITHOUT Scope directives whose items are those of F8 '
               '(Name with integer / string / nested-package value, Device / ThermalZone / Processor / PowerResource / Method blocks, Mutex, Event, OperationRegion with constant '
               'offset and length, single-NameSeg names, any depth, any admissible PkgLength width) and, anywhere an item may stand (Method / Device-like bodies, top level), statements op(c1..cn) with op in '
               '{Return, Sleep, Stall, LNot, LAnd, LOr, LEqual, LGreater, LLess, Break, Continue, BreakPoint} and every operand an integer constant or a string '
               '(e.g. Method(_STA){Return(0x0F)}); here resolveMethodCalls / connectNonNamedObjArg / attachSiblingsAsArgs do real work (exact pass-5 layer Aml/ParserFragF9Calls.v). '
               'F9 does NOT subsume F3..F8/TN8 (no Scope directives, one table); NOT proved for statements: operands that are expressions, names, Local/Arg objects, operators with a Target (Store, Add, ...), '
               'If/Else/While, statements together with Scope directives or several tables. wf_program rejects the constant Zero in a Target / SuperName / SimpleName position (the byte 00 there is the NullName, spelled ANull; C11_null_target_one_spelling) and ANull anywhere else (C11_null_only_in_target_positions). Fragment F10 (Local/Arg operands, operators with a Target, SuperName-first operators, nested operator expressions) is NOT proved: the model meets ns on 16 representative shapes by computation (C11_parse_encode_F10_shapes), the generator draws all of them. Outside the proved fragments and the lexical level the statement '
               'is TESTED, not proved - by the correspondence (Python encoder = Coq encode, Python ns = Coq ns, wf_program accepts every generated '
               'program, model parser = real parser incl. the Coq namespace view = the harness view) and by the monitor on the real parser',
               'productions inside the tested fragment: DefScope (incl. Scope(\\)), Device, Processor, PowerRes, ThermalZone, Method (0-7 args, nested names), Name, '
               'OpRegion, Field / IndexField / BankField with Named / Reserved / Access / ExtAccess / Connection(name|buffer) elements, Mutex, Event, '
               'Zero/One/Ones/Byte/Word/DWord/QWord constants, strings, buffers (computed sizes), packages (nested), If / Else / While, 60 fixed-arity '
               'operators with targets (null or not), name references, calls with nested and forward arguments, two-table loads']

    def gen_cases(self, rng, tier):
        n = {'quick': 320, 'thorough': 2500, 'search': 1000}[tier]
        out = []
        cap = {'quick': 1700, 'thorough': 3000, 'search': 2000}[tier]   # the list-based pool of the model is quadratic
        for i in range(n):
            while True:
                prog = amlgen.gen_program(rng, small=(rng.random() < 0.35))
                if sum(len(b) for b in prog['bytes']) <= cap:
                    break
            note = 'prog-%dt' % len(prog['bytes'])
            if prog['features']:
                note = 'feature-%d' % prog['features']
            out.append((make_case(prog), note))
        return out

    def explain(self, nums):
        try:
            feat, tabs, exp, _ = split_case(nums)
        except Exception:
            return ''
        return 'features=%d; %d table(s): %s ; %d expected entries' % (
            feat, len(tabs), ' | '.join(' '.join('%02x' % b for b in t[:160]) + (' ...(%d bytes)' % len(t) if len(t) > 160 else '') for t in tabs), len(exp))

    def nontrivial(self, nums, obs):
        try:
            return len(split_case(nums)[2]) >= 3
        except Exception:
            return False

    def classify(self, nums, note):
        return note


if __name__ == '__main__':
    sys.exit(flow.standard_check(C11(), sys.argv[1:]))
