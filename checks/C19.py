import os, sys
sys.path.insert(0, os.path.join(os.path.dirname(os.path.abspath(__file__)), '..', 'lib'))
import vlib, flow

H = os.path.join(vlib.ROOT, 'harness/kernel/device/video/console')
vlib.register_const_dump('kernel', 'device/video/console', os.path.join(H, 'zz_verif_consts_test.go'))
# the translation of vga_text.go (Gen/Trans_console_vga.v) compares with console.Characters, which the tty constants dump provides
vlib.register_const_dump('kernel', 'device/tty', os.path.join(vlib.ROOT, 'harness/kernel/device/tty/zz_verif_consts_test.go'))
import gen_trans
gen_trans.register('console_vga.json')   # Go -> Gallina translation of VgaTextConsole (used by Console/VgaTrans.v)
gen_trans.register('console_vesa.json')  # Go -> Gallina translation of VesaFbConsole (used by Console/VesaTrans.v)

M32 = (1 << 32) - 1


def wrap_values(rng, divs):
    """32-bit values at which a product with a geometry constant d wraps: floor(k*2^32/d) + {-1,0,1,2}"""
    ds = [d for d in divs if 2 <= d < (1 << 32)]
    if not ds:
        return None
    d = rng.choice(ds)
    k = rng.randrange(1, d) if d <= 64 or rng.random() < 0.5 else rng.choice([1, 2, d - 1, d // 2])
    return ((k << 32) // d + rng.choice([-1, 0, 1, 1, 2])) & M32


def arg(rng, edge, divs=()):
    """a 32-bit argument from {0,1,edge-1,edge,edge+1,2^31,2^32-1,2^32-edge..,random} and, for every
    constant d of the geometry that the driver may multiply the argument with, floor(k*2^32/d)+{-1,0,1,2}"""
    r = rng.random()
    if r < 0.4:
        return rng.randrange(0, edge + 2)
    if r < 0.6 and divs:
        v = wrap_values(rng, divs)
        if v is not None:
            return v
    return M32 & rng.choice([0, 1, max(edge - 1, 0), edge, edge + 1, edge + 2, 1 << 31, (1 << 31) - 1, M32, M32 - 1, M32 - edge, M32 - edge + 1,
                       (M32 - edge + 2) & M32, rng.randrange(0, 1 << 32), rng.randrange(0, 64)])


def colour(rng, text):
    r = rng.random()
    if text:
        if r < 0.7:
            return rng.randrange(0, 16)
        return rng.choice([0, 7, 14, 15, 16, 17, 128, 255, rng.randrange(0, 256)])
    return rng.randrange(0, 256) if r < 0.8 else rng.choice([0, 1, 7, 15, 16, 255])


def products(vals):
    """the constants and their pairwise products (what a uint32 expression of the driver may multiply by)"""
    vals = sorted(set(v for v in vals if v >= 2))
    out = set(vals)
    for i, u in enumerate(vals):
        for v in vals[i:]:
            if u * v < (1 << 32):
                out.add(u * v)
    return sorted(out)


def gen_one(rng, kind, W, H, text, xdivs, ydivs):
    """one operation of the given kind: 0 Write, 1 Fill, 2 Scroll, 3 SetFont, 4 SetLogo, 5 palette"""
    if kind == 0:
        if W >= 1 and H >= 1 and rng.random() < 0.6:
            x, y = rng.randrange(1, W + 1), rng.randrange(1, H + 1)     # a cell of the grid
        else:
            x, y = arg(rng, W, xdivs), arg(rng, H, ydivs)
        return [0, rng.choice([0x20, 0x41, 0, 255, rng.randrange(0, 256)]), colour(rng, text), colour(rng, text), x, y]
    if kind == 1:
        return [1, arg(rng, W, xdivs), arg(rng, H, ydivs), arg(rng, W, xdivs), arg(rng, H, ydivs), colour(rng, text), colour(rng, text)]
    if kind == 2:
        d = rng.choice([0, 1]) if rng.random() < 0.97 else rng.choice([2, 255])
        return [2, d, rng.randrange(1, H + 1) if H >= 1 and rng.random() < 0.45 else arg(rng, H, ydivs)]
    if kind == 3:
        return [3]
    if kind == 4:
        return [4]
    return [5, rng.choice([0, 1, 7, 15, 254, 255, rng.randrange(0, 256)]), rng.randrange(0, 256), rng.randrange(0, 256), rng.randrange(0, 256)]


def gen_ops(rng, W, H, text, nops, xdivs=(), ydivs=()):
    kinds = [0, 1, 2] if text else [0, 1, 2, 3, 4, 5]
    base = lambda: rng.choice([0, 0, 1, 1, 2, 2] if text or rng.random() < 0.94 else [3, 4, 5])
    if rng.random() < 0.4:
        # statefulness: an operation, then operations of one other kind, then the SAME operation verbatim
        a = gen_one(rng, rng.choice([0, 0, 0, 1, 2]), W, H, text, xdivs, ydivs)
        between = rng.choice(kinds)
        ops = list(a)
        for _ in range(rng.choice([1, 1, 2])):
            o = gen_one(rng, between, W, H, text, xdivs, ydivs)
            if o[0] == 2 and H >= 1 and rng.random() < 0.8:
                o[1], o[2] = rng.choice([0, 1]), rng.randrange(1, H + 1)     # an effective scroll
            ops += o
        ops += a
        if rng.random() < 0.3:
            ops += gen_one(rng, base(), W, H, text, xdivs, ydivs)
        return ops
    ops = []
    for _ in range(nops):
        ops += gen_one(rng, base(), W, H, text, xdivs, ydivs)
    return ops


def gen_vga(rng):
    r = rng.random()
    if r < 0.06:
        W, H = 80, 25
    elif r < 0.2:
        W, H = rng.choice([(1, 1), (1, rng.randrange(1, 9)), (rng.randrange(1, 9), 1), (2, 2)])
    else:
        W, H = rng.randrange(1, 13), rng.randrange(1, 11)
    return [0, W, H, rng.randrange(0, 4096)] + gen_ops(rng, W, H, True, rng.randrange(1, 5), products([W, H, 2]), products([W, H, 2]))


def masks_for(rng, bpp):
    r = rng.random()
    if bpp == 8:
        return [0, 0, 0, 0, 0, 0] if r < 0.7 else [rng.randrange(0, 32) for _ in range(6)]
    lim = 16 if bpp in (15, 16) else 24
    if r < 0.35:
        if bpp == 15:
            return [10, 5, 5, 5, 0, 5]
        if bpp == 16:
            return [11, 5, 5, 6, 0, 5]
        return rng.choice([[16, 8, 8, 8, 0, 8], [0, 8, 8, 8, 16, 8]])
    if bpp == 32 and r < 0.42:
        # 32-bit formats that keep a component in the 4th byte (known finding: the driver drops it)
        return rng.choice([[24, 8, 16, 8, 8, 8], [8, 8, 16, 8, 24, 8], [0, 8, 8, 8, 16 + rng.randrange(1, 9), 8]])
    if r < 0.9:
        # random layout inside the pixel: sizes 0..8, position + size <= lim
        out = []
        for _ in range(3):
            sz = rng.choice([0, 1, 3, 4, 5, 6, 7, 8, 8])
            out += [rng.randrange(0, lim - sz + 1), sz]
        return out
    # outside the quantifier (agreement only): oversize masks, positions beyond the pixel
    return [rng.choice([0, 7, 15, 16, 23, 24, 31, 32, 40, 255]) if k % 2 == 0 else rng.choice([0, 5, 8, 9, 16, 255]) for k in range(6)]


def gen_vesa(rng):
    r = rng.random()
    bpp = rng.choice([8, 15, 16, 24, 32]) if r < 0.96 else rng.choice([0, 4, 12, 17, 33, 255])
    bytespp = ((bpp + 1) & 0xff) >> 3
    r = rng.random()
    fkind, gw, gh, bpr = 0, 8, 1, 1
    if r < 0.8:
        gw = rng.choice([8, 9, 10, 12, 14, 15, 16, rng.randrange(8, 17)])
        gh = rng.choice([1, 2, 3, 5, rng.randrange(1, 9)])
        bpr = (gw + 7) // 8
    elif r < 0.88:
        fkind = rng.choice([1, 2, 3])
        gw, gh, bpr = [(8, 16, 1), (10, 18, 2), (14, 28, 2)][fkind - 1]
    elif r < 0.91:
        fkind = 255
    else:
        # outside the quantifier: narrow / wide fonts, inconsistent BytesPerRow
        gw = rng.choice([1, 3, 7, 17, 20, 24])
        gh = rng.randrange(1, 5)
        bpr = rng.choice([(gw + 7) // 8, 1, 2, 3])
    r = rng.random()
    if r < 0.15:
        wc, hc = rng.choice([(1, 1), (1, rng.randrange(1, 5)), (rng.randrange(1, 5), 1)])
    else:
        wc, hc = rng.randrange(1, 5), rng.randrange(1, 5)
    if fkind in (1, 2, 3):
        wc, hc = min(wc, 2), min(hc, 2)
    W = wc * gw + (rng.randrange(0, gw) if rng.random() < 0.5 else 0)
    r = rng.random()
    logoh = 0 if r < 0.45 else rng.randrange(1, 12) if r < 0.97 else rng.choice([64, 96, 128])
    if logoh >= 64:
        W = min(W, 20)
    H = logoh + hc * gh + (rng.randrange(0, gh) if rng.random() < 0.5 else 0)
    r = rng.random()
    if r < 0.03:
        # degenerate grids (no cell at all): outside the quantifier, agreement only
        if rng.random() < 0.5:
            W = rng.randrange(1, gw) if gw > 1 else 1
        else:
            H = logoh + rng.randrange(0, gh)
        H = max(H, 1)
    pitch = W * bytespp + (0 if rng.random() < 0.45 else rng.randrange(1, 10))
    if rng.random() < 0.02 and W * bytespp > 1:
        pitch = W * bytespp - 1          # pitch below the row size: outside the quantifier
    edge_w, edge_h = (W // gw if gw else 0), ((H - logoh) // gh if gh and H >= logoh else 0)
    hdr = [1, W, H, bpp, pitch] + masks_for(rng, bpp) + [logoh, fkind, gw, gh, bpr, rng.randrange(0, 4096), rng.randrange(0, 4096), rng.randrange(0, 4096)]
    # constants the driver multiplies a column / width (resp. line / height / line count) argument with
    xdivs = products([gw, bytespp, edge_w, W]) + [pitch]
    ydivs = products([gh, pitch, edge_h]) + [H, gh * pitch * max(edge_h, 1)]
    return hdr + gen_ops(rng, edge_w, edge_h, False, rng.randrange(1, 4), xdivs, ydivs)


class C19(flow.Spec):
    prop = 'C19'
    props_files = ['theories/Props/C19.v', 'theories/Props/C19_examples.v',
                   'theories/Props/C19_vga_trans.v', 'theories/Props/C19_vga_trans_examples.v',
                   'theories/Props/C19_vesa_trans.v', 'theories/Props/C19_vesa_trans_examples.v',
                   'theories/Props/C19_vesa_trans2.v', 'theories/Props/C19_vesa_trans2_examples.v']
    model_targets = ['theories/Console/Run.vo']
    pkg = 'device/video/console'
    harness = [os.path.join(H, 'zz_verif_c19_test.go'), os.path.join(H, 'zz_verif_c19_vesa_test.go'), os.path.join(H, 'zz_verif_consts_test.go')]
    test = 'TestVerifC19$'
    rule = ('one console per case + 1..5 operations (Write / Fill / Scroll; framebuffer also SetFont / SetLogo / SetPaletteColor); 40% of the histories repeat an earlier operation verbatim after operations of one other kind (statefulness); '
            'arguments also floor(k*2^32/d)+{-1,0,1,2} for every constant d of the geometry the driver multiplies with (glyph width/height, bytes per pixel, pitch, width, height, grid size) and their pairwise products; '
            'text mode: 1x1, 1xN, Nx1, 2x2, 80x25, random <= 12x10; '
            'framebuffer: depth 8/15/16/24/32 (few invalid), colour-mask layouts (standard, random inside the pixel, few outside), '
            'synthetic fonts 8..16 wide (few outside) and the three shipped fonts, grids 1x1..4x4 with right/bottom margins, logo rows 0..11 / 64 / 96 / 128, '
            'pitch = row bytes or row bytes + 1..9 padding; arguments from {0,1,edge-1,edge,edge+1,edge+2,2^31-1,2^31,2^32-edge..,2^32-2,2^32-1,small,random 32-bit}; '
            'colours incl. 15/16/255; buffer between guard regions, content (incl. padding) pseudo-random; observable = status + whole buffer after every op; '
            'non-trivial = at least one op observed; distinct = distinct case vectors')
    assumptions = ['geometry: grid w,h >= 1; pitch >= w*bytespp; h*pitch < 2^32; font 8..16 wide, BytesPerRow = ceil(w/8), 256 glyphs; offsetY <= h; depth in 8/15/16/24/32; palette of 256 RGBA entries (as loadDefaultPalette builds it)',
                   'colour-mask layouts with mask size <= 8 and position+size within the bytes the driver writes per pixel (2 for 15/16 bpp, 3 for 24/32 bpp) are inside the monitor\'s quantifier; other layouts, fonts outside 8..16, grids without a cell, pitch < row bytes: agreement of model and code only',
                   'SetLogo is exercised for its effect on the geometry (offsetY) only; its drawing, setPaletteColor/replace16/24 and font/logo selection are not modelled',
                   'Scroll: the content of the vacated lines, of the margin right of / below the grid and the 4th byte of 32-bit pixels is not constrained by the monitor (the theorems state exactly what the model does there)']
    partial = ['C19_vesa_pixel_format_partial: the bytes written per 24/32-bit pixel hold the whole packed colour for mask layouts inside the low 24 bits; '
               'C19_full_vesa_pixel_format (every layout that fits a 32-bit pixel) is refuted by C19_vesa_pixel_format_refuted = known finding vesa:32bpp-high-byte-component-dropped; '
               'everything else (write_cell, fill_clip, scroll_lines, no_escape, grid refinement; both consoles) is proved in full']

    def gen_cases(self, rng, tier):
        n = {'quick': 1100, 'thorough': 25000, 'search': 3000}[tier]
        out = []
        for _ in range(n):
            if rng.random() < 0.4:
                out.append((gen_vga(rng), 'vga'))
            else:
                c = gen_vesa(rng)
                out.append((c, 'vesa%d' % c[3]))
        return out

    def explain(self, nums):
        return explain(nums)

    def nontrivial(self, nums, obs):
        return len(obs) > 1

    def shrink_candidates(self, nums):
        hdr, ops = split(nums)
        for j in range(len(ops)):
            yield hdr + [x for k, o in enumerate(ops) if k != j for x in o]


def split(nums):
    if not nums:
        return [], []
    k = 4 if nums[0] == 0 else 19
    hdr, rest = nums[:k], nums[k:]
    ops = []
    i = 0
    while i < len(rest):
        n = {0: 6, 1: 7, 2: 3, 3: 1, 4: 1, 5: 5}.get(rest[i])
        if n is None or i + n > len(rest):
            break
        ops.append(rest[i:i + n]); i += n
    return hdr, ops


def explain(nums):
    hdr, ops = split(nums)
    if not hdr:
        return ''
    if hdr[0] == 0:
        s = ['VgaTextConsole %dx%d seed=%d' % tuple(hdr[1:4])]
    else:
        s = ['VesaFbConsole ' + ' '.join('%d' % v for v in hdr[1:])]
    for o in ops:
        if o[0] == 0:
            s.append('Write(ch=%#x,fg=%d,bg=%d,x=%d,y=%d)' % tuple(o[1:]))
        elif o[0] == 1:
            s.append('Fill(x=%d,y=%d,w=%d,h=%d,fg=%d,bg=%d)' % tuple(o[1:]))
        elif o[0] == 2:
            s.append('Scroll(dir=%d,lines=%d)' % tuple(o[1:]))
        elif o[0] == 3:
            s.append('SetFont(same font)')
        elif o[0] == 4:
            s.append('SetLogo(same logo)')
        else:
            s.append('SetPaletteColor(%d, RGB %d,%d,%d)' % tuple(o[1:]))
    return ' ; '.join(s)


if __name__ == '__main__':
    sys.exit(flow.standard_check(C19(), sys.argv[1:]))
