import os, sys, re
sys.path.insert(0, os.path.join(os.path.dirname(os.path.abspath(__file__)), '..', 'lib'))
import vlib, flow, gen_trans
gen_trans.register('kfmt_fmt.json')   # Go -> Gallina translation of fmt.go: fmtRepeat/fmtBool/fmtString/fmtInt/Fprintf (Gen/Trans_kfmt_fmt.v, used by Kfmt/FmtTrans.v)

H = os.path.join(vlib.ROOT, 'harness/kernel/kfmt')
vlib.register_const_dump('kernel', 'kfmt', os.path.join(H, 'zz_verif_consts_test.go'))

M64 = (1 << 64) - 1
KINDS = ['uint8', 'uint16', 'uint32', 'uint64', 'uintptr', 'int8', 'int16', 'int32', 'int64', 'int']
BITS = [8, 16, 32, 64, 64, 8, 16, 32, 64, 64]
SIGNED = [False] * 5 + [True] * 5
WIDTHS = [None, None, None, 0, 1, 2, 3, 5, 8, 10, 19, 20, 21, 22, 23, 30, 31, 32, 33, 34, 64, 100, 1000]
OUT_LIMIT = 3 << 20          # the harness' sink holds 6 MiB


def wrap_int(z):
    return ((z + (1 << 63)) % (1 << 64)) - (1 << 63)


def int_values(rng, k):
    b = BITS[k]
    if SIGNED[k]:
        lo, hi = -(1 << (b - 1)), (1 << (b - 1)) - 1
        pool = [0, 1, -1, lo, hi, lo + 1, hi - 1, 7, 8, 9, 10, 15, 16, -7, -8, -9, -10, -15, -16, -100, 99, 100]
    else:
        lo, hi = 0, (1 << b) - 1
        pool = [0, 1, hi, hi - 1, 7, 8, 9, 10, 15, 16, 63, 64, 99, 100, 255, 256]
    r = rng.random()
    if r < 0.35:
        v = rng.choice(pool)
    elif r < 0.6:
        v = pow2_value(rng, k)
    elif r < 0.7:
        base = rng.choice([8, 10, 16])
        e = rng.randrange(0, 23)
        v = base ** e + rng.choice([-1, 0, 1])
        if SIGNED[k] and rng.random() < 0.5:
            v = -v
    else:
        v = rng.randrange(lo, hi + 1)
    v = max(lo, min(hi, v))
    return v


def pow2_value(rng, k):
    """2^a, 2^a +- 1, 2^a + 2^b (+-1) within the range of type k (negated half of the time for signed types)"""
    b = BITS[k]
    top = b - 1 if SIGNED[k] else b
    a = rng.randrange(1, top + 1)
    v = 1 << a
    if rng.random() < 0.35:
        v += 1 << rng.randrange(0, a)
    v += rng.choice([-1, 0, 0, 1])
    if SIGNED[k]:
        if rng.random() < 0.5:
            v = -v
        v = max(-(1 << (b - 1)), min((1 << (b - 1)) - 1, v))
    else:
        v = max(0, min((1 << b) - 1, v))
    return v


def ndigits(v, base):
    v = abs(v)
    n = 1
    while v >= base:
        v //= base; n += 1
    return n


def enc_arg(a):
    t = a[0]
    if t < 10:
        return [t, a[1] & M64]
    if t in (10, 11):
        return [t, len(a[1])] + list(a[1])
    if t == 12:
        return [12, 1 if a[1] else 0]
    return [13]


def rand_bytes(rng, n, alphabet=None):
    if alphabet == 'text':
        return [rng.choice(b'abcXYZ 09_-\n\t:[]().') for _ in range(n)]
    return [rng.randrange(256) for _ in range(n)]


def rand_arg(rng, want=None):
    """want: 'int' | 'str' | 'bool' | None (anything)"""
    if want is None:
        want = rng.choice(['int', 'int', 'str', 'bool', 'other'])
    if want == 'int':
        k = rng.randrange(10)
        return (k, int_values(rng, k))
    if want == 'str':
        n = rng.choice([0, 0, 1, 2, 3, 5, 8, 19, 20, 21, 31, 32, 33, 100, rng.randrange(0, 300)])
        if rng.random() < 0.01:
            n = rng.choice([2047, 2048, 4096, 20000])
        return (rng.choice([10, 11]), rand_bytes(rng, n, rng.choice(['text', None])))
    if want == 'bool':
        return (12, rng.random() < 0.5)
    return (13,)


def simulate_limits(fmt, args):
    """Tiny simulation of the scanner's padLen bookkeeping: an upper bound of the number of bytes a run
    writes, used only to keep generated cases cheap (the harness has a sink limit as well)."""
    total, i, ai, n = 0, 0, 0, len(fmt)
    while i < n:
        if fmt[i] != 0x25:
            total += 1; i += 1; continue
        pad = 0; i += 1
        while i < n:
            c = fmt[i]
            if c == 0x25:
                total += 1; break
            if 0x30 <= c <= 0x39:
                pad = wrap_int(pad * 10 + c - 0x30); i += 1; continue
            if c in b'dxost':
                if ai < len(args):
                    a = args[ai]; ai += 1
                    if c == 0x73 and a[0] in (10, 11):
                        total += max(0, wrap_int(pad - len(a[1]))) + len(a[1])
                    else:
                        total += 40
                else:
                    total += 9
                break
            total += 10; i += 1
        i += 1
    return total + 9 * len(args)


class C15(flow.Spec):
    prop = 'C15'
    props_files = ['theories/Props/C15.v', 'theories/Props/C15_examples.v', 'theories/Props/C15_trans.v', 'theories/Props/C15_trans_examples.v']
    model_targets = ['theories/Kfmt/Fmt.vo']
    pkg = 'kfmt'
    harness = [os.path.join(H, 'zz_verif_c15_test.go')]
    test = 'TestVerifC15$'
    rule = ('well-formed formats (literal text, %%, %[width]{d,x,o,s,t}; widths none/0/1/19..23/31..34/64/100/1000/random<=3000, '
            'a few 10^6; leading zeros) with matching / mistyped / missing / surplus arguments; integer values 0, +-1, min, max, '
            'min+1, max-1, base^k-1/base^k/base^k+1, 2^k / 2^k+-1 / 2^a+2^b and random for each of the ten integer types, plus a sweep over every (type, base, 2^k and 2^k+-1 for every k, both signs) with widths around the digit count; strings/byte slices of length '
            '0..300 (some 2047..20000); plus arbitrary-byte formats (unknown verbs, trailing %, %<digits>%, 15-25 digit widths that '
            'wrap the 64-bit int). non-trivial = at least one verb consumed an argument; distinct = distinct (format,args)')
    assumptions = ['"no heap allocation" is measured on the real code (testing.AllocsPerRun == 0 for every generated case with a '
                   'non-allocating writer, and the compiler escape report go build -gcflags=-m for kfmt), not proved',
                   'the io.Writer is modelled as the sequence of Write calls it receives; a writer that itself panics or re-enters Printf is outside the model',
                   'arguments are classified by dynamic type: the ten built-in integer types, string, []byte, bool, anything else']
    partial = ['C15 "formatting performs no heap allocation" is a property of the Go compiler output: measured by the harness '
               '(AllocsPerRun over every case) and by parsing the escape-analysis report, not proved in Coq']

    # ------------------------------------------------------------------ generators
    def wf_case(self, rng, big=False):
        pieces = rng.randrange(0, 7)
        fmt, args = [], []
        for _ in range(pieces):
            r = rng.random()
            if r < 0.3:
                fmt += [c for c in rand_bytes(rng, rng.randrange(1, 12), rng.choice(['text', 'text', None])) if c != 0x25]
            elif r < 0.38:
                fmt += [0x25, 0x25]
            else:
                w = rng.choice(WIDTHS)
                if rng.random() < 0.08:
                    w = rng.randrange(0, 3000)
                if big and rng.random() < 0.7:
                    w = rng.choice([1000000, 999999, 1000000, 65536])
                verb = rng.choice(b'ddxxoosst')
                fmt.append(0x25)
                if w is not None:
                    s = str(w)
                    if rng.random() < 0.1:
                        s = '0' * rng.randrange(1, 4) + s
                    fmt += list(s.encode())
                fmt.append(verb)
                want = {0x64: 'int', 0x78: 'int', 0x6f: 'int', 0x73: 'str', 0x74: 'bool'}[verb]
                args.append(rand_arg(rng, want if rng.random() < 0.85 else None))
        r = rng.random()
        if r < 0.12 and args:
            args = args[:rng.randrange(0, len(args))]
        elif r < 0.24:
            args += [rand_arg(rng) for _ in range(rng.randrange(1, 4))]
        return fmt, args

    def arb_case(self, rng, wrap=False):
        n = rng.randrange(0, 30)
        fmt = []
        for _ in range(n):
            r = rng.random()
            if r < 0.25:
                fmt.append(0x25)
            elif r < 0.45:
                if wrap and rng.random() < 0.5:
                    fmt += list(str(rng.choice([1 << 63, (1 << 63) - 1, (1 << 64) - 1, 1 << 64, rng.randrange(1 << 62, 1 << 70),
                                                 9223372036854775807, 9223372036854775808, 18446744073709551615,
                                                 18446744073709551616 + rng.randrange(0, 40)])).encode())
                else:
                    fmt.append(rng.choice(b'0123456789'))
            elif r < 0.7:
                fmt.append(rng.choice(b'dxost'))
            elif r < 0.9:
                fmt.append(rng.choice(b'abcDXOSTz .-+#*\n'))
            else:
                fmt.append(rng.randrange(256))
        args = [rand_arg(rng) for _ in range(rng.randrange(0, 6))]
        return fmt, args

    def sweep_cases(self, rng, tier):
        """Every (integer type, base, 2^k and 2^k +- 1 for every k of the type, both signs) conversion, with a
        width drawn around the digit count; plus sums 2^a + 2^b. 16 conversions per case."""
        convs = []
        for k in range(10):
            b = BITS[k]
            top = b - 1 if SIGNED[k] else b
            vals = set()
            for a in range(1, top + 1):
                for d in (-1, 0, 1):
                    vals.add((1 << a) + d)
            nsum = {'quick': 40, 'thorough': 400, 'search': 120}[tier]
            for _ in range(nsum):
                a = rng.randrange(2, top + 1)
                vals.add((1 << a) + (1 << rng.randrange(0, a)) + rng.choice([-1, 0, 0, 0, 1]))
            lo, hi = (-(1 << (b - 1)), (1 << (b - 1)) - 1) if SIGNED[k] else (0, (1 << b) - 1)
            for v in sorted(vals):
                for sv in ((v, -v) if SIGNED[k] else (v,)):
                    sv = max(lo, min(hi, sv))
                    for verb, base in ((0x64, 10), (0x78, 16), (0x6f, 8)):
                        convs.append((k, sv, verb, base))
        rng.shuffle(convs)
        out = []
        for i in range(0, len(convs), 16):
            fmt, args = [], []
            for (k, v, verb, base) in convs[i:i + 16]:
                nd = ndigits(v, base) + (1 if v < 0 else 0)
                w = rng.choice([None, None, 0, 1, max(nd - 2, 0), max(nd - 1, 0), nd, nd + 1, nd + 2, 31, 32, rng.randrange(0, 36)])
                fmt.append(0x25)
                if w is not None:
                    fmt += list(str(w).encode())
                fmt += [verb, 0x7c]
                args.append((k, v))
            out.append((self.encode(fmt, args), 'pow2-sweep'))
        return out

    def gen_cases(self, rng, tier):
        n = {'quick': 1500, 'thorough': 40000, 'search': 4000}[tier]
        nbig = {'quick': 3, 'thorough': 12, 'search': 2}[tier]
        out = []
        while len(out) < n:
            r = rng.random()
            if r < 0.62:
                fmt, args = self.wf_case(rng); note = 'wellformed'
            elif r < 0.9:
                fmt, args = self.arb_case(rng); note = 'arbitrary'
            else:
                fmt, args = self.arb_case(rng, wrap=True); note = 'wrap'
            if simulate_limits(fmt, args) > 200000:
                continue
            out.append((self.encode(fmt, args), note))
        out += self.sweep_cases(rng, tier)
        k = 0
        while k < nbig:
            fmt, args = self.wf_case(rng, big=True)
            if not (100000 < simulate_limits(fmt, args) < OUT_LIMIT):
                continue
            out.append((self.encode(fmt, args), 'bigwidth')); k += 1
        return out

    @staticmethod
    def encode(fmt, args):
        nums = [len(fmt)] + list(fmt) + [len(args)]
        for a in args:
            nums += enc_arg(a)
        return nums

    @staticmethod
    def decode(nums):
        try:
            n = nums[0]; fmt = nums[1:1 + n]; i = 1 + n
            na = nums[i]; i += 1
            args = []
            while i < len(nums):
                t = nums[i]
                if t in (10, 11):
                    ln = nums[i + 1]; args.append((t, nums[i + 2:i + 2 + ln])); i += 2 + ln
                elif t == 12:
                    args.append((12, nums[i + 1] != 0)); i += 2
                elif t == 13:
                    args.append((13,)); i += 1
                else:
                    v = nums[i + 1]
                    k = min(t, 9)
                    v &= (1 << BITS[k]) - 1
                    if SIGNED[k] and v >> (BITS[k] - 1):
                        v -= 1 << BITS[k]
                    args.append((k, v)); i += 2
            return fmt, args
        except IndexError:
            return None, None

    def explain(self, nums):
        fmt, args = self.decode(nums)
        if fmt is None:
            return 'undecodable'
        s = []
        for a in args:
            if a[0] < 10:
                s.append('%s(%d)' % (KINDS[a[0]], a[1]))
            elif a[0] == 10:
                s.append('string(%r)' % bytes(a[1])[:60])
            elif a[0] == 11:
                s.append('[]byte(%r)' % bytes(a[1])[:60])
            elif a[0] == 12:
                s.append('true' if a[1] else 'false')
            else:
                s.append('<other type>')
        return 'Fprintf(w, %r, %s)' % (bytes(fmt), ', '.join(s))

    def nontrivial(self, nums, obs):
        fmt, args = self.decode(nums)
        return bool(fmt) and bool(args) and obs[:1] == ['0'] and 0x25 in fmt

    @staticmethod
    def conversions(fmt):
        """[(start, end)] of %[digits]verb conversions when the format is well-formed, else None"""
        out, i = [], 0
        while i < len(fmt):
            if fmt[i] != 0x25:
                i += 1; continue
            j = i + 1
            if j < len(fmt) and fmt[j] == 0x25:
                i = j + 1; continue
            while j < len(fmt) and 0x30 <= fmt[j] <= 0x39:
                j += 1
            if j >= len(fmt) or fmt[j] not in b'dxost':
                return None
            out.append((i, j + 1)); i = j + 1
        return out

    def shrink_candidates(self, nums):
        fmt, args = self.decode(nums)
        if fmt is None:
            return
        convs = self.conversions(fmt)
        if convs and len(convs) == len(args):
            # keep one conversion with its argument; drop one conversion with its argument
            if len(convs) > 1:
                for j, (a, b) in enumerate(convs):
                    yield self.encode(fmt[a:b], [args[j]])
                for j, (a, b) in enumerate(convs):
                    yield self.encode(fmt[:a] + fmt[b:], args[:j] + args[j + 1:])
            # drop the width of a conversion
            for j, (a, b) in enumerate(convs):
                if b - a > 2:
                    yield self.encode(fmt[:a + 1] + fmt[b - 1:], args)
        for j in range(len(args)):
            yield self.encode(fmt, args[:j] + args[j + 1:])
        for j in range(len(fmt)):
            yield self.encode(fmt[:j] + fmt[j + 1:], args)
        for j, a in enumerate(args):
            if a[0] in (10, 11) and len(a[1]) > 1:
                yield self.encode(fmt, args[:j] + [(a[0], a[1][:len(a[1]) // 2])] + args[j + 1:])

    # ------------------------------------------------------------------ escape analysis report
    def extra_checks(self, ctx):
        src = os.path.join(vlib.REPO, 'kernel/kfmt/fmt.go')
        lines = open(src).read().split('\n')
        funcs = {}          # name -> (decl line, end line, writer param names)
        watched = ('Printf', 'Fprintf', 'fmtInt', 'fmtString', 'fmtBool', 'fmtRepeat', 'doWrite')
        for i, ln in enumerate(lines):
            m = re.match(r'func (\w+)\((.*?)\)', ln)
            if m and m.group(1) in watched:
                end = i
                while end + 1 < len(lines) and not lines[end + 1].startswith('}'):
                    end += 1
                writers = set(re.findall(r'(\w+)\s+io\.Writer', m.group(2)))
                funcs[m.group(1)] = (i + 1, end + 2, writers)
        missing = [f for f in watched if f not in funcs and f != 'fmtRepeat']
        rc, out, _ = vlib.sh(['go', 'build', '-gcflags=-m', './kfmt'], cwd=os.path.join(vlib.REPO, 'kernel'), env=vlib.GOENV, timeout=300)
        if rc != 0:
            return [('c15:escape-report-unavailable', 'go build -gcflags=-m ./kfmt failed: ' + out[-600:], None)]
        bad = []
        seen = 0
        for d in out.split('\n'):
            m = re.match(r'(?:\./)?kfmt/fmt\.go:(\d+):(\d+): (.*)$', d.strip())
            if not m:
                continue
            ln, msg = int(m.group(1)), m.group(3)
            for name, (lo, hi, writers) in funcs.items():
                if not (lo <= ln <= hi):
                    continue
                seen += 1
                if 'escapes to heap' in msg or 'moved to heap' in msg:
                    bad.append('%s: %s' % (name, d.strip()))
                mm = re.match(r'leaking param(?: content)?: (\w+)', msg)
                if mm and ln == lo and mm.group(1) not in writers:
                    bad.append('%s: %s' % (name, d.strip()))
        res = []
        if missing or seen == 0:
            res.append(('c15:escape-report-unavailable', 'could not locate %s in fmt.go / no diagnostics (%d) in the escape report' % (missing, seen), None))
        if bad:
            res.append(('c15:escapes-to-heap', 'the compiler escape report flags formatter arguments as escaping to the heap: ' + ' | '.join(bad[:6]),
                        dict(command='cd kernel && go build -gcflags=-m ./kfmt', flagged=bad)))
        return res


if __name__ == '__main__':
    sys.exit(flow.standard_check(C15(), sys.argv[1:]))
