import os, sys, struct
sys.path.insert(0, os.path.join(os.path.dirname(os.path.abspath(__file__)), '..', 'lib'))
import vlib, flow

H = os.path.join(vlib.ROOT, 'harness/kernel/multiboot')
vlib.register_const_dump('kernel', 'multiboot', os.path.join(H, 'zz_verif_consts_test.go'))
import gen_trans
gen_trans.register('pmm_boot.json')    # C02's translation of BootMemAllocator.AllocFrame: Props/C10_C02_trans.v composes it with VisitMemRegions
vlib.register_const_dump('kernel', 'mm/pmm', os.path.join(vlib.ROOT, 'harness/kernel/mm/pmm', 'zz_verif_consts_test.go'))   # (same registration as checks/C02.py)
for _cfg in ('mm_vmm.json', 'vmm_pdt.json', 'vmm_map.json', 'vmm_kernel.json'):   # C05's translation of setupPDTForKernel (+ what Vmm/KernelTrans.v needs): Props/C10_C05_trans.v composes it with VisitElfSections
    gen_trans.register(_cfg)
vlib.register_const_dump('kernel', 'mm/vmm', os.path.join(vlib.ROOT, 'harness/kernel/mm/vmm', 'zz_verif_consts_test.go'))   # (same registration as checks/pt_common.py)
gen_trans.register('multiboot.json')   # Go -> Gallina translation of findTagByType / VisitMemRegions / GetFramebufferInfo / VisitElfSections (Gen/Trans_multiboot.v, used by Multiboot/DecodeTrans*.v)

# must match the harness (zz_verif_c10_test.go): data areas inside the two PROT_NONE reservations
BLK_DATA = 0x200000000000 + (8 << 30)
STR_DATA = 0x300000000000 + (8 << 30)
AREA = 4 << 20
M64 = (1 << 64) - 1
M32 = (1 << 32) - 1
NEVER = 0xffff            # "stop" value: the visitor never returns false

WS = [9, 10, 11, 12, 13, 32]
# the other white-space code points of unicode.IsSpace, UTF-8 encoded (Model.v: unicode_spaces)
USPACES = [list(chr(c).encode('utf8')) for c in [0x85, 0xa0, 0x1680] + list(range(0x2000, 0x200b)) + [0x2028, 0x2029, 0x202f, 0x205f, 0x3000]]


def le(v, n):
    return [(v >> (8 * i)) & 255 for i in range(n)]


# ---- python mirror of Spec.v:encode (the Coq model re-checks every generated block against the extracted encode) ----
def payload(t):
    k = t[0]
    if k == 'mm':
        _, esz, ever, es = t
        out = le(esz, 4) + le(ever, 4)
        for (a, l, ty, tail) in es:
            out += le(a, 8) + le(l, 8) + le(ty, 4) + list(tail)
        return out
    if k == 'fb':
        _, a, p, w, h, bpp, ty, rs, col = t
        return le(a, 8) + le(p, 4) + le(w, 4) + le(h, 4) + [bpp, ty] + le(rs, 2) + list(col)
    if k == 'cmd':
        _, lead, es = t
        out = list(lead)
        for (e, ws) in es:
            out += (list(e[1]) + [61] + list(e[2])) if e[0] == 'kv' else list(e[1])
            out += list(ws)
        return out + [0]
    if k == 'elf':
        _, en, sh, secs = t
        out = le(len(secs), 4) + le(en, 4) + le(sh, 4)
        for s in secs:
            out += le(s[0], 4) + le(s[1], 4) + le(s[2], 8) + le(s[3], 8) + le(s[4], 8) + le(s[5], 8) + le(s[6], 4) + le(s[7], 4) + le(s[8], 8) + le(s[9], 8)
        return out
    return list(t[2])


TAGTYPE = {'mm': 6, 'fb': 8, 'cmd': 1, 'elf': 9}


def tag_type(t):
    return TAGTYPE.get(t[0]) if t[0] != 'other' else t[1]


def pad_len(n):
    return (8 - n % 8) % 8


def encode(mb):
    body = []
    for (t, pad) in mb['tags']:
        p = payload(t)
        body += le(tag_type(t), 4) + le(8 + len(p), 4) + p + list(pad)
    body += le(0, 4) + le(8, 4)
    return le(8 + len(body), 4) + le(mb['reserved'], 4) + body


def L(l):
    return [len(l)] + list(l)


def flat(mb):
    out = [mb['reserved'], len(mb['tags'])]
    for (t, pad) in mb['tags']:
        k = t[0]
        if k == 'mm':
            out += [6, t[1], t[2], len(t[3])]
            for (a, l, ty, tail) in t[3]:
                out += [a, l, ty] + L(tail)
        elif k == 'fb':
            out += [8] + list(t[1:8]) + L(t[8])
        elif k == 'cmd':
            out += [1] + L(t[1]) + [len(t[2])]
            for (e, ws) in t[2]:
                out += ([0] + L(e[1]) + L(e[2])) if e[0] == 'kv' else ([1] + L(e[1]))
                out += L(ws)
        elif k == 'elf':
            out += [9, t[1], t[2], len(t[3])]
            for s in t[3]:
                out += list(s)
        else:
            out += [100, t[1]] + L(t[2])
        out += L(pad)
    return out


def unflat(nums):
    it = iter(nums)
    nx = lambda: next(it, 0)
    lst = lambda: [nx() for _ in range(nx())]
    mb = {'reserved': nx(), 'tags': []}
    for _ in range(nx()):
        k = nx()
        if k == 6:
            esz, ever = nx(), nx()
            es = []
            for _ in range(nx()):
                a, l, ty = nx(), nx(), nx()
                es.append((a, l, ty, lst()))
            t = ('mm', esz, ever, es)
        elif k == 8:
            f = [nx() for _ in range(7)]
            t = tuple(['fb'] + f + [lst()])
        elif k == 1:
            lead = lst()
            es = []
            for _ in range(nx()):
                if nx() == 0:
                    kk = lst()
                    e = ('kv', kk, lst())
                else:
                    e = ('bare', lst())
                es.append((e, lst()))
            t = ('cmd', lead, es)
        elif k == 9:
            en, sh = nx(), nx()
            t = ('elf', en, sh, [tuple(nx() for _ in range(10)) for _ in range(nx())])
        else:
            ty = nx()
            t = ('other', ty, lst())
        mb['tags'].append((t, lst()))
    return mb


def make_case(kind, stop, blk, strtab, rng, mb=None, base=None, sbase=None):
    npre = (-len(blk)) % 4096
    if rng.random() < 0.1 and len(blk) > 0:
        npre += 4096
    if base is None:
        base = BLK_DATA + 4096 * rng.randrange(0, 64)
    nspre = (-len(strtab)) % 4096 if strtab else 0
    if sbase is None:
        sbase = STR_DATA + 4096 * rng.randrange(0, 64)
    nums = [kind, stop, base, npre] + L(blk) + [sbase, nspre] + L(strtab)
    if mb is not None:
        nums += flat(mb)
    return nums


def split_case(nums):
    kind, stop, base, npre = nums[0:4]
    n = nums[4]
    blk = nums[5:5 + n]
    i = 5 + n
    sbase, nspre, ns = nums[i:i + 3]
    strtab = nums[i + 3:i + 3 + ns]
    return dict(kind=kind, stop=stop, base=base, npre=npre, blk=blk, sbase=sbase, nspre=nspre, strtab=strtab, rest=nums[i + 3 + ns:])


class C10(flow.Spec):
    prop = 'C10'
    props_files = ['theories/Props/C10.v', 'theories/Props/C10_examples.v',
                   'theories/Props/C10_trans.v', 'theories/Props/C10_trans_examples.v',
                   'theories/Props/C10_C02_trans.v', 'theories/Props/C10_C02_trans_examples.v',
                   'theories/Props/C10_C05_trans.v', 'theories/Props/C10_C05_trans_examples.v']
    model_targets = ['theories/Multiboot/Case.vo']
    pkg = 'multiboot'
    harness = [os.path.join(H, 'zz_verif_c10_test.go')]
    test = 'TestVerifC10$'
    go_timeout = 900
    rule = ('information blocks laid out by a Python mirror of the Coq encoder (every block is re-checked against the extracted Coq `encode` as part of '
            'the observation) from generated mbinfos: 0-8 tags in random order incl. duplicates and opaque tags of sizes 0-40, memory maps with entry '
            'size 24..48 and 0-12 entries whose types are drawn from {0,1,2,3,4,5,6,0x7fffffff,0xffffffff,random}, indexed/RGB/EGA/other framebuffers, '
            'command lines of ASCII key=value / bare entries with duplicates separated by ASCII or other Unicode white space, opaque tag types aliasing defined types modulo 2^8/2^16/2^24/2^k, ELF tables of 0-12 sections with shared-suffix names; placed with the last '
            'byte before PROT_NONE memory; the visitor stops after a random number of calls; second stream: the same blocks truncated / with boundary '
            'values written into size, entry-size, count and string-table fields (agreement only); non-trivial = at least one region, section or key reported')
    assumptions = ['memory model: two accessible segments (block incl. the zero bytes of the rest of its first page; string table), every load that is not entirely inside one segment is a Stray; the harness realises exactly this with fixed-address mappings inside two large PROT_NONE reservations and debug.SetPanicOnFault',
                   'command-line keys/values/flags are ASCII without NUL; the separators are any white space of unicode.IsSpace (ASCII or UTF-8 encoded U+0085, U+00A0, U+1680, U+2000-200A, U+2028/9, U+202F, U+205F, U+3000); non-ASCII bytes inside words and tokens with two or more `=` are outside the well-formed set (agreement-tested; the model follows Go byte for byte: invalid UTF-8 is never white space)',
                   'unaligned loads are allowed (amd64); the ELF tag layout is the one of the Go struct / GRUB (u32 num, u32 entsize, u32 shndx), entry size 64',
                   'blocks are generated by a Python mirror of `encode`; the Coq model recomputes `encode` on the attached mbinfo and the observation carries the comparison flag, so a divergence between the two encoders breaks the correspondence',
                   'translation tie (Props/C10_trans.v, Props/C10_C02_trans.v, Props/C10_C05_trans.v): findTagByType, VisitMemRegions, GetFramebufferInfo and VisitElfSections of the model are proved equal to the Gallina term gen/gotrans regenerates from multiboot.go on every run (struct pointers as addresses, field reads as loads at offsets computed from the struct declarations and cross-checked against unsafe.Offsetof of the Go compiler), for every memory whose cells are bytes; trusted there: the translator (gen/gotrans incl. ext_mb.go), Lib/GoOps.v + gsext, little-endian loads, and the contract of the visitor seam (it reads the entry / string presented and does not write the block; the Len of a string header is taken as unsigned); GetBootCmdLine and RGBColorInfo are not translated',
                   'findTagByType on a malformed block can loop forever; the harness predicts this with its own bounded walk (same bound as the model fuel) and does not call the decoder then']

    # ---- generators --------------------------------------------------------------------
    def u64(self, rng, safe):
        if safe:   # values that are harmless when a malformed block makes the kernel use them as addresses
            return rng.choice([0, 1, 0x100000, 0x9fc00, rng.randrange(0, 0x400000), 0xfd000000, rng.randrange(1 << 47, 1 << 64), M64, 1 << 63])
        return rng.choice([0, 1, 0x100000, 0x9fc00, 0x7fe0000, rng.randrange(0, 1 << 32), rng.randrange(0, 1 << 64), M64, 1 << 63, M64 - 4095])

    def gen_word(self, rng, allow_empty=False):
        n = rng.choice([0] if allow_empty and rng.random() < 0.2 else [1, 1, 2, 3, 5, 9])
        return [rng.choice([rng.randrange(33, 61), rng.randrange(62, 127), 1, 127]) if rng.random() < 0.1 else rng.choice(b'abcxyzABC019_-./:,')
                for _ in range(n)]

    def gen_ws(self, rng, allow_empty=False):
        n = rng.choice([0, 1] if allow_empty else [1, 1, 1, 2, 3])
        out = []
        for _ in range(n):
            out += rng.choice(USPACES) if rng.random() < 0.3 else [rng.choice(WS)]
        return out

    def gen_strtab(self, rng, nsec):
        names = [b'', b'.text', b'.rodata', b'.data', b'.bss', b'.shstrtab', b'.symtab', b'.strtab', b'.noptrdata', b'.goredirectstbl', b'x', b'\xc3\xa9\x01\xff']
        tab = [0]
        idx = [0]
        for _ in range(nsec):
            nm = rng.choice(names)
            start = len(tab)
            tab += list(nm) + [0]
            idx.append(start + (rng.randrange(0, len(nm) + 1) if rng.random() < 0.3 else 0))
        idx.append(len(tab) - 1)
        return tab, idx

    def gen_mbinfo(self, rng, safe=False):
        """-> (mb, strtab bytes, saddr) ; saddr chosen here because the block contains it"""
        tags = []
        ntags = rng.choice([0, 1, 2, 3, 4, 4, 5, 6, 8])
        strtab = []
        sbase = STR_DATA + 4096 * rng.randrange(0, 64)
        saddr = 0
        have_elf = False
        for _ in range(ntags):
            r = rng.random()
            if r < 0.28:
                esz = rng.choice([24, 24, 24, 24, 25, 28, 31, 32, 40, 48])
                es = []
                for _ in range(rng.choice([0, 1, 2, 3, 5, 8, 12])):
                    ty = rng.choice([0, 1, 1, 1, 2, 3, 4, 5, 5, 6, 7, 0x7fffffff, 0x80000000, M32, rng.randrange(0, 1 << 32)])
                    es.append((self.u64(rng, safe), self.u64(rng, safe), ty, [rng.randrange(256) if not safe else 0 for _ in range(esz - 20)]))
                t = ('mm', esz, rng.choice([0, 0, 1, M32]), es)
            elif r < 0.46:
                ty = rng.choice([0, 1, 1, 1, 2, 3, 255])
                if ty == 1:
                    col = [rng.randrange(256) for _ in range(6)] + [rng.randrange(256) for _ in range(rng.choice([0, 0, 0, 2, 10]))]
                elif ty == 0:
                    n = rng.choice([0, 1, 2, 16])
                    col = le(n, 4) + [rng.randrange(256) for _ in range(3 * n)]
                else:
                    col = [rng.randrange(256) for _ in range(rng.choice([0, 0, 1, 6, 7]))]
                t = ('fb', self.u64(rng, safe), rng.randrange(0, 1 << 32) if not safe else 4096, rng.choice([0, 80, 1024, M32]), rng.choice([0, 25, 768, M32]),
                     rng.choice([0, 8, 15, 16, 24, 32, 255]), ty, rng.choice([0, 0, 0xffff]) if not safe else 0, col)
            elif r < 0.64:
                es = []
                keys = [self.gen_word(rng, True) for _ in range(3)]
                n = rng.choice([0, 1, 2, 3, 4, 7])
                for i in range(n):
                    if rng.random() < 0.55:
                        k = rng.choice(keys) if rng.random() < 0.4 else self.gen_word(rng, True)
                        e = ('kv', k, self.gen_word(rng, True))
                    else:
                        e = ('bare', rng.choice([k for k in keys if k] or [[97]]) if rng.random() < 0.3 else self.gen_word(rng))
                    es.append((e, self.gen_ws(rng, allow_empty=(i == n - 1))))
                t = ('cmd', self.gen_ws(rng, True), es)
            elif r < 0.80 and not have_elf:
                have_elf = True
                nsec = rng.choice([0, 1, 1, 2, 3, 5, 8, 12])
                strtab, idx = self.gen_strtab(rng, nsec)
                saddr = sbase + ((-len(strtab)) % 4096)
                # an empty section table has no string-table section: the index is then meaningless (0 as GRUB writes it)
                sh = rng.randrange(nsec) if nsec else 0
                elf_last = (nsec == 0 and rng.random() < 0.7)
                secs = []
                for i in range(nsec):
                    size = 0 if rng.random() < 0.25 else rng.choice([1, 0x1000, self.u64(rng, safe) or 1])
                    name = rng.choice(idx)
                    addr = self.u64(rng, safe)
                    if i == sh:
                        addr = saddr
                        if rng.random() < 0.8:
                            size = len(strtab)
                    secs.append((name, rng.choice([0, 1, 3, 8]), rng.choice([0, 2, 3, 6, 7, rng.randrange(0, 1 << 64)]) if not safe else rng.choice([0, 2, 6]), addr,
                                 self.u64(rng, safe), size, rng.randrange(0, 8), 0, rng.choice([0, 1, 16, 4096]), self.u64(rng, True) & 0xff))
                t = ('elf', 64, sh, secs)
            else:
                ty = rng.choice([2, 3, 4, 5, 7, 10, 14, 21, 0xffff, M32, rng.randrange(10, 1 << 32)])
                if rng.random() < 0.45:
                    # vendor / future tag types that alias the end tag or a decoded tag when only part of the 32-bit type is compared
                    lowbits = rng.choice([8, 16, 24, 31, rng.randrange(1, 32)])
                    hi = rng.choice([1, 1, 2, 3, 0x80, 0xff, rng.randrange(1, 1 << (32 - lowbits))]) % (1 << (32 - lowbits)) or 1
                    ty = (hi << lowbits) | rng.choice([0, 1, 6, 8, 9])
                if ty in (0, 1, 6, 8, 9):
                    ty = 2
                t = ('other', ty, [rng.randrange(256) if not safe else rng.choice([0, 1, 2]) for _ in range(rng.choice([0, 0, 1, 4, 7, 8, 9, 12, 20, 40]))])
            p = payload(t)
            tags.append((t, [rng.randrange(256) if not safe else 0 for _ in range(pad_len(8 + len(p)))]))
        if have_elf and locals().get('elf_last'):
            # the empty ELF tag directly before the terminator: nothing but the 8-byte end tag lies between it and the
            # PROT_NONE page that follows the block
            k = [i for i, (t, _) in enumerate(tags) if t[0] == 'elf'][0]
            tags.append(tags.pop(k))
        mb = {'reserved': rng.choice([0, 0, M32]) if not safe else 0, 'tags': tags}
        return mb, strtab, sbase

    def gen_wf_case(self, rng):
        mb, strtab, sbase = self.gen_mbinfo(rng)
        nreg = max([len(t[3]) for (t, _) in mb['tags'] if t[0] == 'mm'] + [0])
        stop = NEVER if rng.random() < 0.6 else rng.randrange(0, nreg + 2)
        return make_case(0, stop, encode(mb), strtab, rng, mb=mb, sbase=sbase)

    def tag_offsets(self, mb):
        """offset of each tag header inside the block"""
        offs = []
        o = 8
        for (t, pad) in mb['tags']:
            offs.append((o, t))
            o += 8 + len(payload(t)) + len(pad)
        return offs, o

    def gen_malformed_case(self, rng):
        mb, strtab, sbase = self.gen_mbinfo(rng, safe=True)
        blk = encode(mb)
        strtab = list(strtab)
        offs, endoff = self.tag_offsets(mb)
        base = BLK_DATA + 4096 * rng.randrange(0, 64)
        # the block address is needed for "string table inside the block"; layout is fixed first
        pool32 = [0, 1, 2, 3, 4, 5, 6, 7, 8, 9, 12, 15, 16, 17, 20, 23, 24, 25, 32, 63, 64, 65, 0x7ffffff8, 0x7ffffff9, 0x7fffffff, 0x80000000, 0xfffffff0,
                  0xfffffff1, 0xfffffff8, 0xfffffff9, 0xffffffff, rng.randrange(0, 4096), len(blk), len(blk) - 8, len(blk) + 8]

        def put(off, v, n=4):
            for i, b in enumerate(le(v, n)):
                if 0 <= off + i < len(blk):
                    blk[off + i] = b
        notes = []
        for _ in range(rng.choice([1, 1, 2, 3])):
            m = rng.randrange(9)
            if m == 0 and offs:        # tag size field
                o, t = rng.choice(offs)
                sz = 8 + len(payload(t))
                v = rng.choice(pool32 + [sz - 1, sz + 1, sz - 8, sz + 8, sz + 7, len(blk) - o, len(blk) - o + 1, len(blk) - o - 8])
                put(o + 4, v & M32)
                notes.append('size')
            elif m == 1:               # random dword
                if len(blk) >= 4:
                    put(4 * rng.randrange(0, len(blk) // 4), rng.choice(pool32))
                notes.append('dword')
            elif m == 2:               # truncate
                cut = rng.choice([0, 4, 8, 12, 16, rng.randrange(0, len(blk) + 1), max(len(blk) - 8, 0), max(len(blk) - 1, 0), max(len(blk) - 4, 0)])
                del blk[cut:]
                notes.append('truncate')
            elif m == 3:               # memory map entry size
                mm = [(o, t) for (o, t) in offs if t[0] == 'mm']
                if mm:
                    o, t = rng.choice(mm)
                    put(o + 8, rng.choice([0, 1, 4, 8, 16, 20, 23, t[1] + 1, t[1] * 2, t[1] - 1, 0xffffffff, 0x80000000]))
                notes.append('esz')
            elif m == 4:               # end tag
                put(endoff, rng.choice([1, 2, 6, 9, 0xffffffff]))
                if rng.random() < 0.5:
                    put(endoff + 4, rng.choice([0, 8, 16, 0xfffffff8]))
                notes.append('end')
            elif m == 5:               # ELF counters
                el = [(o, t) for (o, t) in offs if t[0] == 'elf']
                if el:
                    o, t = rng.choice(el)
                    n = len(t[3])
                    which = rng.randrange(3)
                    if which == 0:
                        put(o + 8, rng.choice([n + 1, n + 2, 0xffff, 0x10000 + n, 0]))
                    elif which == 1:
                        put(o + 16, rng.choice([n, n + 1, 0xffff, 0x10000, 0xffffffff, 0x7fffffff]))
                    elif n:
                        s = rng.randrange(n)
                        put(o + 20 + 64 * s, rng.choice([len(strtab) - 1, len(strtab), len(strtab) + 1, 4096, 0xffffffff, 0x80000000]))
                notes.append('elfcount')
            elif m == 6:               # string table address / termination
                el = [(o, t) for (o, t) in offs if t[0] == 'elf']
                if el and strtab:
                    o, t = rng.choice(el)
                    sh = t[2]
                    saddr = sbase + ((-len(strtab)) % 4096)
                    if rng.random() < 0.5:
                        info = base + ((-len(blk)) % 4096)
                        v = rng.choice([0, 8, saddr + 1, saddr - 1, saddr + len(strtab) - 1, saddr + len(strtab), saddr - 4096, info, info + 8, info + len(blk) - 1,
                                        1 << 63, M64, (1 << 47), saddr + (1 << 32)])
                        put(o + 20 + 64 * sh + 16, v, 8)
                    else:
                        strtab[-1] = rng.choice([1, 65])
                        if rng.random() < 0.5:
                            strtab[rng.randrange(len(strtab))] = rng.choice([0, 66])
                notes.append('strtab')
            elif m == 7:               # command line oddities
                cm = [(o, t) for (o, t) in offs if t[0] == 'cmd']
                if cm:
                    o, t = rng.choice(cm)
                    n = len(payload(t))
                    for _ in range(rng.choice([1, 2, 4])):
                        if n:
                            if rng.random() < 0.4:   # (pieces of) Unicode white space, other multi-byte runes, invalid UTF-8
                                seq = rng.choice(USPACES + [[0xe2, 0x80, 0x8b], [0xe2, 0x80], [0xc2], [0xc2, 0x84], [0xe1, 0x9a, 0x81], [0xe3, 0x80, 0x81], [0xf0, 0x9f, 0x98, 0x80], [0xe2, 0x81, 0xa0]])
                                at = rng.randrange(n)
                                for q, bb in enumerate(seq):
                                    if at + q < n:
                                        put(o + 8 + at + q, bb, 1)
                            else:
                                put(o + 8 + rng.randrange(n), rng.choice([0, 61, 61, 32, 0xc3, 0xa9, 0xff, 0x80, 0x85, 0xa0, 0xc2, 0xe2, 65]), 1)
                notes.append('cmd')
            else:                      # tag type field
                if offs:
                    o, t = rng.choice(offs)
                    put(o, rng.choice([0, 1, 6, 8, 9, 2, 0xffffffff]))
                notes.append('type')
        stop = NEVER if rng.random() < 0.7 else rng.randrange(0, 4)
        return make_case(1, stop, blk, strtab, rng, base=base, sbase=sbase), '+'.join(notes)

    def gen_cases(self, rng, tier):
        n = {'quick': 1200, 'thorough': 30000, 'search': 2500}[tier]
        out = []
        for i in range(n):
            out.append((self.gen_wf_case(rng), 'wellformed'))
        for i in range(n // 2):
            c, note = self.gen_malformed_case(rng)
            out.append((c, 'malformed:' + note))
        return out

    # ---- reporting ---------------------------------------------------------------------
    def explain(self, nums):
        if len(nums) < 8:
            return ''
        c = split_case(nums)
        s = 'kind=%d stop=%#x info=%#x block=%d bytes, string table %d bytes at %#x' % (c['kind'], c['stop'], c['base'] + c['npre'], len(c['blk']),
                                                                                        len(c['strtab']), c['sbase'] + c['nspre'])
        if c['kind'] == 0:
            mb = unflat(c['rest'])
            parts = []
            for (t, pad) in mb['tags']:
                if t[0] == 'mm':
                    parts.append('memmap(esz=%d, %s)' % (t[1], ['%#x+%#x:%d' % (a, l, ty) for (a, l, ty, _) in t[3]]))
                elif t[0] == 'fb':
                    parts.append('fb(type=%d %dx%d bpp=%d color=%s)' % (t[6], t[3], t[4], t[5], t[8][:6]))
                elif t[0] == 'cmd':
                    parts.append('cmdline(%r)' % bytes(x & 255 for x in payload(t)[:-1]))
                elif t[0] == 'elf':
                    parts.append('elf(shndx=%d, %s)' % (t[2], [(s[0], '%#x' % s[2], '%#x' % s[3], '%#x' % s[5]) for s in t[3]]))
                else:
                    parts.append('other(type=%d, %d bytes)' % (t[1], len(t[2])))
            s += ' tags: ' + ' ; '.join(parts)
        else:
            s += ' block=' + bytes(x & 255 for x in c['blk'][:400]).hex()
        return s[:3000]

    def nontrivial(self, nums, obs):
        # obs: flag, mem code, nregions, ...
        try:
            return len(obs) > 3 and (int(obs[2], 16) > 0 or len(obs) > 20)
        except ValueError:
            return False

    def classify(self, nums, note):
        return note

    def shrink_candidates(self, nums):
        c = split_case(nums)
        if c['kind'] != 0:
            return
        mb = unflat(c['rest'])
        import random
        rng = random.Random(1)

        def rebuild(mb2):
            return make_case(0, c['stop'], encode(mb2), c['strtab'], rng, mb=mb2, base=BLK_DATA, sbase=c['sbase'])
        tags = mb['tags']
        for i in range(len(tags)):
            yield rebuild({'reserved': mb['reserved'], 'tags': tags[:i] + tags[i + 1:]})
        for i, (t, pad) in enumerate(tags):
            if t[0] == 'mm':
                for j in range(len(t[3])):
                    t2 = ('mm', t[1], t[2], t[3][:j] + t[3][j + 1:])
                    yield rebuild({'reserved': mb['reserved'], 'tags': tags[:i] + [(t2, [0] * pad_len(8 + len(payload(t2))))] + tags[i + 1:]})
            if t[0] == 'cmd':
                for j in range(len(t[2])):
                    es = t[2][:j] + t[2][j + 1:]
                    if es and not es[-1][1] and j == len(t[2]) - 1:
                        pass
                    t2 = ('cmd', t[1], [(e, ws or [32]) for (e, ws) in es])
                    yield rebuild({'reserved': mb['reserved'], 'tags': tags[:i] + [(t2, [0] * pad_len(8 + len(payload(t2))))] + tags[i + 1:]})
        if c['stop'] != NEVER:
            yield make_case(0, NEVER, c['blk'], c['strtab'], rng, mb=mb, base=BLK_DATA, sbase=c['sbase'])


if __name__ == '__main__':
    sys.exit(flow.standard_check(C10(), sys.argv[1:]))
