import os, sys
sys.path.insert(0, os.path.join(os.path.dirname(os.path.abspath(__file__)), '..', 'lib'))
sys.path.insert(0, os.path.dirname(os.path.abspath(__file__)))
import vlib, flow, gen_trans
import pt_common as pc

gen_trans.register('mm_vmm.json')   # Go -> Gallina translation of the pageTableEntry / Frame / Page helpers (Gen/Trans_mm_vmm.v, used by Vmm/PtTrans.v)
gen_trans.register('vmm_pdt.json')     # needed by Vmm/KernelTrans.v (oracles and lemmas of Vmm/PdtTrans.v, Vmm/MapTrans.v)
gen_trans.register('vmm_map.json')
gen_trans.register('vmm_kernel.json')  # "memory as state" mode: setupPDTForKernel with the section-visitor closure, its page loop, the reserved-range loop and the seams (Gen/Trans_vmm_kernel.v, Vmm/KernelTrans.v)
from pt_common import LO, P, RW, M64, M36, KOFF, TEMP


class C05(flow.Spec):
    prop = 'C05'
    props_files = ['theories/Props/C05.v', 'theories/Props/C05_examples.v',
                   'theories/Props/C05_trans.v', 'theories/Props/C05_trans_examples.v']
    model_targets = ['theories/Vmm/Pt.vo']
    pkg = 'mm/vmm'
    harness = pc.HARNESS + [os.path.join(pc.H, 'zz_verif_c05_test.go')]
    test = 'TestVerifC05$'
    rule = ('0-5 early reservations (MapRegion / EarlyReserveRegion) then setupPDTForKernel over a random section table: 1-12 sections laid out '
            'like the linker script (no two sharing a page), sizes 1 byte .. 40 pages, page-aligned and unaligned starts, all 8 flag '
            'combinations, sections below the kernel offset, zero-size sections, several kernel offsets; allocator failure at the k-th '
            'call; out-of-quantifier tables (sections sharing a page, touching the reserved range) as agreement-only cases; '
            'non-trivial = setupPDTForKernel succeeded with at least one mapped section; distinct = distinct cases')
    assumptions = [
        'physical memory and the MMU are simulated by the harness (see C04)',
        'visitElfSectionsFn seam stands for multiboot.VisitElfSections (zero-size sections are dropped there; modelled in C10)',
        'theorem domain: section pages outside top-level slot 511, section frames below 2^40, reserved range [earlyReserveLastUsed, tempMappingAddr) page aligned, inside top-level slot 510 and mapped in the boot space, allocator frames fresh (C01), zero-frame guard not yet armed (setupPDTForKernel runs before reserveZeroedFrame)',
        'sections sharing a page / touching the reserved range: agreement only (model and code both let the later mapping win)',
        "PageDirectoryTable.Map dereferences the active root's physical address (identity-mapped in the kernel during boot)",
        "translation tie of setupPDTForKernel (C05_setup_kernel_is_translation): gen/gotrans's memory mode (ext_mem.go, config vmm_kernel.json) + Lib/GoOps.v / Lib/GoVisit.v; the closure handed to visitElfSectionsFn runs once per item of the parameter `sections` - that multiboot.VisitElfSections delivers exactly the non-empty ELF sections in order is C10's subject, not part of this tie; kernelPDT.Init/Map/Activate, translateFn, mm.AllocFrame are seams whose oracles are the model's pdt_init/pdt_map/pdt_activate on the kernel slot (tied by C04_pdt_*_is_translation), translate and the allocator oracle; fuel above every section's page count and the reserved range's (an artefact of loop translation); 64-bit offset / addresses / sizes / cursor"]
    partial = []

    def gen_cases(self, rng, tier):
        n = {'quick': 500, 'thorough': 8000, 'search': 2000}[tier]
        return [self.gen_one(rng) for _ in range(n)]

    def gen_one(self, rng):
        cnt = rng.choice([96, 128])
        oracle = [LO + 1 + i for i in range(cnt - 4)]
        ops = []
        note = 'layout'
        last = TEMP
        resv_pages = []
        pat = rng.random()
        regions = []          # (pages, frame0 or None)
        if pat < 0.55:
            for _ in range(rng.choice([0, 0, 1, 2, 3, 5])):
                size = rng.choice([1, 4096, 4097, 8192, rng.randrange(1, 4 * 4096)])
                regions.append([size, rng.randrange(1, 1 << 30)])
        elif pat < 0.60:
            # a reservation around the span of one page table (2 MiB), possibly after a small one
            note = 'big-region'
            if rng.random() < 0.6:
                regions.append([rng.choice([4096, 3 * 4096, 17 * 4096]), rng.randrange(1, 1 << 30)])
            regions.append([rng.choice([(1 << 21) - 4096, 1 << 21, (1 << 21) + 4096, 3 << 20, 1 << 20, (1 << 21) + 1]), rng.randrange(1, 1 << 30)])
            if rng.random() < 0.4:
                regions.append([rng.choice([4096, 8192]), rng.randrange(1, 1 << 30)])
        else:
            # several regions whose backing frames are chosen adversarially
            note = 'frames'
            k = rng.randrange(2, 6)
            ns = [rng.choice([1, 1, 1, 2, 3]) for _ in range(k)]
            T = sum(ns)
            f = rng.randrange(1 << 8, 1 << 30)
            style = rng.choice(['contiguous', 'reversed', 'collinear-ends', 'collinear-ends', 'random', 'same'])
            lowidx = []           # index (from the lowest reserved page) of each region's first page
            acc = 0
            for n in ns:
                acc += n
                lowidx.append(T - acc)
            for j, n in enumerate(ns):
                if style == 'contiguous':
                    fr = f + lowidx[j]
                elif style == 'reversed':
                    fr = f + (T - lowidx[j] - n) * 3
                elif style == 'collinear-ends':
                    fr = f + lowidx[j] if j in (0, k - 1) else rng.choice([f + lowidx[j] + 1, f + lowidx[j] - 1, rng.randrange(1, 1 << 30), f])
                elif style == 'same':
                    fr = f
                else:
                    fr = rng.randrange(1, 1 << 30)
                regions.append([n * 4096 - rng.choice([0, 0, 1, 4095]), fr])
        for size, fr in regions:
            k = (size + 4095) >> 12
            if rng.random() < 0.97:
                ops.append([8, fr, size, pc.any_leaf_flags(rng) if rng.random() < 0.7 else rng.choice([P | RW, P | RW | pc.NX, P])])
            else:
                ops.append([16, size])           # reserved but never mapped: setup must fail with ErrInvalidMapping
                note = 'unmapped-reservation'
            last -= k << 12
            resv_pages += [(last >> 12) + i for i in range(min(k, 4))] + [(last >> 12) + k - 1]
        # translation-neutral bits (Accessed, ...) in the boot space's recursive entry and upper-level entries
        if rng.random() < 0.5:
            ops.append([18, 0, 3, pc.extra_mask(rng)])
        if resv_pages and rng.random() < 0.4:
            ops.append([18, rng.choice(resv_pages), rng.randrange(3), pc.extra_mask(rng)])
        off = rng.choice([KOFF, KOFF, KOFF, KOFF, 0xffff800000100000, 0xffffc00000000000, 0, 0x100000] + ([0xffffffff80000000] if rng.random() < 0.1 else []))
        secs = []
        addr = off + rng.choice([0, 0x100000, 0x100000, 0x200000 - 4096, 0x40000000 - 8192, rng.randrange(1 << 12) << 12])
        nsec = rng.randrange(1, 13)
        for i in range(nsec):
            r = rng.random()
            size = rng.choice([1, 2, 4095, 4096, 4097, rng.randrange(1, 3 * 4096), rng.randrange(1, 41 * 4096)])
            if r < 0.08:
                size = 0
            flags = rng.randrange(8)
            if r < 0.2 and off >= 0x200000:
                # a section below the kernel offset (e.g. the low-memory boot code)
                secs.append([flags, rng.randrange(0x1000, min(off, 1 << 32)) & ~rng.choice([0, 0xfff]), size])
                continue
            start = addr + rng.choice([0, 0, rng.randrange(4096), 1, 0xfff])
            secs.append([flags, start & M64, size])
            end = start + max(size, 1) - 1
            addr = ((end >> 12) + 1) << 12
            if rng.random() < 0.15:
                addr += rng.choice([4096, 0x200000, 0x40000000]) & ~0xfff
        m = rng.random()
        if m < 0.06 and len(secs) >= 2:
            # two sections sharing a page (outside the quantifier)
            a, b = rng.sample(range(len(secs)), 2)
            secs[b][1] = (secs[a][1] & ~0xfff) + rng.randrange(4096)
            note = 'shared-page'
        elif m < 0.09:
            secs.append([rng.randrange(8), (last - 4096 * rng.randrange(0, 3)) & M64, 4096 * rng.randrange(1, 4)])
            note = 'touches-reserved'
        elif m < 0.11:
            secs.append([rng.randrange(8), 0xffffff8000000000 + (rng.randrange(1 << 20) << 12), rng.randrange(1, 8192)])
            note = 'recursive-slot'
        elif m < 0.13:
            off |= rng.randrange(1, 4096)
            note = 'unaligned-offset'
        rng.shuffle(secs) if rng.random() < 0.3 else None
        fm = rng.random()
        if fm < 0.25:
            oracle[rng.randrange(0, 24)] = 0
            note += '+allocfail'
        elif fm < 0.3:
            oracle = oracle[:rng.randrange(0, 12)]
            note += '+allocfail'
        setup = [15, off, len(secs)]
        for s in secs:
            setup += s
        ops.append(setup)
        # afterwards: a few requests against the new space
        mapped = [s for s in secs if s[2] and s[1] >= off]
        for _ in range(rng.randrange(0, 4)):
            if mapped and rng.random() < 0.7:
                s = rng.choice(mapped)
                ops.append([2, (s[1] + rng.randrange(max(s[2], 1))) & M64])
            elif resv_pages:
                ops.append([2, (rng.choice(resv_pages) << 12) + rng.randrange(4096)])
        pages = []
        for s in secs[:6]:
            if s[2]:
                pages += [s[1] >> 12, (s[1] + s[2] - 1) >> 12]
        probes = pc.neighbours(pages[:8] + resv_pages[:3], rng, limit=20)
        return (pc.build(cnt, 0, oracle, probes, ops), note)

    def explain(self, nums):
        return pc.explain(nums)

    def nontrivial(self, nums, obs):
        r = pc.parse(nums)
        if not r or obs[-1] == 'ee':
            return False
        return any(o[0] == 15 and any(o[3 + 3 * j + 2] for j in range(o[2])) for o in r[4])

    def classify(self, nums, note):
        return note

    def shrink_candidates(self, nums):
        r = pc.parse(nums)
        if not r:
            return
        cnt, last0, oracle, probes, ops = r
        # drop one section at a time, then generic
        for j, o in enumerate(ops):
            if o[0] == 15:
                secs = [o[3 + 3 * i:6 + 3 * i] for i in range(o[2])]
                for i in range(len(secs)):
                    ns = secs[:i] + secs[i + 1:]
                    no = [15, o[1], len(ns)] + [x for s in ns for x in s]
                    yield pc.build(cnt, last0, oracle, probes, ops[:j] + [no] + ops[j + 1:])
        for c in pc.shrink_candidates(nums):
            yield c


if __name__ == '__main__':
    sys.exit(flow.standard_check(C05(), sys.argv[1:]))
