import os, sys
sys.path.insert(0, os.path.join(os.path.dirname(os.path.abspath(__file__)), '..', 'lib'))
import vlib, flow, gen_trans

H = os.path.join(vlib.ROOT, 'harness/kernel/device/acpi')
vlib.register_const_dump('kernel', 'device/acpi', os.path.join(H, 'zz_verif_consts_test.go'))
gen_trans.register('acpi_driver.json')   # Go -> Gallina translation of validTable / locateRSDT / probeForACPI / mapACPITable / enumerateTables / DriverInit (Gen/Trans_acpi_driver.v, used by Acpi/DriverTrans.v; feature "acpi" of gen/gotrans/ext_acpi.go)

PAGE = 4096
# Host address zones the images live in (all free in the go test process, see harness):
BIOS_LOW, BIOS_HI = 0xe0000, 0xfffff          # the kernel's own search window
WIN_ZONE = 0x200000                            # custom search windows
Z32 = 0x10000000                               # tables reachable through 32-bit pointers
Z64 = 0x200000000                              # tables reachable through 64-bit pointers only
# Pointers must never lead into memory the test process itself has mapped (a stray read there
# would not fault): binary image, Go heap arenas, kernel-chosen mappings / stack.
FORBIDDEN = [(0x400000, 0x8000000), (0xc000000000, 0xc100000000), (0x7e0000000000, 0x800000000000),
             (0xffffffffff600000, 0xffffffffff601000)]
ACPI_XDSDT_OFF = 140                           # X_DSDT in the packed ACPI FADT
RSDP_SIG = b'RSD PTR '


def ptr_ok(v):
    return not any(lo <= v < hi for lo, hi in FORBIDDEN)


def kernel_offsets():
    """field offsets of the kernel's own structs (the constants dump of the current tree)"""
    d = {'acpi_off_FADT_Dsdt': 40, 'acpi_off_FADT_Ext_Dsdt': 152}
    try:
        for ln in open(os.path.join(vlib.WORK, 'gen', 'device_acpi.out')):
            f = ln.split()
            if len(f) == 3 and f[1] == 'N':
                d[f[0]] = int(f[2], 0)
    except OSError:
        pass
    return d


def repo_fadt():
    try:
        b = open(os.path.join(vlib.REPO, 'kernel/device/acpi/table/tabletest/FACP.aml'), 'rb').read()
        if len(b) >= 160 and b[:4] == b'FACP' and int.from_bytes(b[4:8], 'little') == len(b):
            return bytearray(b)
    except OSError:
        pass
    return None


def le(v, n):
    return (v & ((1 << (8 * n)) - 1)).to_bytes(n, 'little')


def fix_sum(buf, pos, n=None):
    """set buf[pos] so that the first n bytes sum to 0 mod 256"""
    n = len(buf) if n is None else n
    if pos < n:
        buf[pos] = 0
        buf[pos] = (-sum(buf[:n])) & 0xff


class Img:
    def __init__(self):
        self.pages = {}      # page number -> fill
        self.segs = []       # (addr, bytes)

    def add_pages(self, addr, nbytes, fill=0):
        for p in range(addr // PAGE, (addr + max(nbytes, 1) - 1) // PAGE + 1):
            self.pages.setdefault(p, fill)

    def write(self, addr, data):
        if data:
            self.segs.append((addr, bytes(data)))

    def present(self, a):
        return (a // PAGE) in self.pages

    def nums(self):
        out = []
        rs = []
        for p in sorted(self.pages):
            if rs and rs[-1][0] + rs[-1][1] == p and rs[-1][2] == self.pages[p]:
                rs[-1][1] += 1
            else:
                rs.append([p, 1, self.pages[p]])
        out.append(len(rs))
        for p, n, f in rs:
            out += [p * PAGE, n, f]
        out.append(len(self.segs))
        for a, d in self.segs:
            out += [a, len(d)] + list(d)
        return out


def rand_sig(rng, used):
    while True:
        s = bytes(rng.choice(b'ABCDEFGHIJKLMNOPQRSTUVWXYZ0123456789_') for _ in range(4))
        if s not in used and s not in (b'FACP',):
            used.add(s)
            return s


PATTERNS = ('ff', '80', '7f', 'alt', 'lane', 'high', 'ramp', 'rand')


def pattern_bytes(rng, kind, n):
    """byte distributions that expose checksum shortcuts (word-at-a-time lanes, narrow or signed
    accumulators, SIMD partial sums): saturated bytes, sign-bit bytes, alternating periods, one heavy
    lane of a 2..64-byte period, bytes near 0xff, a ramp, uniform random"""
    if kind == 'ff':
        return bytearray([0xff]) * n
    if kind == '80':
        return bytearray([0x80]) * n
    if kind == '7f':
        return bytearray([0x7f]) * n
    if kind == 'alt':
        per = rng.choice([1, 2, 4, 8, 16])
        a, b = rng.choice([(0xff, 0), (0xff, 0x01), (0x80, 0x7f), (0xfe, 0xff)])
        return bytearray((a if (i // per) % 2 == 0 else b) for i in range(n))
    if kind == 'lane':
        per = rng.choice([2, 4, 8, 8, 16, 32, 64])
        width = rng.choice([1, 1, 2, max(1, per // 4), max(1, per // 2)])
        start = rng.randrange(per)
        heavy = set((start + j) % per for j in range(width))
        lo = rng.choice([0, 0, 1, 0x10])
        return bytearray((0xff if (i % per) in heavy else (lo if lo < 2 else rng.randrange(lo))) for i in range(n))
    if kind == 'high':
        return bytearray(rng.randrange(0xf0, 0x100) for _ in range(n))
    if kind == 'ramp':
        k = rng.randrange(256)
        return bytearray((i + k) & 0xff for i in range(n))
    return bytearray(rng.randrange(256) for _ in range(n))


def stress_length(rng):
    """table lengths on every scale up to several KiB, clustered around powers of two and multiples
    of the word / vector sizes a shortcut would use"""
    r = rng.random()
    if r < 0.45:
        base = rng.choice([64, 128, 256, 512, 1024, 1536, 2048, 3072, 4096, 8192])
        return max(36, base + rng.choice([-33, -17, -9, -8, -7, -1, 0, 0, 1, 7, 8, 9, 15, 16, 17, 31, 33]))
    if r < 0.75:
        return int(2 ** rng.uniform(5.2, 13.2))
    return rng.randrange(36, 2600)


SMALL_DELTAS = (1, 2, 3, 4, 7, 8, 255, 254, 253, 252, 249, 248, 0x80, 0x10, 0xf0)


def mk_table(rng, sig, length, rev=None, body=None, content=None):
    """a checksum-valid table image of `length` bytes (at least the 36-byte header is produced)"""
    n = max(length, 36)
    b = bytearray(rng.randrange(256) for _ in range(n)) if content is None else bytearray(content[:n]) + bytearray(n - len(content[:n]))
    if body is not None:
        b[36:36 + len(body)] = body
        del b[n:]
    b[0:4] = sig
    b[4:8] = le(length, 4)
    b[8] = rng.randrange(256) if rev is None else rev
    b[10:16] = bytes(rng.choice(b'ABCDEFGHIJ KLMNOPQ') for _ in range(6))
    b[16:24] = bytes(rng.choice(b'abcdefghij klmnopq') for _ in range(8))
    fix_sum(b, 9, length)
    return b


class Alloc:
    """bump allocator inside a zone; can put a table flush against a page end followed by a hole"""
    def __init__(self, rng, base):
        self.rng, self.cur = rng, base + rng.randrange(0, 64) * 16

    def place(self, n, img, fill):
        r = self.rng.random()
        n1 = max(n, 36)
        if r < 0.12:       # ends exactly at a page end, next page absent
            pg = (self.cur + n1 + PAGE - 1) // PAGE * PAGE
            a = pg - n1
            self.cur = pg + PAGE + self.rng.randrange(0, 16) * 16
        elif r < 0.2:      # straddles a page boundary
            pg = (self.cur + PAGE) // PAGE * PAGE
            a = max(self.cur, pg - self.rng.randrange(1, n1)) if n1 > 1 else self.cur
            self.cur = a + n1 + self.rng.randrange(0, 8) * 4
        else:
            a = self.cur + self.rng.choice([0, 0, 1, 4, 16, 100, 5000])
            self.cur = a + n1 + self.rng.choice([0, 0, 1, 3, 16, 64])
        img.add_pages(a, n1, fill)
        return a


def gen_one(rng, off, fadt_dump, force=None):
    force = force or {}
    img = Img()
    tags = []
    # ------------------------------------------------------------------ search window
    align = 16
    if rng.random() < 0.08 and 'nodefault' not in force or force.get('default'):
        low_enc, low, hi = 0, BIOS_LOW, BIOS_HI
        tags.append('kernel-window')
    else:
        if rng.random() < 0.1:
            align = rng.choice([1, 8, 32])
        nslots = rng.choice([1, 2, 3, 4, 4, 5, 6, 8, 8, 16, 16, 40, 64, 64, 256, 300])
        if align == 1:
            nslots *= 8
        low = WIN_ZONE + 16 * rng.randrange(0, 512)
        if rng.random() < 0.3:   # window ends exactly at a page end
            low = (low + nslots * align + PAGE - 1) // PAGE * PAGE - nslots * align
        hi = low + nslots * align - 1
        if rng.random() < 0.1:
            hi += rng.choice([1, 2, 15, 16])
        low_enc = low
    wfill = rng.choice([0, 0, 0, 0xff, 0x20, rng.randrange(256)])
    img.add_pages(low, hi + 1 - low, wfill)
    if rng.random() < 0.5:
        img.add_pages((hi + 1 + PAGE - 1) // PAGE * PAGE, 1, wfill)   # memory after the window
    nsl = (hi - low + align - 1) // align       # slots low, low+align, ... < hi
    taken = set()

    def slot_free(k, nbytes):
        span = range(k, k + (nbytes + align - 1) // align)
        return all(j not in taken for j in span)

    def take(k, nbytes):
        for j in range(k, k + (nbytes + align - 1) // align):
            taken.add(j)

    for _ in range(rng.choice([0, 0, 1, 3]) if nsl > 6 else 0):     # garbage in the window
        a = rng.randrange(low, hi + 1)
        n = min(rng.randrange(1, 64), hi + 1 - a)
        k0, k1 = (a - low) // align, (a + n - 1 - low) // align
        for j in range(k0, k1 + 1):
            taken.add(j)
        img.write(a, bytes(rng.randrange(256) for _ in range(n)))

    # ------------------------------------------------------------------ tables
    a32, a64 = Alloc(rng, Z32), Alloc(rng, Z64)
    tfill = rng.choice([0, 0, 0xff, rng.randrange(256)])
    rev = force.get('rev', rng.choice([0, 0, 0, 2, 2, 2, 1, 3, rng.randrange(4, 256)]))
    xs = rev != 0
    w = 8 if xs else 4

    def place(n, need32):
        al = a32 if (need32 or rng.random() < 0.5) else a64
        return al.place(n, img, tfill)

    used = set()
    ntab = force.get('ntab', rng.choice([0, 1, 2, 3, 4, 5, 6, 7, 8]))
    kind = 0
    if ntab > 0 and rng.random() < 0.6 or force.get('kind'):
        kind = force.get('kind', rng.choice([1, 1, 1, 1, 1, 2, 3, 4, 5]))
        ntab = max(ntab, 1)
    root_rev = force.get('root_rev', rng.choice([0, 1, 2, 2, 3, rev, rev, rng.randrange(256)]))
    tables = []          # [addr, bytearray, role]
    dsdt_want = 0
    fadt_i = rng.randrange(ntab) if kind else -1
    dup = rng.random() < 0.06 and ntab >= 2 and fadt_i != 0
    nbig = 0
    for i in range(ntab):
        if i == fadt_i:
            # the DSDT(s) first
            need32 = kind in (1, 2, 3, 5)
            dl = rng.choice([36, 37, 60, 200, 500, 0, 20])
            dsig = rng.choice([b'DSDT', b'DSDT', rand_sig(rng, used)])
            used.add(dsig)
            d = mk_table(rng, dsig, dl)
            da = place(dl, need32)
            tables.append([da, d, 'dsdt'])
            dsdt_want = da
            p32 = p64go = p64acpi = da
            if kind == 3:
                p64go = p64acpi = 0
            elif kind == 4:
                p32 = 0
            elif kind == 5:
                d2 = mk_table(rng, rand_sig(rng, used), rng.choice([36, 80]))
                da2 = place(len(d2), False)
                tables.append([da2, d2, 'dsdt2'])
                p64go = p64acpi = da2
            if kind == 2 and fadt_dump is not None and rng.random() < 0.7:
                f = bytearray(fadt_dump)                      # the VirtualBox FADT shipped with the repo
                f[off['acpi_off_FADT_Dsdt']:off['acpi_off_FADT_Dsdt'] + 4] = le(p32, 4)
                f[ACPI_XDSDT_OFF:ACPI_XDSDT_OFF + 8] = le(p64acpi, 8)
                fix_sum(f, 9)
            else:
                fl = rng.choice([160, 244, 268, 276, 288, 300])
                f = mk_table(rng, b'FACP', fl)
                og = off['acpi_off_FADT_Ext_Dsdt']
                if kind == 2 and og != ACPI_XDSDT_OFF:
                    p64go = rng.choice([0x4000, 0x4000, 0, 0x608])   # what a packed FADT has there: a register block address
                # ACPI slot first, then the slot the kernel reads (they differ unless the layouts agree)
                f[ACPI_XDSDT_OFF:ACPI_XDSDT_OFF + 8] = le(p64acpi, 8)
                f[og:og + 8] = le(p64go, 8)
                f[off['acpi_off_FADT_Dsdt']:off['acpi_off_FADT_Dsdt'] + 4] = le(p32, 4)
                fix_sum(f, 9)
            tables.append([place(len(f), not xs), f, 'fadt'])
            if kind == 2 and rng.random() < 0.3:
                img.add_pages(0x4000, 1, 0)                    # something is mapped where the bogus pointer leads
        else:
            r = rng.random()
            content = None
            if r < 0.07 and nbig < 2:
                ln = stress_length(rng)                      # large / awkward length, extreme byte distribution
                content = pattern_bytes(rng, rng.choice(PATTERNS), max(ln, 36))
                nbig += 1
            elif r < 0.8:
                ln = rng.choice([36, 36, 37, 44, 84, 100, 244, 460, 1000, 0, 1, 9, 10, 35])
            else:
                ln = rng.randrange(0, 600)
            if content is None and rng.random() < 0.15:
                content = pattern_bytes(rng, rng.choice(PATTERNS), max(ln, 36))
            sig = rand_sig(rng, used)
            if dup and i == ntab - 1:
                sig = bytes(tables[0][1][0:4])
            t = mk_table(rng, sig, ln, content=content)
            tables.append([place(ln, not xs), t, 'plain'])
    listed = [i for i, t in enumerate(tables) if t[2] in ('fadt', 'plain')]
    if kind and rng.random() < 0.15:
        listed.append([i for i, t in enumerate(tables) if t[2] == 'dsdt'][0])   # DSDT also listed by the root table
    rng.shuffle(listed)

    # ------------------------------------------------------------------ corruption
    ncorrupt = 0
    for t in tables:
        if rng.random() < 0.25:
            b = t[1]
            ln = int.from_bytes(b[4:8], 'little')
            how = rng.random()
            for _try in range(20):
                c = bytearray(b)
                if how < 0.55 and ln > 0:
                    p = rng.randrange(min(ln, len(c)))
                    c[p] ^= rng.randrange(1, 256)
                elif how < 0.8:
                    c[9] = (c[9] + (rng.choice(SMALL_DELTAS) if rng.random() < 0.6 else rng.randrange(1, 256))) & 0xff
                else:
                    c[4:8] = le(ln + rng.choice([1, 2, 4, 16]), 4)
                if t[2] != 'fadt' or all(ptr_ok(int.from_bytes(c[o:o + 8], 'little')) and ptr_ok(int.from_bytes(c[o:o + 4], 'little'))
                                         for o in (off['acpi_off_FADT_Dsdt'], off['acpi_off_FADT_Ext_Dsdt'], ACPI_XDSDT_OFF) if o + 8 <= len(c)):
                    t[1] = c
                    ncorrupt += 1
                    break
    if ncorrupt:
        tags.append('corrupt')

    # ------------------------------------------------------------------ root table
    payload = b''.join(le(tables[i][0], w) for i in listed)
    if rng.random() < 0.1:
        payload += bytes(rng.randrange(256) for _ in range(rng.randrange(1, w)))   # trailing partial entry
    root = mk_table(rng, b'XSDT' if xs else b'RSDT', 36 + len(payload), rev=root_rev, body=payload)
    root_bad = False
    if rng.random() < 0.08:
        for _try in range(20):
            c = bytearray(root)
            c[rng.randrange(len(c))] ^= rng.randrange(1, 256)
            if all(ptr_ok(int.from_bytes(c[36 + j:36 + j + w], 'little')) for j in range(0, len(c) - 36 - w + 1, w)) \
                    and int.from_bytes(c[4:8], 'little') >= 36:
                root, root_bad = c, True
                tags.append('root-corrupt')
                break
    root_addr = place(len(root), not xs)
    for a, b, _ in tables:
        img.write(a, b)
    img.write(root_addr, root)

    # ------------------------------------------------------------------ root pointer + decoys
    def mk_rsdp(rv, rsdt, xsdt, valid=True):
        b = bytearray(rng.randrange(256) for _ in range(36))
        b[0:8] = RSDP_SIG
        b[15] = rv
        b[16:20] = le(rsdt, 4)
        b[20:24] = le(36 if rng.random() < 0.8 else rng.randrange(1 << 32), 4)
        b[24:32] = le(xsdt, 8)
        fix_sum(b, 8, 20)
        if rv != 0:
            fix_sum(b, 32, 36)
            b = b[:36]
        else:
            b = b[:20]
        if not valid:
            n = len(b)
            p = rng.choice([8, 8, rng.randrange(8, n)]) if rv == 0 else rng.choice([32, 32, rng.randrange(8, 36)])
            if p == 15:
                p = 8
            b[p] = (b[p] + rng.randrange(1, 256)) & 0xff
            if rv != 0 and p < 20 and rng.random() < 0.5:
                fix_sum(b, 8, 20)              # first checksum fine, extended one bad
                if sum(b) & 0xff == 0:
                    b[32] ^= 1
        return b

    rlen = 20 if rev == 0 else 36
    fits = [k for k in range(nsl) if low + k * align + rlen <= hi + 1 and slot_free(k, rlen)]
    have_rsdp = bool(fits) and rng.random() < 0.9 and not force.get('norsdp')
    rsdp_addr = 0
    other = Z32 + 0x300000 + 16 * rng.randrange(0, 4096)     # never mapped
    if have_rsdp:
        k = rng.choice([fits[0], fits[-1], rng.choice(fits), rng.choice(fits)])
        if 'slot' in force:
            k = {'first': fits[0], 'last': fits[-1]}[force['slot']]
        rsdp_addr = low + k * align
        ptr = root_addr
        if rng.random() < 0.04:
            ptr = rng.choice([other, 0, root_addr + 4])      # root pointer leads nowhere / into the middle of a table
            tags.append('root-pointer-broken')
        b = mk_rsdp(rev, ptr if rev == 0 else other & 0xffffffff, ptr if rev != 0 else other)
        if rev != 0 and rng.random() < 0.1:
            b[8] = (b[8] + 1) & 0xff                         # 20-byte checksum wrong, extended one right
            fix_sum(b, 32, 36)
            tags.append('ext-only-checksum')
        take(k, rlen)
        img.write(rsdp_addr, b)
        if rev != 0 and rng.random() < 0.6 and img.present(rsdp_addr + 36 + 3):
            img.write(rsdp_addr + 36, bytes(rng.randrange(256) for _ in range(4)))   # whatever follows the structure
            take(k, 40)
        tags.append('rsdp-first' if k == fits[0] else 'rsdp-last' if k == fits[-1] else 'rsdp-mid')
    else:
        tags.append('no-rsdp')
    ndecoy = 0
    for _ in range(rng.choice([0, 0, 1, 2, 3, 6])):
        drev = rng.choice([0, 2, rev, rng.randrange(256)])
        dl = 20 if drev == 0 else 36
        free = [k for k in range(nsl) if slot_free(k, dl) and img.present(low + k * align + dl - 1)]
        if not free:
            break
        k = rng.choice(free)
        r = rng.random()
        if r < 0.7:
            b = mk_rsdp(drev, other & 0xffffffff, other, valid=False)
            ndecoy += 1
        elif r < 0.85:
            b = mk_rsdp(drev, other & 0xffffffff, other)       # checksum fine, signature one byte off
            p = rng.randrange(8)
            b[p] ^= rng.randrange(1, 256)
            fix_sum(b, 8, 20)
            if drev != 0:
                fix_sum(b, 32, 36)
        else:
            if have_rsdp and low + k * align < rsdp_addr:
                continue
            b = mk_rsdp(drev, other & 0xffffffff, other)       # a second valid root pointer after the first
            tags.append('second-rsdp')
        take(k, dl)
        img.write(low + k * align, b)
    if ndecoy:
        tags.append('decoys')

    probe_fail = 0
    if rng.random() < 0.04:
        probe_fail = rng.randrange(1, (hi // PAGE) - (low // PAGE) + 3)
        tags.append('probe-seam-fail')
    id_fail = 0
    if rng.random() < 0.08:
        id_fail = rng.randrange(1, 2 * (ntab + 3))
        tags.append('init-seam-fail')
    tags.append('rev%s' % (rev if rev in (0, 2) else 'N'))
    if kind:
        tags.append('fadt-' + {1: 'agree', 2: 'acpi-layout', 3: 'only32', 4: 'only64', 5: 'differ'}[kind])
    if dup:
        tags.append('dup-sig')
    nums = [low_enc, hi if low_enc else 0, align if low_enc else 0, probe_fail, id_fail] + img.nums() + [kind, dsdt_want]
    return nums, ' '.join(tags)


def parse(nums):
    it = iter(nums)
    nx = lambda: next(it, 0)
    head = [nx() for _ in range(5)]
    ranges = [(nx(), nx(), nx()) for _ in range(nx())]
    segs = []
    for _ in range(nx()):
        a, n = nx(), nx()
        segs.append((a, [nx() for _ in range(n)]))
    return head, ranges, segs, [nx(), nx()]


def unparse(head, ranges, segs, tail):
    out = list(head) + [len(ranges)]
    for r in ranges:
        out += list(r)
    out.append(len(segs))
    for a, d in segs:
        out += [a, len(d)] + list(d)
    return out + list(tail)


def gen_stress(rng, specs, rev, root_rev=1):
    """a minimal image (root pointer in the first slot of a small window, root table listing only the
    given tables) whose tables are (pattern, length, delta): bytes of the given distribution summing
    to delta modulo 256 (0 = valid)"""
    img = Img()
    low = WIN_ZONE
    hi = low + 16 * 4 - 1
    img.add_pages(low, hi + 1 - low, 0)
    xs = rev != 0
    w = 8 if xs else 4
    al = Alloc(rng, Z32)
    used = set()
    addrs = []
    for kind, ln, delta in specs:
        t = mk_table(rng, rand_sig(rng, used), ln, content=pattern_bytes(rng, kind, max(ln, 36)))
        t[9] = (t[9] + delta) & 0xff
        a = al.place(ln, img, 0)
        img.write(a, t)
        addrs.append(a)
    order = list(range(len(addrs)))
    rng.shuffle(order)
    root = mk_table(rng, b'XSDT' if xs else b'RSDT', 36 + w * len(addrs), rev=root_rev, body=b''.join(le(addrs[i], w) for i in order))
    ra = al.place(len(root), img, 0)
    img.write(ra, root)
    b = bytearray(36)
    b[0:8] = RSDP_SIG
    b[15] = rev
    b[16:20] = le(ra if not xs else 0, 4)
    b[20:24] = le(36, 4)
    b[24:32] = le(ra if xs else 0, 8)
    fix_sum(b, 8, 20)
    if xs:
        fix_sum(b, 32, 36)
    else:
        b = b[:20]
    img.write(low, b)
    return [low, hi, 16, 0, 0] + img.nums() + [0, 0], 'stress rev%s' % (rev if rev in (0, 2) else 'N')


def stress_battery(rng, budget):
    """every byte distribution at lengths on every scale, each as a valid table and with the sum off
    by -1, -2, -3, +1 (a shortcut that is off by a few must not turn these into valid tables)"""
    out = []
    small = [36 + rng.randrange(1, 30), 255 + rng.randrange(0, 4), 510 + rng.randrange(0, 20), 1025 + rng.randrange(0, 400),
             1536 + rng.randrange(0, 400), 2048 - rng.randrange(0, 24), 2048]
    large = [2049 + rng.randrange(0, 40), 4096 + rng.choice([-1, 0, 1, 8]), 6000 + rng.randrange(0, 2300)]
    for kind in PATTERNS:
        for ln in small:
            specs = [(kind, ln, d) for d in (0, 255, 254, 253)] + ([(kind, ln, rng.choice([1, 2, 3]))] if ln < 600 else [])
            out.append(gen_stress(rng, specs, rng.choice([0, 2])))
        for ln in large:
            specs = [(kind, ln, d) for d in (0, rng.choice([255, 254, 253, 1, 2]))]
            out.append(gen_stress(rng, specs, rng.choice([0, 2])))
        if len(out) >= budget:
            break
    return out


class C14(flow.Spec):
    prop = 'C14'
    props_files = ['theories/Props/C14.v', 'theories/Props/C14_examples.v', 'theories/Props/C14_trans.v', 'theories/Props/C14_trans_examples.v']
    model_targets = ['theories/Acpi/Model.vo']
    pkg = 'device/acpi'
    harness = [os.path.join(H, 'zz_verif_c14_test.go')]
    test = 'TestVerifC14$'
    rule = ('firmware images generated in Python and handed to both sides as (address, byte) data, mapped at their real low addresses in the test process: '
            'root pointer at the first / last fitting / a random aligned slot of the kernel\'s own window (0xe0000-0xfffff) or of windows of 1-300 slots, '
            'revision 0 / 2 / other, decoys (bad checksum, signature one byte off, second valid pointer), 0-8 tables in random order with distinct signatures '
            '(some with duplicates), 4/8-byte entries, table lengths from 0 to ~9 KiB clustered around powers of two with extreme byte distributions (all 0xff / 0x80 / 0x7f, alternating periods, one heavy lane of a 2-64 byte period, near-0xff, ramp, random) valid and with the sum off by +-1..8, tables flush against absent pages, one-byte / checksum / length corruption of any table or of the root table, '
            'FADT with both / only the 32-bit / only the 64-bit / disagreeing DSDT pointers and the VirtualBox FADT shipped with the repo, seam failures; '
            'non-trivial = probe finds a root pointer and DriverInit succeeds with at least one table registered')
    assumptions = [
        'mapFn / identityMapFn / unmapFn seams stand for vmm.Map / IdentityMapRegion / Unmap (C04, C07); the harness stubs them with the identity mapping, as the existing tests do',
        'firmware memory is the set of present pages of the image; a read outside is the explicit outcome Stray in the model and a recovered fault in the harness',
        'the monitor takes the ACPI lengths (20 / 36 bytes) and "FACP" as given by the ACPI specification; when an extended root pointer has a valid 36-byte but an invalid 20-byte checksum the text does not decide acceptance (agreement only)',
        'root table with Length < sizeof(SDTHeader) and zero sum (the payload length wraps to ~4G entries) is modelled (wrap) but not generated: Go would try to allocate the entry slice',
        'the DSDT a FADT points to: the monitor demands registration whenever the FADT names one table unambiguously (both pointers equal, only one present, or the packed ACPI layout with DSDT = X_DSDT); '
        'the code selects the pointer by the root table\'s header revision and reads Ext.Dsdt at the Go struct offset (152, ACPI X_DSDT is at 140), which misses the DSDT for three input classes recorded as known findings '
        '(c14:dsdt:acpi-layout-fadt:rootrev-ge2, c14:dsdt:only32-fadt:rootrev-ge2, c14:dsdt:only64-fadt:rootrev-lt2); FADTs whose two pointers name different tables are agreement only; the model and the theorems (fadt_dsdt) follow the code',
        'kfmt renders the log lines (C15); the harness parses them back into (signature, address, length) events; printTableInfo lines are compared sorted (Go map order)',
        'validTable, locateRSDT, probeForACPI, mapACPITable, enumerateTables, DriverInit (printTableInfo as a seam event; the driver value as a (non-nil, rsdtAddr, useXSDT) tuple): the hand-written model is proved equal to the Gallina term gen/gotrans regenerates from acpi.go on every run (Props/C14_trans.v), for every memory image with '
        'byte-valued cells, every search window / alignment that does not wrap, every failure pattern of mapFn / identityMapFn and enough fuel (pages + slots + 66 for the probe, 2^32 for the table walk); trusted for that tie: the translator incl. ext_acpi.go '
        '(struct-pointer field reads as loads at the Go compiler\'s offsets, the syntax-tree rewrites for `continue label` from the inner loop and for the deferred closure, Go map stores and kfmt.Fprintf as trace events, vmm.PageOffset as `& mask`), '
        'Lib/GoOps.v + Lib/GoStruct.v, the pairing field -> offset constant in gen/gotrans/acpi_driver.json, T.ld_of (a load = little-endian read of the model\'s bytes), T.abs (which model state a trace stands for: the order between seam calls, reports and '
        'registrations is not part of the statement); a panic inside the body of locateRSDT skips the deferred unmapping in the translation (outcome GPanic either way); identityMapFn returns the page of the frame it is given (identity mapping, as vmm.IdentityMapRegion and the harness stub do)',
    ]
    partial = []

    def gen_cases(self, rng, tier):
        n = {'quick': 1900, 'thorough': 40000, 'search': 3000}[tier]
        off = kernel_offsets()
        dump = repo_fadt()
        out = []
        # boundary cases named by the property's quantifier, every run
        for rev in (0, 2, 3):
            for slot in ('first', 'last'):
                for dflt in (True, False):
                    f = dict(rev=rev, slot=slot)
                    if dflt:
                        f['default'] = True
                    else:
                        f['nodefault'] = True
                    out.append(gen_one(rng, off, dump, f))
        for kind in (1, 2, 3, 4, 5):
            for root_rev in (0, 1, 2):
                out.append(gen_one(rng, off, dump, dict(kind=kind, root_rev=root_rev, nodefault=True)))
        # large tables with extreme byte distributions (word-at-a-time / narrow-accumulator checksums)
        for _ in range(5 if tier == 'thorough' else 1):
            out += stress_battery(rng, 80)
        while len(out) < n:
            if rng.random() < 0.02:
                specs = [(rng.choice(PATTERNS), stress_length(rng), rng.choice((0, 0) + SMALL_DELTAS)) for _ in range(rng.randrange(1, 5))]
                out.append(gen_stress(rng, specs, rng.choice([0, 2, 3]), rng.choice([0, 1, 2])))
            else:
                out.append(gen_one(rng, off, dump))
        return out

    def classify(self, nums, note):
        t = note.split()
        keep = [x for x in t if x.startswith(('rev', 'fadt-', 'no-rsdp', 'kernel-window', 'stress'))]
        return ' '.join(keep) or 'case'

    def explain(self, nums):
        if len(nums) < 7:
            return ''
        head, ranges, segs, tail = parse(nums)
        s = ['window=%#x..%#x align=%d' % (head[0], head[1], head[2]) if head[0] else 'window=kernel default',
             'probeFail=%d idFail=%d' % (head[3], head[4]),
             'pages=' + ','.join('%#x+%d(fill %#x)' % r for r in ranges)]
        for a, d in segs:
            b = bytes(x & 0xff for x in d)
            what = ''
            if b[:8] == RSDP_SIG and len(b) >= 20:
                what = ' RSDP rev=%d rsdt=%#x' % (b[15], int.from_bytes(b[16:20], 'little')) + (' xsdt=%#x' % int.from_bytes(b[24:32], 'little') if len(b) >= 32 else '')
                what += ' sum20=%d' % (sum(b[:20]) & 0xff) + (' sum36=%d' % (sum(b[:36]) & 0xff) if len(b) >= 36 else '')
            elif len(b) >= 36:
                ln = int.from_bytes(b[4:8], 'little')
                what = ' table %r len=%d rev=%d sum=%s' % (b[:4], ln, b[8], (sum(b[:ln]) & 0xff) if ln <= len(b) else '?')
            s.append('%#x[%d]%s' % (a, len(d), what))
        s.append('fadtKind=%d dsdt=%#x' % (tail[0], tail[1]))
        return ' ; '.join(s)[:3000]

    def nontrivial(self, nums, obs):
        # probe found a driver, DriverInit succeeded, at least one table registered
        try:
            if obs[0] != '1' or obs[6] != '0':
                return False
            i = 8 + 3 * int(obs[7], 16)
            i += 1 + 3 * int(obs[i], 16)
            return int(obs[i], 16) > 0
        except (IndexError, ValueError):
            return False

    def shrink_candidates(self, nums):
        head, ranges, segs, tail = parse(nums)
        for j in range(len(segs)):
            yield unparse(head, ranges, segs[:j] + segs[j + 1:], tail)
        if head[3]:
            yield unparse(head[:3] + [0, head[4]], ranges, segs, tail)
        if head[4]:
            yield unparse(head[:4] + [0], ranges, segs, tail)


if __name__ == '__main__':
    sys.exit(flow.standard_check(C14(), sys.argv[1:]))
