"""Shared case generator for the physical-memory-manager properties C01 / C02 / C03.

A memory map is a list of (addr, length, type); a kernel placement is (kstart, kend).
Everything random derives from the rng handed in (seeded from VERIF_SEED by lib/flow.py)."""

PAGE = 4096
FRAME_SIZES = [0, 1, 1, 1, 2, 63, 64, 65, 127, 128, 129, 200]
# non-available types, incl. values that alias MemAvailable (1) when only their low 8 / 16 / 24 bits are read
OTHER_TYPES = [0, 2, 3, 4, 5, 6, 0xffffffff, 0x101, 0x10001, 0x1000001, 0xF0000001, 0x80000001, 0xFF01]


def whole_frames(addr, length):
    """(first, last) whole frames inside [addr, addr+length) or None"""
    first = (addr + PAGE - 1) // PAGE
    end = (addr + length) // PAGE
    return (first, end - 1) if end > first else None


def avail_frames(regions):
    return sum((lambda w: (w[1] - w[0] + 1) if w else 0)(whole_frames(a, l)) for a, l, t in regions if t == 1)


GIB4 = 1 << 32


def pick_base(rng):
    """start address of a map: low memory, or around / above 4 GiB, 1 TiB, 16 TiB (frame numbers >= 2^32):
    the places where 32-bit masks / truncations of addresses and frame numbers show"""
    r = rng.random()
    if r < 0.62:
        return rng.choice([0, 0, 0, PAGE, rng.randrange(0, 64) * PAGE, rng.randrange(0, 1 << 20), rng.randrange(0, 1 << 34)])
    return rng.choice([
        GIB4, GIB4 + PAGE, GIB4 + rng.randrange(0, 1 << 20), GIB4 + rng.randrange(0, 1 << 30),
        GIB4 - rng.randrange(1, 400) * PAGE, GIB4 - rng.randrange(1, 1 << 20),        # regions straddling 4 GiB
        2 * GIB4 - rng.randrange(0, 64) * PAGE, 3 * GIB4 + 0x123000,
        1 << 40, (1 << 40) - rng.randrange(0, 200) * PAGE, (1 << 40) + rng.randrange(0, 1 << 30),
        1 << 44, (1 << 44) - rng.randrange(0, 200) * PAGE, (1 << 44) + rng.randrange(0, 1 << 36),   # frame numbers >= 2^32
        (1 << 48) + rng.randrange(0, 1 << 20) * PAGE, (1 << 51) + rng.randrange(0, 1 << 12) * PAGE,
        rng.randrange(0, 1 << 52)])


def gen_map(rng, max_frames=600, base=None, must_have=None):
    """must_have: frame count that one (random) available region gets at least"""
    nreg = rng.randint(1, 6)
    addr = pick_base(rng) if base is None else base
    forced = rng.randrange(nreg) if must_have else -1
    regions = []
    for idx in range(nreg):
        typ = 1 if rng.random() < 0.68 else rng.choice(OTHER_TYPES + [rng.randrange(0, 1 << 32)])
        frames = rng.choice(FRAME_SIZES + [rng.randrange(0, max_frames + 1)] * 3)
        if idx == forced:
            typ, frames = 1, max(frames, must_have + rng.randrange(0, 200))
        if rng.random() < 0.5:                      # page aligned
            start = (addr + PAGE - 1) // PAGE * PAGE
            length = frames * PAGE
        else:                                       # unaligned start and/or end
            start = addr + rng.choice([0, 1, rng.randrange(0, PAGE), PAGE - 1])
            length = frames * PAGE + rng.choice([0, 1, rng.randrange(0, PAGE), PAGE - 1, PAGE, PAGE + 1, 2 * PAGE - 1])
        if frames == 0 and rng.random() < 0.7:
            length = rng.choice([0, 1, rng.randrange(0, PAGE), PAGE - 1])     # smaller than a page
        regions.append((start, length, typ))
        addr = start + length + rng.choice([0, 0, 0, 1, rng.randrange(0, PAGE), rng.randrange(0, 40) * PAGE, rng.randrange(0, 1 << 18)])
    return regions


def place_kernel(rng, regions):
    """-> (kstart, kend, how).  Mostly inside the properties' quantifier (page-aligned start, image
    inside one available region); sometimes deliberately outside (agreement only)."""
    av = [(a, l) for a, l, t in regions if t == 1 and l > 0]
    r = rng.random()
    if not av or r < 0.06:
        # outside the quantifier: kernel in a reserved hole / empty image / unaligned start
        a, l, t = rng.choice(regions)
        k = rng.choice(['hole', 'empty', 'unaligned', 'span'])
        if k == 'hole':
            s = (a + l + PAGE - 1) // PAGE * PAGE + rng.randrange(0, 4) * PAGE
            return s, s + rng.randrange(0, 3 * PAGE), 'out:hole'
        if k == 'empty':
            s = max(PAGE, a // PAGE * PAGE)          # (kend = 0 would make the kernel-frame loop run 2^64 times)
            return s, s, 'out:empty'
        if k == 'unaligned':
            s = a + rng.randrange(1, PAGE)
            return s, s + rng.randrange(1, 5 * PAGE), 'out:unaligned'
        s = a // PAGE * PAGE
        return s, regions[-1][0] + regions[-1][1] + rng.randrange(0, 2 * PAGE), 'out:span'
    a, l = rng.choice(av)
    lo = (a + PAGE - 1) // PAGE * PAGE         # first aligned address inside the region
    hi = a + l                                   # exclusive
    if lo >= hi:
        # no aligned address inside: not a possible placement; put the kernel elsewhere (outside quantifier)
        return lo, lo + 1, 'out:no-aligned-address'
    npages = (hi - lo + PAGE - 1) // PAGE       # pages touched from lo to hi
    how = rng.choice(['start', 'start', 'middle', 'middle', 'end', 'end', 'whole', 'tiny', 'tail', 'onepage'])
    if how == 'start':
        ks = lo
        ke = min(hi, ks + rng.choice([1, PAGE, PAGE + 1, rng.randrange(1, max(2, hi - lo + 1)), 3 * PAGE - 7]))
    elif how == 'middle':
        ks = lo + rng.randrange(0, npages) * PAGE
        ke = min(hi, ks + rng.choice([1, PAGE, 2 * PAGE, rng.randrange(1, 40 * PAGE), rng.randrange(1, max(2, hi - ks + 1))]))
    elif how == 'end':
        ke = hi if rng.random() < 0.6 else max(lo + 1, hi // PAGE * PAGE)
        back = rng.choice([1, 1, 2, 3, rng.randrange(1, npages + 1)])
        ks = max(lo, (ke - 1) // PAGE * PAGE - (back - 1) * PAGE)
    elif how == 'whole':
        ks, ke = lo, hi
    elif how == 'tiny':
        ks = lo + rng.randrange(0, npages) * PAGE
        ke = min(hi, ks + rng.randrange(1, PAGE))
    elif how == 'tail':
        # image inside the trailing partial page of the region (if there is one)
        ks = max(lo, (hi - 1) // PAGE * PAGE)
        ke = rng.choice([hi, ks + 1, rng.randrange(ks + 1, hi + 1)])
    else:
        ks = lo + rng.randrange(0, npages) * PAGE
        ke = min(hi, ks + PAGE)
    if ke <= ks:
        ke = ks + 1
    return ks, ke, 'in:' + how


def place_kernel_wordspan(rng, regions):
    """kernel image of 65..200 frames (two or more bitmap words) whose first and last frame sit at chosen
    offsets (0, 1, 62, 63, random) modulo 64 relative to the first whole frame of its region"""
    cands = []
    for a, l, t in regions:
        w = whole_frames(a, l)
        if t == 1 and w and w[1] - w[0] + 1 >= 70:
            cands.append((a, l, w))
    if not cands:
        return None
    a, l, (first, last) = rng.choice(cands)
    n = last - first + 1
    off = lambda: rng.choice([0, 0, 1, 62, 63, 63, rng.randrange(0, 64)])
    for _ in range(20):
        sa, eb = off(), off()
        length = rng.randint(65, min(200, n))
        srel = sa + 64 * rng.randrange(0, max(1, (n - length) // 64 + 1))
        length += (eb - (srel + length - 1)) % 64          # move the last frame to offset eb
        if srel + length <= n and length >= 65:
            ks = (first + srel) * PAGE
            ke = (first + srel + length) * PAGE - rng.choice([0, 0, 1, rng.randrange(0, PAGE)])
            return ks, min(ke, a + l), 'in:wordspan'
    return None


def gen_boundary_map(rng):
    """2-6 pools whose allocator state (72 bytes per pool + 8 bytes per 64 frames, each pool rounded up to a
    word) ends within a few words of a page boundary (1, 2 or 3 pages), tiny first pools included; interleaved
    with non-available regions; any base address"""
    npools = rng.randint(2, 6)
    pages = rng.choice([1, 1, 2, 2, 3])
    delta = 8 * rng.choice(list(range(-3, npools + 3)))
    small = [rng.choice([1, 1, 1, 2, 3, 63, 64, 65, 127, 128, 129, rng.randrange(1, 300)]) for _ in range(npools - 1)]
    words_small = sum((f + 63) // 64 for f in small)
    w = (pages * PAGE + delta - 72 * npools) // 8 - words_small
    big = 64 * w - rng.choice([0, 0, 1, 63, rng.randrange(0, 64)])
    sizes = list(small)
    sizes.insert(rng.choice([len(small), len(small), rng.randrange(0, npools)]), big)
    addr = pick_base(rng)
    regions = []
    for f in sizes:
        if rng.random() < 0.35:                               # a non-available region in between
            ln = rng.choice([0, 1, PAGE, rng.randrange(0, 1 << 20)])
            regions.append((addr, ln, rng.choice(OTHER_TYPES)))
            addr += ln
        if rng.random() < 0.5:
            start = (addr + PAGE - 1) // PAGE * PAGE
            length = f * PAGE
        else:                                                 # unaligned at both ends, exactly f whole frames
            base = (addr + PAGE - 1) // PAGE * PAGE
            offs = rng.randrange(1, PAGE)
            start = base + offs
            length = (PAGE - offs) + f * PAGE + rng.randrange(0, PAGE)
        regions.append((start, length, 1))
        addr = start + length + rng.choice([0, 0, 1, rng.randrange(0, PAGE), rng.randrange(0, 40) * PAGE])
    return regions


def mangle_map(rng, regions):
    """maps outside the quantifier (unsorted / overlapping / wrapping): agreement only"""
    regions = list(regions)
    k = rng.choice(['shuffle', 'overlap', 'dup', 'huge'])
    if k == 'shuffle':
        rng.shuffle(regions)
    elif k == 'overlap' and regions:
        i = rng.randrange(len(regions))
        a, l, t = regions[i]
        regions.insert(i + 1, (a + rng.randrange(0, l + 1), l + rng.randrange(0, 3 * PAGE), rng.choice([1, 1, 2])))
    elif k == 'dup' and regions:
        regions.append(rng.choice(regions))
    else:
        a, l, t = regions[-1]
        regions[-1] = (a, min((1 << 64) - 1, (1 << 64) - a - rng.choice([0, 1, PAGE, PAGE + 1]) if rng.random() < 0.5 else (1 << 64) - 1), t)
    return regions


def enc_map(regions):
    nums = [len(regions)]
    for a, l, t in regions:
        nums += [a, l, t]
    return nums


def dec_map(nums):
    if not nums:
        return [], []
    n = nums[0]
    regs = []
    i = 1
    for _ in range(n):
        if i + 2 >= len(nums):
            break
        regs.append((nums[i], nums[i + 1], nums[i + 2]))
        i += 3
    return regs, nums[i:]


def fmt_map(regions):
    return ' '.join('[%#x+%#x t=%d]' % r for r in regions)


# ---------------------------------------------------------------------------------------------
# C01 / C03: Init + alloc/free histories
# ---------------------------------------------------------------------------------------------
RESERVE_LIMIT = 1 << 26


def gen_ops(rng, usable, regions, style=None):
    """op list (flat): 0 = alloc | 1 f = free frame f | 2 k = free the k-th successful allocation so far"""
    style = style or rng.choice(['drain', 'drain', 'alloc-heavy', 'free-heavy', 'churn', 'badfree', 'redrain'])
    ops = []
    allf = [whole_frames(a, l) for a, l, t in regions if t == 1]
    allf = [w for w in allf if w]

    M64 = (1 << 64) - 1

    def some_frame():
        r = rng.random()
        if allf and r < 0.3:
            # a frame number that aliases a managed frame modulo 2^8..2^52, or its byte address
            lo, hi = rng.choice(allf)
            f = rng.choice([lo, hi, rng.randrange(lo, hi + 1)])
            k = rng.choice([1, 1, 2, rng.randrange(1, 1 << 12)])
            b = rng.choice([16, 32, 32, 32, 8, 24, 40, 48, 52, 63])
            return rng.choice([(f + (k << b)) & M64, (f - (k << b)) & M64, f ^ (1 << b), f | (0xffffffff << 32),
                               (f << 12) & M64, f & 0xffffffff, f & 0xffff, f + (1 << 32), f + (1 << 16)])
        if allf and r < 0.6:
            lo, hi = rng.choice(allf)
            return rng.choice([lo, hi, rng.randrange(lo, hi + 1), hi + 1, max(lo, 1) - 1])
        if r < 0.8 and regions:
            a, l, t = rng.choice(regions)
            return (a + rng.randrange(0, l + 1)) // PAGE
        return rng.choice([0, 1, 0xbadf00d, (1 << 64) - 1, (1 << 52) - 1, rng.randrange(0, 1 << 64)])

    if style == 'drain':
        ops += [0] * (usable + rng.choice([0, 1, 2]))
    elif style == 'alloc-heavy':
        for _ in range(rng.randrange(1, usable + 20)):
            ops += [0] if rng.random() < 0.85 else [2, rng.randrange(0, 1 << 16)]
    elif style == 'free-heavy':
        n = rng.randrange(1, min(usable, 200) + 2)
        ops += [0] * n
        for _ in range(rng.randrange(1, 2 * n + 2)):
            ops += [2, rng.randrange(0, 1 << 16)] if rng.random() < 0.9 else [0]
        ops += [0] * rng.randrange(0, 8)
    elif style == 'churn':
        for _ in range(rng.randrange(5, 400)):
            r = rng.random()
            if r < 0.5:
                ops += [0]
            elif r < 0.9:
                ops += [2, rng.randrange(0, 1 << 16)]
            else:
                ops += [1, some_frame()]
    elif style == 'badfree':
        for _ in range(rng.randrange(3, 80)):
            r = rng.random()
            if r < 0.35:
                ops += [0]
            elif r < 0.55:
                k = rng.randrange(0, 1 << 16)
                ops += [2, k, 2, k]                       # twice-freed
            else:
                ops += [1, some_frame()]                  # never-allocated / out-of-pool
    else:  # redrain: drain, free a few, drain again
        ops += [0] * (usable + 1)
        k = rng.randrange(1, 12)
        for _ in range(k):
            ops += [2, rng.randrange(0, 1 << 16)]
        ops += [0] * (k + 2)
    return ops, style


def gen_ops_big(rng, regions, full_drain=False):
    """histories for maps of tens of thousands of frames: a few allocations first (they reach the frames right
    after the early-boot ones), then bounded churn / bad frees; a full drain only when asked for"""
    ops = [0] * rng.choice([1, 2, 5, 20, 70])
    if full_drain:
        return ops + [0] * (avail_frames(regions) + 1), 'big-drain'
    more, _ = gen_ops(rng, 60, regions, rng.choice(['churn', 'badfree', 'free-heavy', 'alloc-heavy']))
    cut, i = [], 0                     # at most ~150 further ops, cut at an op boundary
    while i < len(more) and len(cut) < 300:
        k = 1 if more[i] == 0 else 2
        cut += more[i:i + k]
        i += k
    return ops + cut, 'big'


def gen_long_history(rng, sel, unit, short=False):
    """Small multi-pool map and a history built around an operation COUNT: state that only goes wrong after
    [unit] (2^8 / 2^16) operations of one kind.  Cycle: fill the lower pools and part of a higher pool (so that
    its first bitmap words are full), free a low frame of that pool, then churn free/alloc pairs that the
    lower pools absorb until the number of successful frees since then is k*unit + d (k in {1,2}, d in a
    small window around 0, mostly 0), then allocate until out-of-memory - every usable frame must come back."""
    npools = rng.choice([2, 2, 3])
    sizes = [rng.choice([3, 8, 20, 64, 65, rng.randrange(3, 130)])]
    sizes += [rng.choice([129, 130, 192, 200, 257, rng.randrange(129, 400)]) for _ in range(npools - 1)]
    addr = rng.choice([0x10000, 0x100000, pick_base(rng) // PAGE * PAGE])
    regions = []
    for f in sizes:
        regions.append((addr, f * PAGE, 1))
        addr += f * PAGE + rng.choice([0, PAGE, 0x10000])
        if rng.random() < 0.3:
            regions.append((addr, PAGE, 2)); addr += PAGE
    # kernel: two frames at the end of the last pool (out of the way of the cycle)
    la, ll, _ = [r for r in regions if r[2] == 1][-1]
    ks, ke = la + ll - 2 * PAGE, la + ll - rng.choice([0, 1, 100])
    pools = [whole_frames(a, l) for a, l, t in regions if t == 1]
    ops = []
    lower = sum(hi - lo + 1 for lo, hi in pools[:1])
    for cyc in range(1 if short else rng.choice([1, 1, 2])):
        tgt = rng.randrange(1, npools)                          # the higher pool whose scan state is exercised
        lo, hi = pools[tgt]
        below = sum(h - l + 1 for l, h in pools[:tgt])
        into = rng.choice([64, 65, 70, 128, rng.randrange(64, min(hi - lo - 2, 250))])   # first word(s) of tgt full
        ops += [0] * (below + into + 2)                         # (some of these fail once memory is short: harmless)
        low = lo + rng.choice([0, 1, 5, 63, rng.randrange(0, 64)])
        ops += [1, low]                                         # free a low frame of the target pool
        k = 1 if short else rng.choice([1, 1, 2])
        d = rng.choice([0, 0, 0, 0, 0, 0, -1, 1]) if unit > 256 else rng.choice([0, 0, 0, 0, -1, 1, -2, 2])
        frees = k * unit + d - 1
        # churn absorbed by pool 0: free its last frame and take it back
        p0lo, p0hi = pools[0]
        victims = []
        for v in (p0hi, p0hi - 1, p0lo + (p0hi - p0lo) // 2):
            if v > p0lo and v not in victims:            # (p0lo is the early-boot frame)
                victims.append(v)
        style = rng.choice(['one', 'rotate', 'burst'])
        if style == 'burst':
            i = 0
            while i < frees:
                n = min(frees - i, rng.randint(1, len(victims)))
                for j in range(n):
                    ops += [1, victims[j]]
                ops += [0] * n
                i += n
        else:
            for i in range(frees):
                v = victims[0] if style == 'one' else victims[i % len(victims)]
                ops += [1, v, 0]
        ops += [0] * (sum(h - l + 1 for l, h in pools) - below - into + 3)   # until out-of-memory
        if cyc == 0 and not short:
            # release everything that was handed out, ready for another cycle
            for l, h in pools:
                for f in range(l, h + 1):
                    if f != pools[0][0] and not (ks // PAGE <= f <= (ke - 1) // PAGE):   # not the early-boot / kernel frames
                        ops += [1, f]
    return [sel] + enc_map(regions) + [ks, ke, RESERVE_LIMIT, 0] + ops, 'long:%d' % unit


def gen_pmm_case(rng, sel, tier_max_frames=600, big_drain=0.0, long16=0.0):
    scen = rng.random()
    if scen < long16:
        return gen_long_history(rng, sel, 1 << 16)
    if scen < long16 + 0.012:
        return gen_long_history(rng, sel, 1 << 8)
    if scen < 0.10:
        # allocator state of 1-3 pages ending next to a page boundary
        regions = gen_boundary_map(rng)
        ks, ke, how = place_kernel(rng, regions)
        ops, style = gen_ops_big(rng, regions, rng.random() < big_drain and avail_frames(regions) < 40000)
        return [sel] + enc_map(regions) + [ks, ke, RESERVE_LIMIT, 0] + ops, 'boundary:' + how + '/' + style
    if scen < 0.24:
        # kernel image over several bitmap words, every first/last offset modulo 64
        regions = gen_map(rng, tier_max_frames, must_have=140)
        kp = place_kernel_wordspan(rng, regions)
        if kp:
            ks, ke, how = kp
            usable = avail_frames(regions)
            ops, style = gen_ops(rng, min(usable, 5000), regions, rng.choice(['drain', 'drain', 'redrain', 'alloc-heavy', 'churn']))
            return [sel] + enc_map(regions) + [ks, ke, RESERVE_LIMIT, 0] + ops, how + '/' + style
    regions = gen_map(rng, tier_max_frames)
    ks, ke, how = place_kernel(rng, regions)
    note = how
    if rng.random() < 0.03:
        regions = mangle_map(rng, regions)
        regions = [(a, min(l, 1 << 34), t) for a, l, t in regions]   # keep the bitmaps allocatable
        note = 'out:map'
    limit = RESERVE_LIMIT
    mapfail = 0
    r = rng.random()
    if r < 0.03:
        limit = rng.choice([0, 4095, 4096])
    elif r < 0.07:
        mapfail = rng.choice([1, 1, 2, 3])
    usable = avail_frames(regions) if note != 'out:map' else 300
    ops, style = gen_ops(rng, min(usable, 5000), regions)
    return [sel] + enc_map(regions) + [ks, ke, limit, mapfail] + ops, note + '/' + style


def explain_pmm(nums):
    if not nums:
        return ''
    regs, rest = dec_map(nums[1:])
    if len(rest) < 4:
        return 'short case'
    ks, ke, limit, mapfail = rest[:4]
    ops = rest[4:]
    s, i = [], 0
    while i < len(ops):
        if ops[i] == 0:
            j = i
            while j < len(ops) and ops[j] == 0:
                j += 1
            s.append('Alloc x%d' % (j - i) if j - i > 1 else 'Alloc')
            i = j
        elif ops[i] == 1 and i + 1 < len(ops):
            s.append('Free(%#x)' % ops[i + 1]); i += 2
        elif ops[i] == 2 and i + 1 < len(ops):
            s.append('FreeNth(%d)' % ops[i + 1]); i += 2
        else:
            break
    return 'map %s ; kernel [%#x,%#x) ; reserveLimit=%#x mapFail=%d ; %s' % (fmt_map(regs), ks, ke, limit, mapfail, ' '.join(s)[:1500])


def shrink_pmm(nums):
    sel = nums[0]
    regs, rest = dec_map(nums[1:])
    if len(rest) < 4:
        return
    head, ops = rest[:4], rest[4:]
    # split ops
    items, i = [], 0
    while i < len(ops):
        k = 1 if ops[i] == 0 else 2
        items.append(ops[i:i + k]); i += k
    def build(rg, it):
        return [sel] + enc_map(rg) + head + [x for o in it for x in o]
    n = len(items)
    if n > 5000:
        # very long history (operation counts matter): only cut the tail, never the middle
        for keep in (n // 2, 3 * n // 4, 7 * n // 8, n - 64, n - 8, n - 1):
            if 0 < keep < n:
                yield build(regs, items[:keep])
        return
    # drop chunks of ops
    size = max(1, n // 2)
    while size >= 1:
        for start in range(0, n, size):
            yield build(regs, items[:start] + items[start + size:])
        if size == 1:
            break
        size //= 2
    for j in range(len(regs)):
        yield build(regs[:j] + regs[j + 1:], items)
    for j, (a, l, t) in enumerate(regs):
        if l > 3 * PAGE:
            yield build(regs[:j] + [(a, l - (l // (2 * PAGE)) * PAGE, t)] + regs[j + 1:], items)

PMM_RULE = ('maps start in low memory or around/above 4 GiB, 1 TiB, 16 TiB (frame numbers >= 2^32); 10% of the cases have 2-6 pools of '
            '30k-100k frames whose allocator state (1-3 pages) ends within a few words of a page boundary, tiny first pools '
            'included (early-boot frames from several regions), memory behind the reserved block filled with a canary; 14% have a '
            'kernel image of 65-200 frames whose first/last frame sits at offset 0,1,62,63,random modulo 64 of its pool; frees '
            'include frame numbers aliasing managed frames modulo 2^8..2^52 and byte addresses; thorough tier also drains ~30k-frame '
            'maps completely; ~1% (unit 2^8) plus two per quick run / 0.15% in thorough (unit 2^16, 70k-400k operations) are long histories on small '
            'multi-pool maps whose number of successful frees reaches k*unit (+-2) exactly when an allocation must come from a higher pool, '
            'followed by a drain to out-of-memory; otherwise memory maps as for C02 (1-6 regions, word-boundary frame counts 1/63/64/65/127/128/129/200 and random <= 600, aligned or '
            'unaligned, sub-page regions, non-available types interleaved), kernel image at start/middle/end/whole/tail of a random '
            'available region; pmm.Init with the reserve seam failing in ~3% and the map seam in ~4% of the cases; then an op history: '
            'drain(+0..2), alloc-heavy, free-heavy, churn, bad frees (never-allocated, out-of-pool, twice-freed, arbitrary 64-bit '
            'frames), drain/free/re-drain; ~9% of the cases lie outside the quantifier (agreement only); non-trivial = Init succeeded '
            'and at least two operations ran; distinct = distinct case vectors')
PMM_ASSUMPTIONS = ['memory map delivered through the real multiboot.VisitMemRegions; reserveRegionFn / mapFn seams stand for '
                   'vmm.EarlyReserveRegion / vmm.Map (C07 / C04) and hand out host memory',
                   'region addr+len <= 2^64-4096; fewer than 2^32 frames of available RAM in total (uint32 counters)',
                   'callers free only frames they obtained from AllocFrame or frames outside the pools / already free; a free of a frame '
                   'reserved at initialisation (kernel image, early-boot frames) is accepted by the code (known finding)',
                   'single caller at a time (concurrency is C09); the spinlock is not modelled',
                   'the hand-written Gallina model is tied to the Go code by differential testing only']

PMM_PARTIAL = ['all theorems are proved in full for the stated quantifier; the only restriction on histories is history_ok '
               '(no FreeFrame of a frame that was reserved at initialisation for the kernel image / early boot): for the '
               'unrestricted quantifier the statements are refuted by a concrete witness (C01_full_alloc_exclusive_refuted, '
               'C03_full_history_contract_refuted = known finding c03:free-of-init-reserved-frame-accepted)',
               'small_map: fewer than 2^32-64 frames of available RAM (uint32 counters of the implementation)']
