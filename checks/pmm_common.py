"""Shared case generator for the physical-memory-manager properties C01 / C02 / C03.

A memory map is a list of (addr, length, type); a kernel placement is (kstart, kend).
Everything random derives from the rng handed in (seeded from VERIF_SEED by lib/flow.py)."""

PAGE = 4096
FRAME_SIZES = [0, 1, 1, 1, 2, 63, 64, 65, 127, 128, 129, 200]
OTHER_TYPES = [0, 2, 3, 4, 5, 6, 0xffffffff]


def whole_frames(addr, length):
    """(first, last) whole frames inside [addr, addr+length) or None"""
    first = (addr + PAGE - 1) // PAGE
    end = (addr + length) // PAGE
    return (first, end - 1) if end > first else None


def avail_frames(regions):
    return sum((lambda w: (w[1] - w[0] + 1) if w else 0)(whole_frames(a, l)) for a, l, t in regions if t == 1)


def gen_map(rng, max_frames=600):
    nreg = rng.randint(1, 6)
    addr = rng.choice([0, 0, 0, PAGE, rng.randrange(0, 64) * PAGE, rng.randrange(0, 1 << 20), rng.randrange(0, 1 << 34)])
    regions = []
    for _ in range(nreg):
        typ = 1 if rng.random() < 0.68 else rng.choice(OTHER_TYPES + [rng.randrange(0, 1 << 32)])
        frames = rng.choice(FRAME_SIZES + [rng.randrange(0, max_frames + 1)] * 3)
        if rng.random() < 0.5:                      # page aligned
            start = (addr + PAGE - 1) // PAGE * PAGE
            length = frames * PAGE
        else:                                       # unaligned start and/or end
            start = addr + rng.choice([0, 1, rng.randrange(0, PAGE), PAGE - 1])
            length = frames * PAGE + rng.choice([0, 1, rng.randrange(0, PAGE), PAGE - 1, PAGE, PAGE + 1, 2 * PAGE - 1])
        if frames == 0 and rng.random() < 0.7:
            length = rng.choice([0, 1, rng.randrange(0, PAGE), PAGE - 1])     # smaller than a page
        regions.append((start, length, typ))
        addr = start + length + rng.choice([0, 0, 0, 1, rng.randrange(0, PAGE), rng.randrange(0, 40) * PAGE, rng.randrange(0, 1 << 18)])
    return regions


def place_kernel(rng, regions):
    """-> (kstart, kend, how).  Mostly inside the properties' quantifier (page-aligned start, image
    inside one available region); sometimes deliberately outside (agreement only)."""
    av = [(a, l) for a, l, t in regions if t == 1 and l > 0]
    r = rng.random()
    if not av or r < 0.06:
        # outside the quantifier: kernel in a reserved hole / empty image / unaligned start
        a, l, t = rng.choice(regions)
        k = rng.choice(['hole', 'empty', 'unaligned', 'span'])
        if k == 'hole':
            s = (a + l + PAGE - 1) // PAGE * PAGE + rng.randrange(0, 4) * PAGE
            return s, s + rng.randrange(0, 3 * PAGE), 'out:hole'
        if k == 'empty':
            s = max(PAGE, a // PAGE * PAGE)          # (kend = 0 would make the kernel-frame loop run 2^64 times)
            return s, s, 'out:empty'
        if k == 'unaligned':
            s = a + rng.randrange(1, PAGE)
            return s, s + rng.randrange(1, 5 * PAGE), 'out:unaligned'
        s = a // PAGE * PAGE
        return s, regions[-1][0] + regions[-1][1] + rng.randrange(0, 2 * PAGE), 'out:span'
    a, l = rng.choice(av)
    lo = (a + PAGE - 1) // PAGE * PAGE         # first aligned address inside the region
    hi = a + l                                   # exclusive
    if lo >= hi:
        # no aligned address inside: not a possible placement; put the kernel elsewhere (outside quantifier)
        return lo, lo + 1, 'out:no-aligned-address'
    npages = (hi - lo + PAGE - 1) // PAGE       # pages touched from lo to hi
    how = rng.choice(['start', 'start', 'middle', 'middle', 'end', 'end', 'whole', 'tiny', 'tail', 'onepage'])
    if how == 'start':
        ks = lo
        ke = min(hi, ks + rng.choice([1, PAGE, PAGE + 1, rng.randrange(1, max(2, hi - lo + 1)), 3 * PAGE - 7]))
    elif how == 'middle':
        ks = lo + rng.randrange(0, npages) * PAGE
        ke = min(hi, ks + rng.choice([1, PAGE, 2 * PAGE, rng.randrange(1, 40 * PAGE), rng.randrange(1, max(2, hi - ks + 1))]))
    elif how == 'end':
        ke = hi if rng.random() < 0.6 else max(lo + 1, hi // PAGE * PAGE)
        back = rng.choice([1, 1, 2, 3, rng.randrange(1, npages + 1)])
        ks = max(lo, (ke - 1) // PAGE * PAGE - (back - 1) * PAGE)
    elif how == 'whole':
        ks, ke = lo, hi
    elif how == 'tiny':
        ks = lo + rng.randrange(0, npages) * PAGE
        ke = min(hi, ks + rng.randrange(1, PAGE))
    elif how == 'tail':
        # image inside the trailing partial page of the region (if there is one)
        ks = max(lo, (hi - 1) // PAGE * PAGE)
        ke = rng.choice([hi, ks + 1, rng.randrange(ks + 1, hi + 1)])
    else:
        ks = lo + rng.randrange(0, npages) * PAGE
        ke = min(hi, ks + PAGE)
    if ke <= ks:
        ke = ks + 1
    return ks, ke, 'in:' + how


def mangle_map(rng, regions):
    """maps outside the quantifier (unsorted / overlapping / wrapping): agreement only"""
    regions = list(regions)
    k = rng.choice(['shuffle', 'overlap', 'dup', 'huge'])
    if k == 'shuffle':
        rng.shuffle(regions)
    elif k == 'overlap' and regions:
        i = rng.randrange(len(regions))
        a, l, t = regions[i]
        regions.insert(i + 1, (a + rng.randrange(0, l + 1), l + rng.randrange(0, 3 * PAGE), rng.choice([1, 1, 2])))
    elif k == 'dup' and regions:
        regions.append(rng.choice(regions))
    else:
        a, l, t = regions[-1]
        regions[-1] = (a, min((1 << 64) - 1, (1 << 64) - a - rng.choice([0, 1, PAGE, PAGE + 1]) if rng.random() < 0.5 else (1 << 64) - 1), t)
    return regions


def enc_map(regions):
    nums = [len(regions)]
    for a, l, t in regions:
        nums += [a, l, t]
    return nums


def dec_map(nums):
    if not nums:
        return [], []
    n = nums[0]
    regs = []
    i = 1
    for _ in range(n):
        if i + 2 >= len(nums):
            break
        regs.append((nums[i], nums[i + 1], nums[i + 2]))
        i += 3
    return regs, nums[i:]


def fmt_map(regions):
    return ' '.join('[%#x+%#x t=%d]' % r for r in regions)


# ---------------------------------------------------------------------------------------------
# C01 / C03: Init + alloc/free histories
# ---------------------------------------------------------------------------------------------
RESERVE_LIMIT = 1 << 26


def gen_ops(rng, usable, regions, style=None):
    """op list (flat): 0 = alloc | 1 f = free frame f | 2 k = free the k-th successful allocation so far"""
    style = style or rng.choice(['drain', 'drain', 'alloc-heavy', 'free-heavy', 'churn', 'badfree', 'redrain'])
    ops = []
    allf = [whole_frames(a, l) for a, l, t in regions if t == 1]
    allf = [w for w in allf if w]

    def some_frame():
        r = rng.random()
        if allf and r < 0.6:
            lo, hi = rng.choice(allf)
            return rng.choice([lo, hi, rng.randrange(lo, hi + 1), hi + 1, max(lo, 1) - 1])
        if r < 0.8 and regions:
            a, l, t = rng.choice(regions)
            return (a + rng.randrange(0, l + 1)) // PAGE
        return rng.choice([0, 1, 0xbadf00d, (1 << 64) - 1, (1 << 52) - 1, rng.randrange(0, 1 << 64)])

    if style == 'drain':
        ops += [0] * (usable + rng.choice([0, 1, 2]))
    elif style == 'alloc-heavy':
        for _ in range(rng.randrange(1, usable + 20)):
            ops += [0] if rng.random() < 0.85 else [2, rng.randrange(0, 1 << 16)]
    elif style == 'free-heavy':
        n = rng.randrange(1, min(usable, 200) + 2)
        ops += [0] * n
        for _ in range(rng.randrange(1, 2 * n + 2)):
            ops += [2, rng.randrange(0, 1 << 16)] if rng.random() < 0.9 else [0]
        ops += [0] * rng.randrange(0, 8)
    elif style == 'churn':
        for _ in range(rng.randrange(5, 400)):
            r = rng.random()
            if r < 0.5:
                ops += [0]
            elif r < 0.9:
                ops += [2, rng.randrange(0, 1 << 16)]
            else:
                ops += [1, some_frame()]
    elif style == 'badfree':
        for _ in range(rng.randrange(3, 80)):
            r = rng.random()
            if r < 0.35:
                ops += [0]
            elif r < 0.55:
                k = rng.randrange(0, 1 << 16)
                ops += [2, k, 2, k]                       # twice-freed
            else:
                ops += [1, some_frame()]                  # never-allocated / out-of-pool
    else:  # redrain: drain, free a few, drain again
        ops += [0] * (usable + 1)
        k = rng.randrange(1, 12)
        for _ in range(k):
            ops += [2, rng.randrange(0, 1 << 16)]
        ops += [0] * (k + 2)
    return ops, style


def gen_pmm_case(rng, sel, tier_max_frames=600):
    regions = gen_map(rng, tier_max_frames)
    ks, ke, how = place_kernel(rng, regions)
    note = how
    if rng.random() < 0.03:
        regions = mangle_map(rng, regions)
        regions = [(a, min(l, 1 << 34), t) for a, l, t in regions]   # keep the bitmaps allocatable
        note = 'out:map'
    limit = RESERVE_LIMIT
    mapfail = 0
    r = rng.random()
    if r < 0.03:
        limit = rng.choice([0, 4095, 4096])
    elif r < 0.07:
        mapfail = rng.choice([1, 1, 2, 3])
    usable = avail_frames(regions) if note != 'out:map' else 300
    ops, style = gen_ops(rng, min(usable, 5000), regions)
    return [sel] + enc_map(regions) + [ks, ke, limit, mapfail] + ops, note + '/' + style


def explain_pmm(nums):
    if not nums:
        return ''
    regs, rest = dec_map(nums[1:])
    if len(rest) < 4:
        return 'short case'
    ks, ke, limit, mapfail = rest[:4]
    ops = rest[4:]
    s, i = [], 0
    while i < len(ops):
        if ops[i] == 0:
            j = i
            while j < len(ops) and ops[j] == 0:
                j += 1
            s.append('Alloc x%d' % (j - i) if j - i > 1 else 'Alloc')
            i = j
        elif ops[i] == 1 and i + 1 < len(ops):
            s.append('Free(%#x)' % ops[i + 1]); i += 2
        elif ops[i] == 2 and i + 1 < len(ops):
            s.append('FreeNth(%d)' % ops[i + 1]); i += 2
        else:
            break
    return 'map %s ; kernel [%#x,%#x) ; reserveLimit=%#x mapFail=%d ; %s' % (fmt_map(regs), ks, ke, limit, mapfail, ' '.join(s)[:1500])


def shrink_pmm(nums):
    sel = nums[0]
    regs, rest = dec_map(nums[1:])
    if len(rest) < 4:
        return
    head, ops = rest[:4], rest[4:]
    # split ops
    items, i = [], 0
    while i < len(ops):
        k = 1 if ops[i] == 0 else 2
        items.append(ops[i:i + k]); i += k
    def build(rg, it):
        return [sel] + enc_map(rg) + head + [x for o in it for x in o]
    n = len(items)
    # drop chunks of ops
    size = max(1, n // 2)
    while size >= 1:
        for start in range(0, n, size):
            yield build(regs, items[:start] + items[start + size:])
        if size == 1:
            break
        size //= 2
    for j in range(len(regs)):
        yield build(regs[:j] + regs[j + 1:], items)
    for j, (a, l, t) in enumerate(regs):
        if l > 3 * PAGE:
            yield build(regs[:j] + [(a, l - (l // (2 * PAGE)) * PAGE, t)] + regs[j + 1:], items)

PMM_RULE = ('memory maps as for C02 (1-6 regions, word-boundary frame counts 1/63/64/65/127/128/129/200 and random <= 600, aligned or '
            'unaligned, sub-page regions, non-available types interleaved), kernel image at start/middle/end/whole/tail of a random '
            'available region; pmm.Init with the reserve seam failing in ~3% and the map seam in ~4% of the cases; then an op history: '
            'drain(+0..2), alloc-heavy, free-heavy, churn, bad frees (never-allocated, out-of-pool, twice-freed, arbitrary 64-bit '
            'frames), drain/free/re-drain; ~9% of the cases lie outside the quantifier (agreement only); non-trivial = Init succeeded '
            'and at least two operations ran; distinct = distinct case vectors')
PMM_ASSUMPTIONS = ['memory map delivered through the real multiboot.VisitMemRegions; reserveRegionFn / mapFn seams stand for '
                   'vmm.EarlyReserveRegion / vmm.Map (C07 / C04) and hand out host memory',
                   'region addr+len <= 2^64-4096; fewer than 2^32 frames of available RAM in total (uint32 counters)',
                   'callers free only frames they obtained from AllocFrame or frames outside the pools / already free; a free of a frame '
                   'reserved at initialisation (kernel image, early-boot frames) is accepted by the code (known finding)',
                   'single caller at a time (concurrency is C09); the spinlock is not modelled',
                   'the hand-written Gallina model is tied to the Go code by differential testing only']

PMM_PARTIAL = ['all theorems are proved in full for the stated quantifier; the only restriction on histories is history_ok '
               '(no FreeFrame of a frame that was reserved at initialisation for the kernel image / early boot): for the '
               'unrestricted quantifier the statements are refuted by a concrete witness (C01_full_alloc_exclusive_refuted, '
               'C03_full_history_contract_refuted = known finding c03:free-of-init-reserved-frame-accepted)',
               'small_map: fewer than 2^32-64 frames of available RAM (uint32 counters of the implementation)']
