import os, sys
sys.path.insert(0, os.path.join(os.path.dirname(os.path.abspath(__file__)), '..', 'lib'))
import vlib, flow

H = os.path.join(vlib.ROOT, 'harness/kernel/device/tty')
import gen_trans
gen_trans.register('tty_vt.json')   # Go -> Gallina translation of the loop-free VT methods (Gen/Trans_tty_vt.v, used by Tty/VtTrans.v)
gen_trans.register('tty_vt_full.json')   # extended mode: ALL methods of VT incl. loops, stores, console calls (Gen/Trans_tty_vt_full.v, used by Tty/VtFullTrans.v)
vlib.register_const_dump('kernel', 'device/tty', os.path.join(H, 'zz_verif_consts_test.go'))

M32 = (1 << 32) - 1


def dec_ops(nums):
    """-> (tab, sb, [op tuples])"""
    if len(nums) < 2:
        return 0, 0, []
    ops = []
    i = 2
    while i < len(nums):
        k = nums[i]
        if k == 0 and i + 4 < len(nums):
            ops.append((0,) + tuple(nums[i + 1:i + 5])); i += 5
        elif k == 1 and i + 1 < len(nums):
            n = nums[i + 1]
            ops.append((1, list(nums[i + 2:i + 2 + n]))); i += 2 + n
        elif k == 2 and i + 1 < len(nums):
            ops.append((2, nums[i + 1])); i += 2
        elif k == 3 and i + 2 < len(nums):
            ops.append((3, nums[i + 1], nums[i + 2])); i += 3
        elif k == 4 and i + 1 < len(nums):
            ops.append((4, nums[i + 1])); i += 2
        else:
            break
    return nums[0], nums[1], ops


def enc_ops(tab, sb, ops):
    out = [tab, sb]
    for o in ops:
        if o[0] == 1:
            out += [1, len(o[1])] + list(o[1])
        else:
            out += list(o)
    return out


def gen_bytes(rng, n, w, style):
    """byte stream biased to the control characters the terminal interprets"""
    bs = []
    while len(bs) < n:
        r = rng.random()
        if style == 'lines':          # short lines ended by \n (scrolls a lot)
            k = rng.randrange(0, max(2, w + 2))
            bs += [rng.randrange(33, 127) for _ in range(k)] + [10]
        elif style == 'run':          # long printable run: wraps repeatedly
            bs += [rng.randrange(32, 127) for _ in range(rng.randrange(1, 3 * w + 3))]
        elif r < 0.14:
            bs.append(10)
        elif r < 0.22:
            bs.append(13)
        elif r < 0.32:
            bs.append(8)
        elif r < 0.40:
            bs.append(9)
        elif r < 0.90:
            bs.append(rng.randrange(32, 127))
        else:
            bs.append(rng.randrange(0, 256))
    return bs[:n]


def gen_history(rng, tier, states=(0, 1, 1, 0, 1, 2, 255), budget=1_000_000, small=False):
    """one in-domain history: attach first, then writes / cursor moves / state flips"""
    g = rng.random()
    if g < 0.08:
        w, h = 1, 1
    elif g < 0.16:
        w, h = 1, rng.randrange(1, 12)
    elif g < 0.24:
        w, h = rng.randrange(1, 30), 1
    elif g < 0.32:
        w, h = 2, 2
    elif g < 0.37 and not small:
        w, h = 80, 25
    else:
        w, h = rng.randrange(1, 41), rng.randrange(1, 21)
    if small:
        w, h = min(w, 12), min(h, 8)
    sb = rng.choice([0, 0, 1, 3, 3, 80, rng.randrange(0, 6)])
    if small:
        sb = min(sb, 3)
    tab = rng.choice([0, 1, 4, 4, 8, 255, rng.randrange(0, 256)])
    fg, bg = rng.choice([(7, 0), (7, 0), (rng.randrange(256), rng.randrange(256)), (15, 15), (0, 255)])
    size = w * (h + sb) * 3
    ops = [(0, w, h, fg, bg)]
    if rng.random() < 0.6:
        ops.append((4, 1))
    # cost model for the list-based executable model: ~ size per stored byte
    per_byte = size + 50
    left = budget
    nops = rng.randrange(1, 14)
    for _ in range(nops):
        if left <= 0:
            break
        r = rng.random()
        if r < 0.62:
            style = rng.choice(['mix', 'mix', 'lines', 'run'])
            tabcost = max(1, tab // 6)
            maxn = max(1, min(left // (per_byte * tabcost), 6 * w * h + 40, 1500))
            n = rng.randrange(0, maxn + 1) if rng.random() < 0.7 else maxn
            bs = gen_bytes(rng, n, w, style)
            ntabs = bs.count(9)
            left -= per_byte * (len(bs) + ntabs * tab)
            if rng.random() < 0.15 and len(bs) <= 6:
                ops += [(2, b) for b in bs]
            else:
                ops.append((1, bs))
        elif r < 0.70:
            # enough line feeds to run through the scrollback and start scrolling
            n = min(h + sb + rng.randrange(0, 4), max(1, left // per_byte))
            ops.append((1, [10] * n))
            left -= per_byte * n
        elif r < 0.88:
            x = rng.choice([0, 1, w, w + 1, rng.randrange(0, w + 2), M32, 1 << 31, rng.randrange(0, 1 << 32)])
            y = rng.choice([0, 1, h, h + 1, rng.randrange(0, h + 2), M32, 1 << 31, rng.randrange(0, 1 << 32)])
            ops.append((3, x, y))
        else:
            ops.append((4, rng.choice(states)))
            left -= 3 * w * h * size // 2
    return enc_ops(tab, sb, ops), ('80x25' if (w, h) == (80, 25) else '1x1' if (w, h) == (1, 1) else '1xN' if w == 1 else 'Nx1' if h == 1 else '2x2' if (w, h) == (2, 2) else 'random')


# dimensions around every plausible narrow-integer boundary of a column / row / tab count
EDGE = [63, 64, 65, 127, 128, 129, 255, 256, 257]
TAB_EDGE = [85, 86, 87, 127, 128, 129, 254, 255]
# (w, h, sb): cell counts around 2^16 (65535 / 65536 / 65537) and byte sizes around 2^16 (21845 / 21846 cells)
BIG = [(255, 257, 0), (257, 255, 0), (256, 256, 0), (128, 512, 0), (256, 255, 1), (512, 127, 1), (65537, 1, 0), (1, 65537, 0),
       (1, 65535, 1), (65536, 1, 0), (257, 256, 0), (300, 250, 0), (145, 150, 1), (146, 150, 0), (21845, 1, 0), (2, 10923, 0)]


def printable(rng, n):
    return [rng.randrange(33, 127) for _ in range(n)]


def gen_boundary(rng, kind=None, budget=12_000_000):
    """histories on geometries that cross narrow-integer boundaries (columns, rows, tab width, cell count,
    buffer bytes), with content stored in the LAST columns / rows (reached with cursor moves so that the
    histories stay short), tabs that fit in the line, and line feeds that exhaust the scrollback and scroll.
    Few but large; cost model as in gen_history."""
    kind = kind or rng.choice(['wide', 'wide', 'tall', 'tall', 'tab', 'tab', 'big'])
    tab = rng.choice([0, 1, 4, 8])
    if kind == 'wide':
        w, h, sb = rng.choice(EDGE + [300, 511, 512, 513]), rng.randrange(1, 5), rng.choice([0, 0, 1, 2])
    elif kind == 'tall':
        w, h, sb = rng.choice([1, 2, 3, 5]), rng.choice(EDGE + [300]), rng.choice([0, 0, 1, 2])
    elif kind == 'tab':
        tab = rng.choice(TAB_EDGE)
        w = rng.choice([tab + 1, tab + 2, tab + 3, tab + rng.randrange(1, 60), 2 * tab + 3, 257, 300])
        h, sb = rng.randrange(1, 4), rng.choice([0, 0, 1])
    else:
        w, h, sb = rng.choice(BIG)
    fg, bg = rng.choice([(7, 0), (7, 0), (rng.randrange(256), rng.randrange(256))])
    size = w * (h + sb) * 3
    # cost model of the list-based executable model, in list steps (~25 ns): three stores per byte, each a pass
    # over half the buffer; a scroll is a few passes; the observation of an op checksums the buffer
    per_byte = 3 * size // 2 + 50
    per_scroll = 8 * size
    per_op = 30 * size + 1000
    redraw = 3 * w * h * size // 2
    if kind == 'big':
        budget = max(budget, 90_000_000)
    left = budget - per_op
    ops = [(0, w, h, fg, bg)]

    def afford(nbytes, nscroll, nops):
        nonlocal left
        c = nbytes * per_byte + nscroll * per_scroll + nops * per_op
        if c > left:
            return False
        left -= c
        return True

    def near_end(n):      # a coordinate in the last few positions of 1..n (sometimes anywhere)
        return max(1, n - rng.choice([0, 0, 1, 2, 3, rng.randrange(0, n)]))

    if rng.random() < 0.5 and redraw + per_op <= left // 3:
        left -= redraw + per_op
        ops.append((4, 1))
    for _ in range(rng.randrange(4, 12)):
        r = rng.random()
        if r < 0.30:
            # store a few bytes in the last columns of a (mostly late) row: wraps into the next row / scrolls
            n = rng.randrange(1, 7)
            if afford(n, n, 2):
                ops += [(3, near_end(w), near_end(h)), (1, printable(rng, n))]
        elif r < 0.45 and w * (h + sb) <= 4000:
            # whole lines of printable bytes: every column of every viewport line gets content
            n = min(w * rng.randrange(1, h + sb + 2) + rng.randrange(0, w + 1), max(1, (left - per_op) // (per_byte + per_scroll // w + 1)))
            if n >= 1 and afford(n, n // w + 1, 1):
                ops.append((1, printable(rng, n)))
        elif r < 0.70:
            # line feeds from a late row: run through the scrollback, then scroll
            n = rng.choice([1, 2, sb + 1, sb + 2, sb + 3])
            if h + sb <= 600 and rng.random() < 0.3:
                n = h + sb + rng.randrange(0, 3)
            n = max(1, min(n, (left - 2 * per_op) // per_scroll))
            if afford(0, n, 2):
                if rng.random() < 0.7:
                    ops.append((3, rng.choice([1, near_end(w)]), near_end(h)))
                ops.append((1, [10] * n))
        elif r < 0.88:
            # a tab (that often fits in the line) followed by bytes that must land right after it
            x = rng.choice([1, 2, 3, max(1, w - tab), max(1, w - tab - 1), max(1, w - tab + 1), rng.randrange(1, w + 1)])
            bs = printable(rng, rng.randrange(0, 3)) + [9] + printable(rng, rng.randrange(1, 4))
            if rng.random() < 0.3:
                bs += [9] + printable(rng, 1)
            if afford(len(bs) + bs.count(9) * tab, 2, 2):
                ops += [(3, x, near_end(h)), (1, bs)]
        elif r < 0.94:
            if afford(4, 0, 2):
                ops += [(3, near_end(w), near_end(h)), (1, [8, rng.randrange(33, 127), 8, 8])]
        else:
            st = rng.choice([0, 1])
            if st == 0 and afford(0, 0, 1):
                ops.append((4, 0))
            elif st == 1 and redraw + per_op <= left:
                left -= redraw + per_op
                ops.append((4, 1))
    return enc_ops(tab, sb, ops), 'edge:' + kind


def gen_outside(rng):
    """histories outside the property's quantifier: agreement between model and code only"""
    kind = rng.choice(['preattach', 'reattach', 'zero', 'wrap-sb', 'mod3'])
    tab = rng.choice([0, 4, 8])
    w, h = rng.randrange(1, 12), rng.randrange(1, 8)
    sb = rng.choice([0, 1, 3])
    some = lambda n: gen_bytes(rng, rng.randrange(1, n), w, 'mix')
    if kind == 'preattach':
        ops = [(1, some(6)), (2, 65), (3, 3, 3), (4, rng.choice([0, 1])), (0, w, h, 7, 0), (1, some(80)), (4, 1), (1, some(40))]
    elif kind == 'reattach':
        w2, h2 = rng.randrange(1, 12), rng.randrange(1, 8)
        ops = [(0, w, h, 7, 0), (4, rng.choice([0, 1])), (1, some(120)), (3, rng.randrange(0, 14), rng.randrange(0, 9)), (0, w2, h2, 2, 5), (1, some(60)), (4, 0), (4, 1)]
    elif kind == 'zero':
        w, h = rng.choice([(0, h), (w, 0), (0, 0)])
        ops = [(0, w, h, 7, 0), (4, 1), (3, 1, 1), (1, some(10))]
    elif kind == 'wrap-sb':
        # h + scrollback wraps in 32 bits: the buffer is smaller than the viewport
        sb = (1 << 32) - h + rng.randrange(0, 3)
        ops = [(0, w, h, 7, 0), (4, rng.choice([0, 1])), (1, some(30)), (1, [10] * (h + 2)), (1, some(30))]
    else:
        # w*(h+sb)*3 wraps in 32 bits (to 2, 2, 1, 8 and 6 bytes: only the last is a whole number of cells)
        w, h, sb = rng.choice([(0x55555556, 1, 0), (0x2aaaaaab, 2, 0), (0xaaaaaaab, 1, 0), (0x55555556, 1, 3), (0x80000001, 2, 0), (0x80000001, 1, 1)])
        ops = [(0, w, h, 7, 0), (3, 2, 1), (4, rng.choice([0, 0, 2])), (1, some(8))]
    return enc_ops(tab, sb, ops), 'outside:' + kind


def soak(spec, ctx, cases):
    """run monitor-only cases; -> [(sig, msg, replay_obj)] for flow.extra_checks"""
    wd = ctx['wd']
    cpath = os.path.join(wd, 'cases_soak.txt')
    opath = os.path.join(wd, 'go_soak.out')
    vlib.write_cases(cpath, [c[0] for c in cases])
    rc, out, secs = vlib.run_go(wd, spec.module, spec.pkg, spec.harness, spec.test, cases_path=cpath, out_path=opath,
                                timeout=spec.go_timeout, extra_overlay=spec.overlay(), extra_env=spec.go_extra_env)
    obs, mons, info = vlib.parse_out(opath)
    res = []
    seen = {sig for (_, sig, _) in ctx['impl']['mons']}   # already reported (with shrinking) by the main stream
    for (i, sig, msg) in sorted(mons, key=lambda t: len(cases[t[0]][0])):
        if sig in seen:
            continue
        seen.add(sig)
        nums = cases[i][0]
        try:
            nums = flow._shrink(spec, wd, nums, sig)
        except Exception as ex:
            vlib.log('soak shrink failed', ex)
        res.append((sig, msg, dict(case=['%x' % v for v in nums], explain=spec.explain(nums), note=cases[i][1],
                                   replay='bin/check %s --replay <file with top-level "case">' % spec.prop)))
    if rc != 0 and not mons:
        res.append(('soak-harness-died', 'soak run of the harness did not complete (rc=%s): %s' % (rc, out[-600:]), None))
    ctx['impl']['info'].setdefault('soak', []).append('%d monitor-only cases, %d bytes of input, %.1fs' % (len(cases), sum(len(c[0]) for c in cases), secs))
    return res


class C17(flow.Spec):
    prop = 'C17'
    props_files = ['theories/Props/C17.v', 'theories/Props/C17_examples.v', 'theories/Props/C17_trans.v', 'theories/Props/C17_trans_examples.v']
    model_targets = ['theories/Tty/Vt.vo']
    pkg = 'device/tty'
    harness = [os.path.join(H, 'zz_verif_c17_test.go')]
    test = 'TestVerifC17$'
    rule = ('histories NewVT(tab, scrollback); AttachTo(mock console w x h); then Write / WriteByte / SetCursorPosition / SetState; '
            'geometries 1x1, 1xN, Nx1, 2x2, 80x25, random <= 40x20; scrollback {0,1,3,80,random<6}; tab {0,1,4,8,255,random}; '
            'byte streams biased to \\r \\n \\b \\t, newline-terminated short lines and long printable runs that wrap and scroll; cursor moves to '
            '{0,1,edge,edge+1,2^31,2^32-1,random}; a separate stream outside the quantifier (writes before attach, re-attach, zero-sized console, '
            '32-bit wrap of height+scrollback or of the buffer size) is compared model-vs-code only; non-trivial = in-domain history that stores at least one byte')
    assumptions = ['translator gen/gotrans + Lib/GoOps.v for the translation tie of VT methods (Props/C17_trans.v); the console reference is modelled there as "is non-nil"',
                   'the console is seen through its interface (Dimensions, DefaultColors, Write, Fill, Scroll); its drivers are C19',
                   'the terminal is attached once, before use (as kernel/hal does); re-attachment is outside the property and compared model-vs-code only',
                   'the three stores of doWrite and the byte loops of lf are modelled with bounds-checked list primitives; '
                   'the scroll loop is modelled as one pass (proved equal to the byte-by-byte loop in Tty/VtLoops.v)']
    partial = []

    def gen_cases(self, rng, tier):
        n = {'quick': 700, 'thorough': 16000, 'search': 2500}[tier]
        out = []
        for i in range(n):
            if rng.random() < 0.08:
                out.append(gen_outside(rng))
            else:
                out.append(gen_history(rng, tier, small=(rng.random() < 0.35)))
        # geometries across narrow-integer boundaries: few but large
        m = {'quick': 70, 'thorough': 1500, 'search': 200}[tier]
        for i in range(m):
            out.append(gen_boundary(rng, kind=['wide', 'tall', 'tab', 'tab', 'wide', 'tall'][i % 6] if i % 10 else 'big'))
        return out

    def classify(self, nums, note):
        return note

    def extra_checks(self, ctx):
        """soak: long streams on large geometries, real code + reference-terminal monitor only (the list-based
        executable model would be too slow on these; correspondence is covered by the main stream)"""
        rng = ctx['rng']
        n = 600 if ctx['tier'] == 'quick' else 6000
        cases = []
        for i in range(n):
            nums, note = gen_history(rng, ctx['tier'], budget=400_000_000 if i % 3 else 40_000_000, small=False)
            cases.append((nums, 'soak:' + note))
        for i in range(n // 3):
            nums, note = gen_boundary(rng, budget=3_000_000_000)
            cases.append((nums, 'soak:' + note))
        return soak(self, ctx, cases)

    def explain(self, nums):
        tab, sb, ops = dec_ops(nums)
        s = ['NewVT(tab=%d, scrollback=%d)' % (tab, sb)]
        for o in ops:
            if o[0] == 0:
                s.append('AttachTo(console %dx%d fg=%d bg=%d)' % o[1:])
            elif o[0] == 1:
                s.append('Write(%r)' % bytes(b & 255 for b in o[1]))
            elif o[0] == 2:
                s.append('WriteByte(%#x)' % o[1])
            elif o[0] == 3:
                s.append('SetCursorPosition(%d,%d)' % (o[1], o[2]))
            else:
                s.append('SetState(%d)' % o[1])
        return ' ; '.join(s)[:3000]

    def nontrivial(self, nums, obs):
        tab, sb, ops = dec_ops(nums)
        return bool(ops) and ops[0][0] == 0 and ops[0][1] >= 1 and ops[0][2] >= 1 and any(o[0] in (1, 2) and (o[0] == 2 or o[1]) for o in ops) and 'dead' not in obs

    def shrink_candidates(self, nums):
        tab, sb, ops = dec_ops(nums)
        # drop one op (never the attach at the front)
        for j in range(len(ops) - 1, 0, -1):
            yield enc_ops(tab, sb, ops[:j] + ops[j + 1:])
        # shorten byte strings
        for j, o in enumerate(ops):
            if o[0] == 1 and len(o[1]) > 1:
                bs = o[1]
                half = len(bs) // 2
                for nb in (bs[:half], bs[half:], bs[:-1], bs[1:]):
                    yield enc_ops(tab, sb, ops[:j] + [(1, nb)] + ops[j + 1:])
                if len(bs) <= 24:
                    for k in range(len(bs)):
                        yield enc_ops(tab, sb, ops[:j] + [(1, bs[:k] + bs[k + 1:])] + ops[j + 1:])
        # smaller parameters
        if sb > 0:
            yield enc_ops(tab, sb - 1, ops)
            yield enc_ops(tab, 0, ops)
        if tab > 0:
            yield enc_ops(min(tab - 1, 4), sb, ops)
        if ops and ops[0][0] == 0:
            _, w, h, fg, bg = ops[0]
            if w > 1:
                yield enc_ops(tab, sb, [(0, w - 1, h, fg, bg)] + ops[1:])
                yield enc_ops(tab, sb, [(0, max(1, w // 2), h, fg, bg)] + ops[1:])
            if h > 1:
                yield enc_ops(tab, sb, [(0, w, h - 1, fg, bg)] + ops[1:])
                yield enc_ops(tab, sb, [(0, w, max(1, h // 2), fg, bg)] + ops[1:])


if __name__ == '__main__':
    sys.exit(flow.standard_check(C17(), sys.argv[1:]))
