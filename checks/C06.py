import os, sys, random, json
sys.path.insert(0, os.path.join(os.path.dirname(os.path.abspath(__file__)), '..', 'lib'))
sys.path.insert(0, os.path.dirname(os.path.abspath(__file__)))
import vlib, flow, gen_trans
import pt_common as pc

gen_trans.register('mm_vmm.json')   # Go -> Gallina translation of the pageTableEntry / Frame / Page helpers (Gen/Trans_mm_vmm.v, used by Vmm/PtTrans.v)
gen_trans.register('vmm_pdt.json')    # "memory as state" translations used by the fault-handler tie (Vmm/FaultTrans.v needs the oracles of Vmm/PdtTrans.v, Vmm/MapTrans.v)
gen_trans.register('vmm_map.json')
gen_trans.register('vmm_fault.json')  # pageFaultHandler with the closure passed to walk, raw-pointer loads/stores and stateful seams (Gen/Trans_vmm_fault.v, Vmm/FaultTrans.v)
gen_trans.register('vmm_zero.json')   # reserveZeroedFrame (state variables ReservedZeroedFrame / protectReservedZeroedPage assigned; Gen/Trans_vmm_zero.v, Vmm/ZeroTrans.v)
gen_trans.register('vmm_gpf.json')    # generalProtectionFaultHandler (printing seams, panic as a recorded call that ends the run; Gen/Trans_vmm_gpf.v, Vmm/GpfTrans.v)
gen_trans.register('kernel_mem.json')  # byte-memory mode: kernel.Memset / kernel.Memcopy, the overlaid slice as a window (Gen/Trans_kernel_mem.v, Kernel/MemUtilTrans.v, Vmm/MemsetSeam.v)
from pt_common import LO, P, RW, US, HUGE, COW, NX, M64, M36


class C06(flow.Spec):
    prop = 'C06'
    props_files = ['theories/Props/C06.v', 'theories/Props/C06_examples.v', 'theories/Props/C06_mem.v', 'theories/Props/C06_mem_examples.v',
                   'theories/Props/C06_fault_trans.v', 'theories/Props/C06_fault_trans_examples.v',
                   'theories/Props/C06_zero_trans.v', 'theories/Props/C06_zero_trans_examples.v',
                   'theories/Props/C06_gpf_trans.v', 'theories/Props/C06_gpf_trans_examples.v',
                   'theories/Props/C06_mem_trans.v', 'theories/Props/C06_mem_trans_examples.v']
    model_targets = ['theories/Vmm/Pt.vo', 'theories/Kernel/MemUtil.vo']
    pkg = 'mm/vmm'
    harness = pc.HARNESS + [os.path.join(pc.H, 'zz_verif_c06_test.go')]
    test = 'TestVerifC06$'
    rule = ('histories of reserveZeroedFrame, Map / MapTemporary / PageDirectoryTable.Map / MapRegion / IdentityMapRegion (incl. writable '
            'requests for the zero frame), page faults and GPFs: every combination of {P,RW,CoW,NX,User,Huge} on the leaf, P/Huge flipped on '
            'each upper level, fault addresses inside and outside mapped pages, error codes 0-31, several pages sharing the zero frame, '
            'repeated faults, allocator failure at each step (copy frame, each temp-mapping table), copy frame = zero frame; '
            'non-trivial = at least one fault; distinct = distinct op lists')
    assumptions = [
        "physical memory and the MMU are simulated by the harness (see C04); the faulting page shows the frame its translation names (a shared mapping of the arena page is placed at the fault address), so recoverable faults are generated inside the harness's view window only",
        "theorem domain: fault page outside slot 511 and not the temp-mapping page, the page shows a backed data frame that is neither a page table nor in the allocator's free list; frames handed out for page tables are fresh (C01), the copy frame may be anything (the zero frame is refused by MapTemporary -> panic)",
        'zero_frame_inv: active address space, requests with frames < 2^40 and flags outside bits 12-51 (a frame number >= 2^40 aliases the zero frame past the guard: domain restriction), faults on pages that share the zero frame; a panicking fault ends the history',
        'that a hardware write fault re-executes correctly after the handler returns is outside the model; kfmt output of the panic path is discarded',
        "translation tie of pageFaultHandler (C06_fault_handler_is_translation): gen/gotrans's memory mode (ext_mem.go) + Vmm/PtAccess.v (a raw-pointer dereference = a virtual access resolved by the MMU model at that time) + the oracles of Vmm/PdtTrans.v, MapTrans.v, FaultTrans.v for the seams (kernel.Memcopy of a page = the model's page-copy step; nonRecoverablePageFault never returns: its call ends the run); under fault_stable (the leaf entry is still found at pageEntry after the temporary mapping has come and gone and while it is being rewritten) and 64-bit address / memory words"]
    partial = []

    def gen_cases(self, rng, tier):
        n = {'quick': 1000, 'thorough': 20000, 'search': 3000}[tier]
        return [self.gen_one(rng) for _ in range(n)]

    def gen_one(self, rng):
        cnt = rng.choice([32, 48])
        n_or = cnt - 12
        oracle = [LO + 1 + i for i in range(n_or)]
        data = [LO + cnt - 1 - i for i in range(6)]
        ops = []
        zf = None
        reserve_first = rng.random() < 0.85
        if reserve_first:
            zf = oracle[0]
        for d in data[:rng.randrange(1, 5)]:
            ops.append([11, d, rng.randrange(1 << 64)])
        if reserve_first:
            ops.append([12])
        # pages in the view window (their host address can show a frame) sharing / not sharing upper tables
        pre = [(rng.randrange(96, 128), rng.randrange(512), rng.randrange(512)) for _ in range(rng.randrange(1, 3))]
        win = []
        for _ in range(rng.randrange(2, 7)):
            i0, i1, i2 = rng.choice(pre)
            m = rng.random()
            if m < 0.6:
                win.append(pc.page_of(i0, i1, i2, rng.randrange(512)))
            elif m < 0.8:
                win.append(pc.page_of(i0, i1, rng.randrange(512), rng.randrange(512)))
            else:
                win.append(pc.page_of(rng.randrange(96, 128), rng.randrange(512), rng.randrange(512), rng.randrange(512)))
        if pc.low_pages_viewable() and rng.random() < 0.3:
            # boundary pages of the address space: page 0 (nil-pointer page), 1, 15
            win += [rng.choice([0, 0, 1, 15])]
        outside = [pc.page_of(rng.choice([0, 1, 200, 256, 300, 510]), rng.randrange(512), rng.randrange(512), rng.randrange(512)) for _ in range(2)]
        outside.append(pc.TEMP_PAGE)
        slots = {}

        def leaf_flags(cow_ok):
            f = 0
            if cow_ok and rng.random() < 0.5:
                f = P | COW | rng.choice([0, 0, NX, US, NX | US, pc.GLOBAL, pc.ACC | pc.DIRTY, 1 << 52])
            else:
                for b, pr in ((P, 0.85), (RW, 0.3), (COW, 0.6), (NX, 0.3), (US, 0.2), (HUGE, 0.1), (pc.GLOBAL, 0.1), (pc.ACC, 0.1)):
                    if rng.random() < pr:
                        f |= b
            if not cow_ok and (f & P) and (f & COW) and not (f & RW):
                f |= RW            # outside the window the harness cannot show a frame's contents
            return f

        def src_frame():
            r = rng.random()
            if zf and r < 0.5:
                return zf
            if r < 0.9:
                return rng.choice(data)
            return rng.randrange(1, 1 << 40)

        nops = rng.randrange(4, 24)
        for _ in range(nops):
            r = rng.random()
            if r < 0.30:
                inwin = rng.random() < 0.85
                pg = rng.choice(win if inwin else outside)
                fr = src_frame()
                fl = leaf_flags(inwin)
                if inwin and not (LO <= fr < LO + cnt):
                    fl |= RW if (fl & COW) else 0       # an unbacked frame cannot be shown either
                ops.append([0, pg, fr, fl])
            elif r < 0.60:
                mapped = [o[1] for o in ops if o[0] == 0 and o[1] in win]
                t = rng.random()
                if mapped and t < 0.5:
                    pg = rng.choice(mapped)
                elif mapped and t < 0.7:
                    # a page that was never mapped but shares its tables with a mapped one (non-present leaf / level)
                    q = rng.choice(mapped)
                    pg = rng.choice([q ^ 1, q ^ 0x80, q ^ (1 << 9), q ^ (1 << 18)])
                else:
                    pg = rng.choice(win + win + outside)
                addr = ((pg << 12) & M64) | rng.choice([0, 8, 0xfff, rng.randrange(4096)])
                if rng.random() < 0.05:
                    addr = rng.choice([0, 0x1000, M64, rng.randrange(1 << 64) & ~(0xfff << 35)])
                    # random addresses: never inside a copy-on-write page of the window
                    if any((addr >> 12) & M36 == w & M36 for w in win):
                        addr = 0
                ec = rng.choice([0, 1, 2, 3, 4, 7, 8, 16, rng.randrange(32)])
                if rng.random() < 0.5:
                    # the interrupted register context is arbitrary: stack / instruction pointers near the fault address
                    rsp = rng.choice([addr, (addr + 1) & M64, (addr + 8) & M64, (addr + 4096) & M64, ((addr | 0xfff) + 1) & M64,
                                      (addr - 8) & M64, 0, M64, rng.randrange(1 << 64)])
                    rip = rng.choice([addr, 0, rng.randrange(1 << 64)])
                    ops.append([19, addr, ec, rsp, rip])
                else:
                    ops.append([13, addr, ec])
            elif r < 0.66 and zf:
                # the mapping interface asked for a writable zero frame
                m = rng.random()
                pg = rng.choice(win + outside)
                fl = RW | rng.choice([0, P, P | NX, P | US, COW, P | COW])
                if m < 0.45:
                    ops.append([0, pg, zf, fl])
                elif m < 0.6:
                    ops.append([3, zf])
                elif m < 0.75:
                    if not slots:
                        ops.append([4, 0, data[5]])
                        slots[0] = data[5]
                    ops.append([5, 0, pg, zf, fl])
                elif m < 0.9:
                    ops.append([8, zf - rng.choice([0, 0, 1]), rng.choice([1, 4096, 8192]), fl])
                else:
                    ops.append([9, zf - rng.choice([0, 0, 1]), rng.choice([1, 4096, 8192]), fl])
            elif r < 0.72:
                ops.append([1, rng.choice(win + outside)])
            elif r < 0.80:
                pg = rng.choice(win)
                if rng.random() < 0.3:
                    ops.append([18, pg, rng.randrange(4), pc.extra_mask(rng)])
                else:
                    m = 0
                    for b, pr in ((P, 0.25), (HUGE, 0.25), (RW, 0.5), (COW, 0.5), (NX, 0.3), (US, 0.2)):
                        if rng.random() < pr:
                            m |= b
                    ops.append([17, pg, rng.randrange(3), m or RW])
            elif r < 0.83:
                ops.append([14, rng.randrange(1 << 64)])
            elif r < 0.835:
                ops.append([12])
                if zf is None:
                    zf = LO + 1   # a guess; only used to aim requests
            elif r < 0.90:
                ops.append([3, rng.choice(data + [rng.randrange(1 << 40)])])
            elif r < 0.94:
                ops.append([2, ((rng.choice(win + outside) << 12) & M64) | rng.randrange(4096)])
            else:
                ops.append([11, rng.choice(data), rng.randrange(1 << 64)])
        # failure injection: predict the allocator calls and fail a chosen step of a chosen fault / map
        sim = pc.AllocSim()
        leaf = {}
        marks = []          # (oracle index of the first allocation of the op, number of allocations, kind)
        zset = False
        for o in ops:
            c0 = sim.consumed
            if o[0] == 12 and not zset:
                sim.consumed += 1
                sim.need(pc.TEMP_PAGE)
                zset = True
                marks.append((c0, sim.consumed - c0, 'reserve'))
            elif o[0] == 0:
                if zset and o[2] == zf and o[3] & RW:
                    continue
                sim.need(o[1])
                leaf[o[1] & M36] = (o[2], o[3])
                marks.append((c0, sim.consumed - c0, 'map'))
            elif o[0] == 3:
                if zset and o[1] == zf:
                    continue
                sim.need(pc.TEMP_PAGE)
            elif o[0] in (13, 19):
                e = leaf.get((o[1] >> 12) & M36)
                if e and e[1] & P and e[1] & COW and not e[1] & RW:
                    sim.consumed += 1
                    sim.need(pc.TEMP_PAGE)
                    leaf[(o[1] >> 12) & M36] = (0, (e[1] & ~COW) | RW)
                    marks.append((c0, sim.consumed - c0, 'fault'))
            elif o[0] == 1:
                leaf.pop(o[1] & M36, None)
            elif o[0] in (4, 5, 8, 9, 17, 12):
                break       # prediction ends here
        fm = rng.random()
        faults = [m for m in marks if m[2] == 'fault']
        if fm < 0.40 and faults:
            c0, n, _ = rng.choice(faults)
            k = c0 + rng.randrange(n)
            if k < len(oracle):
                r2 = rng.random()
                if r2 < 0.6:
                    oracle[k] = 0
                elif r2 < 0.8:
                    oracle = oracle[:k]
                elif zf and k == c0:
                    oracle[k] = zf              # the copy frame is the zero frame
                else:
                    oracle[k] = rng.choice([LO, data[0], LO + cnt + 2, 7])
        elif fm < 0.55 and [m for m in marks if m[2] != 'reserve' or rng.random() < 0.1]:
            c0, n, _ = rng.choice([m for m in marks if m[2] != 'reserve'] or marks)
            if n and c0 + n - 1 < len(oracle):
                oracle[c0 + rng.randrange(n)] = 0
        elif fm < 0.6:
            oracle[rng.randrange(len(oracle))] = 0
        probes = pc.neighbours(win + outside, rng, limit=24)
        note = 'zf' if reserve_first else 'nozf'
        return (pc.build(cnt, 0, oracle, probes, ops), note)

    # ---- kernel.Memset / kernel.Memcopy (Kernel/MemUtil.v, Props/C06_mem.v): second model + harness in package kernel ----
    def mem_cases(self, rng, tier):
        n = {'quick': 400, 'thorough': 6000, 'search': 1500}[tier]
        out = []
        sizes = [0, 1, 2, 3, 4, 5, 7, 8, 9, 15, 16, 17, 31, 33, 63, 64, 65, 100, 127, 128, 129, 255, 257, 1000, 1023, 1025,
                 4095, 4096, 4097, 5000, 8191, 8192, 8193, 12288]
        for it in range(n):
            r = rng.random()
            if r < 0.25:
                # what the kernel does: one page, any alignment of the buffer, any fill value
                base = rng.choice([0, 0, 1, 3, 8, 64, rng.randrange(0, 5000)])
                out.append([0, base + 4096 + rng.choice([0, 1, 64, rng.randrange(0, 5000)]), base, rng.choice([0, 0, 0, 0xff, rng.randrange(256)]), 4096])
            elif r < 0.45:
                # one page copied between disjoint regions (the copy-on-write handler), either order, touching or apart
                gap = rng.choice([0, 0, 1, 64, rng.randrange(0, 5000)])
                lo = rng.choice([0, 0, 1, 8, rng.randrange(0, 5000)])
                hi = lo + 4096 + gap
                src, dst = (lo, hi) if rng.random() < 0.5 else (hi, lo)
                out.append([1, hi + 4096 + rng.choice([0, 1, rng.randrange(0, 200)]), src, dst, 4096])
            elif r < 0.70:
                size = rng.choice(sizes) if rng.random() < 0.6 else rng.randrange(0, 20000)
                if rng.random() < 0.05:
                    size = rng.choice([65535, 65536, 65537, 100000])
                base = rng.choice([0, 0, 1, 3, 8, rng.randrange(0, 70)])
                tail = rng.choice([0, 0, 1, 5, rng.randrange(0, 70)])
                out.append([0, base + size + tail, base, rng.choice([0, 0, 0xff, rng.randrange(256)]), size])
            else:
                size = rng.choice(sizes) if rng.random() < 0.5 else rng.randrange(0, 9000)
                m = rng.random()
                src = rng.randrange(0, 50)
                if m < 0.3:
                    dst = src + size + rng.randrange(0, 50)           # disjoint, destination above
                elif m < 0.5:
                    dst, src = src, src + size + rng.randrange(0, 50)  # disjoint, destination below
                elif m < 0.7:
                    dst = src + rng.randrange(0, size + 1)            # overlapping, destination above
                elif m < 0.9:
                    dst, src = src, src + rng.randrange(0, size + 1)   # overlapping, destination below
                else:
                    dst = src
                total = max(src, dst) + size + rng.randrange(0, 40)
                out.append([1, total, src, dst, size])
        return out

    def extra_checks(self, ctx):
        res = []
        wd = ctx['wd']
        rng = random.Random(ctx['seed'] * 11 + 5)
        cases = self.mem_cases(rng, ctx['tier'])
        cpath = os.path.join(wd, 'cases_mem.txt')
        gpath = os.path.join(wd, 'go_mem.out')
        mpath = os.path.join(wd, 'model_mem.out')
        vlib.write_cases(cpath, cases)
        hk = os.path.join(vlib.ROOT, 'harness/kernel/root/zz_verif_c06mem_test.go')
        rc, out, _ = vlib.run_go(wd, 'kernel', '', [hk], 'TestVerifC06Mem$', cases_path=cpath, out_path=gpath, timeout=600)
        gobs, mons, info = vlib.parse_out(gpath)
        names = {0: 'Memset(base+%d, value %#x, size %d) on a %d-byte buffer', 1: 'Memcopy(src base+%d, dst base+%d, size %d) inside a %d-byte buffer'}

        def describe(c):
            return names[c[0]] % ((c[2], c[3], c[4], c[1]) if c[0] == 0 else (c[2], c[3], c[4], c[1]))
        if rc != 0 and not mons:
            res.append(('c06:mem-harness-died', 'Memset/Memcopy harness did not complete: ' + out[-800:], None))
        seen = set()
        for (i, sig, msg) in sorted(mons, key=lambda m: cases[m[0]][1] if m[0] < len(cases) else 0):
            if sig in seen:
                continue
            seen.add(sig)
            c = cases[i] if i < len(cases) else None
            res.append((sig, msg, dict(kind='mem-call', call=describe(c) if c else None, mem_case=['%x' % v for v in c] if c else None,
                                       replay='bin/check C06 --replay <this file>')))
        try:
            vlib.run_model('C06mem', cpath, mpath)
            mobs, _, _ = vlib.parse_out(mpath)
            bad = [i for i in range(len(cases)) if gobs.get(i) != mobs.get(i)]
            if bad and not mons:
                i = min(bad, key=lambda k: cases[k][1])
                res.append(('c06:mem-model-mismatch', 'Kernel/MemUtil.v and mem_util.go differ on %d of %d calls, smallest: %s' % (len(bad), len(cases), describe(cases[i])),
                            dict(kind='mem-call', call=describe(cases[i]), mem_case=['%x' % v for v in cases[i]], no_failing_input=True, replay='bin/check C06 --replay <this file>', correspondence='Kernel/MemUtil.v run_case vs kernel.Memset/Memcopy (TestVerifC06Mem)')))
        except Exception as ex:
            res.append(('c06:mem-model-failed', str(ex)[-600:], None))
        self.mem_info = dict(cases=len(cases), memset=sum(1 for c in cases if c[0] == 0), memcopy=sum(1 for c in cases if c[0] == 1),
                             non_power_of_two_sizes=sum(1 for c in cases if c[4] & (c[4] - 1)), overlapping=sum(1 for c in cases if c[0] == 1 and abs(c[2] - c[3]) < c[4]))
        return res

    def explain(self, nums):
        return pc.explain(nums)

    def nontrivial(self, nums, obs):
        r = pc.parse(nums)
        return bool(r) and any(o[0] in (13, 19) for o in r[4]) and obs[-1] != 'ee'

    def shrink_candidates(self, nums):
        return pc.shrink_candidates(nums)


def mem_replay(obj):
    """bin/check C06 --replay <file> for a recorded Memset/Memcopy call (key mem_case)"""
    nums = [int(x, 16) for x in obj['mem_case']]
    wd = vlib.ensure_dir(os.path.join(vlib.WORK, 'C06', 'replay'))
    vlib.regen()
    vlib.coq_build(['theories/Kernel/MemUtil.vo'])
    cpath, gpath, mpath = (os.path.join(wd, n) for n in ('cases_mem.txt', 'go_mem.out', 'model_mem.out'))
    vlib.write_cases(cpath, [nums])
    hk = os.path.join(vlib.ROOT, 'harness/kernel/root/zz_verif_c06mem_test.go')
    rc, out, _ = vlib.run_go(wd, 'kernel', '', [hk], 'TestVerifC06Mem$', cases_path=cpath, out_path=gpath, timeout=300)
    gobs, mons, _ = vlib.parse_out(gpath)
    print('case       :', ' '.join('%x' % v for v in nums))
    print('impl obs   :', ' '.join(gobs.get(0, ['<none>']))[:400])
    for (i, s, m) in mons:
        print('impl MONITOR-FAIL:', s, m)
    if rc != 0:
        print(out[-2000:])
    try:
        vlib.run_model('C06mem', cpath, mpath)
        mobs, _, _ = vlib.parse_out(mpath)
        print('model obs  :', ' '.join(mobs.get(0, ['<none>']))[:400])
        print('model and implementation', 'AGREE' if mobs.get(0) == gobs.get(0) else 'DIFFER')
    except Exception as ex:
        print('model failed:', str(ex)[-400:])
    return 1 if mons else 0


if __name__ == '__main__':
    if '--replay' in sys.argv:
        try:
            o = json.load(open(sys.argv[sys.argv.index('--replay') + 1]))
            o = o if 'mem_case' in o else (o.get('detail') or {})
        except Exception:
            o = {}
        if 'mem_case' in o:
            sys.exit(mem_replay(o))
    sys.exit(flow.standard_check(C06(), sys.argv[1:]))
