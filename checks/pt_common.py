"""Shared case format / generators of the page-table checks C04, C05, C06 (model: coq/theories/Vmm/Pt.v,
harness: harness/kernel/mm/vmm/zz_verif_pt_test.go).

case = lo cnt last0 |oracle| oracle.. |probes| probes.. ops..
ops  = 0 Map page frame flags | 1 Unmap page | 2 Translate va | 3 MapTemporary frame | 4 PdtInit slot frame
     | 5 PdtMap slot page frame flags | 6 PdtUnmap slot page | 7 PdtActivate slot | 8 MapRegion frame size flags
     | 9 IdentityMapRegion frame size flags | 10 Poke frame idx value | 11 Fill frame seed | 12 reserveZeroedFrame
     | 13 Fault addr errcode | 14 GPF addr | 15 setupPDTForKernel off n (flags addr size)*n | 16 EarlyReserveRegion size
     | 17 FlipPathEntry page level xormask   (set-up)
     | 19 FaultWithRegs addr errcode rsp rip  (pageFaultHandler with the interrupted register context)
     | 18 OrUpperEntryBits page level mask   (set-up: translation-neutral bits into a present upper-level entry; level 3 = recursive entry of the active root)
"""
import os, sys
sys.path.insert(0, os.path.join(os.path.dirname(os.path.abspath(__file__)), '..', 'lib'))
import vlib

H = os.path.join(vlib.ROOT, 'harness/kernel/mm/vmm')
HARNESS = [os.path.join(H, 'zz_verif_pt_test.go'), os.path.join(H, 'zz_verif_ptmon_test.go')]
vlib.register_const_dump('kernel', 'mm/vmm', os.path.join(H, 'zz_verif_consts_test.go'))

LO = 0x200000000            # frame number of the arena base (host address 0x200000000000)
MAXF = 256
TEMP = 0xffffff7ffffff000
TEMP_PAGE = (TEMP >> 12)
M64 = (1 << 64) - 1
M36 = (1 << 36) - 1
VIEW_LO, VIEW_HI = 0x300000000000, 0x400000000000
P, RW, US, PWT, PCD, ACC, DIRTY, HUGE, GLOBAL, COW, NX = 1, 2, 4, 8, 16, 32, 64, 128, 256, 512, 1 << 63
KOFF = 0xffff800000000000

NARGS = {0: 3, 1: 1, 2: 1, 3: 1, 4: 2, 5: 4, 6: 2, 7: 1, 8: 3, 9: 3, 10: 3, 11: 2, 12: 0, 13: 2, 14: 1, 15: 1, 16: 1, 17: 3, 18: 3, 19: 4}
NAMES = {0: 'Map', 1: 'Unmap', 2: 'Translate', 3: 'MapTemporary', 4: 'PdtInit', 5: 'PdtMap', 6: 'PdtUnmap', 7: 'PdtActivate',
         8: 'MapRegion', 9: 'IdentityMapRegion', 10: 'Poke', 11: 'Fill', 12: 'reserveZeroedFrame', 13: 'Fault', 14: 'GPF',
         15: 'setupPDTForKernel', 16: 'EarlyReserveRegion', 17: 'FlipPathEntry', 18: 'OrUpperEntryBits', 19: 'FaultWithRegs'}


def page_of(i0, i1, i2, i3, canon=True):
    p = (i0 << 27) | (i1 << 18) | (i2 << 9) | i3
    if canon and i0 >= 256:
        p |= 0xffff << 36
    return p


def idx(page, k):
    return (page >> (9 * (3 - k))) & 511


def build(cnt, last0, oracle, probes, ops):
    nums = [LO, cnt, last0, len(oracle)] + list(oracle) + [len(probes)] + list(probes)
    for o in ops:
        nums += list(o)
    return nums


def parse(nums):
    """-> (cnt, last0, oracle, probes, ops) ; ops as lists"""
    try:
        cnt, last0 = nums[1], nums[2]
        i = 3
        n = nums[i]; oracle = nums[i + 1:i + 1 + n]; i += 1 + n
        n = nums[i]; probes = nums[i + 1:i + 1 + n]; i += 1 + n
        ops = []
        while i < len(nums):
            op = nums[i]
            if op not in NARGS:
                break
            k = 1 + NARGS[op]
            if op == 15:
                k += 1 + 3 * nums[i + 2]
            ops.append(nums[i:i + k]); i += k
        return cnt, last0, oracle, probes, ops
    except IndexError:
        return None


def explain(nums):
    r = parse(nums)
    if not r:
        return 'unparsable'
    cnt, last0, oracle, probes, ops = r
    s = ['arena=%d frames from %#x' % (cnt, LO), 'oracle=[%s]' % ','.join('fail' if x == 0 else '+%d' % (x - LO) if LO <= x < LO + MAXF else '%#x' % x for x in oracle),
         '%d probes' % len(probes)]
    if last0:
        s.append('earlyReserveLastUsed=%#x' % last0)
    for o in ops:
        if o[0] == 15:
            secs = [tuple(o[3 + 3 * j:6 + 3 * j]) for j in range(o[2])]
            s.append('setupPDTForKernel(off=%#x, sections=[%s])' % (o[1], '; '.join('flags=%d addr=%#x size=%#x' % t for t in secs)))
        else:
            s.append('%s(%s)' % (NAMES[o[0]], ','.join('%#x' % a for a in o[1:])))
    return ' ; '.join(s)


def shrink_candidates(nums):
    r = parse(nums)
    if not r:
        return
    cnt, last0, oracle, probes, ops = r
    for j in range(len(ops) - 1, -1, -1):
        yield build(cnt, last0, oracle, probes, ops[:j] + ops[j + 1:])
    if len(ops) > 2:
        yield build(cnt, last0, oracle, probes, ops[:len(ops) // 2])
        yield build(cnt, last0, oracle, probes, ops[len(ops) // 2:])
    for j in range(len(probes)):
        if len(probes) > 1:
            yield build(cnt, last0, oracle, probes[:j] + probes[j + 1:], ops)


def neighbours(pages, rng, limit=28):
    """probe set: the pages, their neighbours, pages sharing each upper level, the temp page"""
    out = []

    def add(p):
        p36 = p & M36
        if p36 not in [q & M36 for q in out]:
            out.append(p)
    for p in pages:
        add(p)
    for p in list(pages):
        add((p + 1) & M64 if (p + 1) & M36 else p)
        add(p - 1 if p & M36 else p)
        i0, i1, i2, i3 = (idx(p, k) for k in range(4))
        add(page_of(i0, i1, i2, (i3 + 7) % 512))          # same L3 table
        add(page_of(i0, i1, (i2 + 1) % 512, i3))          # same L2 table
        add(page_of(i0, (i1 + 1) % 512, i2, i3))          # same L1 table
        add(page_of((i0 + 1) % 511, i1, i2, i3))          # other top-level slot
    add(TEMP_PAGE)
    if len(out) > limit:
        keep = out[:len(pages)][:limit]
        rest = out[len(keep):]
        rng.shuffle(rest)
        out = keep + rest[:limit - len(keep)]
    return out


FLAG_SETS = [P, P | RW, P | RW | NX, P | NX, P | US, P | RW | US, P | COW, P | COW | NX, P | RW | GLOBAL, P | PWT | PCD, P | ACC | DIRTY,
             P | RW | (1 << 10) | (1 << 11), P | RW | (1 << 52), P | (0x7ff << 52), 0, RW, P | HUGE]


def pick_pages(rng, n):
    """n pages over a few prefixes so that upper levels are shared / not shared; both halves; the temp page"""
    pre = []
    for _ in range(rng.randrange(1, 4)):
        i0 = rng.choice([0, 1, 255, 256, 300, 509, 510, rng.randrange(0, 511)])
        pre.append((i0, rng.choice([0, 511, rng.randrange(512)]), rng.choice([0, 511, rng.randrange(512)])))
    pages = []
    while len(pages) < n:
        r = rng.random()
        if r < 0.06:
            pages.append(TEMP_PAGE)
            continue
        if r < 0.12:
            pages.append(TEMP_PAGE - rng.randrange(1, 4))
            continue
        i0, i1, i2 = rng.choice(pre)
        m = rng.random()
        if m < 0.5:
            p = page_of(i0, i1, i2, rng.choice([0, 1, 511, rng.randrange(512)]))
        elif m < 0.7:
            p = page_of(i0, i1, rng.randrange(512), rng.randrange(512))
        elif m < 0.85:
            p = page_of(i0, rng.randrange(512), i2, rng.randrange(512))
        else:
            p = page_of(rng.randrange(511), i1, i2, rng.randrange(512))
        if rng.random() < 0.05:
            p = (p & M36) | (rng.randrange(1 << 16) << 36) | (rng.randrange(1 << 12) << 52)   # non-canonical / high garbage bits
        pages.append(p)
    return pages


class AllocSim:
    """Predicts how many frames the code takes from the allocator (so that generators can place a failure at a
    chosen step of a chosen op).  Tracks which table prefixes exist per root; exact as long as no set-up op
    fabricates entries and nothing failed before."""

    def __init__(self):
        self.tables = {LO: set()}
        self.root = LO
        self.consumed = 0
        self.exact = True

    def need(self, page, root=None):
        t = self.tables.setdefault(self.root if root is None else root, set())
        p = page & M36
        n = 0
        for k in (1, 2, 3):
            pre = p >> (9 * (4 - k))
            if (k, pre) not in t:
                t.add((k, pre))
                n += 1
        self.consumed += n
        return n

SAFE_BITS = 0xFFF0000000000F7E
EXTRA_BITS = [ACC, DIRTY, GLOBAL, COW, 1 << 10, 1 << 11, NX, 1 << 52, 1 << 58, 1 << 62, US, PWT, PCD]


def extra_mask(rng):
    """bits the CPU or an OS may leave in an upper-level entry: Accessed almost always, then a random subset"""
    m = ACC if rng.random() < 0.8 else 0
    for b in EXTRA_BITS:
        if rng.random() < 0.25:
            m |= b
    return m


def any_leaf_flags(rng, present=True):
    """flag word drawn from ALL bits outside the frame field (bit 7 is PAT in a 4K leaf)"""
    f = 0
    for b in range(12):
        if rng.random() < 0.3:
            f |= 1 << b
    for b in (52, 55, 59, 62, 63):
        if rng.random() < 0.2:
            f |= 1 << b
    if present:
        f |= P
    return f


def low_pages_viewable():
    """can the harness place a view at the lowest pages (page 0 included)?"""
    try:
        return os.geteuid() == 0 or int(open('/proc/sys/vm/mmap_min_addr').read()) == 0
    except Exception:
        return False
