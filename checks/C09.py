import os, sys
sys.path.insert(0, os.path.join(os.path.dirname(os.path.abspath(__file__)), '..', 'lib'))
import vlib, flow, gen_sync
import gen_trans
gen_trans.register('pmm_bitmap.json')   # translation of AllocFrame/FreeFrame (Gen/Trans_pmm_bitmap.v), for Props/C09_trans.v

gen_sync.register(spin=True, skel=True)
H = os.path.join(vlib.ROOT, 'harness/kernel/mm/pmm')


class C09(flow.Spec):
    prop = 'C09'
    props_files = ['theories/Props/C09.v', 'theories/Props/C09_examples.v', 'theories/Props/C09_tso.v', 'theories/Props/C09_tso_examples.v', 'theories/Props/C08.v', 'theories/Props/C09_trans.v']
    model_targets = ['theories/Sync/SkelRun.vo']
    pkg = 'mm/pmm'
    harness = [os.path.join(H, 'zz_verif_c09_test.go')]
    test = 'TestVerifC09$'
    go_timeout = 1200

    def overlay(self):
        return {os.path.join(vlib.REPO, 'kernel/sync/zz_verif_shim.go'): os.path.join(vlib.ROOT, 'harness/kernel/sync/zz_verif_shim.go')}
    rule = ('parallel stress of the real BitmapAllocator.AllocFrame/FreeFrame: 2-16 goroutines on all cores, pools of 1-130 frames '
            '(word-boundary sizes 1/63/64/65/128/129) so callers collide and hit out-of-memory; per-frame CAS ownership table, '
            'totals at quiescence, sequential drain afterwards, watchdog. The model side reports the skeleton checker verdict on the '
            'lock skeleton regenerated from bitmap_allocator.go. non-trivial = at least 2 callers and 100 iterations')
    partial = ['proved for interleaving semantics and, for lock-disciplined load/store programs in general, for x86-TSO store buffering '
               '(Props/C09_tso.v: every TSO run is matched by an interleaving run and hence a serial one); that real cores implement x86-TSO is '
               'assumed; the skeleton abstracts WHICH shared accesses happen, not their values (values: C01/C03 sequential correspondence)',
               'the step from the Go code to a task program satisfying [disciplined] is by the regenerated skeleton + soundness of '
               'the checker on traces; it is not a verified compilation']
    assumptions = ['translator gen/lockskel (go/ast): receiver-rooted selectors = shared state; fields never assigned by AllocFrame/FreeFrame '
                   'or their callees are treated as read-only after init (pools[i].startFrame/endFrame, len(pools))',
                   'mutual exclusion of the spinlock: C08', 'sequential behaviour of AllocFrame/FreeFrame: C01/C03',
                   'an add-only verif shim in package sync installs runtime.Gosched as the lock\'s yield hook (overlay only)']

    def gen_cases(self, rng, tier):
        n = {'quick': 24, 'thorough': 300, 'search': 80}[tier]
        out = []
        for _ in range(n):
            npools = rng.choice([1, 1, 2, 3])
            nums = [npools]
            start = rng.randrange(1, 1000)
            for _ in range(npools):
                frames = rng.choice([1, 2, 3, 8, 63, 64, 65, 128, 129, 130, rng.randrange(1, 131)])
                nums += [start, frames]
                start += frames + rng.randrange(0, 50)
            callers = rng.choice([2, 3, 4, 8, 16])
            iters = rng.choice([300, 1000, 3000]) if tier != 'thorough' else rng.choice([1000, 5000, 20000])
            nums += [callers, iters, rng.randrange(1 << 30)]
            out.append((nums, 'stress'))
        return out

    def explain(self, nums):
        if not nums:
            return ''
        np_ = nums[0]
        pools = [(nums[1 + 2 * i], nums[2 + 2 * i]) for i in range(np_)]
        rest = nums[1 + 2 * np_:]
        return 'pools(start,frames)=%s callers=%d iters=%d seed=%d' % (pools, rest[0], rest[1], rest[2])

    def nontrivial(self, nums, obs):
        return True

    def shrink_candidates(self, nums):
        np_ = nums[0]
        rest = nums[1 + 2 * np_:]
        if rest[1] > 100:
            yield nums[:1 + 2 * np_] + [rest[0], rest[1] // 2, rest[2]]
        if rest[0] > 2:
            yield nums[:1 + 2 * np_] + [max(2, rest[0] // 2), rest[1], rest[2]]
        if np_ > 1:
            yield [np_ - 1] + nums[1:1 + 2 * (np_ - 1)] + rest


if __name__ == '__main__':
    sys.exit(flow.standard_check(C09(), sys.argv[1:]))
