import os, sys
sys.path.insert(0, os.path.join(os.path.dirname(os.path.abspath(__file__)), '..', 'lib'))
sys.path.insert(0, os.path.dirname(os.path.abspath(__file__)))
import vlib, flow
import C17 as c17   # byte-stream generator and op codec (also registers the device/tty constants dump)

H = os.path.join(vlib.ROOT, 'harness/kernel/device/tty')
SHIM = os.path.join(vlib.ROOT, 'harness/kernel/device/video/console/zz_verif_c18_shim.go')
M32 = (1 << 32) - 1
FONTS = [(8, 16), (10, 18), (14, 28)]     # glyph sizes of the shipped fonts (the harness re-checks the resulting grid)
LOGO_W = [0, 48, 71, 95]                  # widths of the shipped logos (0 = logo off)
HDR = 8 + 9


def split(nums):
    return nums[:8], nums[8:17], nums[17:]


def ops_of(nums):
    _, _, rest = split(nums)
    return c17.dec_ops([0, 0] + list(rest))[2]


def build(cons, term, ops):
    return list(cons) + list(term) + c17.enc_ops(0, 0, ops)[2:]


def gen_case(rng, tier, budget=500_000, big=False):
    r = rng.random()
    kind = 0 if r < 0.40 else 1 if r < 0.58 else 2
    depth = pad = font = logo = layout = mx = my = 0
    fg, bg = 7, 0
    if kind == 0:
        g = rng.random()
        if g < 0.10:
            w, h = 1, 1
        elif g < 0.2:
            w, h = 1, rng.randrange(1, 9)
        elif g < 0.3:
            w, h = rng.randrange(1, 20), 1
        elif g < 0.36:
            w, h = 2, 2
        elif g < 0.40:
            w, h = 80, 25
        else:
            w, h = rng.randrange(1, 31), rng.randrange(1, 13)
        fg, bg = rng.choice([(7, 0), (7, 0), (rng.randrange(256), rng.randrange(256)), (15, 15)])
    elif kind == 1:
        w, h = rng.choice([(80, 25), (1, 1), (1, 5), (7, 1), (2, 2), (rng.randrange(1, 41), rng.randrange(1, 16)), (rng.randrange(1, 12), rng.randrange(1, 6))])
    else:
        depth = rng.choice([8, 15, 16, 24, 32])
        pad = rng.choice([0, 0, 1, 3, 7, 16, rng.randrange(0, 40)])
        font = rng.randrange(3)
        logo = rng.choice([0, 0, 1, 2, 3])
        layout = rng.randrange(2)
        gw, gh = FONTS[font]
        mx, my = rng.choice([0, rng.randrange(gw)]), rng.choice([0, rng.randrange(gh)])
        wmin = max(1, -(-LOGO_W[logo] // gw))
        w = rng.choice([wmin, wmin + rng.randrange(0, 6)]) + (rng.randrange(0, 12) if big else 0)
        h = rng.choice([1, 2, rng.randrange(1, 6)]) + (rng.randrange(0, 6) if big else 0)
    sb = rng.choice([0, 0, 1, 3, rng.randrange(0, 5)] + ([80] if kind == 0 else []))
    tab = rng.choice([0, 1, 4, 4, 8, 255 if w * h < 40 else 8, rng.randrange(0, 17)])
    marker = (0x58, 14, 4)
    size = w * (h + sb) * 3
    per_byte = size + 40 + (w * h if kind else 0)
    left = budget
    ops = []
    if rng.random() < 0.75:
        ops.append((4, 1))
    for _ in range(rng.randrange(2, 16)):
        if left <= 0:
            break
        r = rng.random()
        if r < 0.50:
            style = rng.choice(['mix', 'mix', 'lines', 'run'])
            maxn = max(1, min(left // (per_byte * max(1, tab // 6)), 5 * w * h + 30, 900))
            n = rng.randrange(0, maxn + 1) if rng.random() < 0.7 else maxn
            bs = c17.gen_bytes(rng, n, w, style)
            left -= per_byte * (len(bs) + bs.count(9) * tab)
            if len(bs) <= 4 and rng.random() < 0.3:
                ops += [(2, b) for b in bs]
            else:
                ops.append((1, bs))
        elif r < 0.60:
            n = min(h + sb + rng.randrange(0, 4), max(1, left // per_byte))
            ops.append((1, [10] * n))
            left -= per_byte * n
        elif r < 0.74:
            ops.append((3, rng.choice([0, 1, w, w + 1, rng.randrange(0, w + 2), M32]), rng.choice([0, 1, h, h + 1, rng.randrange(0, h + 2), M32])))
        else:
            ops.append((4, rng.choice([0, 1, 0, 1, 0, 1, 2, 255])))
            left -= 4 * w * h * (size + w * h)
    note = ['cell', 'vga', 'vesa%d' % depth][kind]
    return build([kind, depth, pad, font, logo, layout, mx, my], [tab, sb, w, h, fg, bg] + list(marker), ops), note


def gen_edge(rng, kind=None, huge=False):
    """consoles whose row / column / cell count crosses a narrow-integer boundary (63..65, 127..129, 255..257 rows or
    columns; with huge=True more than 2^16 cells, monitor-only), with content in the last rows / columns, scrolls after the
    scrollback is used up, and deactivate / write / activate cycles while the cursor is far down the screen"""
    EDGE = c17.EDGE + [66, 70]
    kind = kind or rng.choice(['tall', 'tall', 'wide'])
    depth = pad = font = logo = layout = mx = my = 0
    fg, bg = 7, 0
    if huge:
        ck = rng.choice([0, 1, 1, 1])
        w, h = rng.choice([(300, 250), (257, 256), (256, 257), (65537, 1), (1, 65537), (256, 256), (255, 257), (512, 129), (40, 1700)])
        sb = rng.choice([0, 0, 1, 2])
    else:
        ck = rng.choice([0, 1, 1, 2])
        if kind == 'tall':
            w, h = rng.randrange(1, 5), rng.choice(EDGE)
        else:
            w, h = rng.choice(EDGE), rng.randrange(1, 4)
        sb = rng.choice([0, 0, 1, 2, 3])
        if ck == 2:
            depth, pad, layout = rng.choice([8, 15, 16, 24, 32]), rng.choice([0, 3]), rng.randrange(2)
            mx, my = rng.choice([0, 3]), rng.choice([0, 5])
    if ck == 0:
        fg, bg = rng.choice([(7, 0), (rng.randrange(256), rng.randrange(256))])
    tab = rng.choice([0, 1, 4, 8])
    size = w * (h + sb) * 3
    per_byte = 3 * size // 2 + 60 + (0 if huge else 2 * w * h)
    redraw = 0 if huge else 3 * w * h * size // 2 + 2 * (w * h) ** 2
    left = 40_000_000
    ops = []

    def afford(c):
        nonlocal left
        if huge:
            return True
        if c > left:
            return False
        left -= c
        return True

    def near_end(n):
        return max(1, n - rng.choice([0, 0, 1, 2, 3, rng.randrange(0, n)]))

    def line():
        return c17.printable(rng, rng.randrange(0, min(w, 3) + 1)) + [10]

    state = 0

    def set_state(st):
        nonlocal state
        if st == 1 and state != 1 and not afford(redraw):
            return
        state = st
        ops.append((4, st))

    if rng.random() < 0.8:
        set_state(1)
    for _ in range(rng.randrange(5, 14)):
        r = rng.random()
        if r < 0.22:
            # short lines all the way down (and beyond: scrollback, then scrolling)
            n = rng.choice([h - 1, h, h + sb, h + sb + 2]) if not huge else rng.randrange(1, 4)
            bs = [b for _ in range(max(1, n)) for b in line()]
            if huge:
                ops.append((3, 1, near_end(h)))
            if afford(len(bs) * per_byte):
                ops.append((1, bs))
        elif r < 0.45:
            # a few bytes in the last rows / columns
            bs = c17.printable(rng, rng.randrange(1, 6))
            if afford(len(bs) * per_byte):
                ops += [(3, near_end(w), near_end(h)), (1, bs)]
        elif r < 0.60:
            # line feeds from a late row
            n = rng.choice([1, 2, sb + 1, sb + 3])
            if afford(n * (per_byte + 8 * size)):
                ops += [(3, rng.choice([1, near_end(w)]), near_end(h)), (1, [10] * n)]
        elif r < 0.70:
            if afford(6 * per_byte):
                ops += [(3, near_end(w), near_end(h)), (1, [8, 9] + c17.printable(rng, 2))]
        else:
            # deactivate / activate (most of the time a real flip)
            set_state(rng.choice([1 - state if state in (0, 1) else 1, 1 - state if state in (0, 1) else 0, 0, 1, 2]))
    if state != 1 and rng.random() < 0.7:
        set_state(1)
    note = 'edge:' + ('huge-' if huge else '') + ['cell', 'vga', 'vesa%d' % depth][ck]
    return build([ck, depth, pad, font, logo, layout, mx, my], [tab, sb, w, h, fg, bg, 0x58, 14, 4], ops), note


class C18(flow.Spec):
    prop = 'C18'
    props_files = ['theories/Props/C18.v', 'theories/Props/C18_text.v', 'theories/Props/C18_examples.v']
    model_targets = ['theories/Tty/VtCons.vo']
    pkg = 'device/tty'
    harness = [os.path.join(H, 'zz_verif_c18_test.go'), os.path.join(H, 'zz_verif_c17_test.go')]
    test = 'TestVerifC18$'
    extra_overlay = {os.path.join(vlib.REPO, 'kernel/device/video/console/zz_verif_c18_shim.go'): SHIM}
    rule = ('histories NewVT; AttachTo(console); then Write / WriteByte / SetCursorPosition / SetState with frequent activate/deactivate '
            'flips; consoles: (i) cell-level reference console of any geometry incl. 1x1, 1xN, Nx1, 80x25 and arbitrary default colours, '
            '(ii) real VgaTextConsole over host memory (80x25, 1x1, ...), (iii) real VesaFbConsole over host memory set up as hal does '
            '(DriverInit, SetLogo, SetFont): depth 8/15/16/24/32, RGB and BGR layouts, pitch = row bytes and row bytes + padding, the three '
            'fonts, logo off / each of the three logos, pixel margins right of / below the grid; non-trivial = the terminal was active for at '
            'least one write')
    assumptions = ['the cell-level console semantics (Console/Grid.v: Write one in-grid cell, Fill clamp+clip, Scroll moves lines, junk in vacated '
                   'lines) is what C19 proves of the driver models; C18_sync_text / C18_sync_pixels_fb compose C18_sync_inv with those refinement '
                   'lemmas (Console/VgaProofs.v, Console/VesaGridProofs.v) down to text cells / pixels of the driver MODELS; on the real drivers the '
                   'same statement is checked by the harness (decoded text cells / reference painter)',
                   'the space glyph of the font is blank (C19_shipped_space_glyph_blank: true of the three shipped fonts)',
                   'the terminal is attached while inactive and exactly once (as kernel/hal does: AttachTo, then SetState(Active))',
                   'add-only export shim in package console (build tag verif, injected by overlay) replaces mapRegionFn/portWriteByteFn as the '
                   "package's own tests do, so that DriverInit maps the framebuffer at host memory"]
    partial = []

    def gen_cases(self, rng, tier):
        n = {'quick': 1500, 'thorough': 30000, 'search': 3000}[tier]
        out = [gen_case(rng, tier) for _ in range(n)]
        m = {'quick': 60, 'thorough': 1500, 'search': 150}[tier]
        out += [gen_edge(rng) for _ in range(m)]
        return out

    def classify(self, nums, note):
        return note

    def extra_checks(self, ctx):
        """soak: longer histories on larger consoles, real code + monitors only (no executable model)"""
        rng = ctx['rng']
        n = 400 if ctx['tier'] == 'quick' else 5000
        cases = []
        for i in range(n):
            nums, note = gen_case(rng, ctx['tier'], budget=30_000_000, big=True)
            cases.append((nums, 'soak:' + note))
        for i in range(12 if ctx['tier'] == 'quick' else 150):
            nums, note = gen_edge(rng, huge=True)
            cases.append((nums, 'soak:' + note))
        return c17.soak(self, ctx, cases)

    def explain(self, nums):
        cons, term, _ = split(nums)
        if len(term) < 9:
            return ''
        kind = ['cell-level reference console', 'VgaTextConsole', 'VesaFbConsole'][cons[0]] if cons[0] < 3 else '?'
        s = ['%s %dx%d cells' % (kind, term[2], term[3])]
        if cons[0] == 2:
            s.append('depth %d, padding %d, font %dx%d, logo %s, %s, margins %d/%d px' % (cons[1], cons[2], FONTS[cons[3] % 3][0], FONTS[cons[3] % 3][1],
                     ['off', '64', '96', '128'][cons[4] % 4], ['RGB', 'BGR'][cons[5] % 2], cons[6] % FONTS[cons[3] % 3][0], cons[7] % FONTS[cons[3] % 3][1]))
        s.append('NewVT(tab=%d, scrollback=%d); AttachTo' % (term[0], term[1]))
        for o in ops_of(nums):
            if o[0] == 1:
                s.append('Write(%r)' % bytes(b & 255 for b in o[1]))
            elif o[0] == 2:
                s.append('WriteByte(%#x)' % o[1])
            elif o[0] == 3:
                s.append('SetCursorPosition(%d,%d)' % (o[1], o[2]))
            elif o[0] == 4:
                s.append('SetState(%d)' % o[1])
        return ' ; '.join(s)[:3000]

    def nontrivial(self, nums, obs):
        act = False
        for o in ops_of(nums):
            if o[0] == 4:
                act = (o[1] == 1)
            elif o[0] in (1, 2) and act and (o[0] == 2 or o[1]):
                return 'dead' not in obs
        return False

    def shrink_candidates(self, nums):
        cons, term, _ = split(nums)
        ops = ops_of(nums)
        for j in range(len(ops) - 1, -1, -1):
            yield build(cons, term, ops[:j] + ops[j + 1:])
        for j, o in enumerate(ops):
            if o[0] == 1 and len(o[1]) > 1:
                bs = o[1]
                half = len(bs) // 2
                for nb in (bs[:half], bs[half:], bs[:-1], bs[1:]):
                    yield build(cons, term, ops[:j] + [(1, nb)] + ops[j + 1:])
                if len(bs) <= 24:
                    for k in range(len(bs)):
                        yield build(cons, term, ops[:j] + [(1, bs[:k] + bs[k + 1:])] + ops[j + 1:])
        tab, sb, w, h = term[:4]
        if sb > 0:
            yield build(cons, [tab, 0] + list(term[2:]), ops)
        if tab > 4:
            yield build(cons, [4] + list(term[1:]), ops)
        wmin = 1
        if cons[0] == 2:
            wmin = max(1, -(-LOGO_W[cons[4] % 4] // FONTS[cons[3] % 3][0]))
            if cons[4]:
                yield build(list(cons[:4]) + [0] + list(cons[5:]), term, ops)
            if cons[2]:
                yield build(list(cons[:2]) + [0] + list(cons[3:]), term, ops)
        if w > wmin:
            yield build(cons, [tab, sb, w - 1, h] + list(term[4:]), ops)
            yield build(cons, [tab, sb, max(wmin, w // 2), h] + list(term[4:]), ops)
        if h > 1:
            yield build(cons, [tab, sb, w, h - 1] + list(term[4:]), ops)
            yield build(cons, [tab, sb, w, max(1, h // 2)] + list(term[4:]), ops)


if __name__ == '__main__':
    sys.exit(flow.standard_check(C18(), sys.argv[1:]))
