import os, sys, re
sys.path.insert(0, os.path.join(os.path.dirname(os.path.abspath(__file__)), '..', 'lib'))
import vlib, flow

H = os.path.join(vlib.ROOT, 'harness/kbuild')

DIRECTIVE = '//go:redirect-from'
PREFIX = 'github.com/ProjectSerenity/firefly/kernel'


def _translate_kbuild(gen_dir, force):
    """Gen/Consts_kbuild.v: the two string constants local to FindRedirects (function-local constants
    cannot be dumped by an in-package test, so they are read from the source text; if the source no
    longer has them in this shape the documented values are used and the correspondence decides)."""
    src = open(os.path.join(vlib.REPO, 'kbuild', 'redirects.go')).read()
    vals = {}
    for name, default in (('redirectComment', DIRECTIVE), ('pkgPrefix', PREFIX)):
        m = re.search(r'\b%s\s*=\s*"((?:[^"\\]|\\.)*)"' % name, src)
        v = default
        if m:
            try:
                v = bytes(m.group(1), 'utf8').decode('unicode_escape')
            except Exception:
                v = default
        vals[name] = v
    lines = ['(* GENERATED on every run by checks/C20.py from kbuild/redirects.go -- do not edit, not committed *)',
             'From Coq Require Import NArith List.', 'Import ListNotations.', 'Local Open Scope N_scope.', '']
    for name, v in vals.items():
        lines.append('(* %s = "%s" *)' % (name, v.replace('*)', '* )')))
        lines.append('Definition kbuild_%s : list N := [%s]%%N.' % (name, '; '.join(str(b) for b in v.encode('utf8'))))
    target = os.path.join(gen_dir, 'Consts_kbuild.v')
    return {target: vlib.write_if_changed(target, '\n'.join(lines) + '\n')}


if _translate_kbuild not in vlib.EXTRA_TRANSLATORS:
    vlib.EXTRA_TRANSLATORS.append(_translate_kbuild)


def T(s):
    b = s.encode('utf8')
    return [len(b)] + list(b)


def enc_tree(files):
    """files: list of (dir comps, name, decls) ; decl = (kind, render, name, doc, other)"""
    out = [0, len(files)]
    for (d, name, decls) in files:
        out.append(len(d))
        for c in d:
            out += T(c)
        out += T(name)
        out.append(len(decls))
        for (k, r, n, doc, other) in decls:
            out += [k, r] + T(n) + [len(doc)]
            for l in doc:
                out += T(l)
            out.append(len(other))
            for l in other:
                out += T(l)
    return out


def dec_tree(nums):
    it = iter(nums[1:])
    nx = lambda: next(it, 0)

    def text():
        n = nx()
        return bytes(nx() & 255 for _ in range(n)).decode('utf8', 'replace')

    def texts():
        return [text() for _ in range(nx())]
    files = []
    for _ in range(nx()):
        d = texts()
        name = text()
        decls = []
        for _ in range(nx()):
            k, r = nx(), nx()
            n = text()
            doc = texts()
            other = texts()
            decls.append((k, r, n, doc, other))
        files.append((d, name, decls))
    return files


def valid(paths):
    """no duplicate path, no path that is both a file and a directory"""
    fs = set()
    ds = set()
    for d, n in paths:
        p = tuple(d) + (n,)
        if p in fs:
            return False
        fs.add(p)
        for k in range(1, len(d) + 1):
            ds.add(tuple(d[:k]))
    return not (fs & ds)


SYMS = ['runtime.init', 'runtime.sysReserve', 'runtime.sysMap', 'runtime.sysAlloc', 'runtime.nanotime', 'runtime.getRandomData',
        'runtime.gopanic', 'runtime.throw', 'runtime.mallocgc', 'sync.(*Mutex).Lock', 'a.b', 'x', 'runtime/internal/atomic.Load']
NOISE = ['// %s does things.', '//', '// see also runtime.%s', '//go:nosplit', '//go:noinline', '//go:linkname %s runtime.%s',
         '//go:noescape', '// go:redirect-from runtime.%s', '//  //go:redirect-from runtime.%s', '//go:redirect runtime.%s',
         '// nolint', '//go:build ignore', '/* block comment %s */', '/*go:redirect-from runtime.%s*/', '//export %s', '//go:redirect-fro']
DIRS = ['a', 'b', 'a.go', 'goruntime', 'kfmt', 'mm', 'vmm', 'x_test.go', 'z', 'internal', 'B', '_x', 'm-n', 'dir_test']
FILES = ['a.go', 'b.go', 'bootstrap.go', 'panic.go', 'z.go', 'A.go', 'a_b.go', 'test.go', 'atest.go', 'x.go.go', '.go',
         'cpu_arm64.go', 'tty_windows.go', 'x_linux_amd64.go', 'y_amd64.go', 'z_linux.go', '_hidden.go', '.dot.go', 'a_js_wasm.go', 'doc.go', 'x_darwin_arm64.go', 'test_386.go']
TESTFILES = ['a_test.go', 'bootstrap_test.go', '_test.go', 'z_test.go']
NONGO = ['README.md', 'a.go.txt', 'b.s', 'go', 'Makefile', 'x.gox', 'agotest']


class C20(flow.Spec):
    prop = 'C20'
    props_files = ['theories/Props/C20.v', 'theories/Props/C20_examples.v']
    model_targets = ['theories/Kbuild/Model.vo']
    module = 'kbuild'
    pkg = ''
    harness = [os.path.join(H, 'zz_verif_c20_test.go')]
    test = 'TestVerifC20$'
    rule = ('generated source trees (depth <= 4, 1-9 files incl. _test.go and non-Go files, 0-6 declarations per file of kinds '
            'func/method/generic/bodyless func/var/const/type, 0-4 doc lines per declaration mixing the directive with other //go: lines, '
            'doc text and look-alikes, look-alike comments in bodies, detached, on grouped specs, on vars/types and in test files; file names with _GOOS/_GOARCH suffixes or a leading _ or ., build-constraint lines / import "C" before or after the package clause, physical lines of 1000..300001 bytes (comment, string literal) before or after annotations), each '
            'written to disk and scanned 20 times by FindRedirects; plus the real /repo/kernel tree; non-trivial = at least two table '
            'entries; distinct = distinct trees')
    assumptions = ['go/parser (which comments form a declaration\'s Doc group) and filepath.Walk (lexical order) are library code: exercised by the harness on real files, not modelled; the model takes the list of files in walk order with their parsed declarations',
                   'comment text is ASCII or UTF-8 without Unicode white space (strings.TrimSpace also trims U+0085, U+00A0 and other Unicode spaces)',
                   'a directive glued to further characters (//go:redirect-fromX), a directive without symbol and annotations on methods are agreement-only (the property text does not say what they mean); the monitor accepts the table with or without them',
                   'the string constants redirectComment / pkgPrefix are function-local: read from kbuild/redirects.go by regular expression (checks/C20.py) instead of by the Go compiler',
                   'determinism of the model is by construction (it is a function of the tree); determinism of the real code is checked by the monitor (20 runs per tree must give the identical table)']

    def __init__(self):
        self.go_extra_env = {'VERIF_C20_SCRATCH': vlib.ensure_dir(os.path.join(vlib.WORK, 'C20', 'trees')),
                             'VERIF_KERNEL_DIR': os.path.join(vlib.REPO, 'kernel')}

    # ---- generator ------------------------------------------------------------------
    def gen_doc(self, rng, annotated, agree):
        """-> doc lines. annotated: number of directive lines wanted."""
        lines = []
        for _ in range(rng.choice([0, 1, 1, 2, 3])):
            n = rng.choice(NOISE)
            lines.append(n.replace('%s', rng.choice(['foo', 'Bar', 'x1'])))
        for _ in range(annotated):
            sym = rng.choice(SYMS)
            sep = rng.choice([' ', ' ', ' ', '  ', '\t', ' \t '])
            tail = rng.choice(['', '', '', ' ', '\t', '  '])
            l = DIRECTIVE + sep + sym + tail
            if agree and rng.random() < 0.3:
                l = rng.choice([DIRECTIVE, DIRECTIVE + ' ', DIRECTIVE + 's ' + sym, DIRECTIVE + sym, DIRECTIVE + '=' + sym,
                                DIRECTIVE + ' ' + sym + ' trailing words', DIRECTIVE + ' \u00e9t\u00e9'])
            lines.insert(rng.randrange(len(lines) + 1), l)
        return lines

    long_rate = 0.08

    def gen_tree(self, rng, agree=False):
        nfiles = rng.choice([1, 2, 3, 4, 5, 6, 9])
        files = []
        for _ in range(nfiles):
            depth = rng.choice([0, 0, 1, 1, 2, 3, 4])
            d = [rng.choice(DIRS) for _ in range(depth)]
            r = rng.random()
            name = rng.choice(FILES) if r < 0.7 else rng.choice(TESTFILES) if r < 0.88 else rng.choice(NONGO)
            if not valid([(x[0], x[1]) for x in files] + [(d, name)]):
                continue
            decls = []
            used = set()
            for _ in range(rng.choice([0, 1, 2, 3, 3, 4, 6])):
                nm = rng.choice(['F', 'G', 'Init', 'sysAlloc', 'panic_', 'x', 'Y2', 'mapFn', 'T1', 'u_v']) + rng.choice(['', '', '1', 'X'])
                if nm in used:
                    continue
                used.add(nm)
                r = rng.random()
                kind = 0 if r < 0.65 else rng.choice([1, 2, 3])
                render = rng.choice([0, 0, 0, 4, 2, 3]) + 8 * rng.randrange(2)
                if kind == 0 and agree and rng.random() < 0.25:
                    render = 1 + 8 * rng.randrange(2)
                if kind != 0:
                    render = rng.randrange(16)
                nann = rng.choice([0, 1, 1, 1, 2, 3]) if rng.random() < 0.7 else 0
                doc = self.gen_doc(rng, nann, agree)
                other = self.gen_doc(rng, rng.choice([0, 0, 1, 2]), False) if rng.random() < 0.4 else []
                # a block comment in a group of a parenthesised spec / inside a body is fine; multi-line ones are not generated
                decls.append((kind, render, nm, doc, other))
            # file-level oddities: build-constraint lines before the package clause, import "C" (bits 4-7 of the first render)
            if decls and rng.random() < 0.12:
                k, r0, nm, doc, other = decls[0]
                decls[0] = (k, r0 + 16 * rng.randrange(1, 9), nm, doc, other)
            files.append((d, name, decls))
        # a very long physical line (generated table / long comment / long string) somewhere in one file (bits 8.. of a render)
        cand = [i for i, f in enumerate(files) if f[2]]
        if cand and rng.random() < self.long_rate:
            i = rng.choice(cand)
            d, name, decls = files[i]
            j = rng.randrange(len(decls))
            k, r0, nm, doc, other = decls[j]
            ln = rng.choice([1000, 4096, 65000, 65534, 65535, 65536, 65537, 65536, 70000, 70001, 131072, 300001])
            decls[j] = (k, r0 + 256 * rng.randrange(1, 4) + 1024 * ln, nm, doc, other)
        files.sort(key=lambda f: f[0] + [f[1]])      # filepath.Walk order: component-wise lexical
        return files

    def gen_cases(self, rng, tier):
        n = {'quick': 1500, 'thorough': 30000, 'search': 3000}[tier]
        self.long_rate = 0.08 if tier != 'thorough' else 0.02
        out = [([1], 'kernel-tree')]
        for i in range(n):
            agree = rng.random() < 0.2
            out.append((enc_tree(self.gen_tree(rng, agree)), 'agreement' if agree else 'tree'))
        return out

    def explain(self, nums):
        if not nums or nums[0] != 0:
            return 'the real kernel tree'
        s = []
        for (d, name, decls) in dec_tree(nums):
            s.append('/'.join(d + [name]) + ': ' + '; '.join('%s %s doc=%r other=%r' % (
                {0: 'func', 1: 'var', 2: 'const', 3: 'type'}.get(k, '?') + '/%d%s%s' % (r & 15, ' header=%d' % ((r >> 4) & 15) if (r >> 4) & 15 else '', ' longline(pos=%d,len=%d)' % ((r >> 8) & 3, r >> 10) if (r >> 8) & 3 else ''), n, doc, other) for (k, r, n, doc, other) in decls))
        return ' || '.join(s)

    def nontrivial(self, nums, obs):
        return len(obs) > 1 and int(obs[1], 16) >= 2

    def shrink_candidates(self, nums):
        if not nums or nums[0] != 0:
            return
        files = dec_tree(nums)
        for i in range(len(files)):
            yield enc_tree(files[:i] + files[i + 1:])
        for i, (d, name, decls) in enumerate(files):
            for j in range(len(decls)):
                yield enc_tree(files[:i] + [(d, name, decls[:j] + decls[j + 1:])] + files[i + 1:])
            for j, (k, r, n, doc, other) in enumerate(decls):
                for q in range(len(doc)):
                    yield enc_tree(files[:i] + [(d, name, decls[:j] + [(k, r, n, doc[:q] + doc[q + 1:], other)] + decls[j + 1:])] + files[i + 1:])
                if other:
                    yield enc_tree(files[:i] + [(d, name, decls[:j] + [(k, r, n, doc, [])] + decls[j + 1:])] + files[i + 1:])
            if d:
                c = sorted(files[:i] + [(d[1:], name, decls)] + files[i + 1:], key=lambda f: f[0] + [f[1]])
                if valid([(x[0], x[1]) for x in c]):
                    yield enc_tree(c)


if __name__ == '__main__':
    sys.exit(flow.standard_check(C20(), sys.argv[1:]))
