import os, sys, random, json
sys.path.insert(0, os.path.join(os.path.dirname(os.path.abspath(__file__)), '..', 'lib'))
import vlib, flow, gen_trans

H = os.path.join(vlib.ROOT, 'harness/kernel/mm/vmm')
vlib.register_const_dump('kernel', 'mm/vmm', os.path.join(H, 'zz_verif_consts_test.go'))
gen_trans.register('mm_vmm.json')   # Go -> Gallina translation of EarlyReserveRegion and the mm page/frame helpers
gen_trans.register('mm_vmm2.json')  # extended mode: MapRegion / IdentityMapRegion with the function-variable seams (Gen/Trans_mm_vmm2.v, Vmm/RegionTrans2.v)
gen_trans.register('goruntime_boot.json')  # sysReserve / sysMap / sysAlloc with their seams (Gen/Trans_goruntime_boot.v, Goruntime/BootTrans.v)

TEMP = 0xffffff7ffffff000
M64 = (1 << 64) - 1

# ---- kernel/goruntime/bootstrap.go: sysReserve / sysMap / sysAlloc (second model Goruntime/Boot.v, Props/C07_goruntime.v) ----
HRT = os.path.join(vlib.ROOT, 'harness/kernel/goruntime')
RT_HARNESS = [os.path.join(HRT, 'zz_verif_c07rt_test.go')]
RT_TEST = 'TestVerifC07Rt$'


def rt_overlay():
    """The package does not link under `go test` (its linknames into the Go runtime no longer resolve): the linkname
    declaration file is REPLACED by plain stubs; an add-only shim in package vmm exposes the reservation cursor."""
    return {os.path.join(vlib.REPO, 'kernel/goruntime/bootstrap_go18+.go'): os.path.join(HRT, 'bootstrap_go18_shim.go'),
            os.path.join(vlib.REPO, 'kernel/mm/vmm/zz_verif_rt_shim.go'): os.path.join(H, 'zz_verif_rt_shim.go')}


def rt_parse(nums):
    """-> (start, zero frame, stat, [op tuples]) ; op = ('reserve', size) | ('map', addr, size, reserved, failcode) | ('alloc', size, failcode, [entries])"""
    ops, i = [], 3
    while i < len(nums):
        if nums[i] == 0 and i + 1 < len(nums):
            ops.append(('reserve', nums[i + 1])); i += 2
        elif nums[i] == 1 and i + 4 < len(nums):
            ops.append(('map',) + tuple(nums[i + 1:i + 5])); i += 5
        elif nums[i] == 2 and i + 3 < len(nums):
            n = nums[i + 3]
            ops.append(('alloc', nums[i + 1], nums[i + 2], list(nums[i + 4:i + 4 + n]))); i += 4 + n
        else:
            break
    return (nums[0] if nums else 0, nums[1] if len(nums) > 1 else 0, nums[2] if len(nums) > 2 else 0, ops)


def rt_build(start, zf, stat, ops):
    nums = [start, zf, stat]
    for o in ops:
        if o[0] == 'reserve':
            nums += [0, o[1]]
        elif o[0] == 'map':
            nums += [1] + list(o[1:5])
        else:
            nums += [2, o[1], o[2], len(o[3])] + list(o[3])
    return nums


def rt_explain(nums):
    start, zf, stat, ops = rt_parse(nums)
    s = ['cursor=%#x zeroFrame=%#x stat=%#x' % (start or TEMP, zf, stat)]
    for o in ops:
        if o[0] == 'reserve':
            s.append('sysReserve(%#x)' % o[1])
        elif o[0] == 'map':
            s.append('sysMap(addr=%#x, size=%#x, reserved=%s%s)' % (o[1], o[2], 'true' if o[3] else 'false', ', mapFn fails at call %d' % (o[4] - 1) if o[4] else ''))
        else:
            fr = ['ERR' if e == 0 else '%#x' % (e - 1) for e in o[3]]
            s.append('sysAlloc(%#x%s; AllocFrame answers [%s] then ERR)' % (o[1], ', mapFn fails at call %d' % (o[2] - 1) if o[2] else '', ' '.join(fr)))
    return ' ; '.join(s)


class C07(flow.Spec):
    prop = 'C07'
    props_files = ['theories/Props/C07.v', 'theories/Props/C07_examples.v',
                   'theories/Props/C07_goruntime.v', 'theories/Props/C07_goruntime_examples.v',
                   'theories/Props/C07_region_trans.v', 'theories/Props/C07_region_trans_examples.v',
                   'theories/Props/C07_goruntime_trans.v', 'theories/Props/C07_goruntime_trans_examples.v']
    model_targets = ['theories/Vmm/Region.vo', 'theories/Goruntime/Boot.vo']
    pkg = 'mm/vmm'
    harness = [os.path.join(H, 'zz_verif_c07_test.go')]
    test = 'TestVerifC07$'
    rule = ('histories of EarlyReserveRegion / MapRegion / IdentityMapRegion calls from a page-aligned cursor; sizes from '
            '{0,1,4095,4096,4097,random,remaining-4096,remaining,remaining+1,2^63,2^64-4096,2^64-4095,2^64-1}; '
            'non-trivial = at least one request succeeds and one is near a boundary; distinct = distinct op lists. '
            'Second correspondence (additional_correspondences.extra_info): histories of goruntime.sysReserve / sysMap / sysAlloc on the real '
            'EarlyReserveRegion, same size classes plus sizes in the last page before 2^64, unaligned / near-top sysMap addresses, '
            'mapFn failure at the k-th page, allocator failure at the k-th frame, exhausted allocator')
    assumptions = ['gen/gotrans (go/ast -> Gallina for the integer subset of Go) regenerates EarlyReserveRegion, mm.PageFromAddress, mm.FrameFromAddress and the pageTableEntry helpers from the source; C07_model_is_translation proves the hand model equal to that term',
                   'mapFn seam stands for Map (modelled in C04); sizes are uintptr (< 2^64)',
                   'cursor starts page-aligned at or below tempMappingAddr (the kernel initialises it to tempMappingAddr)',
                   'kernel/goruntime does not link under go test (linknames into the Go runtime that no longer resolve): the harness run REPLACES the '
                   'declaration file bootstrap_go18+.go by plain stubs (harness/kernel/goruntime/bootstrap_go18_shim.go: mSysStatInc adds to *stat, '
                   'the runtime init entry points do nothing); bootstrap.go itself is the real file; an add-only shim in package vmm exposes the '
                   'reservation cursor; mapFn / memsetFn / the frame allocator are recording mocks (Map itself: C04/C06), earlyReserveRegionFn is the '
                   'real vmm.EarlyReserveRegion']

    def gen_cases(self, rng, tier):
        n = {'quick': 600, 'thorough': 20000, 'search': 3000}[tier]
        out = []
        for _ in range(n):
            mode = rng.random()
            if mode < 0.5:
                start = 0
                last = TEMP
            else:
                last = rng.choice([0, 4096, 8192, 1 << 20, 1 << 32, rng.randrange(0, 1 << 24) * 4096, TEMP - 4096])
                start = last if last != 0 else 4096
                last = start
            nums = [start]
            cur = last
            for _ in range(rng.randrange(1, 9)):
                size = rng.choice([
                    0, 1, 4095, 4096, 4097, rng.randrange(0, 1 << 16), rng.randrange(0, 1 << 40),
                    max(cur - 4096, 0), cur, min(cur + 1, M64), min(cur + 4096, M64), 1 << 63, M64 - 4095, M64 - 4094, M64,
                    rng.randrange(M64 - 8192, M64 + 1), rng.randrange(0, M64 + 1)])
                r = rng.random()
                if r < 0.55:
                    nums += [0, size]
                else:
                    op = 1 if r < 0.85 else 2
                    frame = rng.choice([0, 1, rng.randrange(0, 1 << 36), M64, M64 - 1, (1 << 52) - 1])
                    flags = rng.choice([1, 3, 0x8000000000000003, rng.randrange(0, 1 << 12)])
                    pages = (size + 4095) >> 12
                    if pages > 40:
                        # keep the loop short: inject a seam failure early (the model does the same)
                        fail = rng.randrange(1, 6)
                        if rng.random() < 0.3:
                            size = rng.randrange(0, 40 * 4096)
                            fail = rng.choice([0, 0, 1, 2, 50])
                    else:
                        fail = rng.choice([0, 0, 0, 1, 2, pages, pages + 1]) if pages else 0
                    nums += [op, frame, size, flags, fail]
                # track cursor approximately (as the fixed code would)
                if nums[-2 if r < 0.55 else -5] in (0, 1):
                    need = ((size + 4095) >> 12) << 12
                    if need <= cur:
                        cur -= need
            out.append((nums, 'hist'))
        return out

    # ---- sysReserve / sysMap / sysAlloc of kernel/goruntime/bootstrap.go: second model + harness in package goruntime ----
    def rt_cases(self, rng, tier):
        n = {'quick': 500, 'thorough': 15000, 'search': 2000}[tier]
        return [self.rt_one(rng) for _ in range(n)]

    def rt_one(self, rng):
        if rng.random() < 0.5:
            start, cur = 0, TEMP
        else:
            start = rng.choice([4096, 8192, 3 * 4096, 40 * 4096, 1 << 20, 1 << 32, rng.randrange(1, 1 << 24) * 4096, TEMP - 4096, TEMP])
            cur = start
        top = cur
        zf = rng.choice([0, 1, 5, rng.randrange(0, 1 << 36), (1 << 40) - 1])
        stat = rng.choice([0, 0, rng.randrange(0, 1 << 40), M64 - 4095, M64, M64 - rng.randrange(0, 1 << 16), rng.randrange(0, M64 + 1)])
        ops = []

        def pick_size():
            k = rng.randrange(2, 12)
            if rng.random() < 0.55:
                return rng.choice([0, 1, 4095, 4096, 4097, k * 4096 - 1, k * 4096, k * 4096 + 1, rng.randrange(0, 1 << 16), rng.randrange(0, 40 * 4096)])
            return rng.choice([
                rng.randrange(0, 1 << 40), max(cur - 4096, 0), max(cur - 1, 0), cur, min(cur + 1, M64), min(cur + 4096, M64),
                1 << 63, M64 - 8191, M64 - 4096, M64 - 4095, M64 - 4094, M64 - 1, M64, rng.randrange(M64 - 4095, M64 + 1),
                rng.randrange(M64 - 8192, M64 + 1), rng.randrange(0, M64 + 1)])

        for _ in range(rng.randrange(1, 9)):
            r = rng.random()
            size = pick_size()
            pages = (size + 4095) >> 12
            need = pages << 12
            if r < 0.33:
                ops.append(('reserve', size))
                if need <= cur:
                    cur -= need
            elif r < 0.63:
                m = rng.random()
                if m < 0.65 and top > cur:
                    # an address inside what has been reserved so far, page aligned or not
                    addr = cur + rng.randrange(0, (top - cur) >> 12) * 4096 + rng.choice([0, 0, 0, 1, 4095, 2048, rng.randrange(4096)])
                elif m < 0.8:
                    addr = (cur + rng.choice([0, 1, 4095, 4096])) & M64
                else:
                    addr = rng.choice([0, 1, 4095, 4096, M64, M64 - 1, M64 - 4094, M64 - 4095, M64 - 4096, M64 - 8191, rng.randrange(M64 - 8192, M64 + 1),
                                       rng.randrange(0, M64 + 1), 1 << 63, TEMP, TEMP + 1])
                if m < 0.65 and rng.random() < 0.7:
                    size = rng.choice([0, 1, 4095, 4096, 4097, rng.randrange(0, 12 * 4096), max(top - addr, 0), rng.randrange(2, 12) * 4096 + rng.choice([-1, 0, 1])])
                    pages = (size + 4095) >> 12
                resv = rng.choice([1, 1, 1, 1, 1, 1, 1, 1, 0, rng.randrange(2, M64 + 1)])
                if pages > 40:
                    fail = rng.randrange(1, 6)
                    if size > M64 - 4095 and rng.random() < 0.6:
                        fail = 0      # the round-up wraps: no mapping call can be made whatever the code does with it
                else:
                    fail = rng.choice([0, 0, 0, 0, 1, 2, pages, pages + 1, rng.randrange(1, pages + 2)]) if pages else rng.choice([0, 0, 1])
                ops.append(('map', addr, size, resv, fail))
            else:
                fits = need <= cur
                if pages > 40:
                    n = rng.randrange(0, 7)
                    fail = rng.choice([0, 0, rng.randrange(1, 8)])
                else:
                    n = rng.choice([pages, pages, pages, pages + 2, max(pages - 1, 0), rng.randrange(0, pages + 1)])
                    fail = rng.choice([0, 0, 0, 0, rng.randrange(1, pages + 2), pages, pages + 1]) if pages else rng.choice([0, 1])
                base = rng.choice([0, 1, 0x100, rng.randrange(0, 1 << 36), (1 << 40) - 3, M64 - 1 - n])
                es = []
                for i in range(n):
                    f = base + i if rng.random() < 0.8 else rng.choice([zf, 0, M64 - 1, rng.randrange(0, 1 << 52)])
                    es.append(min(f, M64 - 1) + 1)
                if es and rng.random() < 0.25:
                    es[rng.randrange(len(es))] = 0
                ops.append(('alloc', size, fail, es))
                if fits:
                    cur -= need
        return rt_build(start, zf, stat, ops)

    def rt_run(self, wd, cases, tag, model=True):
        cpath = os.path.join(wd, 'cases_rt_%s.txt' % tag)
        gpath = os.path.join(wd, 'go_rt_%s.out' % tag)
        mpath = os.path.join(wd, 'model_rt_%s.out' % tag)
        vlib.write_cases(cpath, cases)
        rc, out, secs = vlib.run_go(wd, 'kernel', 'goruntime', RT_HARNESS, RT_TEST, cases_path=cpath, out_path=gpath, timeout=600,
                                    extra_overlay=rt_overlay())
        gobs, mons, info = vlib.parse_out(gpath)
        mobs, merr, msecs = {}, None, 0.0
        if model:
            try:
                msecs = vlib.run_model('C07rt', cpath, mpath)
                mobs, _, _ = vlib.parse_out(mpath)
            except Exception as ex:
                merr = str(ex)[-600:]
        return dict(rc=rc, log=out, secs=secs, obs=gobs, mons=mons, info=info, mobs=mobs, merr=merr, msecs=msecs)

    def rt_shrink(self, wd, nums, sig):
        """greedy: drop one call at a time, then empty the allocator script / failure injection, while the monitor still reports [sig]"""
        cur = list(nums)
        for _ in range(12):
            start, zf, stat, ops = rt_parse(cur)
            cands = [rt_build(start, zf, stat, ops[:j] + ops[j + 1:]) for j in range(len(ops))] if len(ops) > 1 else []
            cands += [rt_build(start, zf, 0, ops)] if stat else []
            cands = [c for c in cands if c != cur]
            if not cands:
                break
            r = self.rt_run(wd, cands, 'shrink', model=False)
            hit = sorted(set(i for (i, s, m) in r['mons'] if s == sig), key=lambda i: len(cands[i]))
            if not hit:
                break
            cur = cands[hit[0]]
        return cur

    def extra_checks(self, ctx):
        res = []
        wd = ctx['wd']
        known = vlib.known_findings(self.prop)
        rng = random.Random(ctx['seed'] * 13 + 7)
        cases = []
        cdir = os.path.join(vlib.ROOT, 'corpus', 'C07rt')
        for fn in sorted(os.listdir(cdir)) if os.path.isdir(cdir) else []:
            if fn.endswith('.case'):
                for line in open(os.path.join(cdir, fn)):
                    line = line.split('#')[0].strip()
                    if line:
                        cases.append([int(x, 16) for x in line.split()])
        n_corpus = len(cases)
        cases += self.rt_cases(rng, ctx['tier'])
        r = self.rt_run(wd, cases, 'main')
        mons, searched = list(r['mons']), 0
        pool = cases
        bad = [i for i in range(len(cases)) if r['obs'].get(i) != r['mobs'].get(i)] if not r['merr'] else []
        if r['rc'] != 0 and not mons:
            res.append(('c07:rt-harness-died', 'goruntime harness did not complete: ' + r['log'][-800:], None))
        if not [m for m in mons if m[1] not in known] and (bad or r['merr'] or ctx.get('proof_broken')):
            # the tie is broken (model mismatch, broken proof or source pin) and no monitor failed: extended search
            for k in range(3 if ctx['tier'] == 'quick' else 8):
                sc = self.rt_cases(random.Random(ctx['seed'] * 7919 + k + 31), 'search')
                searched += len(sc)
                r2 = self.rt_run(wd, sc, 'search', model=False)
                if [m for m in r2['mons'] if m[1] not in known]:
                    mons, pool = list(r2['mons']), sc
                    break
        by_sig = {}
        for (i, sig, msg) in mons:
            if i < len(pool):
                by_sig.setdefault(sig, []).append((i, msg))
        for sig, lst in sorted(by_sig.items()):
            i, msg = min(lst, key=lambda t: len(pool[t[0]]))
            small = pool[i]
            if sig not in known:
                try:
                    small = self.rt_shrink(wd, small, sig)
                except Exception as ex:
                    vlib.log('rt shrink failed', ex)
            res.append((sig, msg, dict(kind='goruntime-history', rt_case=['%x' % v for v in small], explain=rt_explain(small),
                                       failing_cases_this_run=len(lst), original_case=['%x' % v for v in pool[i]],
                                       replay='bin/check C07 --replay <this file>')))
        if r['merr']:
            res.append(('c07:rt-model-failed', r['merr'], None))
        elif bad and not by_sig:
            i = min(bad, key=lambda k: len(cases[k]))
            res.append(('c07:rt-model-mismatch', 'Goruntime/Boot.v and bootstrap.go differ on %d of %d histories (no monitor failure in %d further histories), smallest: %s'
                        % (len(bad), len(cases), searched, rt_explain(cases[i])),
                        dict(kind='goruntime-history', rt_case=['%x' % v for v in cases[i]], explain=rt_explain(cases[i]), no_failing_input=True,
                             implementation=r['obs'].get(i), model=r['mobs'].get(i),
                             correspondence='Goruntime/Boot.v run_case vs sysReserve/sysMap/sysAlloc (TestVerifC07Rt)', replay='bin/check C07 --replay <this file>')))
        # ---- evidence ----
        dist = dict(sysReserve=0, sysMap=0, sysAlloc=0, size_in_last_page_before_2_64=0, size_beyond_remaining_space=0, unaligned_sysMap_address=0,
                    sysMap_address_rounds_past_2_64=0, mapFn_failure_injected=0, allocator_failure_scripted=0, sysMap_not_reserved=0)
        nontrivial = 0
        for c in cases:
            start, zf, stat, ops = rt_parse(c)
            for o in ops:
                size = o[2] if o[0] == 'map' else o[1]
                dist[{'reserve': 'sysReserve', 'map': 'sysMap', 'alloc': 'sysAlloc'}[o[0]]] += 1
                dist['size_in_last_page_before_2_64'] += size > M64 - 4095
                dist['size_beyond_remaining_space'] += o[0] != 'map' and size > (start or TEMP)
                if o[0] == 'map':
                    dist['unaligned_sysMap_address'] += o[1] % 4096 != 0
                    dist['sysMap_address_rounds_past_2_64'] += o[1] > M64 - 4095
                    dist['mapFn_failure_injected'] += o[4] != 0
                    dist['sysMap_not_reserved'] += o[3] == 0
                if o[0] == 'alloc':
                    dist['mapFn_failure_injected'] += o[2] != 0
                    dist['allocator_failure_scripted'] += 0 in o[3]
        for i, c in enumerate(cases):
            o = r['obs'].get(i) or []
            nontrivial += len(o) > 8
        self.extra_info = dict(model='coq/theories/Goruntime/Boot.v (extract/C07rt.v)', harness='harness/kernel/goruntime/zz_verif_c07rt_test.go',
                               overlay_replaces='kernel/goruntime/bootstrap_go18+.go -> harness/kernel/goruntime/bootstrap_go18_shim.go',
                               cases=len(cases), corpus_cases=n_corpus, searched=searched, mismatches=len(bad), nontrivial=nontrivial, distribution=dist,
                               impl_seconds=round(r['secs'], 2), model_seconds=round(r['msecs'], 2),
                               monitor_failures={k: len(v) for k, v in by_sig.items()},
                               observed={k[6:]: int(v[0]) for k, v in sorted(r['info'].items()) if k.startswith('calls:')})
        return res

    def explain(self, nums):
        if not nums:
            return ''
        s = ['start=%#x' % (nums[0] or TEMP)]
        i = 1
        while i < len(nums):
            if nums[i] == 0 and i + 1 < len(nums):
                s.append('Reserve(%#x)' % nums[i + 1]); i += 2
            elif i + 4 < len(nums):
                s.append('%s(frame=%#x,size=%#x,flags=%#x,fail=%d)' % ('MapRegion' if nums[i] == 1 else 'IdentityMapRegion', nums[i+1], nums[i+2], nums[i+3], nums[i+4])); i += 5
            else:
                break
        return ' ; '.join(s)

    def nontrivial(self, nums, obs):
        return len(nums) > 3 and '1' in obs[0::2]

    def shrink_candidates(self, nums):
        # drop one op at a time
        ops = []
        i = 1
        while i < len(nums):
            k = 2 if nums[i] == 0 else 5
            ops.append(nums[i:i + k]); i += k
        for j in range(len(ops)):
            yield [nums[0]] + [x for k, o in enumerate(ops) if k != j for x in o]


def rt_replay(obj):
    """bin/check C07 --replay <file> for a recorded goruntime history (key rt_case)"""
    nums = [int(x, 16) for x in obj['rt_case']]
    spec = C07()
    wd = vlib.ensure_dir(os.path.join(vlib.WORK, 'C07', 'replay'))
    vlib.regen()
    vlib.coq_build(['theories/Goruntime/Boot.vo'])
    r = spec.rt_run(wd, [nums], 'replay')
    print('case       :', ' '.join('%x' % v for v in nums))
    print('explain    :', rt_explain(nums))
    print('impl obs   :', ' '.join(r['obs'].get(0, ['<none>'])))
    for (i, s, m) in r['mons']:
        print('impl MONITOR-FAIL:', s, m)
    if r['rc'] != 0:
        print(r['log'][-2000:])
    print('model obs  :', ' '.join(r['mobs'].get(0, ['<none>'])) if not r['merr'] else r['merr'])
    return 1 if r['mons'] else 0


if __name__ == '__main__':
    if '--replay' in sys.argv:
        try:
            o = json.load(open(sys.argv[sys.argv.index('--replay') + 1]))
            o = o if 'rt_case' in o else (o.get('detail') or {})
        except Exception:
            o = {}
        if 'rt_case' in o:
            sys.exit(rt_replay(o))
    sys.exit(flow.standard_check(C07(), sys.argv[1:]))
