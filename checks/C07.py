import os, sys
sys.path.insert(0, os.path.join(os.path.dirname(os.path.abspath(__file__)), '..', 'lib'))
import vlib, flow, gen_trans

H = os.path.join(vlib.ROOT, 'harness/kernel/mm/vmm')
vlib.register_const_dump('kernel', 'mm/vmm', os.path.join(H, 'zz_verif_consts_test.go'))
gen_trans.register('mm_vmm.json')   # Go -> Gallina translation of EarlyReserveRegion and the mm page/frame helpers

TEMP = 0xffffff7ffffff000
M64 = (1 << 64) - 1


class C07(flow.Spec):
    prop = 'C07'
    props_files = ['theories/Props/C07.v', 'theories/Props/C07_examples.v']
    model_targets = ['theories/Vmm/Region.vo']
    pkg = 'mm/vmm'
    harness = [os.path.join(H, 'zz_verif_c07_test.go')]
    test = 'TestVerifC07$'
    rule = ('histories of EarlyReserveRegion / MapRegion / IdentityMapRegion calls from a page-aligned cursor; sizes from '
            '{0,1,4095,4096,4097,random,remaining-4096,remaining,remaining+1,2^63,2^64-4096,2^64-4095,2^64-1}; '
            'non-trivial = at least one request succeeds and one is near a boundary; distinct = distinct op lists')
    assumptions = ['gen/gotrans (go/ast -> Gallina for the integer subset of Go) regenerates EarlyReserveRegion, mm.PageFromAddress, mm.FrameFromAddress and the pageTableEntry helpers from the source; C07_model_is_translation proves the hand model equal to that term',
                   'mapFn seam stands for Map (modelled in C04); sizes are uintptr (< 2^64)',
                   'cursor starts page-aligned at or below tempMappingAddr (the kernel initialises it to tempMappingAddr)']

    def gen_cases(self, rng, tier):
        n = {'quick': 600, 'thorough': 20000, 'search': 3000}[tier]
        out = []
        for _ in range(n):
            mode = rng.random()
            if mode < 0.5:
                start = 0
                last = TEMP
            else:
                last = rng.choice([0, 4096, 8192, 1 << 20, 1 << 32, rng.randrange(0, 1 << 24) * 4096, TEMP - 4096])
                start = last if last != 0 else 4096
                last = start
            nums = [start]
            cur = last
            for _ in range(rng.randrange(1, 9)):
                size = rng.choice([
                    0, 1, 4095, 4096, 4097, rng.randrange(0, 1 << 16), rng.randrange(0, 1 << 40),
                    max(cur - 4096, 0), cur, min(cur + 1, M64), min(cur + 4096, M64), 1 << 63, M64 - 4095, M64 - 4094, M64,
                    rng.randrange(M64 - 8192, M64 + 1), rng.randrange(0, M64 + 1)])
                r = rng.random()
                if r < 0.55:
                    nums += [0, size]
                else:
                    op = 1 if r < 0.85 else 2
                    frame = rng.choice([0, 1, rng.randrange(0, 1 << 36), M64, M64 - 1, (1 << 52) - 1])
                    flags = rng.choice([1, 3, 0x8000000000000003, rng.randrange(0, 1 << 12)])
                    pages = (size + 4095) >> 12
                    if pages > 40:
                        # keep the loop short: inject a seam failure early (the model does the same)
                        fail = rng.randrange(1, 6)
                        if rng.random() < 0.3:
                            size = rng.randrange(0, 40 * 4096)
                            fail = rng.choice([0, 0, 1, 2, 50])
                    else:
                        fail = rng.choice([0, 0, 0, 1, 2, pages, pages + 1]) if pages else 0
                    nums += [op, frame, size, flags, fail]
                # track cursor approximately (as the fixed code would)
                if nums[-2 if r < 0.55 else -5] in (0, 1):
                    need = ((size + 4095) >> 12) << 12
                    if need <= cur:
                        cur -= need
            out.append((nums, 'hist'))
        return out

    def explain(self, nums):
        if not nums:
            return ''
        s = ['start=%#x' % (nums[0] or TEMP)]
        i = 1
        while i < len(nums):
            if nums[i] == 0 and i + 1 < len(nums):
                s.append('Reserve(%#x)' % nums[i + 1]); i += 2
            elif i + 4 < len(nums):
                s.append('%s(frame=%#x,size=%#x,flags=%#x,fail=%d)' % ('MapRegion' if nums[i] == 1 else 'IdentityMapRegion', nums[i+1], nums[i+2], nums[i+3], nums[i+4])); i += 5
            else:
                break
        return ' ; '.join(s)

    def nontrivial(self, nums, obs):
        return len(nums) > 3 and '1' in obs[0::2]

    def shrink_candidates(self, nums):
        # drop one op at a time
        ops = []
        i = 1
        while i < len(nums):
            k = 2 if nums[i] == 0 else 5
            ops.append(nums[i:i + k]); i += k
        for j in range(len(ops)):
            yield [nums[0]] + [x for k, o in enumerate(ops) if k != j for x in o]


if __name__ == '__main__':
    sys.exit(flow.standard_check(C07(), sys.argv[1:]))
