import os, sys
sys.path.insert(0, os.path.join(os.path.dirname(os.path.abspath(__file__)), '..', 'lib'))
sys.path.insert(0, os.path.dirname(os.path.abspath(__file__)))
import vlib, flow
import pmm_common as pc
import gen_trans
gen_trans.register('pmm_bitmap.json')   # Go -> Gallina translation of poolForFrame/markFrame/FreeFrame/AllocFrame/reserveKernelFrames/reserveEarlyAllocatorFrames + BootMemAllocator.AllocFrame (Gen/Trans_pmm_bitmap.v, used by Pmm/BitmapTrans.v, BitmapTrans2.v, BitmapTrans3.v)

H = os.path.join(vlib.ROOT, 'harness/kernel/mm/pmm')
vlib.register_const_dump('kernel', 'mm/pmm', os.path.join(H, 'zz_verif_consts_test.go'))


class C03(flow.Spec):
    prop = 'C03'
    props_files = ['theories/Props/C03.v', 'theories/Props/C03_examples.v', 'theories/Props/C03_trans.v', 'theories/Props/C03_trans_examples.v', 'theories/Props/C03_trans2.v', 'theories/Props/C03_trans2_examples.v', 'theories/Props/C03_trans3.v', 'theories/Props/C03_trans3_examples.v', 'theories/Props/C03_trans4.v', 'theories/Props/C03_trans4_examples.v', 'theories/Props/C03_trans5.v', 'theories/Props/C03_trans5_examples.v']
    model_targets = ['theories/Pmm/Bitmap.vo']
    pkg = 'mm/pmm'
    harness = [os.path.join(H, 'zz_verif_pmm_test.go'), os.path.join(H, 'zz_verif_pmm_util_test.go')]
    test = 'TestVerifPmm$'
    go_timeout = 900
    rule = pc.PMM_RULE
    assumptions = pc.PMM_ASSUMPTIONS
    partial = pc.PMM_PARTIAL

    def gen_cases(self, rng, tier):
        n = {'quick': 700, 'thorough': 20000, 'search': 2500}[tier]
        cases = [pc.gen_pmm_case(rng, 3, big_drain=(0.02 if tier == 'thorough' else 0.0),
                                 long16=(0.0015 if tier == 'thorough' else 0.0)) for _ in range(n)]
        if tier != 'thorough':
            # two very long histories (operation counts crossing 2^16) per run
            for _ in range(2):
                cases.insert(rng.randrange(len(cases)), pc.gen_long_history(rng, 3, 1 << 16, short=True))
        return cases

    def classify(self, nums, note):
        return note

    def explain(self, nums):
        return pc.explain_pmm(nums)

    def nontrivial(self, nums, obs):
        return bool(obs) and obs[0] == '0' and len(obs) > 12

    def shrink_candidates(self, nums):
        return pc.shrink_pmm(nums)


if __name__ == '__main__':
    sys.exit(flow.standard_check(C03(), sys.argv[1:]))
