import os, sys
sys.path.insert(0, os.path.join(os.path.dirname(os.path.abspath(__file__)), '..', 'lib'))
import vlib, flow, gen_sync

gen_sync.register(spin=True)
H = os.path.join(vlib.ROOT, 'harness/kernel/sync')
CH = {0: 'StartAcquire', 1: 'TryToAcquire', 2: 'Release', 3: 'CsRead', 4: 'CsWrite'}


class C08(flow.Spec):
    prop = 'C08'
    props_files = ['theories/Props/C08.v', 'theories/Props/C08_examples.v', 'theories/Props/C08_tso.v', 'theories/Props/C08_tso_examples.v']
    model_targets = ['theories/Sync/Machine.vo']
    pkg = 'sync'
    harness = [os.path.join(H, 'zz_verif_c08_test.go')]
    test = 'TestVerifC08$'
    go_timeout = 900
    rule = ('(0) single-task op sequences over TryToAcquire/Release/Acquire on the real lock vs the Coq machine running the '
            'assembly regenerated from spinlock_amd64.s; (1) parallel stress: 2-32 goroutines on all cores mixing the three calls '
            'with holder counter, protected plain counter, watchdog; (2) bounded breadth-first search over interleavings of the '
            'regenerated program in the extracted machine (finds replay schedules only). non-trivial = at least 3 ops / 2 tasks')
    partial = ['proved for interleaving semantics and for x86-TSO store buffering (Props/C08_tso.v); that real cores implement x86-TSO is an '
               'assumption, the stress harness exercises real parallel execution',
               'starvation-freedom is not claimed (test-and-set lock)']
    assumptions = ['the hardware memory model is x86-TSO: FIFO store buffer per core, LOCK-prefixed instructions (XCHG) run on a drained buffer and act on memory; Go sync/atomic SwapUint32/StoreUint32 are XCHGL on amd64',
                   'translator lib/gen_sync.py (assembly text -> instruction list; Go one-line wrappers -> constants)',
                   'clients follow the protocol: only a holder calls Release']

    def gen_cases(self, rng, tier):
        out = []
        nseq = {'quick': 300, 'thorough': 5000, 'search': 1000}[tier]
        for _ in range(nseq):
            ops, held = [], False
            for _ in range(rng.randrange(1, 14)):
                r = rng.random()
                if r < 0.4:
                    ops.append(0); held = True
                elif r < 0.7:
                    ops.append(1); held = False
                elif not held:
                    ops.append(2); held = True
                else:
                    ops.append(0)
            out.append(([0] + ops, 'seq'))
        nstress = {'quick': 10, 'thorough': 60, 'search': 30}[tier]
        for _ in range(nstress):
            tasks = rng.choice([2, 3, 4, 8, 16, 32])
            iters = rng.choice([200, 1000, 3000]) if tier != 'thorough' else rng.choice([1000, 5000, 20000])
            out.append(([1, tasks, iters, rng.randrange(1 << 30)], 'stress'))
        out.append(([2, 2, 60, 1], 'search'))
        out.append(([2, 2, 60, 0], 'search'))
        if tier == 'thorough':
            out.append(([2, 3, 14, 1], 'search'))
        return out

    def explain(self, nums):
        if not nums:
            return ''
        if nums[0] == 0:
            return 'single task: ' + ' '.join({0: 'TryToAcquire', 1: 'Release', 2: 'Acquire'}.get(o, '?') for o in nums[1:])
        if nums[0] == 1:
            return 'stress: tasks=%d iters=%d seed=%d' % tuple(nums[1:4])
        return 'schedule search: threads=%d depth=%d yieldFn %s' % (nums[1], nums[2], 'set' if nums[3] else 'nil')

    def nontrivial(self, nums, obs):
        return len(nums) >= 4

    def extra_checks(self, ctx):
        res = []
        # a schedule found in the machine is a concrete replay only if the translation was faithful:
        # every instruction and all three Go wrappers recognised
        gen = open(os.path.join(vlib.THEORIES, 'Gen', 'SpinAsm.v')).read()
        if 'go_shape_ok : bool := true' not in gen or 'IBad' in gen:
            return res
        for i, (nums, note) in enumerate(ctx['cases']):
            if nums and nums[0] == 2:
                mo = ctx['model_obs'].get(i)
                if mo and mo[0] == '1':
                    sched = [int(x, 16) for x in mo[1:]]
                    pairs = [(sched[k], CH.get(sched[k + 1], 'Instr(read=%d)' % (sched[k + 1] - 5))) for k in range(0, len(sched) - 1, 2)]
                    res.append(('c08:schedule-breaks-mutex',
                                'the program regenerated from spinlock_amd64.s/spinlock.go admits an interleaving with two holders or a stray access',
                                dict(schedule=['task %d: %s' % p for p in pairs], case=['%x' % v for v in nums])))
                    break
        return res


if __name__ == '__main__':
    sys.exit(flow.standard_check(C08(), sys.argv[1:]))
