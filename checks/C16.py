import os, sys, json, re, random
sys.path.insert(0, os.path.join(os.path.dirname(os.path.abspath(__file__)), '..', 'lib'))
import vlib, flow, gen_trans
gen_trans.register('kfmt_ring.json')   # Go -> Gallina translation of ringBuffer.Write/Read (Gen/Trans_kfmt_ring.v, used by Kfmt/RingTrans.v)
gen_trans.register('kfmt_sink.json')   # ... of kfmt.SetOutputSink / GetOutputSink (Gen/Trans_kfmt_sink.v, used by Kfmt/SinkTrans.v)
gen_trans.register('hal.json')   # ... of hal.go's linkTTYToConsole / onConsoleInit / onDriverInit and DriverInfoList.Less (Gen/Trans_hal.v, used by Hal/HalTrans.v)
gen_trans.register('kfmt_prefix.json')   # ... of PrefixWriter.Write (Gen/Trans_kfmt_prefix.v, used by Kfmt/PrefixTrans.v)

HK = os.path.join(vlib.ROOT, 'harness/kernel/kfmt')
HH = os.path.join(vlib.ROOT, 'harness/kernel/hal')
HD = os.path.join(vlib.ROOT, 'harness/kernel/device')
vlib.register_const_dump('kernel', 'kfmt', os.path.join(HK, 'zz_verif_consts_test.go'))
# Props/C16_vt.v composes C16 with the terminal development (Tty/*.v), which needs the tty constants
vlib.register_const_dump('kernel', 'device/tty', os.path.join(vlib.ROOT, 'harness/kernel/device/tty/zz_verif_consts_test.go'))


def _go_string(lit):
    """decode a Go interpreted string literal (with quotes)"""
    body = lit[1:-1]
    out = []
    i = 0
    esc = {'n': 10, 't': 9, 'r': 13, '\\': 92, '"': 34, "'": 39, 'a': 7, 'b': 8, 'f': 12, 'v': 11, '0': 0}
    bs = body.encode('utf8')
    while i < len(bs):
        c = bs[i]
        if c == 0x5c:
            n = chr(bs[i + 1])
            if n == 'x':
                out.append(int(bs[i + 2:i + 4], 16)); i += 4; continue
            if n not in esc:
                raise RuntimeError('unsupported escape in ' + lit)
            out.append(esc[n]); i += 2; continue
        out.append(c); i += 1
    return out


def gen_hal_strings(gen_dir, force):
    """Translator: the three format strings of hal.probe() -> Gen/Hal_strings.v"""
    src = open(os.path.join(vlib.REPO, 'kernel/hal/hal.go')).read()
    m = re.search(r'\nfunc probe\(.*?\n}\n', src, flags=re.S)
    if not m:
        raise RuntimeError('hal.go: func probe not found')
    body = m.group(0)
    lit = r'("(?:[^"\\]|\\.)*")'
    m1 = re.findall(r'kfmt\.Fprintf\(&strBuf,\s*' + lit, body)
    m2 = re.findall(r'if err := drv\.DriverInit\(&w\); err != nil \{\s*kfmt\.Fprintf\(&w,\s*' + lit, body)
    m3 = [x for x in re.findall(r'kfmt\.Fprintf\(&w,\s*' + lit, body) if x not in m2]
    if len(m1) != 1 or len(m2) != 1 or len(m3) != 1:
        raise RuntimeError('hal.go: probe() no longer has the shape Fprintf(&strBuf, prefix) / if DriverInit fails Fprintf(&w, failed) / Fprintf(&w, ok): %r %r %r' % (m1, m2, m3))
    calls = [('strBuf', m1[0]), ('w', m2[0]), ('w', m3[0])]
    names = ['hal_prefixFmt', 'hal_failFmt', 'hal_okFmt']
    lines = ['(* GENERATED on every run by checks/C16.py from kernel/hal/hal.go (format strings of probe()) -- do not edit, not committed *)',
             'From Coq Require Import NArith List.', 'Import ListNotations.', 'Local Open Scope N_scope.', '']
    for nm, (_, lit) in zip(names, calls):
        lines.append('Definition %s : list N := [%s]%%N.   (* %s *)' % (nm, '; '.join(str(b) for b in _go_string(lit)), lit.replace('*)', '* )')))
    target = os.path.join(gen_dir, 'Hal_strings.v')
    return {target: vlib.write_if_changed(target, '\n'.join(lines) + '\n')}


if gen_hal_strings not in vlib.EXTRA_TRANSLATORS:
    vlib.EXTRA_TRANSLATORS.append(gen_hal_strings)

LOG_SIZES = [0, 1, 2046, 2047, 2048, 5000]
ORDERS = [-128, -127, 0, 127, -1, 1, 5, 5, 0, 0, -128]


def rand_text(rng, n):
    r = rng.random()
    if r < 0.5:
        alpha = b'abcdefghij XYZ01\n\n%:[]'
    elif r < 0.8:
        alpha = b'ab\n'
    else:
        alpha = bytes(range(256))
    return [rng.choice(alpha) for _ in range(n)]


def chunked(rng, data):
    """split data into random chunks"""
    out = []
    i = 0
    while i < len(data):
        k = rng.choice([1, 1, 2, 3, 7, 16, 64, 100, 500, 2047, 2048, 5000])
        out.append(data[i:i + k]); i += k
    return out


def ring_size():
    try:
        txt = open(os.path.join(vlib.THEORIES, 'Gen', 'Consts_kfmt.v')).read()
        return int(re.search(r'kfmt_ringBufferSize : N := (\d+)', txt).group(1))
    except Exception:
        return 2048


def aligned_chunks(rng, S):
    """Write sizes (filler, key, tail): a key write of a size from {1,63,64,65,S-2,S-1,S,random} that ENDS on a
    residue next to the wrap (S-2, S-1, 0, 1 mod S), before or after the first wrap, followed by short writes."""
    c = rng.choice([1, 63, 64, 65, S - 2, S - 1, S, rng.randrange(66, S - 2), rng.randrange(64, 400), rng.randrange(64, 400)])
    r = rng.choice([S - 2, S - 1, S - 1, 0, 1])
    end = rng.choice([0, 1, 1, 2]) * S + r
    while end < c:
        end += S
    t0 = end - c
    fill = []
    while t0 > 0:
        k = min(t0, rng.choice([1, 63, 64, 65, S - 2, S - 1, S, rng.randrange(1, S), rng.randrange(1, 100), rng.randrange(1, 100)]))
        fill.append(k); t0 -= k
    tail = [rng.choice([1, 1, 2, 5, 12, 40, 63]) for _ in range(rng.randrange(1, 5))]
    return fill, c, tail


def gen_aligned_logops(rng):
    """early log whose Writes are positioned around the wrap of the ring: bulk writes are Printf("%s", []byte)
    (one Write), byte-wise output is Printf("%s", string)"""
    fill, c, tail = aligned_chunks(rng, ring_size())
    ops = []
    for k in fill:
        ops.append((rng.choice([0, 0, 1]), rand_text(rng, k)))
    ops.append((0, rand_text(rng, c)))
    for k in tail:
        ops.append((rng.choice([0, 1, 1]), rand_text(rng, k)))
    return ops


def gen_logops(rng, size):
    ops = []
    data = rand_text(rng, size)
    for ch in chunked(rng, data):
        if rng.random() < 0.08:
            ops.append((2, rng.choice([0, -1, 1 << 63, (1 << 63) - 1, rng.randrange(1 << 64)])))
        ops.append((rng.choice([0, 0, 1]), ch))
    if size == 0 and rng.random() < 0.3:
        ops.append((rng.choice([0, 1]), []))
    return ops


def enc_logops(ops):
    nums = [len(ops)]
    for o in ops:
        if o[0] == 2:
            nums += [2, o[1] & ((1 << 64) - 1)]
        else:
            nums += [o[0], len(o[1])] + list(o[1])
    return nums


def gen_driver(rng, i):
    kind = rng.choice([0, 3, 4, 5, 5, 1, 1, 1, 2])
    name = list(rng.choice([b'vga', b'vesa_fb', b'vt', b'tty0', b'acpi', b'x', b'', b'long driver name']))
    log = []
    for _ in range(rng.choice([0, 0, 1, 2, 3])):
        log.append(rand_text(rng, rng.choice([0, 1, 5, 20, 20, 80, 300, rng.randrange(0, 2500)])))
    msg = [c for c in rand_text(rng, rng.choice([1, 6, 20])) if c != 10] + list(b'E%d' % i)
    return dict(order=rng.choice(ORDERS + [rng.randrange(-128, 128)]), probe=rng.random() < 0.85, kind=kind, name=name,
                ver=[rng.choice([0, 1, 2, 10, 65535, rng.randrange(65536)]) for _ in range(3)],
                init=rng.random() < 0.75, msg=msg, log=log)


def enc_driver(d):
    nums = [d['order'] & 0xff, 1 if d['probe'] else 0, d['kind'], len(d['name'])] + list(d['name']) + list(d['ver'])
    nums += [1 if d['init'] else 0, len(d['msg'])] + list(d['msg']) + [len(d['log'])]
    for c in d['log']:
        nums += [len(c)] + list(c)
    return nums


class C16(flow.Spec):
    prop = 'C16'
    props_files = ['theories/Props/C16.v', 'theories/Props/C16_vt.v', 'theories/Props/C16_examples.v', 'theories/Props/C16_ring_trans.v', 'theories/Props/C16_ring_trans_examples.v',
                   'theories/Props/C16_prefix_trans.v', 'theories/Props/C16_prefix_trans_examples.v',
                   'theories/Props/C16_hal_trans.v', 'theories/Props/C16_hal_trans_examples.v', 'theories/Props/C16_sink_trans.v']
    model_targets = ['theories/Hal/Model.vo', 'theories/Kfmt/Ring.vo']
    pkg = 'hal'
    harness = [os.path.join(HH, 'zz_verif_c16_test.go')]
    test = 'TestVerifC16$'
    rule = ('scenarios = log output before (sizes 0,1,2046,2047,2048,5000 or random, random chunking, []byte / string / integer Printf), '
            '0-8 mock drivers (terminals are recording proxies in front of a real tty.VT, consoles are cell grids of 8 geometries from 1x1 to 132x50; any detection orders incl. ties and the four named constants, any registration permutation, probe failing '
            'with p=0.15, init failing with p=0.25, consoles (plain / FontSetter / LogoSetter / both) / terminals / others, 0-3 init log chunks with newlines), a multiboot command line with consoleFont = none / existing / unknown and consoleLogo = none / off / on, log output after; '
            'early logs / ring histories whose Writes (sizes 1,63,64,65,S-2,S-1,S,random) END on the residues S-2,S-1,0,1 before and after the first wrap, followed by short writes before the hand-over; plus random ring-buffer-only histories of Write/Read/drain with wrap-around. non-trivial = at least one driver initialised; '
            'distinct = distinct scenarios')
    assumptions = ['sort.Sort leaves a sorted permutation of the registered drivers: hypothesis of the theorems, checked by the monitor on every observed run '
                   '(probe order non-decreasing, every driver once); the order among ties is taken from a pre-pass through the real sort.Sort',
                   'io.Copy is modelled as: Read into a 32 KiB buffer and Write what was read, until Read returns io.EOF; writers accept every Write completely',
                   'drivers are mock objects whose Probe/DriverInit behaviour is data; for consoles with font/logo support the model records that SetLogo/SetFont is called (which font/logo is chosen is not modelled)',
                   'add-only shims under build tag verif, injected by overlay: device.VerifSetDrivers (resets device.registeredDrivers), kfmt.VerifResetEarlyBuffer (boot state of the early buffer), multiboot.VerifResetCmdLine (forget the memoised command line)']
    partial = ['C16_bringup_terminal_shows (composition with C17) takes "the delivered stream consists of bytes < 256" as a hypothesis '
               '(not derived from well-formed inputs through the formatter model) and is about the terminal model of Tty/Vt.v; that the '
               'console then shows these cells is checked on the real tty.VT by the harness (cell monitor), not proved here (C18 covers terminal/console sync)']

    def overlay(self):
        # also hand the declared capacity (regenerated constant ringBufferSize - 1) to the harness
        try:
            txt = open(os.path.join(vlib.THEORIES, 'Gen', 'Consts_kfmt.v')).read()
            m = re.search(r'kfmt_ringBufferSize : N := (\d+)', txt)
            self.go_extra_env = {'VERIF_C16_CAPACITY': str(int(m.group(1)) - 1)}
        except Exception:
            self.go_extra_env = None
        return {os.path.join(vlib.REPO, 'kernel/device/zz_verif_c16_shim.go'): os.path.join(HD, 'zz_verif_c16_shim.go'),
                os.path.join(vlib.REPO, 'kernel/kfmt/zz_verif_c16_shim.go'): os.path.join(HK, 'zz_verif_c16_shim.go'),
                os.path.join(vlib.REPO, 'kernel/multiboot/zz_verif_c16_shim.go'): os.path.join(vlib.ROOT, 'harness/kernel/multiboot/zz_verif_c16_shim.go')}

    # ---------------------------------------------------------------- sort pre-pass
    def sorted_orders(self, order_lists):
        """ask the real sort.Sort (through the harness) how it orders each registration list"""
        wd = vlib.ensure_dir(os.path.join(vlib.WORK, self.prop))
        cpath = os.path.join(wd, 'cases_sort.txt')
        opath = os.path.join(wd, 'go_sort.out')
        vlib.write_cases(cpath, [[o & 0xff for o in ol] for ol in order_lists])
        rc, out, _ = vlib.run_go(wd, self.module, self.pkg, self.harness, 'TestVerifC16Sort$', cases_path=cpath, out_path=opath,
                                 timeout=300, extra_overlay=self.overlay())
        obs, _, _ = vlib.parse_out(opath)
        res = []
        for i, ol in enumerate(order_lists):
            if rc == 0 and i in obs and len(obs[i]) == len(ol):
                res.append([int(x, 16) for x in obs[i]])
            else:
                res.append(sorted(range(len(ol)), key=lambda k: ol[k]))    # fallback: stable sort
        return res

    def build(self, pre, drivers, perm, post, opts=(0, 0)):
        nums = [opts[0], opts[1]] + enc_logops(pre) + [len(drivers)]
        for d in drivers:
            nums += enc_driver(d)
        nums += [len(perm)] + list(perm)
        nums += enc_logops(post)
        return nums

    def gen_cases(self, rng, tier):
        n = {'quick': 500, 'thorough': 12000, 'search': 1200}[tier]
        raw = []
        for _ in range(n):
            size = rng.choice(LOG_SIZES + LOG_SIZES + [rng.randrange(0, 3000)])
            pre = gen_aligned_logops(rng) if rng.random() < 0.4 else gen_logops(rng, size)
            nd = rng.choice([0, 1, 2, 2, 3, 3, 4, 5, 6, 8])
            drivers = [gen_driver(rng, i) for i in range(nd)]
            r = rng.random()
            if nd >= 2 and r < 0.5:
                # make sure a console and a terminal come up, in either order
                a, b = rng.sample(range(nd), 2)
                drivers[a].update(kind=rng.choice([0, 3, 4, 5, 5]), probe=True, init=True)
                drivers[b].update(kind=1, probe=True, init=True)
            post = gen_logops(rng, rng.choice([0, 1, 10, 100, 2500]))
            # boot command line: consoleFont = none / an existing font / unknown ; consoleLogo = none / off / other
            opts = (rng.choice([0, 0, 1, 2, 3, 4]), rng.choice([0, 0, 1, 2]))
            raw.append((pre, drivers, post, opts))
        perms = self.sorted_orders([[d['order'] for d in ds] for (_, ds, _, _) in raw])
        out = []
        for (pre, drivers, post, opts), perm in zip(raw, perms):
            out.append((self.build(pre, drivers, perm, post, opts), 'scenario'))
        return out

    # ---------------------------------------------------------------- decoding (explain / shrink)
    @staticmethod
    def decode(nums):
        try:
            it = iter(nums)
            nx = lambda: next(it)

            def lst():
                return [nx() for _ in range(nx())]

            def logops():
                ops = []
                for _ in range(nx()):
                    k = nx()
                    ops.append((k, lst()) if k in (0, 1) else (2, nx()))
                return ops
            opts = (nx(), nx())
            pre = logops()
            drivers = []
            for _ in range(nx()):
                o = nx(); o = o - 256 if o & 0x80 else o
                d = dict(order=o, probe=nx() != 0, kind=min(nx(), 5), name=lst(), ver=[nx(), nx(), nx()], init=nx() != 0, msg=lst())
                d['log'] = [lst() for _ in range(nx())]
                drivers.append(d)
            perm = lst()
            post = logops()
            return pre, drivers, perm, post, opts
        except StopIteration:
            return None

    def explain(self, nums):
        dec = self.decode(nums)
        if not dec:
            return 'undecodable'
        pre, drivers, perm, post, opts = dec
        size = lambda ops: sum(len(o[1]) if o[0] != 2 else 9 for o in ops)
        ds = []
        for i, d in enumerate(drivers):
            ds.append('#%d{order %d, %s, %s%s, log %d bytes}' % (
                i, d['order'], ['console', 'tty', 'other', 'console+font', 'console+logo', 'console+font+logo'][d['kind']], 'no hardware' if not d['probe'] else ('init ok' if d['init'] else 'init fails %r' % bytes(d['msg'])),
                '', sum(len(c) for c in d['log'])))
        cl = ' '.join(x for x in (['', 'consoleFont=terminus8x16', 'consoleFont=terminus10x18', 'consoleFont=terminus14x28', 'consoleFont=no-such-font'][min(opts[0], 4)],
                                  ['', 'consoleLogo=off', 'consoleLogo=on'][min(opts[1], 2)]) if x)
        return 'cmdline %r; log %d bytes in %d Printf calls; register %s; probe order %s; then log %d bytes' % (cl, size(pre), len(pre), ' '.join(ds), perm, size(post))

    def nontrivial(self, nums, obs):
        dec = self.decode(nums)
        return bool(dec) and any(d['probe'] and d['init'] for d in dec[1])

    def classify(self, nums, note):
        dec = self.decode(nums)
        if not dec:
            return note
        pre, drivers, perm, post, opts = dec
        ok = [d for d in drivers if d['probe'] and d['init']]
        linked = any(d['kind'] in (0, 3, 4, 5) for d in ok) and any(d['kind'] == 1 for d in ok)
        size = sum(len(o[1]) if o[0] != 2 else 9 for o in pre)
        return '%s,early%s' % ('linked' if linked else 'no-pair', '>cap' if size > 2047 else '<=cap')

    def shrink_candidates(self, nums):
        dec = self.decode(nums)
        if not dec:
            return
        pre, drivers, perm, post, opts = dec
        # drop a driver (stable order of the rest is kept: remove it from the permutation and renumber)
        for j in range(len(drivers)):
            ds = drivers[:j] + drivers[j + 1:]
            pm = [p - 1 if p > j else p for p in perm if p != j]
            yield self.build(pre, ds, pm, post, opts)
        if post:
            yield self.build(pre, drivers, perm, [], opts)
        if opts != (0, 0):
            yield self.build(pre, drivers, perm, post, (0, 0))
            yield self.build(pre, drivers, perm, post, (opts[0], 0))
            yield self.build(pre, drivers, perm, post, (0, opts[1]))
        for j, d in enumerate(drivers):
            if d['log']:
                d2 = dict(d); d2['log'] = []
                yield self.build(pre, drivers[:j] + [d2] + drivers[j + 1:], perm, post, opts)
            if d['kind'] >= 3:
                d2 = dict(d); d2['kind'] = 0
                yield self.build(pre, drivers[:j] + [d2] + drivers[j + 1:], perm, post, opts)
        # early log: merge neighbours into one byte-wise Printf (keeps every write position), then drop / simplify
        for j in range(len(pre) - 1):
            if pre[j][0] != 2 and pre[j + 1][0] != 2:
                yield self.build(pre[:j] + [(1, list(pre[j][1]) + list(pre[j + 1][1]))] + pre[j + 2:], drivers, perm, post, opts)
        for j in range(len(pre)):
            yield self.build(pre[:j] + pre[j + 1:], drivers, perm, post, opts)
        for j in range(len(pre)):
            if pre[j][0] != 2 and any(c != 0x61 for c in pre[j][1]):
                yield self.build(pre[:j] + [(pre[j][0], [0x61] * len(pre[j][1]))] + pre[j + 1:], drivers, perm, post, opts)

    # ---------------------------------------------------------------- ring-buffer-only agreement
    def ring_cases(self, rng, tier):
        n = {'quick': 300, 'thorough': 6000, 'search': 600}[tier]
        out = []
        S = ring_size()
        for it in range(n):
            nums = []
            if it % 2 == 0:
                # writes positioned around the wrap, short writes, then drain (sometimes a second round)
                for rnd in range(rng.choice([1, 1, 2])):
                    fill, c, tail = aligned_chunks(rng, S)
                    for k in fill + [c] + tail:
                        nums += [0, k] + [rng.randrange(256) for _ in range(k)]
                        if rng.random() < 0.03:
                            nums += [1, rng.choice([0, 1, 10, 100])]
                    nums += [2]
                out.append(nums)
                continue
            for _ in range(rng.randrange(1, 12)):
                r = rng.random()
                if r < 0.55:
                    k = rng.choice([0, 1, 2, 5, 100, 1000, 2046, 2047, 2048, 2049, 4095, 4096, 5000, rng.randrange(0, 2100)])
                    nums += [0, k] + [rng.randrange(256) for _ in range(k)]
                elif r < 0.85:
                    nums += [1, rng.choice([0, 1, 2, 10, 1000, 2047, 2048, 4096, rng.randrange(0, 3000)])]
                else:
                    nums += [2]
            out.append(nums)
        return out

    def extra_checks(self, ctx):
        res = []
        wd = ctx['wd']
        rng = random.Random(ctx['seed'] * 7 + 3)
        cases = self.ring_cases(rng, ctx['tier'])
        cpath = os.path.join(wd, 'cases_ring.txt')
        gpath = os.path.join(wd, 'go_ring.out')
        mpath = os.path.join(wd, 'model_ring.out')
        vlib.write_cases(cpath, cases)
        rc, out, _ = vlib.run_go(wd, 'kernel', 'kfmt', [os.path.join(HK, 'zz_verif_c16ring_test.go')], 'TestVerifC16Ring$',
                                 cases_path=cpath, out_path=gpath, timeout=600)
        gobs, mons, info = vlib.parse_out(gpath)
        if rc != 0 and not mons:
            res.append(('c16:ring-harness-died', 'ring harness did not complete: ' + out[-800:], None))
        seen = set()
        for (i, sig, msg) in mons:
            if sig in seen:
                continue
            seen.add(sig)
            res.append((sig, msg, dict(kind='ring-history', ring_case=['%x' % v for v in cases[i]] if i < len(cases) else None,
                                       replay='bin/check C16 --replay <this file>')))
        try:
            vlib.run_model('C16ring', cpath, mpath)
            mobs, _, _ = vlib.parse_out(mpath)
            bad = [i for i in range(len(cases)) if gobs.get(i) != mobs.get(i)]
            if bad and not mons:
                i = bad[0]
                res.append(('c16:ring-model-mismatch', 'ring model and ringBuffer differ on %d of %d histories, first: case %d' % (len(bad), len(cases), i),
                            None))
        except Exception as ex:
            res.append(('c16:ring-model-failed', str(ex)[-600:], None))
        self.ring_info = dict(cases=len(cases), info=info)
        return res


def ring_replay(obj):
    """bin/check C16 --replay <file> for a recorded ring-buffer history (key ring_case)"""
    nums = [int(x, 16) for x in obj['ring_case']]
    wd = vlib.ensure_dir(os.path.join(vlib.WORK, 'C16', 'replay'))
    vlib.regen()
    vlib.coq_build(['theories/Kfmt/Ring.vo'])
    cpath, gpath, mpath = (os.path.join(wd, n) for n in ('cases_ring.txt', 'go_ring.out', 'model_ring.out'))
    vlib.write_cases(cpath, [nums])
    rc, out, _ = vlib.run_go(wd, 'kernel', 'kfmt', [os.path.join(HK, 'zz_verif_c16ring_test.go')], 'TestVerifC16Ring$',
                             cases_path=cpath, out_path=gpath, timeout=300)
    gobs, mons, _ = vlib.parse_out(gpath)
    print('case       :', ' '.join('%x' % v for v in nums)[:600])
    print('impl obs   :', ' '.join(gobs.get(0, ['<none>']))[:400])
    for (i, s, m) in mons:
        print('impl MONITOR-FAIL:', s, m)
    if rc != 0:
        print(out[-2000:])
    try:
        vlib.run_model('C16ring', cpath, mpath)
        mobs, _, _ = vlib.parse_out(mpath)
        print('model obs  :', ' '.join(mobs.get(0, ['<none>']))[:400])
        print('model and implementation', 'AGREE' if mobs.get(0) == gobs.get(0) else 'DIFFER')
    except Exception as ex:
        print('model failed:', str(ex)[-400:])
    return 1 if mons else 0


if __name__ == '__main__':
    if '--replay' in sys.argv:
        try:
            o = json.load(open(sys.argv[sys.argv.index('--replay') + 1]))
            o = o if 'ring_case' in o else (o.get('detail') or {})
        except Exception:
            o = {}
        if o.get('ring_case'):
            sys.exit(ring_replay(o))
    sys.exit(flow.standard_check(C16(), sys.argv[1:]))
