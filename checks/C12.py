import os, sys
sys.path.insert(0, os.path.join(os.path.dirname(os.path.abspath(__file__)), '..', 'lib'))
sys.path.insert(0, os.path.dirname(os.path.abspath(__file__)))
import vlib, flow
import amlgen

H = os.path.join(vlib.ROOT, 'harness/kernel/device/acpi/aml')
import gen_trans
gen_trans.register('aml_reader.json')   # Go -> Gallina translation of amlStreamReader (Gen/Trans_aml_reader.v, used by Aml/StreamTrans.v)
vlib.register_const_dump('kernel', 'device/acpi/aml', os.path.join(H, 'zz_verif_consts_test.go'))
# the object-pool model Aml/Tree.v (C13) needs its own generated constants
vlib.register_const_dump('kernel', 'device/acpi/aml', os.path.join(H, 'zz_verif_consts_tree_test.go'),
                         test='TestVerifDumpConstsTree', tag='aml_tree')

FN = ['parsePkgLength', 'parseNumConstant', 'parseString', 'parseNameString', 'nextOpcode', 'peekNextOpcode',
      'ReadByte', 'UnreadByte', 'DataPtr', 'LastByte']


class C12(flow.Spec):
    prop = 'C12'
    props_files = ['theories/Props/C12.v', 'theories/Props/C12_examples.v', 'theories/Props/C12_reader_trans.v']
    model_targets = ['theories/Aml/RunC12.vo', 'theories/Aml/ParserProofsTop.vo', 'theories/Aml/ParserTotalTop.vo', 'theories/Aml/ParserTotalCalls.vo', 'theories/Aml/ParserTotalReloc.vo', 'theories/Aml/ParserTotalMerge.vo', 'theories/Aml/ParserTotalResolve.vo', 'theories/Aml/ParserTotalDeferW.vo', 'theories/Aml/ParserTotalDeferV.vo', 'theories/Aml/ParserTotalChain.vo', 'theories/Aml/ParserTotalPass2.vo', 'theories/Aml/ParserTotalPass1.vo', 'theories/Aml/ParserTotalLoad.vo']
    pkg = 'device/acpi/aml'
    harness = [os.path.join(H, 'zz_verif_c12_test.go'), os.path.join(H, 'zz_verif_amlcommon_test.go')]
    test = 'TestVerifC12$'
    go_timeout = 900

    rule = ('lexer cases: every lexer function on structured tokens (all PkgLength widths, all name forms, segment counts '
            '0/1/2/63/64/65/255, strings with and without terminator) with the package end placed before/inside/after the token; '
            'parse cases: arbitrary bytes, opcode soup, and truncations / bit flips / byte substitutions / length-field '
            'corruptions / splices of grammar-generated tables and of the repository test tables (DSDT, SSDT, parser-testsuite); '
            'field lists (Field / IndexField / BankField) in which every field-element kind is repeated 2-4 times with boundary '
            'PkgLengths (0, 1, exact, exact+-1, overlong; all four encodings) incl. Connection(Buffer) with zero / one / short / exact / '
            'overlong lengths for every size operand (none, byte, word, dword) - a deterministic grid in every run plus random ones; '
            'objects with the names PrettyPrint treats specially (_HID -> EISA id; also _CID, _ADR, _UID, ...) with values of every '
            'encoding (zero/one/ones, byte, word, dword, qword, string, buffer, package), every 5-bit EISA letter code in every position, '
            'always followed by PrettyPrint in the child process; '
            'non-trivial = parse case with at least 4 bytes or lexer case with a non-empty token; distinct = distinct inputs')
    assumptions = ['translator gen/gotrans + Lib/GoOps.v (the meaning given to Go\'s operators and slice reads) for the stream reader tie (C12_reader_model_is_translation)',
                   'kfmt.Fprintf of diagnostics to the error writer is not modelled (the harness passes a discarding writer)',
                   'header.Length equals the length of the mapped table (validated by the ACPI table loader, property C14)',
                   'tables are smaller than 2^32 - 2048 bytes (payload_ok / no_wrap: within 1 KiB of 4 GiB the uint32 end-offset computation of '
                   'parseNameString can wrap around)',
                   'the object pool is the list-based model of Aml/Tree.v (C13); model runs of the 8.6 KB DSDT are quadratic, so most of its '
                   'mutations are checked by the monitors only (case kind 2)']
    partial = ['C12_parse_total_partial_slices / _reader: of the full statement C12_full_parse_total (kept in Props/C12.v) the conjunct '
               '"every []byte of the pool lies inside its table" and the reader invariant are PROVED for all passes of ParseAML and all inputs',
               'C12_parse_total_partial_nopanic_first_pass / _R_first_pass: for the FIRST PASS (scopeEnter(0) + parseObjectList with '
               'parseNextObject, parseObjectArgs, parseArgs, parseArg, parseNamePathOrMethodCall, parseSimpleArg, parseTarget, '
               'parseFieldElements, parseByteList, scope / pkgEnd stacks; skip mode) it is PROVED for every table image, every pool that '
               'satisfies C13\'s R with a live root, valid opcode-table indexes and room for 4 objects per byte, and every fuel, that the '
               'outcome is never Panic and that the returned pool again satisfies R (built on C13\'s append_R / appendAfter_R / newObject_R); '
               'for parseDeferredBlocks see the block theorem below',
               'C12_parse_total_partial_fuel_first_pass: under the same hypotheses the first pass run with ParseAML\'s own fuel '
               '(parse_fuel = 64 + 8 * table length) RETURNS (no Panic, no OutOfFuel) - incl. the outer loop of parseObjectList: the scope '
               'stack is never deeper than the pkgEnd stack (table fact: a TermList argument is preceded by a PkgLen argument in the row of '
               'every opcode nextOpcode accepts), every push is paid for by a consumed byte; C12_parse_total_partial_fuel_object: the same '
               'for one object / the inner loop from any state satisfying the invariant, 8 units of fuel per byte left + 3; NOT proved: '
               'the fuel of the later passes',
               'C12_parse_total_partial_nopanic_connectNamedObjArgs / _nopanic_first_pass_connectNamedObjArgs: connectNamedObjArgs (with '
               'setNameFrom, attachSiblingsAsArgs) never panics from any state satisfying R + valid opcode-table indexes + slices inside, '
               'and re-establishes all three; chained with the first pass from the initial state of any table; its fuel is NOT analysed',
               'C12_parse_total_partial_nopanic_relocateNamedObjects, _nopanic_resolveMethodCalls and _nopanic_connectNonNamedObjArgs: these passes never panic and '
               're-establish R / valid indexes / slices inside from ANY state that satisfies them (resolveMethodCalls additionally needs - '
               'and keeps - "every pOpIntNamePathOrMethodCall object carries a []byte value", which is not yet derived from the earlier '
               'passes; relocateNamedObjects needs the root at slot 0 to be a ScopeBlock); their fuel is NOT analysed; relocateNamedObjects is chained with '
               'mergeScopeDirectives (_resolve_loop) but not with passes 1-2 (the directive-shape hypothesis is not derived from them); resolveMethodCalls / '
               'connectNonNamedObjArgs are chained with parseDeferredBlocks before them in _tail (below)',
               'C12_parse_total_partial_nopanic_mergeScopeDirectives: mergeScopeDirectives (Find, scopeOf, moveContents, the three frees, the walk '
               'over the moved objects) never panics from ANY live object of ANY state that satisfies R / valid indexes / slices inside, has a '
               'parentless live ScopeBlock root at slot 0, and in which every Scope directive of the current table has the shape the first pass '
               'gives it (name not a name segment; opcode-table row without the Named flag; children = a childless object carrying the path as []byte - four-byte paths start with a name '
               'character, \\ or ^ - and a ScopeBlock); all of these hold again afterwards and only objects below the start object are freed.  '
               'Key lemma: a lookup started at the directive\'s parent never ends inside the directive\'s subtree, so every append is legal.  '
               'The shape hypothesis is NOT yet derived from passes 1-2 (checked on concrete runs only); fuel is NOT analysed',
               'C12_parse_total_partial_nopanic_resolve_loop: the loop of ParseAML that alternates mergeScopeDirectives(0) and relocateNamedObjects(0) '
               'never panics from any state with the hypotheses of the mergeScopeDirectives theorem and re-establishes them (a relocation keeps '
               'the shape of the Scope directives); so passes 3a/3b are chained with each other, NOT yet with passes 1-2 and 4-6',
               'C12_parse_total_partial_nopanic_deferred_block: the work parseDeferredBlocks does on ONE deferred object (mode := parseModeAllBlocks, '
               'parseObjectArgs with all nine mutually recursive functions in that mode - in-line term lists, names resolved with Find while '
               'parsing, the argument count of a called Method read from the Method object, strict term arguments attached and detached, '
               'popPkgEnd - and the final popping of the pkgEnd stack) never panics from ANY state with R, valid indexes, the reader / whole-parser '
               'invariant, live scopes, room for 8 objects per table byte, and every Method typed (TM NoX: two leading children without deferred / '
               'field-list rows - the first a CHILDLESS pOpIntNamePath object with the name-path row, the second a pOpBytePrefix object with its row '
               'and a number); R, the invariants and the Method typing hold again, also for the Methods the block creates, the pool grows by <= 8*len+3.  '
               'Fuel is NOT analysed',
               'C12_parse_total_partial_nopanic_deferred_walk: the WHOLE of parseDeferredBlocks - the depth-first walk from any live object (first / '
               'next links, `next` re-read after each child, no descent below a parsed deferred object) that parses every pending deferred object '
               '(Defer row, handle of the current table: Buffer, While, BankField) as in the block theorem - never panics and re-establishes R, the '
               'invariants and the Method typing, provided the pool has room for n blocks (8*len+3 objects each) where the hypothesis dcnt counts the n '
               'pending objects the walk will meet (a pending BankField must have a parent).  Key lemmas: a block changes no payload field but values; '
               'the child list of an object that is not itself pending changes only by the NamedFields a pending BankField inserts behind itself into the '
               'list being walked, and those are new, childless and carry the NamedField row (characterisation threaded from parseFieldElements through '
               'parseArg / parseArgs / parseObjectArgs), so the walk steps over them; no parser function changes the table handle (partial-correctness '
               'judgement hsame, ParserTotalDeferH.v); the typing hypothesis of resolveMethodCalls is preserved (in parseModeAllBlocks no parser function creates a '
               'pOpIntNamePathOrMethodCall object - nextOpcode never accepts that opcode - judgement nnp, ParserTotalDeferM.v).  NOT proved: dcnt and the Method typing are '
               'not derived from the earlier passes; fuel is NOT analysed',
               'C12_parse_total_partial_nopanic_tail: the LAST THREE passes chained exactly as in parseAML_body (parse_tail; lemma parseAML_body_tail): '
               'parseDeferredBlocks(0), resolveMethodCalls(0), connectNonNamedObjArgs(0) never panic from any state with the hypotheses of the walk theorem at the root, a '
               'parentless root and "every pOpIntNamePathOrMethodCall object carries a []byte"; R, valid indexes and slices-inside hold when the tail returns.  '
               'The hypotheses are NOT derived from passes 1-3; fuel is NOT analysed',
               'C12_parse_total_partial_typed_head / _typed_deferred: the typing hypothesis of resolveMethodCalls ("every pOpIntNamePathOrMethodCall object '
               'carries a []byte") is DERIVED: the first four passes run as in parseAML_body (parse_head) and parseDeferredBlocks preserve it from any '
               'state whenever they return (partial-correctness judgement tyk with a tracked fresh object, Aml/ParserTotalTyped.v), so it holds at '
               'resolveMethodCalls whenever it holds of the pool ParseAML starts with',
               'C12_parse_total_partial_nopanic_rest: ALL passes after connectNamedObjArgs chained exactly as in parseAML_body (parse_rest = resolve loop, '
               'then parse_tail; lemma parseAML_body_rest) never panic from any state with R, valid indexes, reader / whole-parser invariants, empty scope '
               'stack, live parentless ScopeBlock root, the Scope-directive shape, TM3 (the CONCRETE Method typing: first child a childless pOpIntNamePath object with its row, second a pOpBytePrefix object with its row and a number; it implies TM2 = plain leading children), PEND (pending deferred '
               'objects have a parent and are no name-path-or-call objects), the []byte typing, and the memory bound lp + lp*(8*len+3) + 4 <= 2^32-1.  '
               'C12_parse_total_partial_resolve_loop_keeps: the resolve loop preserves TM2, PEND and the typing (abstract invariant threaded through '
               'ParserTotalMerge / ParserTotalResolve, instantiated in ParserTotalShape.v).  C12_parse_total_partial_nopanic_tail_pend: the inductive count '
               'dcnt of the walk theorem is replaced by PEND - the count exists (forest induction by depth) and is bounded by the pool size '
               '(ParserTotalChain.v).  Fuel is NOT analysed',
               'C12_parse_total_partial_nopanic_rest2: ALL passes after the FIRST one chained exactly as in parseAML_body (parse_rest2 = '
               'connectNamedObjArgs(0), counter reset, parse_rest; lemma parseAML_body_rest2) never panic from any state with R, valid indexes, reader / '
               'whole-parser invariants, empty scope stack, []byte typing, the memory bound and SH3 (root facts, Scope-directive shape, TM2, PEND, TM3): '
               'connectNamedObjArgs preserves SH3 (abstract invariant threaded through the pass, ParserTotalConn2.v / ParserTotalPass2.v)',
               'C12_parse_total_partial_first_pass_shape: the FIRST PASS from the initial state of any table over any pool with R, valid indexes, live '
               'parentless ScopeBlock root, TM2 and no object carrying the new handle never panics and on success leaves an empty scope '
               'stack and LI (root facts, TM2 for all Methods incl. the new ones, PEND, the structure AND the names of the Scope directives - zero names, newObject clears the name of a reused slot -, path objects of the directives are new) '
               '- frame version of the first pass (ParserTotalFirst2.v), judgement bn (ParserTotalBenign.v), invariant step (ParserTotalPass1.v).  '
               'C12_parse_total_namestring_good: a four-byte []byte returned by parseNameString starts with a name character, \\ or ^ '
               '(ParserTotalNameLex.v); the judgement gpk (ParserTotalGoodPath.v, a small pre/post logic over the tree) carries "every name-path '
               'object holds a good path" through the first pass.  '
               'C12_parse_total_never_panics / C12_parse_total_parseAML_never_panics: END TO END and UNCONDITIONAL - parseAML_body (all six passes, '
               'ANY fuel) resp. parseAML from init_state of any table over any pool NEVER panics and re-establishes R / valid indexes / slices-inside; '
               'the hypotheses speak only about the pool before the call and about sizes: R, valid indexes, live parentless ScopeBlock root, TM3 (concrete Method typing), '
               '[]byte typing, '
               'slices inside the earlier tables, fresh handle, image of at most 2^28 bytes, and an explicit '
               'quadratic memory bound.  Fuel exhaustion is NOT excluded (fuel is not analysed)',
               'C12_parse_total_first_table_never_panics / C12_parse_total_load_first_table_never_panics: the FIRST TABLE with no abstract hypothesis: '
               'over the pool CreateDefaultScopes builds from the empty tree, ParseAML of the image of ANY payload of at most 10000 bytes never panics '
               '(load [payload] never has outcome class 2); the size bound is what the quadratic memory hypothesis allows (ParserTotalLoad.v).  '
               'C12_parse_total_post: when ParseAML returns SUCCESS every hypothesis about the pool is RE-ESTABLISHED - live parentless ScopeBlock in slot 0, '
               '[]byte typing, Method typing TM3 (an abstract tree invariant K is threaded through all passes: sections Inv of ParserTotalNonNamed.v / '
               'ParserTotalCalls.v with hypotheses Kmove / Kupd, deferred_tail_post, rest_post, rest2_post, parseAML_body_post; instance K = "slot 0 holds '
               'a ScopeBlock and TM3": first pass LI3, connectNamedObjArgs SH3, resolve loop KS3, last two passes TM3_move / TM3_upd; for '
               'parseDeferredBlocks the block proof itself now carries the concrete typing - mtyped of ParserTotalDefer.v includes the rows and the '
               'childlessness of the name path, the specifications of parseArg / parseStrictTermArg / parseNextObject / parseNamePathOrMethodCall / the '
               'term-list and call-argument loops have the precondition "the object whose arguments are parsed / on top of the scope stack does not '
               'carry the name-path row", discharged at every call site: a new ScopeBlock, a new MethodCall object, an object whose row has arguments).  '
               'C12_parse_total_handles: no function of any pass changes the handle of a slot or of the parser, new objects get the handle of the table '
               '(judgement hb, ParserTotalHandle.v).  '
               'C12_parse_total_parseAML_keeps_invariant: a successful ParseAML re-establishes the loop invariant INV (= the pool hypotheses of the '
               'end-to-end theorem + "every handle is below the next handle") for the next handle.  '
               'C12_parse_total_load_sequence_never_panics / C12_parse_total_load_never_panics: UNCONDITIONAL - loading ANY NUMBER of tables (load: '
               'CreateDefaultScopes, then the tables with handles 1, 2, ...; the loop stops at the first table that fails to parse) never has outcome '
               'class 2 (panic); the ONLY hypothesis about the payloads is the size condition SEQ: for each table in turn, bytes below 256, image of at '
               'most 2^28 bytes and the quadratic memory bound over the pool at that moment.  Non-vacuity: a concrete two-table load '
               '(C12_load_sequence_nonvacuous).  Fuel exhaustion (class 3) is NOT excluded.  '
               'C12_parse_total_partial_resolveMethodCalls_keeps_methods / _connectNonNamedObjArgs_keeps_methods / C12_parse_total_methods_TM3_TM2: '
               'TM3 implies TM2 and is preserved by each of the last two passes taken alone (ParserTotalMeth.v; non-vacuity on a pool that holds a '
               'Method).  TM2 as stated is not an invariant of those passes in the abstract (a Method whose first child is a name-path-or-call object '
               'or has children satisfies TM2, and the pass may then move the flags argument away) - that is why the loop invariant is TM3',
               'NEVER A HANG for the tree walks - C12_parse_total_partial_fuel_connectNamedObjArgs (pass 2), _fuel_resolveMethodCalls (pass 5), '
               '_fuel_connectNonNamedObjArgs (pass 6), _fuel_tail2 (5 and 6 chained as in ParseAML): run with at least TWICE AS MUCH FUEL AS THE '
               'POOL HAS SLOTS these passes RETURN - neither Panic nor OutOfFuel - from any state with R, valid indexes, slices inside (and the '
               '[]byte typing, live parentless root).  Measure: the walk from an object needs <= 2 * size of its subtree (+ the siblings that '
               'follow it, which attachSiblingsAsArgs(useParent) may take); the loop over the first children of an object <= 2 * size of the '
               'subtrees still to visit + children done + following siblings + 1.  The specifications of ParserTotalConn2 / NonNamed / Calls now '
               'say "out of fuel only if the fuel is below the measure" (wp with the measure as the OutOfFuel case), sizes exist and are bounded '
               'by the pool (ParserTotalFuel.v: duplicate-free list of live descendants).  C12_parse_total_fuel_enough: ParseAML\'s fuel '
               'parse_fuel(len + pool0) = 64 + 8*(len + pool0) >= 2 * pool whenever pool <= pool0 + 4*len + 2 (the first-pass bound).  '
               'C12_parse_total_partial_fuel_insideSelf / _fuel_scopeOf: the inner loops of the resolve passes run on their own fuel poolFuel = pool '
               'size + 2 and it suffices (ancestor climb bounded by the depth, child scan by the number of children; moveContents: lemma move_all).  '
               'NOT proved: the fuel of the walks mergeScopeDirectives / relocateNamedObjects and of the outer resolve loop (a moved object can be '
               'visited a second time below its new scope: the walk needs up to about 3 * pool, which the PROVEN bound of 4 objects per byte does not '
               'put below parse_fuel; the outer loop needs "an object is relocated at most once" as a potential), and of parseDeferredBlocks (pass 4), '
               'hence no combined "ParseAML returns" theorem - in the end-to-end theorems OutOfFuel is still an allowed outcome',
               'the unproved parts of C12_full_parse_total (no Panic / OutOfFuel and R for the later passes, outcome class of load) are covered '
               'by the correspondence of the extracted model (explicit Panic / OutOfFuel outcomes, all passes modelled) with the real parser '
               'and by the harness monitors (outcome class, watchdog, independent link checker, PrettyPrint)',
               'layers 1-2 are complete: C12_reader_safe and C12_lex_slices_inside are full (totality, no read at or beyond pkgEnd, slices inside)',
               'modelled passes (Aml/Parser.v): init, parseObjectList / parseNextObject / parseObjectArgs / parseArgs / parseArg / '
               'parseNamePathOrMethodCall / parseStrictTermArg / parseSimpleArg / parseTarget / parseFieldElements / parseByteList, '
               'connectNamedObjArgs, mergeScopeDirectives + relocateNamedObjects loop (maxResolvePasses), parseDeferredBlocks, resolveMethodCalls, '
               'connectNonNamedObjArg(s), attachSiblingsAsArgs - i.e. all of ParseAML']

    def gen_cases(self, rng, tier):
        n_lex = {'quick': 1400, 'thorough': 20000, 'search': 3000}[tier]
        n_parse = {'quick': 1600, 'thorough': 30000, 'search': 5000}[tier]
        out = []
        for _ in range(n_lex):
            out.append(amlgen.lex_case(rng))
        out += amlgen.parse_cases(rng, n_parse, tier)
        return out

    def explain(self, nums):
        if not nums:
            return ''
        if nums[0] == 0 and len(nums) >= 5:
            return '%s pkgEnd=%d offset=%d arg=%d data=%s' % (FN[nums[1]] if nums[1] < len(FN) else nums[1], nums[2], nums[3], nums[4],
                                                            ' '.join('%02x' % b for b in nums[5:5 + 64]))
        if nums[0] in (1, 2):
            tabs = amlgen.split_tables(nums)
            return 'ParseAML of %d table(s): %s' % (len(tabs), ' | '.join(' '.join('%02x' % b for b in t[:96]) + (' ...(%d bytes)' % len(t) if len(t) > 96 else '') for t in tabs))
        return ''

    def nontrivial(self, nums, obs):
        return len(nums) > 8

    def classify(self, nums, note):
        return note.split(':')[0] if note else 'case'

    def shrink_candidates(self, nums):
        if not nums or nums[0] not in (1, 2):
            # lexer case: drop trailing bytes
            if len(nums) > 6:
                yield nums[:-1]
                yield nums[:5] + nums[6:]
            return
        tabs = amlgen.split_tables(nums)
        # drop a whole table, then chunks / single bytes of each table
        if len(tabs) > 1:
            for i in range(len(tabs)):
                yield amlgen.join_tables(tabs[:i] + tabs[i + 1:])
        for ti, t in enumerate(tabs):
            n = len(t)
            step = max(n // 2, 1)
            while step >= 1:
                for i in range(0, n, step):
                    t2 = t[:i] + t[i + step:]
                    yield amlgen.join_tables(tabs[:ti] + [t2] + tabs[ti + 1:])
                if step == 1:
                    break
                step //= 2


if __name__ == '__main__':
    sys.exit(flow.standard_check(C12(), sys.argv[1:]))
