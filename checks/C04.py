import os, sys
sys.path.insert(0, os.path.join(os.path.dirname(os.path.abspath(__file__)), '..', 'lib'))
sys.path.insert(0, os.path.dirname(os.path.abspath(__file__)))
import vlib, flow, gen_trans
import pt_common as pc

gen_trans.register('mm_vmm.json')   # Go -> Gallina translation of the pageTableEntry / Frame / Page helpers (Gen/Trans_mm_vmm.v, used by Vmm/PtTrans.v)
gen_trans.register('vmm_map.json')  # same mode: walk (function parameter as seam), Map / Unmap / pteForAddress (closures passed to walk as gvisit bodies), Translate, MapTemporary (Gen/Trans_vmm_map.v, Vmm/MapTrans.v)
gen_trans.register('vmm_pdt.json')  # "memory as state" mode: PageDirectoryTable.{Init,Map,Unmap,Activate} with raw-pointer loads/stores and stateful seams (Gen/Trans_vmm_pdt.v, Vmm/PdtTrans.v)
from pt_common import LO, P, RW, M64, M36, TEMP_PAGE


class C04(flow.Spec):
    prop = 'C04'
    props_files = ['theories/Props/C04.v', 'theories/Props/C04_examples.v',
                   'theories/Props/C04_pdt_trans.v', 'theories/Props/C04_pdt_trans_examples.v',
                   'theories/Props/C04_map_trans.v', 'theories/Props/C04_map_trans_examples.v']
    model_targets = ['theories/Vmm/Pt.vo']
    pkg = 'mm/vmm'
    harness = pc.HARNESS + [os.path.join(pc.H, 'zz_verif_c04_test.go')]
    test = 'TestVerifC04$'
    rule = ('histories of Map / Unmap / Translate / MapTemporary / PageDirectoryTable.{Init,Map,Unmap,Activate} / MapRegion / '
            'IdentityMapRegion over pages that share or do not share each upper table level, both canonical halves, the temp page; '
            'frames incl. 0, 2^40-1 and out-of-domain values; flag sets incl. NX/CoW/available bits; allocator failure at the k-th call; '
            'some histories with poked (huge / non-present) upper-level entries (agreement only); '
            'non-trivial = at least one successful mapping and three ops; distinct = distinct op lists')
    assumptions = [
        "physical memory is simulated by the harness (host pages at a fixed address; frame = host address >> 12); the MMU is the harness's 4-level software walk with the x86-64 constants hard-coded; the model's [mmu] uses the same architecture constants as literals and the Go constants from Gen.Consts_mm_vmm (C04_constants ties them)",
        'theorem domain: pages outside top-level slot 511 (the recursive window itself), frames < 2^40, flags outside bits 12-51 (outside it SetFrame ors frame bits into other fields: agreement only, example C04_frame_domain_needed), frames handed out by the allocator are fresh and distinct (what C01 guarantees), page tables do not alias (ghost ownership map in Inv)',
        "TLB coherence of the recursive window while an inactive table is patched into slot 511 is outside the model; PageDirectoryTable.Map/Unmap dereference the active root's physical address (identity-mapped in the kernel during boot), modelled as a physical access",
        'C04_histories covers Map/Unmap/Translate on the active space with the zero-frame guard unarmed; C04_histories_full covers the whole mapping interface on any number of address spaces (page faults: C06; setupPDTForKernel: C05)',
        'translator gen/gotrans + Lib/GoOps.v for the translation tie of the pageTableEntry / Frame / Page helpers (C04_pte_helpers_are_translation)',
        "translation tie of walk / Map / Unmap / Translate / MapTemporary (C04_walk_is_translation, C04_map_is_translation, ...): as for the pdt.go tie below, all accesses virtual; walk's contract (closure called on PtAccess.walk_items va in order until false) is itself a theorem about the translation of walk; Map / MapTemporary under map_stable (every entry the walk overwrites is still found at its address afterwards: decidable sufficient condition map_stable_b = the resolving hardware walk does not read the entry; fails for the page of the recursive window itself), the trace of seam calls is not part of these statements (M.wmem)",
        "translation tie of PageDirectoryTable.{Init,Map,Unmap,Activate} (C04_pdt_*_is_translation): gen/gotrans's memory mode (ext_mem.go) + Vmm/PtAccess.v (what a raw-pointer dereference means: Init = virtual, resolved per access by the MMU model; Map/Unmap = physical identity window - a per-function attribute of gen/gotrans/vmm_pdt.json) + the oracles of Vmm/PdtTrans.v for the seams (mapFn = the model's map_page, kernel.Memset = the model's page-zeroing step, ...); Init under init_stable (the initialised frame is not a live table of the temporary page's path), Map/Unmap for 64-bit memory words",
        'huge-page and poked (fabricated) upper-level entries: agreement only (errNoHugePageSupport paths are exercised by the correspondence, not by the monitor)']
    partial = []

    def gen_cases(self, rng, tier):
        n = {'quick': 1000, 'thorough': 20000, 'search': 3000}[tier]
        return [self.gen_one(rng) for _ in range(n)]

    def gen_one(self, rng):
        cnt = rng.choice([24, 40, 64])
        mode = rng.random()
        weird = mode < 0.12
        nops = rng.randrange(3, 22)
        pages = pc.pick_pages(rng, rng.randrange(2, 7))
        # frames: lo = boot root; oracle frames ascending from lo+1; pdt roots from the top of the arena
        use_pdt = rng.random() < 0.45
        n_or = rng.choice([0, 3, 6, 12, cnt - 8, cnt - 8, cnt - 8, cnt - 8, cnt - 8])
        if use_pdt:
            n_or = max(n_or, 6)
        oracle = [LO + 1 + i for i in range(min(n_or, cnt - 8))]
        fm = rng.random()
        first_fail = 3 if use_pdt else 0
        if fm < 0.28 and len(oracle) > first_fail:
            oracle[rng.randrange(first_fail, len(oracle))] = 0          # failure at the k-th call
        elif fm < 0.36 and len(oracle) > first_fail:
            oracle = oracle[:rng.randrange(first_fail, len(oracle))]     # exhausted
        if weird and oracle and rng.random() < 0.3:
            oracle[rng.randrange(len(oracle))] = rng.choice([LO, oracle[0], LO + cnt + 3, 5])   # not fresh / not backed
        top = LO + cnt - 1
        roots = [top - i for i in range(4)]
        slots = {}
        ops = []
        if use_pdt:
            for k in range(rng.choice([1, 1, 2])):
                ops.append([4, k, roots[k]])
                slots[k] = roots[k]
        note = 'weird' if weird else 'hist'

        def frame():
            r = rng.random()
            if r < 0.55:
                return rng.randrange(1, 1 << 36)
            if r < 0.7:
                return rng.choice([0, 1, (1 << 40) - 1, (1 << 40) - 2])
            if r < 0.85:
                return LO + rng.randrange(cnt)
            if weird or r < 0.9:
                return rng.choice([1 << 40, (1 << 52) - 1, M64, 1 << 63, rng.randrange(1 << 64)])
            return rng.randrange(1, 1 << 40)

        def flags():
            if rng.random() < 0.3:
                return pc.any_leaf_flags(rng, present=rng.random() < 0.85)
            f = rng.choice(pc.FLAG_SETS)
            if rng.random() < 0.7:
                f |= P
            if weird and rng.random() < 0.2:
                f |= rng.choice([1 << 12, 1 << 30, 1 << 51, 0xfffff000])
            return f

        if rng.random() < 0.4:
            # the recursive entry of the boot root carries bits the CPU / an OS leaves there (Accessed, ...)
            ops.append([18, 0, 3, pc.extra_mask(rng)])
        for _ in range(nops):
            r = rng.random()
            pg = rng.choice(pages)
            if rng.random() < 0.04:
                ops.append([18, pg, rng.choice([0, 1, 2, 3]), pc.extra_mask(rng)])
            if r < 0.42:
                ops.append([0, pg, frame(), flags()])
            elif r < 0.55:
                ops.append([1, pg])
            elif r < 0.63:
                ops.append([2, ((pg << 12) & M64) | rng.choice([0, 1, 0xfff, rng.randrange(4096)])])
            elif r < 0.66:
                ops.append([3, rng.choice([frame(), LO + rng.randrange(cnt)])])
            elif r < 0.73:
                if not use_pdt and not weird:
                    continue
                free = [j for j in range(4) if j not in slots]
                if free and rng.random() < 0.9:
                    k = free[0]
                    f = roots[k]
                else:
                    k = rng.randrange(4)
                    f = rng.choice([roots[k], LO, frame()])
                ops.append([4, k, f])
                slots[k] = f
            elif r < 0.84:
                if not slots and not weird:
                    continue
                k = rng.choice(list(slots) or [0]) if rng.random() < 0.97 else rng.randrange(4)
                ops.append([5, k, pg, frame(), flags()])
            elif r < 0.88:
                if not slots:
                    continue
                k = rng.choice(list(slots))
                ops.append([6, k, pg])
            elif r < 0.90:
                if not slots:
                    continue
                k = rng.choice(list(slots)) if rng.random() < 0.95 else rng.randrange(4)
                ops.append([7, k])
                if rng.random() < 0.5:
                    ops.append([18, 0, 3, pc.extra_mask(rng)])
            elif r < 0.94:
                size = rng.choice([0, 1, 4095, 4096, 4097, 3 * 4096, rng.randrange(1, 6 * 4096), M64, M64 - 4094, M64 - 4095])
                ops.append([8, frame(), size, flags()])
            elif r < (0.955 if weird else 0.97):
                size = rng.choice([0, 1, 4096, 4097, rng.randrange(1, 4 * 4096), M64, M64 - 100])
                f = rng.choice([rng.randrange(1, 1 << 20), rng.choice(pages) & M36, 0])
                ops.append([9, f, size, flags()])
                for i in range(min((size + 4095) >> 12, 6) if size < (1 << 32) else 0):
                    pages.append(f + i)
            elif weird and rng.random() < 0.6:
                # flip the huge / present bit of an existing entry on the page's path, then use the page
                ops.append([17, pg, rng.randrange(3), rng.choice([pc.HUGE, pc.HUGE, P, pc.HUGE | P])])
                ops.append(rng.choice([[0, pg, frame(), flags() | P], [1, pg], [2, (pg << 12) & M64], [0, (pg + 1) & M64, frame(), P | RW]]))
            elif weird:
                # fabricate an upper-level entry: huge bit, cleared present bit, garbage
                lvl = rng.randrange(3)
                t = rng.choice([LO] + [x for x in oracle if x])
                v = rng.choice([P | RW | pc.HUGE | (rng.randrange(1, 1 << 30) << 12), 0, (LO + rng.randrange(cnt)) << 12 | P | RW,
                                (LO + rng.randrange(cnt)) << 12 | P | RW | pc.HUGE])
                ops.append([10, t, pc.idx(pg, lvl), v])
            else:
                ops.append([0, pg, frame(), flags() | P])
        last0 = 0
        if rng.random() < 0.2:
            last0 = rng.choice([pc.TEMP - 4096 * rng.randrange(0, 600), 1 << 30, 4096 * rng.randrange(1, 1 << 20),
                                # just above a page-table boundary: the next region straddles two last-level tables
                                pc.TEMP - 4096 * (511 - rng.randrange(0, 4)), pc.TEMP - 4096 * (511 - rng.randrange(0, 4)),
                                ((rng.randrange(1, 1 << 20) << 9) + rng.randrange(1, 5)) << 12])
        region_pages = []
        cur = (last0 or pc.TEMP) >> 12
        for o in ops:
            if o[0] == 8 and o[2] < (1 << 20):
                k = (o[2] + 4095) >> 12
                region_pages += [(cur - k + i) | (0xffff << 36 if (cur - k) >> 35 else 0) for i in range(k)]
                cur -= k
        probes = pc.neighbours(pages[:10] + region_pages[:6], rng)
        return (pc.build(cnt, last0, oracle, probes, ops), note)

    def explain(self, nums):
        return pc.explain(nums)

    def nontrivial(self, nums, obs):
        r = pc.parse(nums)
        return bool(r) and len(r[4]) >= 3 and len(obs) > 10 and obs[-1] != 'ee'

    def shrink_candidates(self, nums):
        return pc.shrink_candidates(nums)


if __name__ == '__main__':
    sys.exit(flow.standard_check(C04(), sys.argv[1:]))
